"""C03 (model half) — pycoin's script VM and spend checker vs the extracted Gallina model coq/Model/VMpy.v.

The coordinator's harness/c03.py imports this module:
    from c03_model import model_cases, DRIVER, ORACLES, INTERACTIVE, nontrivial, search_from_disagreements
Correspondence at four levels (driver ml_src/driver_c03model.ml, same argument conventions):
    handler <opcode> <flags> <sv> <ctx> <script> <pc> <stack> <alt> <t> <f> <op_count> <bch>   one INSTRUCTION_LOOKUP[op](vm) call
    step    <flags> <sv> <ctx> <script> <pc> <stack> <alt> <t> <f> <op_count> <bch>            one vm.eval_instruction()
    eval    <flags> <sv> <ctx> <script> <stack>                  BitcoinVM(script, ctx, sighash_f, flags, stack).eval_script()
    verify  <flags> <ctx> <scriptSig> <scriptPubKey> <witness>   Tx.check_solution(idx, flags) on a synthetic transaction
Outcome mapping on both sides: returned value -> canonical form, ScriptError -> !E_SCRIPT, any other exception ->
!E_<class> (a crash: the model predicts it only where VMpy.v has an explicit VCrash).
<ctx> = 21 bytes: version(4 LE) lock_time(4) sequence(4) amount(8) shape(1) — the synthetic transaction is a pure
function of it (synth()), so the ?checksig oracle question, which carries the blob, can be answered without any
other state.  The oracle answer is what pycoin's own pieces compute for (sig, pubkey, script_code, sv):
checksigops.parse_signature_blob, sec_to_public_pair, BitcoinSolutionChecker._signature_hash /
_signature_for_hash_type_segwit, secp256k1_generator.verify, with exactly the exception handling of
checksigops.checksig."""
from common import *
import struct, hashlib
from pycoin.coins.bitcoin.VM import BitcoinVM
from pycoin.coins.bitcoin.Tx import Tx
from pycoin.coins.bitcoin.TxIn import TxIn
from pycoin.coins.bitcoin.TxOut import TxOut
from pycoin.coins.bitcoin.SolutionChecker import BitcoinSolutionChecker
from pycoin.coins.SolutionChecker import ScriptError
from pycoin.coins.bitcoin.ScriptStreamer import BitcoinScriptStreamer as S
from pycoin.satoshi import checksigops, der
from pycoin.satoshi import flags as F
from pycoin.encoding.sec import sec_to_public_pair, public_pair_to_sec
from pycoin.encoding.exceptions import EncodingError
from pycoin.ecdsa.secp256k1 import secp256k1_generator as G

DRIVER = "C03model"
INTERACTIVE = True
RULE_MODEL = ("C03 model correspondence: one driver line per handler call / eval_instruction / eval_script / check_solution; "
              "distinct = distinct line; non-trivial = the model returns a value (script success), not a failure")
STATS = {"checksig_questions": 0, "checksig_true": 0}

ALL_FLAGS = [F.VERIFY_P2SH, F.VERIFY_STRICTENC, F.VERIFY_DERSIG, F.VERIFY_LOW_S, F.VERIFY_NULLDUMMY, F.VERIFY_SIGPUSHONLY,
             F.VERIFY_MINIMALDATA, F.VERIFY_DISCOURAGE_UPGRADABLE_NOPS, F.VERIFY_CLEANSTACK, F.VERIFY_CHECKLOCKTIMEVERIFY,
             F.VERIFY_CHECKSEQUENCEVERIFY, F.VERIFY_WITNESS, F.VERIFY_DISCOURAGE_UPGRADABLE_WITNESS_PROGRAM,
             F.VERIFY_MINIMALIF, F.VERIFY_NULLFAIL, F.VERIFY_WITNESS_PUBKEYTYPE]
CORE_VM = [F.VERIFY_MINIMALDATA, F.VERIFY_MINIMALIF, F.VERIFY_DISCOURAGE_UPGRADABLE_NOPS, F.VERIFY_CHECKLOCKTIMEVERIFY,
           F.VERIFY_CHECKSEQUENCEVERIFY, F.VERIFY_NULLDUMMY]
CORE_SIG = [F.VERIFY_STRICTENC, F.VERIFY_DERSIG, F.VERIFY_LOW_S, F.VERIFY_NULLDUMMY, F.VERIFY_NULLFAIL,
            F.VERIFY_WITNESS_PUBKEYTYPE]
CORE_SPEND = [F.VERIFY_P2SH, F.VERIFY_WITNESS, F.VERIFY_CLEANSTACK, F.VERIFY_SIGPUSHONLY, F.VERIFY_MINIMALIF,
              F.VERIFY_DISCOURAGE_UPGRADABLE_WITNESS_PROGRAM]


def subsets(core):
    out = []
    for m in range(1 << len(core)):
        v = 0
        for i, f in enumerate(core):
            if m >> i & 1:
                v |= f
        out.append(v)
    return out


SUB_VM, SUB_SIG, SUB_SPEND = subsets(CORE_VM), subsets(CORE_SIG), subsets(CORE_SPEND)


class FlagCycle:
    """all subsets of a 6-flag core in turn, every third draw OR-ed with a random subset of all 16"""

    def __init__(self, rng, subs):
        self.rng, self.subs, self.i = rng, list(subs), 0
        rng.shuffle(self.subs)

    def next(self):
        v = self.subs[self.i % len(self.subs)]
        self.i += 1
        if self.i % 3 == 0:
            v |= self.rng.getrandbits(16)
        elif self.i % 7 == 0:
            v = self.rng.getrandbits(16)
        return v


# ---- synthetic transactions -------------------------------------------------------------------------
def ctxp(version=1, lock_time=0, sequence=0xffffffff, amount=100000, shape=0) -> bytes:
    return struct.pack("<LLLQB", version, lock_time, sequence, amount, shape)


CTX0 = ctxp()
CTXS = [CTX0, ctxp(2, 500000, 10, 5000000000, 0), ctxp(2, 600000000, 0x400005, 1, 2),
        ctxp(1, 499999999, 0xfffffffe, 0, 1), ctxp(0xffffffff, 500000000, 0x80000001, 21 * 10 ** 14, 0),
        ctxp(2, 0, 0, 12345, 2)]
_SHAPES = {0: (1, 1, 0), 1: (2, 1, 1), 2: (3, 2, 1)}    # shape -> (#inputs, #outputs, index of the checked input)
_OUT_SCRIPTS = [bytes.fromhex("76a914" + "11" * 20 + "88ac"), bytes.fromhex("a914" + "22" * 20 + "87")]
_synth_cache = {}


def build_tx(cb: bytes, script_sig=b"", script_pubkey=b"", witness=()):
    version, lock_time, sequence, amount, shape = struct.unpack("<LLLQB", cb)
    n_in, n_out, idx = _SHAPES[shape]
    ins, unspents = [], []
    for i in range(n_in):
        if i == idx:
            ti = TxIn(bytes([0xA0 + i]) * 32, 3 + i, script_sig, sequence)
            ti.witness = list(witness)
            unspents.append(TxOut(amount, script_pubkey))
        else:
            ti = TxIn(bytes([0xA0 + i]) * 32, 3 + i, b"\x51", 0xfffffffd - i)
            unspents.append(TxOut(777 + i, b"\x51"))
        ins.append(ti)
    outs = [TxOut(5000 + 11 * j, _OUT_SCRIPTS[j % 2]) for j in range(n_out)]
    tx = Tx(version, ins, outs, lock_time)
    tx.set_unspents(unspents)
    return tx, idx


def synth(cb: bytes):
    r = _synth_cache.get(cb)
    if r is None:
        tx, idx = build_tx(cb)
        sc = BitcoinSolutionChecker(tx)
        r = _synth_cache[cb] = (tx, sc, idx, sc.tx_context_for_idx(idx))
    return r


# ---- the signature oracle: what pycoin itself computes ---------------------------------------------
_oracle_cache = {}


def pycoin_checksig(cb: bytes, sv: int, sig: bytes, pubkey: bytes, code: bytes) -> bool:
    tx, sc, idx, _ = synth(cb)
    try:
        sig_pair, signature_type = checksigops.parse_signature_blob(sig)
    except (der.UnexpectedDER, ValueError):
        return False
    try:
        public_pair = sec_to_public_pair(pubkey, G, strict=False)
    except (ValueError, EncodingError):
        return False
    if sv == 0:
        h = sc._signature_hash(code, idx, signature_type)
    else:
        h = sc._signature_for_hash_type_segwit(code, idx, signature_type)
    try:
        if G.verify(public_pair, h, sig_pair):
            return True
    except ValueError:
        pass
    return False


def oracle_checksig(blob: bytes) -> bytes:
    r = _oracle_cache.get(blob)
    if r is None:
        cb, sv = blob[:21], blob[21]
        ls = int.from_bytes(blob[22:26], "big")
        sig = blob[26:26 + ls]
        p = 26 + ls
        lk = int.from_bytes(blob[p:p + 4], "big")
        pk = blob[p + 4:p + 4 + lk]
        code = blob[p + 4 + lk:]
        r = _oracle_cache[blob] = b"\x01" if pycoin_checksig(cb, sv, sig, pk, code) else b"\x00"
        if len(_oracle_cache) > 200000:
            _oracle_cache.clear()
    STATS["checksig_questions"] += 1
    STATS["checksig_true"] += r == b"\x01"
    return r


ORACLES = {"checksig": oracle_checksig}


# ---- implementation thunks --------------------------------------------------------------------------
def _exn(e):
    return "!E_SCRIPT" if isinstance(e, ScriptError) else "!" + exn_tag(e)


def _mkvm(flags, sv, cb, script, stack):
    tx, sc, idx, tx_context = synth(cb)
    sighash_f = sc._make_sighash_f(idx) if sv == "B" else sc._make_witness_sighash_f(idx)
    vm = BitcoinVM(script, tx_context, sighash_f, flags, initial_stack=list(stack))
    vm.stack = list(stack)
    return vm


def _st(l):
    return [bytes(x) for x in l]


def impl_eval(flags, sv, cb, script, stack):
    try:
        return canon(_st(_mkvm(flags, sv, cb, script, stack).eval_script()))
    except Exception as e:
        return _exn(e)


def _setstate(vm, pc, alt, t, f, opc, bch):
    vm.pc = pc
    vm.altstack = list(alt)
    vm.conditional_stack.true_count = t
    vm.conditional_stack.false_count = f
    vm.op_count = opc
    vm.begin_code_hash = bch


def _getstate(vm, with_pc):
    r = (_st(vm.stack), _st(vm.altstack), vm.conditional_stack.true_count, vm.conditional_stack.false_count,
         vm.op_count, vm.begin_code_hash)
    return ((vm.pc,) + r) if with_pc else r


def impl_handler(op, flags, sv, cb, script, pc, stack, alt, t, f, opc, bch):
    try:
        vm = _mkvm(flags, sv, cb, script, stack)
        _setstate(vm, pc, alt, t, f, opc, bch)
        BitcoinVM.INSTRUCTION_LOOKUP[op](vm)
        return canon(_getstate(vm, False))
    except Exception as e:
        return _exn(e)


def impl_step(flags, sv, cb, script, pc, stack, alt, t, f, opc, bch):
    try:
        vm = _mkvm(flags, sv, cb, script, stack)
        _setstate(vm, pc, alt, t, f, opc, bch)
        vm.eval_instruction()
        return canon(_getstate(vm, True))
    except Exception as e:
        return _exn(e)


def impl_verify(flags, cb, script_sig, script_pubkey, witness):
    try:
        tx, idx = build_tx(cb, script_sig, script_pubkey, witness)
        return canon(tx.check_solution(idx, flags=flags))
    except Exception as e:
        return _exn(e)


def c_eval(flags, sv, cb, script, stack=(), tag=None):
    stack = list(stack)
    line = "eval %s %s %s %s %s" % (arg(flags), sv, arg(cb), arg(script), arg(stack))
    return Case(line, (lambda: impl_eval(flags, sv, cb, script, stack)), {"level": "eval", "tag": tag})


def c_verify(flags, cb, script_sig, script_pubkey, witness=(), tag=None):
    witness = list(witness)
    line = "verify %s %s %s %s %s" % (arg(flags), arg(cb), arg(script_sig), arg(script_pubkey), arg(witness))
    return Case(line, (lambda: impl_verify(flags, cb, script_sig, script_pubkey, witness)), {"level": "verify", "tag": tag})


def c_handler(op, flags, sv, cb, script, pc, stack, alt=(), t=0, f=0, opc=0, bch=0, tag=None):
    stack, alt = list(stack), list(alt)
    line = "handler %s %s %s %s %s %s %s %s %s %s %s %s" % (
        arg(op), arg(flags), sv, arg(cb), arg(script), arg(pc), arg(stack), arg(alt), arg(t), arg(f), arg(opc), arg(bch))
    return Case(line, (lambda: impl_handler(op, flags, sv, cb, script, pc, stack, alt, t, f, opc, bch)),
                {"level": "handler", "tag": tag})


def c_step(flags, sv, cb, script, pc, stack, alt=(), t=0, f=0, opc=0, bch=0, tag=None):
    stack, alt = list(stack), list(alt)
    line = "step %s %s %s %s %s %s %s %s %s %s %s" % (
        arg(flags), sv, arg(cb), arg(script), arg(pc), arg(stack), arg(alt), arg(t), arg(f), arg(opc), arg(bch))
    return Case(line, (lambda: impl_step(flags, sv, cb, script, pc, stack, alt, t, f, opc, bch)),
                {"level": "step", "tag": tag})


def nontrivial(line, r):
    return not r.startswith("!")


# ---- script building blocks -------------------------------------------------------------------------
OP = {n: v for n, v in __import__("pycoin.satoshi.opcodes", fromlist=["OPCODE_LIST"]).OPCODE_LIST}
for _k in list(OP):
    OP[_k[3:]] = OP[_k]


def o(*names) -> bytes:
    return bytes(OP[n] for n in names)


def push(d: bytes) -> bytes:
    return S.compile_push_data(d)


def push_as(d: bytes, how: int) -> bytes:
    """how: 0 minimal, 1 direct (<=75), 2 PUSHDATA1, 3 PUSHDATA2, 4 PUSHDATA4"""
    n = len(d)
    if how == 1 and 1 <= n <= 75:
        return bytes([n]) + d
    if how == 2 and n <= 255:
        return b"\x4c" + bytes([n]) + d
    if how == 3 and n <= 65535:
        return b"\x4d" + struct.pack("<H", n) + d
    if how == 4:
        return b"\x4e" + struct.pack("<L", n) + d
    return push(d)


NUMS = [b"", b"\x00", b"\x80", b"\x01", b"\x81", b"\x02", b"\x03", b"\x10", b"\x11", b"\x7f", b"\xff", b"\x00\x00",
        b"\x00\x80", b"\x01\x00", b"\x01\x80", b"\x80\x00", b"\x80\x80", b"\xff\x7f", b"\xff\xff", b"\x00\x01",
        b"\xff\xff\xff\x7f", b"\xff\xff\xff\xff", b"\x00\x00\x00\x80", b"\x00\x00\x00\x00", b"\x01\x00\x00\x00",
        b"\x00\x00\x00\x80\x00", b"\xff\xff\xff\xff\x7f", b"\x00\x00\x00\x00\x80", b"\x00" * 5,
        b"\x01\x00\x00\x00\x00\x00", b"\xff" * 6, b"\x00\x00\x80", b"\xff\xff\x7f"]
SMALLNUMS = [b"", b"\x01", b"\x81", b"\x02", b"\x03", b"\x05", b"\x10", b"\x00", b"\x80", b"\x01\x00", b"\x7f", b"\xff\x00"]
BLOBS = [b"", b"\x00", b"\x80", b"\x00\x80", b"\x00\x00\x00", b"abc", b"\x01", b"\x01\x00", b"\x02", b"\xaa" * 20,
         b"\x5a" * 32, b"\x00" * 75, b"\x11" * 76, b"\x80" * 255, b"\x7e" * 256, b"\x33" * 520,
         # long zeros / negative zeros / near-misses: truthiness has no length limit (seed C03-d1)
         b"\x00" * 5 + b"\x80", b"\x00" * 6 + b"\x80", b"\x00" * 6, b"\x00" * 5 + b"\x81", b"\x00" * 19 + b"\x80",
         b"\x00" * 31 + b"\x80", b"\x00" * 32 + b"\x80", b"\x00" * 519 + b"\x80", b"\x00" * 520, b"\x01" + b"\x00" * 6 + b"\x80",
         b"\x00" * 6 + b"\x80\x00", b"\x80" + b"\x00" * 7]
BOUNDARY_LENS = [0, 1, 2, 74, 75, 76, 77, 254, 255, 256, 257, 519, 520, 521, 522, 600]


def rnd_bytes(rng, n):
    return bytes(rng.getrandbits(8) for _ in range(n))


GOODNUMS = [b"", b"\x01", b"\x02", b"\x03", b"\x05", b"\x10", b"\x11", b"\x7f", b"\x81", b"\x82", b"\x80\x00", b"\xff\x00",
            b"\xff\x7f", b"\xff\xff", b"\x00\x01", b"\xff\xff\xff\x7f", b"\xff\xff\xff\xff", b"\x00\x00\x00\x01", b"\x64"]


def rnd_num(rng):
    r = rng.random()
    if r < (0.9 if GEN["flags"] & F.VERIFY_MINIMALDATA else 0.6):
        return rng.choice(GOODNUMS)
    if r < 0.8:
        return rng.choice(NUMS)
    n = rng.choice([1, 1, 2, 2, 3, 4, 4, 5, 6])
    b = bytearray(rnd_bytes(rng, n))
    if rng.random() < 0.4:
        b[-1] = rng.choice([0, 0x80, 1, 0x81, 0x7f, 0xff])
    return bytes(b)


GEN = {"flags": 0, "clean": False}      # the flag set the script being generated will run under (makes most scripts polite to it)


def rnd_push(rng, d):
    p = 0.97 if GEN["flags"] & F.VERIFY_MINIMALDATA else 0.8
    return push(d) if rng.random() < p else push_as(d, rng.choice([1, 2, 3, 4]))


# phrases: (script bytes, minimum depth needed before, net depth change)
UNARY = ["1ADD", "1SUB", "NEGATE", "ABS", "NOT", "0NOTEQUAL"]
BINARY = ["ADD", "SUB", "BOOLAND", "BOOLOR", "NUMEQUAL", "NUMNOTEQUAL", "LESSTHAN", "GREATERTHAN", "LESSTHANOREQUAL",
          "GREATERTHANOREQUAL", "MIN", "MAX"]
HASHES = ["RIPEMD160", "SHA1", "SHA256", "HASH160", "HASH256"]
STACKOPS = [("NOP", 0, 0), ("DUP", 1, 1), ("DROP", 1, -1), ("SWAP", 2, 0), ("OVER", 2, 1), ("ROT", 3, 0), ("TUCK", 2, 1),
            ("NIP", 2, -1), ("2DUP", 2, 2), ("3DUP", 3, 3), ("2OVER", 4, 2), ("2ROT", 6, 0), ("2SWAP", 4, 0),
            ("2DROP", 2, -2), ("IFDUP", 1, 0), ("DEPTH", 0, 1), ("SIZE", 1, 1), ("CODESEPARATOR", 0, 0),
            ("NOP1", 0, 0), ("NOP4", 0, 0), ("NOP10", 0, 0)]


def phrase(rng, depth, altdepth):
    """returns (bytes, new_depth, new_altdepth)"""
    r = rng.random()
    if r < 0.18:
        return rnd_push(rng, rnd_num(rng)), depth + 1, altdepth
    if r < 0.24:
        return rnd_push(rng, rng.choice(BLOBS) if rng.random() < 0.7 else rnd_bytes(rng, rng.randint(0, 90))), depth + 1, altdepth
    if r < 0.36:
        return rnd_push(rng, rnd_num(rng)) + o(rng.choice(UNARY)), depth + 1, altdepth
    if r < 0.50:
        return rnd_push(rng, rnd_num(rng)) + rnd_push(rng, rnd_num(rng)) + o(rng.choice(BINARY)), depth + 1, altdepth
    if r < 0.54:
        return b"".join(rnd_push(rng, rnd_num(rng)) for _ in range(3)) + o("WITHIN"), depth + 1, altdepth
    if r < 0.58 and depth >= 1:
        return o(rng.choice(HASHES)), depth, altdepth
    if r < 0.63 and depth >= 1:
        k = rng.choice([0, 0, 1, depth - 1, depth - 1, depth, -1, rng.randint(0, depth - 1), rng.randint(0, depth - 1)])
        kb = BitcoinVM.IntStreamer.int_to_script_bytes(k)
        opn = rng.choice(["PICK", "ROLL"])
        return rnd_push(rng, kb) + o(opn), depth + (1 if opn == "PICK" else 0), altdepth
    if r < 0.65 and depth >= 2:
        return o(rng.choice(["EQUAL", "EQUAL", "NUMEQUALVERIFY", "EQUALVERIFY"])), depth - 1, altdepth
    if r < 0.67 and depth >= 1:
        return o("DUP", rng.choice(["EQUALVERIFY", "EQUAL", "NUMEQUALVERIFY"])), depth - 1, altdepth
    if r < 0.70:
        return rnd_push(rng, rng.choice([b"\x01", b"\x01", b"\x02", b"\x00\x01", b"\x01", b"\x81", b"\x00\x00\x01", b"", b"\x80"])) + o("VERIFY"), depth, altdepth
    if r < 0.74 and depth >= 1:
        return o("TOALTSTACK"), depth - 1, altdepth + 1
    if r < 0.78 and (altdepth >= 1 or rng.random() < 0.1):
        return o("FROMALTSTACK"), depth + 1, max(0, altdepth - 1)
    if r < 0.79:
        return bytes([rng.getrandbits(8)]), depth, altdepth
    if r < 0.81:
        return rnd_push(rng, rng.choice([b"", b"\x01", b"\x0a", b"\x00\x00\x40", b"\xff\xff\xff\xff\x00"])) + \
            o(rng.choice(["CHECKLOCKTIMEVERIFY", "CHECKSEQUENCEVERIFY"]), "DROP"), depth, altdepth
    cands = [s for s in STACKOPS if s[1] <= depth and not (s[0].startswith("NOP") and len(s[0]) > 3 and
                                                          GEN["flags"] & F.VERIFY_DISCOURAGE_UPGRADABLE_NOPS and rng.random() < 0.9)]
    name, need, d = rng.choice(cands)
    return o(name), depth + d, altdepth


def body(rng, depth, altdepth, n, nest=0):
    parts = []
    for _ in range(n):
        if nest < 4 and rng.random() < 0.15:
            cond = rnd_push(rng, rng.choice([b"\x01", b"", b"\x00", b"\x80", b"\x02", b"\x01\x00", b"\x00\x80", b"\x81"])
                            if rng.random() < (0.08 if GEN["flags"] & F.VERIFY_MINIMALIF else 0.6) else rng.choice([b"", b"\x01"]))
            opn = rng.choice(["IF", "NOTIF"])
            b1, d1, a1 = body(rng, depth, altdepth, rng.randint(0, 4), nest + 1)
            s = cond + o(opn) + b1
            for _ in range(rng.choice([0, 1, 1, 1, 2])):
                b2, d2, a2 = body(rng, depth, altdepth, rng.randint(0, 3), nest + 1)
                s += o("ELSE") + b2
            q = rng.random()
            if q < 0.95:
                s += o("ENDIF")
            elif q < 0.97:
                s += o("ENDIF", "ENDIF")
            parts.append(s)
            depth, altdepth = d1, a1
        elif rng.random() < 0.01:
            parts.append(o(rng.choice(["ELSE", "ENDIF", "IF", "NOTIF", "VERIF", "VERNOTIF", "RETURN", "RESERVED", "VER"])))
        else:
            p, depth, altdepth = phrase(rng, depth, altdepth)
            parts.append(p)
    return b"".join(parts), depth, altdepth


def dead_junk(rng, n):
    """bytes for an unexecuted branch: any opcode, pushes complete or truncated"""
    out = bytearray()
    for _ in range(n):
        b = rng.getrandbits(8)
        if 1 <= b <= 0x4e and rng.random() < 0.8:
            d = rnd_bytes(rng, rng.choice([0, 1, 2, 5, 75, 76]))
            out += push_as(d, rng.choice([0, 1, 2, 3, 4]))
        else:
            out.append(b)
    return bytes(out)


def gen_script(rng):
    init = [rnd_num(rng) if rng.random() < 0.7 else rng.choice(BLOBS) for _ in range(rng.choice([0, 0, 1, 2, 3, 6]))]
    s, depth, _ = body(rng, len(init), 0, rng.choice([1, 2, 3, 5, 8, 12, 20]))
    if rng.random() < 0.25:
        junk = dead_junk(rng, rng.randint(1, 8))
        s += rng.choice([push(b"") + o("IF"), push(b"\x01") + o("NOTIF"), push(b"\x01") + o("IF", "ELSE")]) + junk + \
            (o("ENDIF") if rng.random() < 0.9 else b"")
    if rng.random() < 0.05:
        s = s[:rng.randint(0, len(s))]
    return s, init


# ---- keys and signatures ----------------------------------------------------------------------------
N_ORDER = G.order()
SECRETS = [1, 2, 3, 0x1234567890ABCDEF, N_ORDER - 1, 7, 11, 13] + [1000 + i for i in range(16)]
_pub = {}


def pubpair(k):
    if k not in _pub:
        _pub[k] = tuple(G * k)[:2]
    return _pub[k]


def sec(k, kind="c"):
    x, y = pubpair(k)
    if kind == "c":
        return public_pair_to_sec((x, y), compressed=True)
    if kind == "u":
        return public_pair_to_sec((x, y), compressed=False)
    if kind == "h":     # hybrid, right parity
        return bytes([6 + (y & 1)]) + public_pair_to_sec((x, y), compressed=False)[1:]
    if kind == "hbad":  # hybrid, wrong parity
        return bytes([7 - (y & 1)]) + public_pair_to_sec((x, y), compressed=False)[1:]
    raise ValueError(kind)


WEIRD_KEYS = [b"", b"\x02", b"\x04", b"\x00" * 33, b"\x02" + b"\x00" * 32, b"\x02" + b"\xff" * 32, b"\x05" + b"\x11" * 32,
              b"\x04" + b"\x11" * 64, b"\x04" + b"\x00" * 64, b"\x02" + b"\x11" * 64, b"\x06" + b"\x11" * 64,
              b"\x03" + b"\x11" * 31, b"\x03" + b"\x11" * 33, b"\x04" + b"\x11" * 32, b"\x01\x02\x03",
              b"\x02" + (G.p() + 1).to_bytes(32, "big"), b"\x02" + (5).to_bytes(32, "big"), b"\x00"]

_sig_cache = {}


def sighash(cb, sv, code, ht):
    tx, sc, idx, _ = synth(cb)
    return sc._signature_hash(code, idx, ht) if sv == "B" else sc._signature_for_hash_type_segwit(code, idx, ht)


def der_int(v: int, pad=0, strip=False) -> bytes:
    b = v.to_bytes((v.bit_length() + 7) // 8 or 1, "big")
    if b[0] & 0x80 and not strip:
        b = b"\x00" + b
    b = b"\x00" * pad + b
    return b"\x02" + bytes([len(b)]) + b


def make_sig(cb, sv, code, k, ht=1, variant="ok"):
    """signature blob over `code` (the script pycoin will hash) by secret k"""
    key = (cb, sv, code, k, ht, variant)
    r = _sig_cache.get(key)
    if r is not None:
        return r
    if variant == "empty":
        r = b""
    else:
        h = sighash(cb, sv, code, ht)
        kk = SECRETS[(SECRETS.index(k) + 1) % len(SECRETS)] if variant == "wrongkey" else k
        rr, ss = G.sign(kk, h if variant != "wronghash" else h ^ 1)
        if ss > N_ORDER // 2:
            ss = N_ORDER - ss
        if variant == "highs":
            ss = N_ORDER - ss
        body = None
        if variant == "padded":          # lax-parseable, not strict DER: a superfluous leading zero in R
            body = der_int(rr, pad=1) + der_int(ss)
        elif variant == "negative":      # R or S without the 00 guard: "negative" for strict DER, same number for OpenSSL-lax
            body = der_int(rr, strip=True) + der_int(ss, strip=True)
        elif variant == "trailing":      # garbage after the two integers, inside the sequence
            body = der_int(rr) + der_int(ss) + b"\x05\x00"
        elif variant == "longform":      # sequence length in long form
            b2 = der_int(rr) + der_int(ss)
            r = b"\x30\x81" + bytes([len(b2)]) + b2 + bytes([ht])
        elif variant == "outer_trailing":
            b2 = der_int(rr) + der_int(ss)
            r = b"\x30" + bytes([len(b2)]) + b2 + b"\x00" + bytes([ht])
        elif variant == "badlen":
            b2 = der_int(rr) + der_int(ss)
            r = b"\x30" + bytes([len(b2) + 1]) + b2 + bytes([ht])
        elif variant == "r0":
            body = der_int(0) + der_int(ss)
        elif variant == "s0":
            body = der_int(rr) + der_int(0)
        elif variant == "rbig":
            body = der_int(rr + N_ORDER) + der_int(ss)
        else:
            body = der_int(rr) + der_int(ss)
        if r is None:
            r = b"\x30" + bytes([len(body)]) + body + bytes([ht])
        if variant == "truncated":
            r = r[:len(r) // 2]
        elif variant == "nohashtype":
            r = r[:-1]
    _sig_cache[key] = r
    return r


GARBAGE_SIGS = [b"\x30", b"\x30\x01", b"\x30\x80\x01", b"\x30\x81\x01", b"\x30\x00\x01", b"\x30\x02\x02\x00\x01", b"\x01",
                b"\x30\x06\x02\x01\x01\x02\x00\x01", b"\x30\x06\x02\x01\x01\x02\x01\x01\x01", b"\x00", b"\x30\x84\xff\xff\xff\xff\x01",
                b"\x30\x06\x02\x81\x01\x01\x02\x01\x01\x01", b"\x30\x05\x02\x80\x02\x01\x01\x01", b"\x31\x06\x02\x01\x01\x02\x01\x01\x01",
                b"\x30\x06\x03\x01\x01\x02\x01\x01\x01", b"\x30\x06\x02\x01\x01\x03\x01\x01\x01", b"\x30\x06\x02\x02\x01\x02\x01\x01\x01",
                b"\x30\x45" + b"\x02\x21\x00" + b"\xff" * 32 + b"\x02\x20" + b"\x7f" * 32 + b"\x01",
                b"\x30\x09\x02\x01\x01\x02\x01\x01\x01", b"\xff" * 9, b"\x30" * 73, b"\x30" * 74, b"\x30\x06\x02\x01\x01\x02\x01\x01"]
def _rs_sig(r, s_, ht=1):
    body = der_int(r) + der_int(s_)
    return b"\x30" + bytes([len(body)]) + body + bytes([ht])


# strict-DER blobs whose S sits on the LOW_S boundaries (group order n, and the field prime p for contrast)
BOUNDARY_S_SIGS = [_rs_sig(1, v) for v in (1, N_ORDER // 2 - 1, N_ORDER // 2, N_ORDER // 2 + 1, N_ORDER // 2 + 2, N_ORDER - 1, N_ORDER,
                                            G.p() // 2, G.p() // 2 + 1, G.p() - 1, (1 << 255) - 1, 1 << 255, (1 << 256) - 1)] + \
                  [_rs_sig(v, 1) for v in (N_ORDER - 1, N_ORDER, G.p(), (1 << 256) - 1)]
GARBAGE_SIGS = GARBAGE_SIGS + BOUNDARY_S_SIGS
SIG_VARIANTS = ["ok"] * 8 + ["highs", "wrongkey", "wronghash", "padded", "negative", "trailing", "longform", "outer_trailing",
                             "badlen", "r0", "s0", "rbig", "truncated", "nohashtype", "empty", "empty"]
HASHTYPES = [1] * 8 + [2, 3, 0x81, 0x82, 0x83, 0, 4, 0x80, 0x84, 0x41, 0xff, 0x21]


def rnd_sig(rng, cb, sv, code, k):
    if GEN["clean"]:
        return make_sig(cb, sv, code, k, rng.choice([1, 1, 1, 2, 3, 0x81, 0x82, 0x83]), "ok")
    if rng.random() < 0.08:
        return rng.choice(GARBAGE_SIGS)
    return make_sig(cb, sv, code, k, rng.choice(HASHTYPES), rng.choice(SIG_VARIANTS))


def rnd_key(rng, k):
    r = rng.random() * (0.6 if GEN["clean"] else 1.0)
    if r < 0.6:
        return sec(k, "c")
    if r < 0.8:
        return sec(k, "u")
    if r < 0.86:
        return sec(k, "h")
    if r < 0.9:
        return sec(k, "hbad")
    return rng.choice(WEIRD_KEYS)


PLACEHOLDER_SIG = bytes.fromhex("300602010102010101")


def probe_code(cb, sv, script, stack):
    """the script code pycoin hashes at the first signature check of `script` run on `stack` (generation aid only)"""
    tx, sc, idx, tx_context = synth(cb)
    seen = []

    def hook(hash_type, sig_blobs, vm):
        seen.append(bytes(vm.script[vm.begin_code_hash:]))
        return 1

    try:
        BitcoinVM(script, tx_context, hook, 0, initial_stack=list(stack)).eval_script()
    except Exception:
        pass
    return seen[0] if seen else script


def sig_script_case(rng, sv):
    """(script, initial stack) of a script doing signature checks, with real signatures for context cb"""
    cb = rng.choice(CTXS)
    kind = rng.choice(["p2pk", "p2pk", "p2pkh", "multisig", "multisig", "multisig", "codesep", "sig_in_script", "p2pk_not",
                       "checksigverify", "multisig_big", "two_checksigs"])
    ks = rng.sample(SECRETS, 4)
    if kind in ("p2pk", "p2pk_not", "checksigverify"):
        key = rnd_key(rng, ks[0])
        tail = {"p2pk": o("CHECKSIG"), "p2pk_not": o("CHECKSIG", "NOT"), "checksigverify": o("CHECKSIGVERIFY", "1")}[kind]
        script = push(key) + tail
        return cb, script, [rnd_sig(rng, cb, sv, script, ks[0])]
    if kind == "p2pkh":
        key = rnd_key(rng, ks[0])
        h = ORACLES_H160(key) if rng.random() < 0.9 else b"\x00" * 20
        script = o("DUP", "HASH160") + push(h) + o("EQUALVERIFY", "CHECKSIG")
        return cb, script, [rnd_sig(rng, cb, sv, script, ks[0]), key]
    if kind in ("multisig", "multisig_big"):
        n = rng.choice([1, 2, 3, 3, 4]) if kind == "multisig" else rng.choice([15, 19, 20, 21])
        m = rng.randint(0, min(n, 4))
        allk = (SECRETS * 2)[:n]
        keys = [sec(k, "c") if rng.random() < 0.85 else rnd_key(rng, k) for k in allk]
        nb = BitcoinVM.IntStreamer.int_to_script_bytes
        tail = rng.choice([o("CHECKMULTISIG")] * 3 + [o("CHECKMULTISIGVERIFY", "1"), o("CHECKMULTISIG", "NOT")])
        mm = m if rng.random() < 0.9 else rng.choice([m + 1, n + 1, -1, 21])
        nn = n if rng.random() < 0.93 else rng.choice([n + 1, n - 1, -1, 21])
        script = rnd_push(rng, nb(mm)) + b"".join(push(k) for k in keys) + rnd_push(rng, nb(nn)) + tail
        signers = sorted(rng.sample(range(n), m))
        q = rng.random()
        if q < 0.12 and m >= 2:
            signers.reverse()          # wrong order
        sigs = [rnd_sig(rng, cb, sv, script, allk[i]) if rng.random() < 0.5 else make_sig(cb, sv, script, allk[i]) for i in signers]
        dummy = b"" if rng.random() < 0.85 else rng.choice([b"\x00", b"\x01", b"\x51"])
        stack = [dummy] + sigs
        if rng.random() < 0.05:
            stack = stack[1:]
        return cb, script, stack
    if kind == "codesep":
        key = sec(ks[0], rng.choice("cu"))
        pre = rng.choice([o("CODESEPARATOR"), o("NOP", "CODESEPARATOR"), push(b"") + o("IF", "CODESEPARATOR", "ENDIF"),
                          push(b"\x01") + o("IF", "CODESEPARATOR", "ENDIF"), o("CODESEPARATOR", "CODESEPARATOR"), b""])
        mid = rng.choice([b"", o("CODESEPARATOR")])
        script = pre + push(key) + mid + o("CHECKSIG") + rng.choice([b"", o("CODESEPARATOR"), o("CODESEPARATOR", "1", "VERIFY")])
        code = probe_code(cb, sv, script, [PLACEHOLDER_SIG])
        return cb, script, [rnd_sig(rng, cb, sv, code, ks[0])]
    if kind == "sig_in_script":
        key = sec(ks[0], "c")
        base = o("DROP") + push(key) + o("CHECKSIG")
        ht = rng.choice([1, 1, 2, 0x81])
        sig = make_sig(cb, sv, base, ks[0], ht, rng.choice(["ok", "ok", "highs", "padded"]))
        how = rng.choice([0, 0, 0, 2, 3])
        script = push_as(sig, how) + base
        # sv == "W": nothing is deleted, the digest covers the script with the signature in it: cannot verify
        return cb, script, [sig]
    # two_checksigs: the second one uses the same signature blob with another hash type cache entry
    key = sec(ks[0], "c")
    script = o("2DUP") + push(key) + o("CHECKSIGVERIFY") + o("DROP") + push(key) + o("CHECKSIG")
    s1 = rnd_sig(rng, cb, sv, script, ks[0])
    return cb, script, [s1, s1]


def ORACLES_H160(b):
    return ORACLES_COMMON["hash160"](b)


ORACLES_COMMON = __import__("common").ORACLES


def sha256(b):
    return hashlib.sha256(b).digest()


# ---- level 1: single handlers ------------------------------------------------------------------------
def handler_cases(rng, tier):
    pool = [[], [b""], [b"\x01"], [b"\x00"], [b"\x80"], [b"\x01", b"\x02"], [b"\x02", b"\x01"], [b"", b""],
            [b"\x01", b"\x02", b"\x03"], [b"\x05", b"\x01", b"\x09"], [b"a", b"b", b"c", b"d", b"\x02"],
            [b"a", b"b", b"c", b"d", b"e", b"f"], [b"\xff\xff\xff\x7f", b"\x01"], [b"\x00\x00\x00\x80\x00"],
            [b"\x01", b"\x00\x00\x00\x00\x01"], [b"\x00\x80"], [b"a", b"b", b"c", b"d", b"\x04"], [b"a", b"b", b"\x81"],
            [b"x" * 520], [b"\x01\x00"], [b"\x02", b"\x00"], [b"\x07", b"\x07"]]
    script = bytes(range(0xab, 0xb0)) + b"\x51" * 4
    reps = 1 if tier == "quick" else 6
    fc = FlagCycle(rng, SUB_VM)
    for op in range(256):
        for _ in range(reps):
            for st in rng.sample(pool, 5) + [[rnd_num(rng) for _ in range(rng.randint(1, 4))] for _ in range(3)]:
                t, f = rng.choice([(0, 0), (0, 0), (1, 0), (0, 1), (2, 3), (3, 0), (1, 1)])
                yield c_handler(op, fc.next(), rng.choice("BW"), rng.choice(CTXS), script, rng.randint(0, 9), st,
                                rng.choice([[], [], [b"\x09"], [b"", b"\x01"]]), t, f, rng.choice([0, 1, 200, 201]),
                                rng.choice([0, 0, 3]), tag="handler-sweep")
    # numeric handlers over the whole operand pool
    for name in UNARY:
        for a in NUMS:
            for fl in (0, F.VERIFY_MINIMALDATA):
                yield c_handler(OP[name], fl, "B", CTX0, b"", 0, [b"\x07", a], tag="unary")
    binpool = NUMS if tier == "thorough" else SMALLNUMS + [b"\xff\xff\xff\x7f", b"\xff\xff\xff\xff", b"\x00\x00\x00\x80\x00"]
    for name in BINARY + ["EQUAL", "EQUALVERIFY", "NUMEQUALVERIFY"]:
        for a in binpool:
            for b in binpool:
                yield c_handler(OP[name], rng.choice([0, F.VERIFY_MINIMALDATA]), "B", CTX0, b"", 0, [a, b], tag="binary")
    tern = SMALLNUMS[:8] if tier == "quick" else SMALLNUMS
    for a in tern:
        for b in tern:
            for c in tern:
                yield c_handler(OP["WITHIN"], rng.choice([0, F.VERIFY_MINIMALDATA]), "B", CTX0, b"", 0, [a, b, c], tag="within")
    for a in NUMS + BLOBS:
        for name in ["VERIFY", "IFDUP", "SIZE", "NOT", "0NOTEQUAL", "IF", "NOTIF"] + HASHES:
            for fl in (0, F.VERIFY_MINIMALIF | F.VERIFY_MINIMALDATA):
                yield c_handler(OP[name], fl, "B", CTX0, b"", 0, [b"\x09", a], tag="truthiness")
    # PICK / ROLL over depth and index
    for depth in range(0, 6):
        base = [bytes([0x61 + i]) for i in range(depth)]
        for k in [b"", b"\x01", b"\x02", b"\x03", b"\x04", b"\x05", b"\x81", b"\x00", b"\x01\x00", b"\xff\xff\xff\x7f",
                  b"\x00\x00\x00\x00\x01", b"\x80"]:
            for name in ("PICK", "ROLL"):
                yield c_handler(OP[name], rng.choice([0, F.VERIFY_MINIMALDATA]), "B", CTX0, b"", 0, base + [k], tag="pickroll")


def locktime_cases(rng, tier):
    vals = [0, 1, 499999999, 500000000, 500000001, 0x7fffffff, 0x80000000, 0xffffffff, 0x100000000, 0x7fffffffff, -1, 10, 65535,
            65536, 0x400000, 0x400001, 0x40ffff, 0x410000, 0x80000000 | 5, 0xc00005]
    enc = BitcoinVM.IntStreamer.int_to_script_bytes
    items = [enc(v) for v in vals] + [b"\x00", b"\x80", b"\x01\x00", b"\x00" * 5, b"\x00" * 6, b"\x01\x00\x00\x00\x00\x00",
                                      b"\x0a\x00\x00\x00\x80", b"\xff\xff\xff\xff\xff"]
    ctxs = [ctxp(v, lt, sq, 1000, 0) for v in (0, 1, 2, 0xffffffff)
            for lt in (0, 10, 499999999, 500000000, 0xffffffff)
            for sq in (0, 10, 0xffffffff, 0xfffffffe, 0x400000, 0x40000a, 0x80000000, 0x8040000a, 0xffff, 0x3fffff)]
    both = F.VERIFY_CHECKLOCKTIMEVERIFY | F.VERIFY_CHECKSEQUENCEVERIFY
    n = 700 if tier == "quick" else 12000
    for _ in range(n):
        cb = rng.choice(ctxs)
        it = rng.choice(items)
        fl = rng.choice([both, both, both | F.VERIFY_MINIMALDATA, 0, F.VERIFY_DISCOURAGE_UPGRADABLE_NOPS,
                         F.VERIFY_CHECKLOCKTIMEVERIFY, F.VERIFY_CHECKSEQUENCEVERIFY | F.VERIFY_DISCOURAGE_UPGRADABLE_NOPS])
        opn = rng.choice(["CHECKLOCKTIMEVERIFY", "CHECKSEQUENCEVERIFY"])
        if rng.random() < 0.5:
            yield c_handler(OP[opn], fl, "B", cb, b"", 0, rng.choice([[it], [b"\x07", it], []]), tag="locktime")
        else:
            yield c_eval(fl, "B", cb, push(it) + o(opn) + rng.choice([b"", o("SIZE"), o("DROP", "1")]), tag="locktime")


# ---- level 2: eval_script ------------------------------------------------------------------------------
def exhaustive_opcode_cases(rng, tier):
    """every opcode value executed and in three kinds of unexecuted position"""
    stacks = [[], [b"\x01"], [b"\x02", b"\x03"], [b"\x01", b"\x02", b"\x03"], [b"", b"\x01", b"\x02", b"\x03", b"\x04", b"\x05", b"\x06"]]
    for op in range(256):
        opb = bytes([op])
        data = b""
        if 1 <= op <= 75:
            data = b"\x07" * op
        elif op == 0x4c:
            data = b"\x03abc"
        elif op == 0x4d:
            data = b"\x03\x00abc"
        elif op == 0x4e:
            data = b"\x03\x00\x00\x00abc"
        ins = opb + data
        for fl in (0, F.VERIFY_MINIMALDATA | F.VERIFY_DISCOURAGE_UPGRADABLE_NOPS | F.VERIFY_MINIMALIF):
            for st in stacks:
                yield c_eval(fl, "B", CTX0, ins, st, tag="op-live")
                yield c_eval(fl, "B", CTX0, ins + o("1"), st, tag="op-live")
            yield c_eval(fl, "B", CTX0, o("0", "IF") + ins + o("ENDIF", "1"), tag="op-dead")
            yield c_eval(fl, "B", CTX0, o("1", "IF", "ELSE") + ins + o("ENDIF", "1"), tag="op-dead-else")
            yield c_eval(fl, "B", CTX0, o("0", "IF", "1", "IF") + ins + o("ENDIF", "ENDIF", "1"), tag="op-dead-nested")
            yield c_eval(fl, "B", CTX0, o("1", "IF") + ins + o("ENDIF", "1"), [b"\x02", b"\x03"], tag="op-live-if")
            if data:
                yield c_eval(fl, "B", CTX0, o("0", "IF") + ins[:-1], tag="op-dead-truncated")
                yield c_eval(fl, "B", CTX0, o("0", "IF") + ins[:-1] + o("ENDIF", "1"), tag="op-dead-swallow")
                yield c_eval(fl, "B", CTX0, ins[:-1], tag="op-truncated")
    # OP_RESERVED is counted then un-counted in dead branches
    for k in (199, 200, 201, 202):
        yield c_eval(0, "B", CTX0, o("0", "IF") + o("RESERVED") * k + o("ENDIF", "1"), tag="reserved-count")
        yield c_eval(0, "B", CTX0, o("0", "IF") + o("VER") * k + o("ENDIF", "1"), tag="dead-count")


def limit_cases(rng, tier):
    nb = BitcoinVM.IntStreamer.int_to_script_bytes
    for k in (198, 199, 200, 201, 202, 203):
        yield c_eval(0, "B", CTX0, o("1") + o("NOP") * k, tag="opcount")
        yield c_eval(0, "B", CTX0, o("1") + o("NOP") * (k - 2) + o("0", "IF", "NOP") + o("ENDIF"), tag="opcount")
        yield c_eval(0, "B", CTX0, o("1") + o("DUP", "DROP") * (k // 2) + o("NOP") * (k % 2), tag="opcount")
    # CHECKMULTISIG adds key_count
    for nkeys in (0, 1, 19, 20):
        keys = b"".join(push(sec(SECRETS[i % len(SECRETS)])) for i in range(nkeys))
        ms = o("0", "0") + keys + push(nb(nkeys)) + o("CHECKMULTISIG")
        for pad in range(201 - nkeys - 3, 201 - nkeys + 2):
            if pad >= 0:
                yield c_eval(0, "B", CTX0, ms + o("NOP") * pad, tag="opcount-multisig")
                yield c_eval(0, "B", CTX0, o("NOP") * pad + ms, tag="opcount-multisig")
    # stack size: checked before each instruction and once at the end
    for k in (998, 999, 1000, 1001, 1002):
        yield c_eval(0, "B", CTX0, o("1") * k, tag="stacksize")
        yield c_eval(0, "B", CTX0, o("1") * k + o("DROP"), tag="stacksize")
        yield c_eval(0, "B", CTX0, o("1") * (k - 1) + o("DUP"), tag="stacksize")
        yield c_eval(0, "B", CTX0, o("1") * (k - 2) + o("2DUP", "2DROP"), tag="stacksize")
        yield c_eval(0, "B", CTX0, o("1") * (k - 100) + o("1", "TOALTSTACK") * 100, tag="stacksize-alt")
        yield c_eval(0, "B", CTX0, o("NOP"), [b"\x01"] * k, tag="stacksize-initial")
        yield c_eval(0, "B", CTX0, b"", [b"\x01"] * k, tag="stacksize-initial")
    yield c_eval(0, "B", CTX0, o("1") * 997 + o("3DUP") + o("3DUP"), tag="stacksize")
    # script size
    blk = push(b"\x42" * 520) + o("DROP")           # 524 bytes, one op
    for total in (9999, 10000, 10001, 10002):
        s = blk * 19
        s = s + o("1") * (total - len(s))
        yield c_eval(0, "B", CTX0, s[:total], tag="scriptsize")
        yield c_eval(0, "B", CTX0, b"\x61" * 150 + b"\x51" * (total - 150), tag="scriptsize")
    # push sizes
    for n in BOUNDARY_LENS:
        d = bytes([0x30 + n % 7]) * n
        for how in (0, 1, 2, 3, 4):
            for fl in (0, F.VERIFY_MINIMALDATA):
                yield c_eval(fl, "B", CTX0, push_as(d, how), tag="pushsize")
                yield c_eval(fl, "B", CTX0, o("0", "IF") + push_as(d, how) + o("ENDIF", "1"), tag="pushsize-dead")
                yield c_eval(fl, "B", CTX0, push_as(d, how) + o("SIZE"), tag="pushsize")
    for v in list(range(0, 18)) + [0x80, 0x81, 0x82, 0xff]:
        for how in (0, 1, 2, 3, 4):
            for fl in (0, F.VERIFY_MINIMALDATA):
                yield c_eval(fl, "B", CTX0, push_as(bytes([v]), how), tag="minimal-push")
    for n in (65535, 65536):
        yield c_eval(F.VERIFY_MINIMALDATA, "B", CTX0, o("0", "IF") + push_as(b"\x01" * n, 4)[:9990], tag="pushsize-dead")
    for raw in ("4effffffff00", "4e00000080", "4e0000008001", "4dffff", "4dffff01", "4cff", "4c", "4d", "4d01", "4e", "4e010000", "4b00"):
        for pre in (b"", o("0", "IF"), o("1", "IF")):
            for fl in (0, F.VERIFY_MINIMALDATA):
                yield c_eval(fl, "B", CTX0, pre + bytes.fromhex(raw), tag="push-truncated")
    # initial stack items longer than 520 bytes are not checked by the VM
    yield c_eval(0, "B", CTX0, o("SIZE"), [b"\x01" * 521], tag="initial-item")
    yield c_eval(0, "B", CTX0, o("DUP", "SHA256", "SWAP", "VERIFY"), [b"\x01" * 600], tag="initial-item")


def cond_cases(rng, tier):
    """balanced and unbalanced conditionals, exhaustively for short sequences"""
    toks = [o("IF"), o("NOTIF"), o("ELSE"), o("ENDIF"), o("1"), o("0")]
    import itertools
    maxlen = 5 if tier == "quick" else 6
    for n in range(0, maxlen + 1):
        for seq in itertools.product(range(len(toks)), repeat=n):
            if n >= 5 and rng.random() < (0.75 if tier == "quick" else 0.5):
                continue
            s = b"".join(toks[i] for i in seq)
            yield c_eval(0, "B", CTX0, s + o("1"), [b"\x01", b"", b"\x01"], tag="cond-exhaustive")
    for v in NUMS + [b"\x02", b"\x01\x00", b"\x00\x00\x80", b"abc"]:
        for opn in ("IF", "NOTIF"):
            for fl in (0, F.VERIFY_MINIMALIF, F.VERIFY_MINIMALDATA):
                for sv in "BW":
                    yield c_eval(fl, sv, CTX0, push(v) + o(opn, "2", "ELSE", "3", "ENDIF"), tag="minimalif")


def grammar_cases(rng, tier):
    n = 6000 if tier == "quick" else 300000
    fc = FlagCycle(rng, SUB_VM)
    for _ in range(n):
        GEN["flags"] = fl = fc.next()
        s, init = gen_script(rng)
        GEN["flags"] = 0
        yield c_eval(fl, rng.choice("BBBW"), rng.choice(CTXS), s, init, tag="grammar")


def sig_eval_cases(rng, tier):
    n = 1500 if tier == "quick" else 60000
    fc = FlagCycle(rng, SUB_SIG)
    for _ in range(n):
        sv = rng.choice("BBW")
        GEN["clean"] = rng.random() < 0.3
        cb, script, stack = sig_script_case(rng, sv)
        GEN["clean"] = False
        fl = fc.next()
        yield c_eval(fl, sv, cb, script, stack, tag="sig")
        if rng.random() < 0.3:
            yield c_eval(fc.next(), sv, cb, script, stack, tag="sig")
    # weird public keys and garbage signatures against every encoding flag combination of interest
    key = sec(3)
    script = push(key) + o("CHECKSIG")
    good = make_sig(CTX0, "B", script, 3)
    for fl in SUB_SIG if tier == "thorough" else SUB_SIG[::3]:
        for wk in WEIRD_KEYS:
            sc2 = push(wk) + o("CHECKSIG")
            yield c_eval(fl, "B", CTX0, sc2, [good], tag="weird-key")
            yield c_eval(fl, "W", CTX0, sc2, [b""], tag="weird-key")
        for gs in GARBAGE_SIGS:
            yield c_eval(fl, "B", CTX0, script, [gs], tag="garbage-sig")
            yield c_eval(fl, "B", CTX0, o("0") + push(gs) + o("1") + push(key) + o("1", "CHECKMULTISIG"), tag="garbage-sig")


# ---- level 3: Tx.check_solution ---------------------------------------------------------------------------
def spend_case(rng):
    """one (cb, scriptSig, scriptPubKey, witness) with real signatures, and a list of malleations"""
    cb = rng.choice(CTXS)
    ks = rng.sample(SECRETS, 3)
    kind = rng.choice(["p2pk", "p2pkh", "multisig", "p2sh_multisig", "p2sh_p2pk", "p2wpkh", "p2wpkh", "p2wsh", "p2wsh", "p2wsh_big",
                       "p2sh_p2wpkh", "p2sh_p2wsh", "future", "future", "bare_script", "p2sh_script", "p2wsh_script",
                       "wrong_len_v0", "lookalike"])
    nb = BitcoinVM.IntStreamer.int_to_script_bytes

    def multisig_script(n, m, allk):
        return push(nb(m)) + b"".join(push(sec(k)) for k in allk[:n]) + push(nb(n)) + o("CHECKMULTISIG")

    ssig, spk, wit = b"", b"", []
    if kind == "p2pk":
        key = rnd_key(rng, ks[0])
        spk = push(key) + o("CHECKSIG")
        ssig = rnd_push(rng, rnd_sig(rng, cb, "B", spk, ks[0]))
    elif kind == "p2pkh":
        key = rnd_key(rng, ks[0])
        spk = o("DUP", "HASH160") + push(ORACLES_H160(key)) + o("EQUALVERIFY", "CHECKSIG")
        ssig = rnd_push(rng, rnd_sig(rng, cb, "B", spk, ks[0])) + push(key)
    elif kind == "multisig":
        n = rng.choice([1, 2, 3])
        m = rng.randint(1, n)
        spk = multisig_script(n, m, ks)
        ssig = rng.choice([o("0"), o("0"), o("1"), b"\x01\x00"]) + b"".join(push(rnd_sig(rng, cb, "B", spk, k)) for k in ks[:m])
    elif kind in ("p2sh_multisig", "p2sh_p2pk", "p2sh_script"):
        if kind == "p2sh_multisig":
            n = rng.choice([1, 2, 3])
            m = rng.randint(1, n)
            redeem = multisig_script(n, m, ks)
            pre = o("0") + b"".join(push(rnd_sig(rng, cb, "B", redeem, k)) for k in ks[:m])
        elif kind == "p2sh_p2pk":
            redeem = push(rnd_key(rng, ks[0])) + o("CHECKSIG")
            pre = push(rnd_sig(rng, cb, "B", redeem, ks[0]))
        else:
            redeem, init = gen_script(rng)
            pre = b"".join(rnd_push(rng, x) for x in init)
        h = ORACLES_H160(redeem) if rng.random() < 0.93 else b"\x13" * 20
        spk = o("HASH160") + push(h) + o("EQUAL")
        ssig = pre + rnd_push(rng, redeem)
    elif kind in ("p2wpkh", "p2sh_p2wpkh"):
        key = sec(ks[0], "c") if rng.random() < 0.75 else rnd_key(rng, ks[0])
        h = ORACLES_H160(key)
        code = o("DUP", "HASH160") + push(h) + o("EQUALVERIFY", "CHECKSIG")
        prog = o("0") + push(h)
        wit = [rnd_sig(rng, cb, "W", code, ks[0]), key]
        if rng.random() < 0.08:
            wit = rng.choice([wit[:1], wit + [b""], [], [wit[1], wit[0]]])
        if kind == "p2wpkh":
            spk = prog
        else:
            spk = o("HASH160") + push(ORACLES_H160(prog)) + o("EQUAL")
            ssig = push(prog)
    elif kind in ("p2wsh", "p2sh_p2wsh", "p2wsh_big", "p2wsh_script"):
        if kind == "p2wsh_script":
            ws, init = gen_script(rng)
            items = list(init)
        elif kind == "p2wsh_big":
            n = rng.choice([15, 16, 20])
            allk = (SECRETS * 2)[:n]
            ws = multisig_script(n, 1, allk)              # > 520 bytes from 16 keys on
            items = [b"", make_sig(cb, "W", ws, allk[rng.randrange(n)])]
        else:
            n = rng.choice([1, 2, 3])
            m = rng.randint(1, n)
            ws = rng.choice([multisig_script(n, m, ks), multisig_script(n, m, ks),
                             push(b"\x01") + o("IF") + multisig_script(n, m, ks) + o("ELSE", "0", "ENDIF")])
            items = [b""] + [rnd_sig(rng, cb, "W", ws, k) for k in ks[:m]]
            if ws[:1] == b"\x51" and b"\x63" in ws[:3]:
                items = items + [rng.choice([b"\x01", b"\x01", b"\x02", b"\x01\x00"])]
                ws = ws[1:] if rng.random() < 0.8 else ws
        if rng.random() < 0.06:
            items = items + [b"\x77" * rng.choice([520, 521])]
            ws = ws if rng.random() < 0.5 else o("DROP") + ws
        prog = o("0") + push(sha256(ws) if rng.random() < 0.95 else b"\x00" * 32)
        wit = items + [ws]
        if rng.random() < 0.04:
            wit = rng.choice([[], [ws][:0], items])
        if kind == "p2sh_p2wsh":
            spk = o("HASH160") + push(ORACLES_H160(prog)) + o("EQUAL")
            ssig = push(prog)
        else:
            spk = prog
    elif kind == "future":
        ver = rng.randint(1, 16)
        prog = bytes([0x50 + ver]) + push(rnd_bytes(rng, rng.choice([2, 3, 20, 32, 33, 40])))
        if rng.random() < 0.2:
            prog = bytes([0x50 + ver]) + rng.choice([push(b"\x01"), push(rnd_bytes(rng, 41)), push_as(rnd_bytes(rng, 32), 2), b"\x20" + b"\x01" * 31])
        wit = rng.choice([[], [], [b"\x01"], [b"", b"\x99" * 600]])
        if rng.random() < 0.3:
            spk = o("HASH160") + push(ORACLES_H160(prog)) + o("EQUAL")
            ssig = push(prog)
        else:
            spk = prog
    elif kind == "wrong_len_v0":
        prog = o("0") + push(rnd_bytes(rng, rng.choice([2, 19, 21, 31, 33, 40])))
        spk = prog
        wit = rng.choice([[], [b"\x01"], [b"\x01", b"\x02"]])
    elif kind == "lookalike":
        h = rnd_bytes(rng, 20)
        spk = rng.choice([b"\xa9\x13" + h + b"\x00\x87", b"\xa9\x14" + h + b"\x88", b"\xa9\x4c\x14" + h + b"\x87",
                          b"\xa9\x14" + h + b"\x87\x61", b"\x00\x4c\x14" + h, b"\x00\x14" + h + b"\x61", b"\x60\x14" + h,
                          b"\x4f\x14" + h, b"\x50\x14" + h, b"\x61\x14" + h])
        ssig = rng.choice([push(b"\x01"), push(h), b"", push(b"\x51")])
        wit = rng.choice([[], [], [b"\x01"]])
    else:  # bare_script
        spk, init = gen_script(rng)
        ssig = b"".join(rnd_push(rng, x) for x in init)
    return cb, ssig, spk, wit


def malleate(rng, cb, ssig, spk, wit):
    r = 0.0 if GEN["clean"] else rng.random()
    if r < 0.55:
        return cb, ssig, spk, wit
    if r < 0.62:
        return cb, rng.choice([o("NOP"), o("1"), push(b""), o("1", "DROP"), b"\x4c"]) + ssig, spk, wit
    if r < 0.68:
        return cb, ssig + rng.choice([o("NOP"), o("1"), o("0"), o("DUP", "DROP"), o("RESERVED")]), spk, wit
    if r < 0.74 and ssig:
        # re-push the last element non-minimally
        try:
            ops = []
            pc = 0
            while pc < len(ssig):
                opc, d, npc, ok = S.get_opcode(ssig, pc)
                ops.append((pc, npc, d))
                pc = npc
            pc0, npc0, d = ops[-1]
            if d is not None:
                return cb, ssig[:pc0] + push_as(bytes(d), rng.choice([2, 3, 4])), spk, wit
        except Exception:
            pass
        return cb, ssig, spk, wit
    if r < 0.80:
        return cb, ssig, spk, list(wit) + [rng.choice([b"", b"\x01", b"\x00" * 521])]
    if r < 0.85:
        return cb, ssig, spk, ([rng.choice([b"", b"\x01"])] + list(wit))
    if r < 0.90 and wit:
        w = list(wit)
        i = rng.randrange(len(w))
        w[i] = w[i] + b"\x00" if rng.random() < 0.5 else w[i][:-1]
        return cb, ssig, spk, w
    if r < 0.95:
        return cb, b"", spk, wit
    return cb, ssig, spk + rng.choice([o("NOP"), o("1"), o("DROP", "1")]), wit


def verify_cases(rng, tier):
    n = 2500 if tier == "quick" else 100000
    fc = FlagCycle(rng, SUB_SPEND)
    std = (F.VERIFY_P2SH | F.VERIFY_WITNESS | F.VERIFY_STRICTENC | F.VERIFY_DERSIG | F.VERIFY_LOW_S | F.VERIFY_NULLDUMMY |
           F.VERIFY_MINIMALDATA | F.VERIFY_CLEANSTACK | F.VERIFY_CHECKLOCKTIMEVERIFY | F.VERIFY_CHECKSEQUENCEVERIFY |
           F.VERIFY_MINIMALIF | F.VERIFY_NULLFAIL | F.VERIFY_WITNESS_PUBKEYTYPE)
    for _ in range(n):
        GEN["clean"] = rng.random() < 0.4
        cb, ssig, spk, wit = malleate(rng, *spend_case(rng))
        GEN["clean"] = False
        q = rng.random()
        fl = fc.next() if q < 0.5 else (std if q < 0.7 else (std ^ rng.choice(ALL_FLAGS)) if q < 0.85 else
                                        (F.VERIFY_P2SH | F.VERIFY_WITNESS | rng.getrandbits(16)))
        yield c_verify(fl, cb, ssig, spk, wit, tag="spend")
    # directed: clean spends of every kind, each under every malleation, standard flags and one cycled flag set
    kinds_seen = {}
    tries = 0
    want = 3 if tier == "quick" else 40
    GEN["clean"] = True
    bases = []
    while tries < 4000 and len(bases) < 19 * want:
        tries += 1
        st0 = rng.getstate()
        base = spend_case(rng)
        if impl_verify(std, *base) != "N":
            continue
        k = (len(base[1]) > 0, base[2][:1], len(base[3]) > 0, len(base[2]))
        if kinds_seen.get(k, 0) >= want:
            continue
        kinds_seen[k] = kinds_seen.get(k, 0) + 1
        bases.append(base)
    GEN["clean"] = False
    for base in bases:
        cb, ssig, spk, wit = base
        last_push = None
        try:
            pc = 0
            while pc < len(ssig):
                opc, d, npc, ok = S.get_opcode(ssig, pc)
                last_push = (pc, d)
                pc = npc
        except Exception:
            pass
        variants = [base,
                    (cb, o("NOP") + ssig, spk, wit), (cb, ssig + o("NOP"), spk, wit), (cb, o("1") + ssig, spk, wit),
                    (cb, o("1", "DROP") + ssig, spk, wit), (cb, push(b"") + ssig, spk, wit), (cb, b"", spk, wit),
                    (cb, ssig, spk, list(wit) + [b""]), (cb, ssig, spk, [b"\x01"] + list(wit)), (cb, ssig, spk, []),
                    (cb, ssig, spk, list(wit)[:-1]), (cb, ssig, spk + o("NOP"), wit), (cb, ssig, spk + o("1"), wit),
                    (cb, ssig, spk, list(wit)[:-1] + [list(wit)[-1] + b"\x61"] if wit else []),
                    (cb, ssig, spk, [b"\x00" * 521] + list(wit))]
        if last_push and last_push[1] is not None:
            for how in (2, 3, 4):
                variants.append((cb, ssig[:last_push[0]] + push_as(bytes(last_push[1]), how), spk, wit))
        for v in variants:
            yield c_verify(std, *v, tag="spend-directed")
            yield c_verify(fc.next(), *v, tag="spend-directed")
            yield c_verify(std & ~rng.choice([F.VERIFY_P2SH, F.VERIFY_WITNESS, F.VERIFY_CLEANSTACK, F.VERIFY_MINIMALDATA]), *v,
                           tag="spend-directed")
    # fixed regression shapes of the repaired defects (KNOWN_FINDINGS.txt `fixed:` lines)
    pw = F.VERIFY_P2SH | F.VERIFY_WITNESS
    prog32 = o("1") + push(b"\x05" * 32)
    yield c_verify(pw | F.VERIFY_CLEANSTACK, CTX0, b"", prog32, [], tag="fixed-cleanstack-future")
    yield c_verify(pw | F.VERIFY_CLEANSTACK, CTX0, b"", prog32, [b"\x09" * 600], tag="fixed-future-item")
    ws = o("1")
    yield c_verify(pw, CTX0, o("NOP"), o("0") + push(sha256(ws)), [ws], tag="fixed-malleated")
    yield c_verify(pw, CTX0, push_as(o("0") + push(sha256(ws)), 2), o("HASH160") + push(ORACLES_H160(o("0") + push(sha256(ws)))) + o("EQUAL"),
                   [ws], tag="fixed-malleated-p2sh")
    yield c_verify(F.VERIFY_STRICTENC, CTX0, o("0"), push(b"\x01\x02\x03") + o("CHECKSIG", "NOT"), [], tag="fixed-empty-sig-pubkey")
    yield c_verify(pw | F.VERIFY_WITNESS_PUBKEYTYPE, CTX0, b"", o("0") + push(sha256(o("0", "CHECKSIG", "NOT"))),
                   [b"", o("0", "CHECKSIG", "NOT")], tag="fixed-witness-pubkeytype")
    yield c_verify(0, CTX0, push(b"\x30\x01"), push(sec(1)) + o("CHECKSIG", "NOT"), [], tag="fixed-der-ord")
    for spk in (b"\xa9\x13" + b"\x00" * 20 + b"\x87", b"\xa9\x14" + b"\x00" * 20 + b"\x87"):
        yield c_verify(pw, CTX0, o("1") + push(o("1")), spk, [], tag="fixed-p2sh-shape")


def step_cases(rng, tier):
    """single eval_instruction from arbitrary states: limits and dead branches"""
    n = 500 if tier == "quick" else 20000
    fc = FlagCycle(rng, SUB_VM)
    for _ in range(n):
        s, init = gen_script(rng)
        if not s:
            continue
        pcs = []
        pc = 0
        try:
            while pc < len(s):
                pcs.append(pc)
                pc = S.get_opcode(s, pc)[2]
        except Exception:
            pass
        pc = rng.choice(pcs)
        t, f = rng.choice([(0, 0), (0, 0), (1, 0), (0, 1), (2, 2), (0, 3)])
        depth = rng.choice([0, 1, 2, 3, 5, 999, 1000, 1001])
        st = [rnd_num(rng) for _ in range(depth)] if depth < 10 else [b"\x01"] * depth
        alt = rng.choice([[], [], [b"\x01"], [b"\x02"] * 2])
        yield c_step(fc.next(), rng.choice("BW"), rng.choice(CTXS), s, pc, st, alt, t, f, rng.choice([0, 5, 199, 200, 201, 202]),
                     rng.choice([0, 0, pc]), tag="step")


def fuzz_cases(rng, tier):
    """crash hunt: raw random bytes as scripts (weighted towards signature / stack opcodes) on stacks of blobs that
    look like numbers, keys and signatures; random 16-bit flag sets; eval and verify level"""
    n = 1500 if tier == "quick" else 120000
    key = sec(5)
    sc0 = push(key) + o("CHECKSIG")
    sigs = [make_sig(CTX0, "B", sc0, 5), make_sig(CTX0, "B", sc0, 5, 1, "highs"), make_sig(CTX0, "B", sc0, 5, 1, "padded")] + GARBAGE_SIGS
    keys = [key, sec(5, "u"), sec(5, "h")] + WEIRD_KEYS
    hot = [0xac, 0xad, 0xae, 0xaf, 0xab, 0x63, 0x64, 0x67, 0x68, 0x76, 0x7c, 0x75, 0x51, 0x00, 0x52, 0x69, 0x87, 0x91, 0xb1, 0xb2,
           0x6b, 0x6c, 0x79, 0x7a, 0x82, 0xa9, 0x93]
    for i in range(n):
        ln = rng.choice([1, 2, 3, 4, 6, 8, 12, 20, 40])
        b = bytearray()
        while len(b) < ln:
            r = rng.random()
            if r < 0.45:
                b.append(rng.choice(hot))
            elif r < 0.6:
                b += push(rng.choice(sigs + keys + NUMS))
            else:
                b.append(rng.getrandbits(8))
        st = [rng.choice(sigs + keys + NUMS + BLOBS[:9]) for _ in range(rng.choice([0, 1, 2, 3, 4, 6]))]
        fl = rng.getrandbits(16)
        if rng.random() < 0.35:      # make a signature check likely
            st.append(rng.choice(sigs))
            b = bytearray(push(rng.choice(keys))) + (bytearray([rng.choice([0xac, 0xac, 0xad])]) if rng.random() < 0.6 else bytearray()) + b
        if i % 3:
            yield c_eval(fl, rng.choice("BW"), rng.choice(CTXS), bytes(b), st, tag="fuzz")
        else:
            cut = rng.randint(0, len(b))
            yield c_verify(fl, rng.choice(CTXS), b"".join(push(x) for x in st) + bytes(b[:cut]), bytes(b[cut:]),
                           st[:rng.choice([0, 0, 1, 2])], tag="fuzz")


def onebyte_sig_cases(rng, tier):
    """one-byte signature blobs 01..10 / 81: their plain push `01 vv` (what _delete_signature removes since 2ba5b6d)
    differs from the minimal push OP_1..OP_16 / OP_1NEGATE; inside CHECKMULTISIG batches next to a real signature,
    in scripts that contain the OP_n form, the plain form, or both"""
    nb = BitcoinVM.IntStreamer.int_to_script_bytes
    k1, k2 = SECRETS[0], SECRETS[1]
    fls = [0, F.VERIFY_NULLFAIL, F.VERIFY_NULLDUMMY | F.VERIFY_DERSIG, F.VERIFY_STRICTENC | F.VERIFY_LOW_S]
    for v in list(range(1, 17)) + [0x81, 0x00, 0x11, 0x80]:
        blob = bytes([v])
        opn = push(blob)                      # OP_n / OP_1NEGATE where one exists
        plain = b"\x01" + blob
        for pre in (opn + o("DROP"), plain + o("DROP"), opn + plain + o("2DROP"), b""):
            for tail in (o("CHECKMULTISIG"), o("CHECKMULTISIG", "NOT")):
                ms = pre + push(nb(2)) + push(sec(k1)) + push(sec(k2)) + push(nb(2)) + tail
                for sv in "BW":
                    for code in (ms, ms.replace(opn, b"", 1) if opn != plain else ms, ms.replace(plain, b"", 1)):
                        real = make_sig(CTX0, sv, code, k2)
                        for stack in ([b"", blob, real], [b"", real, blob]):
                            yield c_eval(rng.choice(fls), sv, CTX0, ms, stack, tag="onebyte-sig")
                one = pre + push(nb(1)) + push(sec(k1)) + push(sec(k2)) + push(nb(2)) + tail
                yield c_eval(rng.choice(fls), "B", CTX0, one, [b"", blob], tag="onebyte-sig")
            # single CHECKSIG with the one-byte blob as THE signature
            cs = pre + push(sec(k1)) + o("CHECKSIG", "NOT")
            for fl in fls:
                yield c_eval(fl, "B", CTX0, cs, [blob], tag="onebyte-sig")
            # as scriptPubKey of a spend
            yield c_verify(rng.choice(fls), CTX0, push(b"") + push(blob), pre + push(nb(1)) + push(sec(k1)) + push(nb(1)) +
                           o("CHECKMULTISIG", "NOT"), tag="onebyte-sig")


def undecodable_cases(rng, tier):
    """script codes that do not decode to the end (a truncated push): delete_subscript stops at the bad instruction and
    keeps the rest as it is (commit 50939fb).  A script with a truncated push can never finish eval_script, so these are
    single handler calls (CHECKSIG / CHECKMULTISIG with pc before the bad instruction) plus a few evals that must fail.
    A = decodable part (signature pushes, OP_CODESEPARATORs), then `4b xx` (push of 75 with fewer bytes left), then B."""
    nb = BitcoinVM.IntStreamer.int_to_script_bytes
    k1, k2 = SECRETS[2], SECRETS[3]
    key1, key2 = sec(k1), sec(k2)
    fls = [0, F.VERIFY_NULLFAIL, F.VERIFY_DERSIG | F.VERIFY_LOW_S | F.VERIFY_STRICTENC, F.VERIFY_NULLDUMMY]
    tails = [b"", o("CODESEPARATOR"), o("CODESEPARATOR", "NOP", "CODESEPARATOR"), b"\x00\x00", push(b"\x07" * 20), o("1", "CODESEPARATOR", "0")]
    for cb in ((CTX0,) if tier == "quick" else (CTX0, CTXS[2])):
        # each bad instruction is padded so that the next pc a walking decoder would use (pc+2, +3, +4, +6) is where B starts
        for bad in ((b"\x4b\x99", b"\x4c\x60\x99", b"\x4d\x60\x00\x99", b"\x4e\x60\x00\x00\x00\x99") if tier == "quick" else
                    (b"\x4b\x99", b"\x4c\x60\x99", b"\x4d\x60\x00\x99", b"\x4e\x60\x00\x00\x00\x99", b"\x4c\x50", b"\x4c",
                     b"\x4d\x60\x00", b"\x4d\x01")):
            for tail in tails:
                for a_pre in (b"", o("CODESEPARATOR"), o("NOP", "CODESEPARATOR", "NOP")):
                    for ht in ((1, 0x83) if (tier != "quick" or not a_pre) else (1,)):
                        # (1) the signature push sits BEFORE the bad instruction: deleted; the rest stays
                        a_rest = a_pre + o("DROP") + push(key1) + o("CHECKSIG")
                        code = a_rest + bad + tail
                        s1 = make_sig(cb, "B", code, k1, ht)
                        script = push(s1) + a_rest + bad + tail
                        pc = len(push(s1)) + len(a_rest)
                        for bch in (0, len(push(s1)) + len(a_pre) if a_pre else 0):
                            s1b = make_sig(cb, "B", script[bch:].replace(push(s1), b"", 1) if bch == 0 else script[bch:], k1, ht)
                            yield c_handler(OP["CHECKSIG"], rng.choice(fls), "B", cb, script, pc, [s1, key1], bch=bch, tag="undecodable")
                            yield c_handler(OP["CHECKSIG"], rng.choice(fls), "B", cb, script, pc, [s1b, key1], bch=bch, tag="undecodable")
                            yield c_handler(OP["CHECKSIG"], rng.choice(fls), "W", cb, script, pc,
                                            [make_sig(cb, "W", script[bch:], k1, ht), key1], bch=bch, tag="undecodable")
                        # (2) a signature push sits AFTER the bad instruction, aligned for a walk that would go on:
                        #     signatures made for the script with that push deleted must NOT verify any more
                        a2 = a_pre + push(nb(2)) + push(key1) + push(key2) + push(nb(2)) + o("CHECKMULTISIG")
                        without = a2 + bad + tail
                        t1 = make_sig(cb, "B", without, k1, ht)
                        t2 = make_sig(cb, "B", without, k2, ht)
                        script2 = a2 + bad + push(t1) + tail
                        st = [b"", t1, t2, nb(2), key1, key2, nb(2)]
                        yield c_handler(OP["CHECKMULTISIG"], rng.choice(fls), "B", cb, script2, len(a2), st, tag="undecodable")
                        u1 = make_sig(cb, "B", script2, k1, ht)      # made for the script as it is
                        u2 = make_sig(cb, "B", script2, k2, ht)
                        yield c_handler(OP["CHECKMULTISIG"], rng.choice(fls), "B", cb, script2, len(a2),
                                        [b"", u1, u2, nb(2), key1, key2, nb(2)], tag="undecodable")
                        yield c_handler(OP["CHECKSIG"], rng.choice(fls), "B", cb, a_pre + bad + push(t1) + tail, len(a_pre),
                                        [make_sig(cb, "B", a_pre + bad + tail, k1, ht), key1], tag="undecodable")
                    # whole-script runs always end in "malformed data"
                    yield c_eval(rng.choice(fls), "B", cb, push(key1) + o("CHECKSIG") + a_pre + bad + tail,
                                 [make_sig(cb, "B", push(key1) + o("CHECKSIG") + a_pre + bad + tail, k1)], tag="undecodable")


def model_cases(rng, tier):
    """the C03 model-vs-implementation correspondence cases (driver C03model)"""
    for g in (undecodable_cases, onebyte_sig_cases, handler_cases, locktime_cases, exhaustive_opcode_cases, cond_cases, limit_cases, step_cases,
              sig_eval_cases, grammar_cases, verify_cases, fuzz_cases):
        for c in g(rng, tier):
            yield c


# ---- search support for the coordinator ---------------------------------------------------------------------
def _tok_bytes(t):
    return bytes.fromhex(t[1:])


def _tok_int(t):
    return -int(t[2:], 16) if t.startswith("i-") else int(t[1:], 16)


def _tok_list(t):
    return [] if t == "[]" else [_tok_bytes(x) for x in t[1:-1].split(",")]


def parse_case(line: str):
    """driver line -> dict (kind, flags, sv, ctx, script / script_sig, script_pubkey, witness, stack ...)"""
    t = line.split(" ")
    if t[0] == "eval":
        return {"kind": "eval", "flags": _tok_int(t[1]), "sv": t[2], "ctx": _tok_bytes(t[3]), "script": _tok_bytes(t[4]),
                "stack": _tok_list(t[5])}
    if t[0] == "verify":
        return {"kind": "verify", "flags": _tok_int(t[1]), "ctx": _tok_bytes(t[2]), "script_sig": _tok_bytes(t[3]),
                "script_pubkey": _tok_bytes(t[4]), "witness": _tok_list(t[5])}
    if t[0] == "handler":
        # as an eval of the one-opcode script on that stack (conditional state and counters dropped)
        return {"kind": "eval", "flags": _tok_int(t[2]), "sv": t[3], "ctx": _tok_bytes(t[4]),
                "script": bytes([_tok_int(t[1])]), "stack": _tok_list(t[7]), "from": "handler"}
    if t[0] == "step":
        s = _tok_bytes(t[4])
        return {"kind": "eval", "flags": _tok_int(t[1]), "sv": t[2], "ctx": _tok_bytes(t[3]), "script": s[_tok_int(t[5]):],
                "stack": _tok_list(t[6]), "from": "step"}
    return None


def search_from_disagreements(disagreements, rng=None, limit=400):
    """Neighbourhood of the disagreeing correspondence cases, as parsed inputs (dicts of parse_case) for the
    coordinator's property predicate (implementation verdict vs Core-spec verdict): the case itself, the same
    case under single-flag toggles and under the empty / standard flag sets, with the last opcode dropped, and
    for spends the same scripts with an emptied scriptSig / witness."""
    out, seen = [], set()

    def add(d):
        k = repr(sorted(d.items()))
        if k not in seen and len(out) < limit:
            seen.add(k)
            out.append(d)

    for dis in disagreements[:40]:
        d = parse_case(dis["case"])
        if d is None:
            continue
        add(d)
        for f in [0] + ALL_FLAGS:
            add(dict(d, flags=(d["flags"] ^ f) if f else 0))
        if d["kind"] == "eval":
            s = d["script"]
            for cut in (1, 2):
                if len(s) > cut:
                    add(dict(d, script=s[:-cut]))
            add(dict(d, sv="W" if d["sv"] == "B" else "B"))
            if d["stack"]:
                add(dict(d, stack=d["stack"][:-1]))
        else:
            add(dict(d, script_sig=b""))
            add(dict(d, witness=[]))
            add(dict(d, witness=d["witness"][:-1]))
    return out


def case_from_dict(d):
    """the inverse of parse_case for eval / verify inputs: a Case that can be run again"""
    if d["kind"] == "eval":
        return c_eval(d["flags"], d["sv"], d["ctx"], d["script"], d["stack"], tag="replay")
    return c_verify(d["flags"], d["ctx"], d["script_sig"], d["script_pubkey"], d["witness"], tag="replay")
