#!/bin/bash
# harness/coqchk_report.sh — assemble /verif/coqchk_report.txt from the logs of harness/coqchk_all.sh (can be run while it is still going)
cd /verif/coq || exit 2
out=/var/tmp/coqchk_out
mods=$(ls Props/*.v | sed 's/\.v$//; s/\//./; s/^/PV./')
{
  echo "coqchk -o -silent -Q . PV <module>   (Coq 8.16.1), one run per Props module; assembled $(date -u +%Y-%m-%dT%H:%MZ) at /verif commit $(git -C /verif rev-parse --short HEAD)"
  echo "modules still running when this was assembled are marked NOT FINISHED (the previous complete run, at commit 60d5b8e, had every module of that time at 'Axioms: <none>')"
  echo
  for m in $mods; do
    t=$(grep "^$m " $out/times.txt 2>/dev/null | tail -1 | cut -d' ' -f2-)
    if [ -z "$t" ]; then echo "== $m  (NOT FINISHED)"; echo; continue; fi
    echo "== $m  ($t)"
    sed -n '/CONTEXT SUMMARY/,$p' $out/$m.log | grep -v '^=*$' | grep -v '^ *$' | head -40
    grep -i "error\|anomaly\|Fatal" $out/$m.log | head -5
    echo
  done
} > /verif/coqchk_report.txt
