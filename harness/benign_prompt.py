#!/usr/bin/env python3
"""print the prompt for a *benign-change* sub-agent: behaviour-preserving edits near a property's anchors; property text + its own
scratch worktree, nothing from /verif.  Used to measure false alarms (a check must stay quiet on code where the property holds)."""
import json, sys, subprocess, os
pids = sys.argv[1:]
out = []
for pid in pids:
    wt = "/tmp/seed_%s_n" % pid
    if not os.path.exists(wt):
        subprocess.run(["git", "-C", "/repo", "worktree", "add", "--detach", wt, "HEAD"], check=True, stdout=subprocess.DEVNULL, stderr=subprocess.DEVNULL)
    p = [json.loads(l) for l in open("/verif/properties.jsonl") if json.loads(l)["id"] == pid][0]
    out.append("""PROPERTY %(id)s — %(title)s  (worktree: %(wt)s)
Statement: %(statement)s
Quantified over: %(quant)s
Code it is anchored in: %(anchors)s
""" % dict(wt=wt, id=pid, title=p["title"], statement=p["statement"], quant=p["quantifier"]["text"], anchors=json.dumps(p["anchors"]["mechanism"])))
print("""You are helping to measure FALSE ALARMS of a regression-detection system for the Python library pycoin (richardkiss/pycoin).
For each property below you have a scratch git worktree of the repository (work ONLY in those worktrees; never touch /repo or /verif, do not read
anything under /verif, never use `git stash`).  Run Python as `cd <wt> && PYTHONPATH=<wt> PYTHONHASHSEED=0 /venv/bin/python ...` (a conda WARNING
on stderr is harmless).  The existing test suite: `cd <wt> && PYTHONPATH=<wt> /venv/bin/python -m pytest -q -p no:cacheprovider --timeout=900 -q`
(about 30-60 s; a few network/cmdline tests fail already on the unchanged tree — compare against a run on the unchanged worktree first).  No network.

TASK: for EACH property produce TWO different, realistic, **behaviour-preserving** changes to the code the property is anchored in — the kind of
harmless edit a maintainer makes all the time: renaming a local variable or private helper, extracting or inlining a helper function,
reordering independent statements, replacing a loop by a comprehension (or back), rewriting an expression into an equivalent one
(`x % n` computed once, `a << 8 | b` vs `a * 256 + b`, early return vs nested if), adding a docstring/comment/type hints, moving a constant
into a module-level name, turning a lambda into a def, changing how a table is spelled (dict literal vs dict(zip(..)) with the SAME content),
modernising syntax (f-strings, `super()`), adding an unused keyword parameter with a default, adding an lru_cache-free fast path that returns
the same result, etc.  The observable behaviour of every public function and method (results AND exception types for ALL inputs, including
unusual ones) must remain exactly the same, so the property still holds after the change.  Prefer edits INSIDE the anchored functions and the
tables they use (those are what the detection system looks at), each 5–40 changed lines, of different kinds; at least one per property should
restructure code (not just rename/comment).  Verify: the test suite has the same pass/fail set with the change; and spot-check with a few
dozen inputs (including edge cases) that old and new code give identical results.
For each property <id> and change k = 1, 2 write the directory <wt>/seed_out/k/ containing:
  patch.diff — `git diff` of the change against the unchanged worktree (only source files under pycoin/, not tests),
  meta.json  — {"property": "<id>", "benign": true, "summary": one sentence, "files": [...], "why_equivalent": a short argument that behaviour
                is unchanged for all inputs, "ran": what you ran and the outcome}.
After writing each seed_out/k, RESTORE the worktree source (`git -C <wt> checkout -- pycoin`) before the next change; leave every worktree
source unmodified at the end (only seed_out/ added).  Final answer: one line per change.

""" + "\n".join(out))
