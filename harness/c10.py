"""C10 — key and signature encodings (WIF, SEC, DER) are lossless and strict."""
from common import *
import importlib, pkgutil, io, contextlib, hashlib as _hl
from pycoin.satoshi import der
from pycoin.satoshi.checksigops import check_valid_signature
from pycoin.encoding import sec as secm
from pycoin.encoding.bytes32 import to_bytes_32, from_bytes_32
from pycoin.ecdsa.Generator import Generator
from pycoin.ecdsa.secp256k1 import secp256k1_generator as K1
from pycoin.ecdsa.secp256r1 import secp256r1_generator as R1
from pycoin.key.Key import Key, InvalidSecretExponentError, InvalidPublicPairError
import pycoin.symbols as _symbols

PROP = "C10"
EXTRA_PROPS = ["C10compose"]   # composition theorems (see DESIGN.md section 0)
DRIVER = "C10"
RULE = ("correspondence: one driver line per call of the modelled function (sigencode_der, sigdecode_der, encode_integer, "
        "encode_length, read_length, remove_integer, remove_sequence, check_valid_signature-vs-BIP66 spec, to_bytes_32, "
        "public_pair_to_sec, sec_to_public_pair, points_for_x, Key.from_sec, Key(public_pair) for tuple/list/Point presentations "
        "(key_public_arg), bytes-like presentations of SEC/DER blobs and int presentations (the *_arg lines), "
        "the same blob under several curves in sequence (history), Key(secret_exponent), "
        "Key.wif payload, ParseAPI.wif on a payload); distinct = distinct line; non-trivial = the model returns a value")
PARTIAL = [
    "C10_der_roundtrip carries the hypothesis der_expressible (signature body shorter than 256^127 bytes: the limit of "
    "the DER long form itself, beyond any byte string that can exist); no pycoin finding is excluded",
    "SEC round trip keeps `prime p` and the Fermat premise as hypotheses (proved by computation for p = 251 only)",
    "WIF: the Base58Check layer is a quantified pair with a round-trip hypothesis (property C11); hash160/address of the "
    "re-parsed key are compared on the implementation only (direct checks), the public point e*G is C02's subject",
    "GRS/GRSRT/TGRS: groestlcoin_hash is not installed, their WIF text layer cannot run; prefixes are in the table only",
]
TRUSTED = [
    "int.to_bytes/from_bytes(…, 'big'), '%x' formatting + unhexlify, bytes slicing, pow(a, e, m) modelled by hand "
    "(square-and-multiply with a proved a^e mod m specification)",
    "harness-side Base58Check encoder (hashlib) used to feed ParseAPI.wif with arbitrary payloads",
]

P1, A1, B1, N1 = K1.p(), K1._a, K1._b, K1.order()


# ---- helpers ---------------------------------------------------------------------------------------
_B58 = "123456789ABCDEFGHJKLMNPQRSTUVWXYZabcdefghijkmnopqrstuvwxyz"


def b58check(data: bytes) -> str:
    """independent Base58Check encoder"""
    full = data + _hl.sha256(_hl.sha256(data).digest()).digest()[:4]
    v = int.from_bytes(full, "big")
    s = ""
    while v:
        v, r = divmod(v, 58)
        s = _B58[r] + s
    return "1" * (len(full) - len(full.lstrip(b"\0"))) + s


def b58check_decode(s: str):
    v = 0
    for ch in s:
        v = v * 58 + _B58.index(ch)
    pad = len(s) - len(s.lstrip("1"))
    raw = b"\0" * pad + (v.to_bytes((v.bit_length() + 7) // 8, "big") if v else b"")
    data, chk = raw[:-4], raw[-4:]
    if _hl.sha256(_hl.sha256(data).digest()).digest()[:4] != chk:
        raise ValueError("bad checksum")
    return data


def _is_prime(n):
    if n < 2:
        return False
    for q in (2, 3, 5, 7, 11, 13, 17, 19, 23, 29, 31, 37):
        if n % q == 0:
            return n == q
    d, r = n - 1, 0
    while d % 2 == 0:
        d //= 2
        r += 1
    for a in (2, 3, 5, 7, 11, 13, 17, 19, 23, 29, 31, 37, 41, 43, 47, 53):
        x = pow(a, d, n)
        if x in (1, n - 1):
            continue
        for _ in range(r - 1):
            x = x * x % n
            if x == n - 1:
                break
        else:
            return False
    return True


def _ec_add(p, a, P, Q):
    if P is None:
        return Q
    if Q is None:
        return P
    if P[0] == Q[0] and (P[1] + Q[1]) % p == 0:
        return None
    if P == Q:
        l = (3 * P[0] * P[0] + a) * pow(2 * P[1], p - 2, p) % p
    else:
        l = (Q[1] - P[1]) * pow(Q[0] - P[0], p - 2, p) % p
    x = (l * l - P[0] - Q[0]) % p
    return (x, (l * (P[0] - x) - P[1]) % p)


def _point_order(p, a, P):
    k, Q = 1, P
    while Q is not None:
        Q = _ec_add(p, a, Q, P)
        k += 1
    return k


_ENT = lambda n: b"\x01" * n
_TOYS = {}


def toy_generator(p, a, b):
    """a pycoin Generator over F_p (p = 3 mod 4).  Small p: the group order is counted; large p: only
    y^2 = x^3 + b with p = 2 mod 3 is used, whose order is p + 1."""
    key = (p, a, b)
    if key in _TOYS:
        return _TOYS[key]
    assert p % 4 == 3 and _is_prime(p)
    if p < 3000:
        cnt = 1
        basis = None
        for x in range(p):
            al = (x * x * x + a * x + b) % p
            if al == 0:
                cnt += 1
            elif pow(al, (p - 1) // 2, p) == 1:
                cnt += 2
                if basis is None:
                    basis = (x, pow(al, (p + 1) // 4, p))
        order = _point_order(p, a, basis)
        assert cnt % order == 0
    else:
        assert a == 0 and p % 3 == 2
        order = p + 1
        x = 1
        while True:
            al = (x * x * x + b) % p
            y = pow(al, (p + 1) // 4, p)
            if y and y * y % p == al:
                basis = (x, y)
                break
            x += 1
    g = Generator(p, a, b, basis, order, entropy_f=_ENT)
    _TOYS[key] = g
    return g


def _prime_below(bits):
    """largest prime p < 2^bits with p = 11 (mod 12)"""
    p = (1 << bits) - 1
    while not (p % 12 == 11 and _is_prime(p)):
        p -= 1
    return p


SMALL_CURVES = [(251, 0, 7), (239, 3, 5), (1019, 1016, 6)]
MID_BITS = [16, 24, 32, 63, 64, 65, 127, 128]
_KEYCLS = {}


def key_class(g):
    k = id(g)
    if k not in _KEYCLS:
        _KEYCLS[k] = Key.make_subclass("T%d" % len(_KEYCLS), network=None, generator=g)
    return _KEYCLS[k]


def gen_args(g):
    return "%s %s %s" % (arg(g.p()), arg(g._a), arg(g._b))


def bc_of(g):
    return (g.p().bit_length() + 7) >> 3


def point_on(g, rng):
    """a random finite point of the curve of g (y may be 0 only by accident of the curve)"""
    p = g.p()
    while True:
        x = rng.randrange(p)
        al = (x * x * x + g._a * x + g._b) % p
        y = pow(al, (p + 1) // 4, p)
        if y * y % p == al:
            return (x, y if rng.random() < 0.5 else (p - y) % p)


def enc_w(v, w):
    return (v % (1 << (8 * w))).to_bytes(w, "big")


# ---- networks -----------------------------------------------------------------------------------------
def networks():
    """[(symbol, network, usable)] for every module of pycoin/symbols"""
    res = []
    for m in sorted(x.name for x in pkgutil.iter_modules(_symbols.__path__)):
        net = importlib.import_module("pycoin.symbols." + m).network
        usable = True
        try:
            with contextlib.redirect_stdout(io.StringIO()):
                net.wif_for_blob(b"\0" * 32)
        except ImportError:
            usable = False
        res.append((net.symbol, net, usable))
    return res


_NETS = None


def nets():
    global _NETS
    if _NETS is None:
        _NETS = networks()
    return _NETS


def usable_nets():
    return [(s, n) for s, n, u in nets() if u]


# ---- DER generators -----------------------------------------------------------------------------------
def _der_ints(rng, tier):
    out = [0, 1, 2, 0x7f, 0x80, 0x81, 0xff, 0x100, 0x7fff, 0x8000, 0xffff, 0x10000, -1, -255,
           N1 - 1, N1, N1 // 2, N1 // 2 + 1, P1, (1 << 256) - 1, 1 << 256, (1 << 255), (1 << 255) - 1]
    for k in list(range(0, 49, 8)) + list(range(240, 273, 8)) + [488, 496, 504, 1000, 1008, 1016, 1024, 2032, 2040, 2048]:
        for d in (-1, 0, 1):
            out.append((1 << k) + d)
            out.append((1 << (k - 1 if k else 0)) + d)
    out += [(1 << 1015) - 1, 1 << 1015, (1 << 1015) + 1, (1 << 1016) - 1, (1 << 2039) - 1, 1 << 2039, (1 << 2040) - 1]
    n = 300 if tier == "quick" else 6000
    for _ in range(n):
        nb = rng.choice([1, 2, 8, 16, 20, 31, 32, 32, 32, 33, 40, 61, 62, 63, 64, 100, 126, 127, 128, 130, 254, 255, 256, 260])
        v = rng.getrandbits(8 * nb)
        if rng.random() < 0.3:
            v |= 1 << (8 * nb - 1)
        if rng.random() < 0.2:
            v &= (1 << (8 * nb - 1)) - 1
        out.append(v)
    return [v for v in out if v > -1000]


def _sig_pairs(rng, tier):
    ints = _der_ints(rng, tier)
    small = [v for v in ints if 0 <= v < (1 << 300)]
    pairs = [(r, 1) for r in ints] + [(1, s) for s in (ints if tier != "quick" else ints[::3])]
    for _ in range(400 if tier == "quick" else 8000):
        pairs.append((rng.choice(small), rng.choice(small)))
    for _ in range(60 if tier == "quick" else 1500):
        pairs.append((rng.choice(ints), rng.choice(ints)))
    return pairs


def _valid_sigs(rng, k):
    out = []
    for _ in range(k):
        nb = rng.choice([1, 8, 20, 31, 32, 32, 32, 32, 33])
        r = rng.getrandbits(8 * nb) | rng.choice([0, 1 << (8 * nb - 1)])
        s = rng.getrandbits(8 * nb) | rng.choice([0, 1 << (8 * nb - 1)])
        out.append(der.sigencode_der(max(r, 1), max(s, 1)))
    return out


def _mutate_der(rng, b):
    """one mutation of a DER blob: length bytes, sign bytes, tags, truncation, trailing/inserted bytes"""
    b = bytearray(b)
    kind = rng.randrange(12)
    if kind == 0 and len(b) > 1:
        b[1] = rng.choice([0, 1, len(b) - 3, len(b) - 2, len(b) - 1, len(b), 0x7f, 0x80, 0x81, 0x82, 0x84, 0xff, b[1] ^ 1])
    elif kind == 1 and len(b) > 3:
        b[3] = rng.choice([0, 1, b[3] - 1, b[3] + 1, 0x7f, 0x80, 0x81, 0x82, 0xff]) & 0xff
    elif kind == 2 and len(b) > 3:
        i = 5 + b[3]
        if i < len(b):
            b[i] = rng.choice([0, 1, b[i] - 1, b[i] + 1, 0x7f, 0x80, 0x81, 0xff]) & 0xff
    elif kind == 3 and len(b) > 4:
        b[4] = rng.choice([0, 0x7f, 0x80, 0xff, b[4] ^ 0x80])
    elif kind == 4 and len(b) > 3:
        i = 6 + b[3]
        if i < len(b):
            b[i] = rng.choice([0, 0x7f, 0x80, 0xff, b[i] ^ 0x80])
    elif kind == 5:
        b = b[:rng.randrange(len(b) + 1)]
    elif kind == 6:
        b += bytes(rng.getrandbits(8) for _ in range(rng.choice([1, 1, 2, 5])))
    elif kind == 7 and len(b) > 2:
        i = rng.randrange(len(b))
        b[i] = rng.getrandbits(8)
    elif kind == 8 and len(b) > 2:
        i = rng.choice([0, 2, min(len(b) - 1, 4 + b[3])]) if len(b) > 3 else 0
        b[i] = rng.choice([0x30, 0x02, 0x03, 0x31, 0x00])
    elif kind == 9 and len(b) > 3:
        # long-form header
        body = bytes(b[2:])
        ll = rng.choice([1, 2, 3])
        b = bytearray(b"\x30" + bytes([0x80 | ll]) + len(body).to_bytes(ll, "big") + body)
    elif kind == 10 and len(b) > 3:
        # insert a zero in front of r
        b = bytearray(bytes(b[:4]) + b"\x00" + bytes(b[4:]))
        b[3] = (b[3] + 1) & 0xff
        b[1] = (b[1] + 1) & 0xff
    else:
        i = rng.randrange(len(b) + 1)
        b = bytearray(bytes(b[:i]) + bytes([rng.getrandbits(8)]) + bytes(b[i:]))
    return bytes(b)


def _small_strings(maxlen, first=None):
    yield b""
    if maxlen >= 1:
        for a in range(256):
            yield bytes([a])
    if maxlen >= 2:
        for a in (range(256) if first is None else first):
            for c in range(256):
                yield bytes([a, c])


def _der_blobs(rng, tier):
    out = list(_small_strings(2, None if tier == "thorough" else [0, 1, 2, 3, 4, 0x30, 0x31, 0x7f, 0x80, 0x81, 0x82, 0xff]))
    for a in (0x30, 0x02):
        for c in (0, 1, 2, 3, 0x7f, 0x80, 0x81, 0x82, 0x83, 0xff):
            for d in (0, 1, 2, 0x30, 0x80, 0xff):
                out.append(bytes([a, c, d]))
                out.append(bytes([a, c, d, 1]))
                out.append(bytes([a, c, 2, d, 1, 2, 1, 1]))
    base = _valid_sigs(rng, 150 if tier == "quick" else 2500)
    out += base
    for b in base:
        for _ in range(6 if tier == "quick" else 12):
            m = _mutate_der(rng, b)
            if rng.random() < 0.3:
                m = _mutate_der(rng, m)
            out.append(m)
    # huge announced lengths (never converted to nat in the model)
    out += [b"\x30\x84\xff\xff\xff\xff\x02\x01\x01\x02\x01\x01", b"\x30\x06\x02\x84\xff\xff\xff\xff\x01\x02\x01\x01",
            b"\x30\x88" + b"\xff" * 8 + b"\x02\x01\x01\x02\x01\x01", b"\x30\x06\x02\x01\x01\x02\x88" + b"\xff" * 8 + b"\x01",
            b"\x30\x80", b"\x30\x80\x02\x01\x01\x02\x01\x01", b"\x30\x06\x02\x80\x01\x02\x01\x01", b"\x30\x04\x02\x00\x02\x00",
            b"\x30", b"\x30\x81", b"\x30\x02\x02", b"\x30\x03\x02\x01", b"\x30\x03\x02\x01\x01", b"\x30\x05\x02\x01\x01\x02"]
    for _ in range(300 if tier == "quick" else 8000):
        out.append(bytes(rng.choice([rng.getrandbits(8), 0x30, 0x02, 0x01, 0x00, 0x80, 0x81, 0x20, 0x21]) for _ in range(rng.randint(0, 14))))
    return out


# ---- SEC generators -----------------------------------------------------------------------------------
def _sec_blobs_for(g, rng, n_random, n_valid, compressed_budget):
    """candidate SEC blobs for generator g.  `compressed_budget` caps the blobs that make the model run a
    full-size modular exponentiation (compressed form, prefix 02/03, x < p)."""
    p = g.p()
    bc = bc_of(g)
    out = []
    budget = [compressed_budget]

    def add(b):
        if len(b) == 1 + bc and b[:1] in (b"\x02", b"\x03") and int.from_bytes(b[1:], "big") < p:
            if budget[0] <= 0:
                return
            budget[0] -= 1
        out.append(b)
    top = (1 << (8 * bc)) - 1
    xs_edge = [0, 1, 2, p - 2, p - 1, p, p + 1, top, top - 1, p // 2]
    for _ in range(n_valid):
        x, y = point_on(g, rng)
        xb, yb = enc_w(x, bc), enc_w(y, bc)
        add(bytes([2 + (y & 1)]) + xb)
        add(bytes([3 - (y & 1)]) + xb)
        out.append(b"\x04" + xb + yb)
        out.append(bytes([6 + (y & 1)]) + xb + yb)
        out.append(bytes([7 - (y & 1)]) + xb + yb)
        out.append(b"\x04" + xb + enc_w(p - y, bc))
        out.append(b"\x04" + xb + enc_w(y + 1, bc))
        out.append(b"\x04" + xb + enc_w(y + p, bc))
        out.append(b"\x04" + enc_w(x + p, bc) + yb)
        out.append(b"\x04" + xb + yb + b"\x00")
        out.append(b"\x04" + xb + yb[:-1])
        out.append(bytes([2 + (y & 1)]) + xb + b"\x00")
        out.append(bytes([2 + (y & 1)]) + xb[:-1])
        out.append(bytes([2 + (y & 1)]) + enc_w(x + p, bc))
        for pre in (0, 1, 5, 8, 0x82, 0xff):
            out.append(bytes([pre]) + xb)
            out.append(bytes([pre]) + xb + yb)
    for x in xs_edge:
        for pre in range(0, 8):
            if 0 <= x <= top:
                add(bytes([pre]) + enc_w(x, bc))
                for y in (0, 1, p - 1, p, p + 1, top):
                    if 0 <= y <= top:
                        out.append(bytes([pre]) + enc_w(x, bc) + enc_w(y, bc))
    lens = [0, 1, 2, bc - 1, bc, bc + 1, bc + 2, 2 * bc - 1, 2 * bc, 2 * bc + 1, 2 * bc + 2]
    for _ in range(n_random):
        ln = rng.choice(lens) if rng.random() < 0.7 else rng.randint(0, 70)
        ln = max(0, ln)
        b = bytearray(rng.getrandbits(8) for _ in range(ln))
        if ln:
            b[0] = rng.randrange(8) if rng.random() < 0.85 else rng.getrandbits(8)
        if ln > bc and rng.random() < 0.4:
            xv = rng.choice([p - 1, p, p + 1, top, rng.randrange(p)])
            b[1:1 + bc] = enc_w(xv, bc)
        if ln > 2 * bc and rng.random() < 0.4:
            yv = rng.choice([p - 1, p, p + 1, top, rng.randrange(p)])
            b[1 + bc:1 + 2 * bc] = enc_w(yv, bc)
        add(bytes(b))
    return out


def _impl_sec(g, blob, strict):
    r = secm.sec_to_public_pair(blob, g, strict=strict)
    return (int(r[0]), int(r[1]))


def _impl_from_sec(g, blob):
    k = key_class(g).from_sec(blob)
    pp = k.public_pair()
    return ((int(pp[0]), int(pp[1])), k.is_compressed())


def _impl_pts(g, x):
    a, b = g.points_for_x(x)
    return ((int(a[0]), int(a[1])), (int(b[0]), int(b[1])))


def _impl_key_public(g, x, y):
    k = key_class(g)(public_pair=(x, y))
    pp = k.public_pair()
    return (int(pp[0]), int(pp[1]))


def _impl_keys_public(x, y):
    """through the network API: network.keys.public(pair)"""
    k = _btc().keys.public((x, y))
    pp = k.public_pair()
    return (int(pp[0]), int(pp[1]))


def _btc():
    return dict(usable_nets())["BTC"]


def _impl_key_private(g, e):
    return key_class(g)(secret_exponent=e).secret_exponent()


def _impl_bip66(b):
    from pycoin.coins.SolutionChecker import ScriptError
    try:
        check_valid_signature(b)
        return True
    except ScriptError:
        return False


def _impl_wif_payload(net, se, c):
    k = net.keys.private(se, is_compressed=not c)    # the explicit argument of wif() must win
    return b58check_decode(k.wif(is_compressed=c))


def _impl_parse_wif(net, data):
    text = b58check(data) if data is not None else "1111"
    k = net.parse.wif(text)
    if k is None:
        return None
    return (k.secret_exponent(), k.is_compressed())


def _wif_payloads(prefix, rng, n):
    out = []
    edge = [0, 1, 2, N1 - 1, N1, N1 + 1, (1 << 256) - 1, 1 << 255, P1]
    for se in edge:
        b = enc_w(se, 32)
        out += [prefix + b, prefix + b + b"\x01", prefix + b + b"\x00", prefix + b + b"\x02", prefix + b + b"\x07",
                prefix + b + b"\x01\x01", prefix + b[:-1], prefix + b[:-1] + b"\x01", b + b"\x01", b]
    out += [b"", prefix, prefix[:-1], prefix + b"\x01", prefix * 2, prefix + b"\x00" * 5, prefix + b"\x11" * 40,
            prefix + b"\x00" * 31 + b"\x01", prefix + b"\x00" * 32 + b"\x01"]
    for _ in range(n):
        ln = rng.choice([0, 1, 5, 20, 30, 31, 32, 32, 32, 33, 33, 33, 34, 35, 40, 64])
        b = bytes(rng.getrandbits(8) for _ in range(ln))
        if ln >= 33 and rng.random() < 0.7:
            b = b[:32] + bytes([rng.choice([0, 1, 1, 1, 2, 7, 0x80, 0xff])]) + b[33:]
        pre = prefix
        r = rng.random()
        if r < 0.1:
            pre = bytes([prefix[0] ^ rng.choice([1, 0x80, 0xff])]) + prefix[1:]
        elif r < 0.15:
            pre = prefix[:-1]
        elif r < 0.2:
            pre = prefix + prefix[-1:]
        out.append(pre + b)
    return out


# ---- the public pair in every presentation Key.__init__ accepts --------------------------------------------
from pycoin.ecdsa.Curve import Curve as _Curve
_CURVES = {}


def _curve(p, a, b):
    k = (p, a % p, b % p)
    if k not in _CURVES:
        _CURVES[k] = _Curve(p, a % p, b % p)
    return _CURVES[k]


def _on(p, a, b, x, y):
    return (y * y - (x * x * x + a * x + b)) % p == 0


def presentations(g, x, y):
    """[(kind, (cp, ca, cb), object)] — every way (x, y) can be handed to Key(public_pair=...) for the key generator g:
    tuple, list, and a Point object of every curve we can build it on: g's own curve (if on it, also unreduced),
    secp256r1, y^2=x^3+3 and y^2=x^3+x over g's field, and the curve y^2=x^3+b' FITTED to the pair (so even a pair
    that is on no named curve travels as a genuine, constructor-validated Point).  kind: 0 tuple, 1 list, 2 Point."""
    out = [(0, (0, 0, 0), (x, y)), (1, (0, 0, 0), [x, y])]
    if x is None or y is None:
        if x is None and y is None:
            out.append((2, (g.p(), g._a, g._b), g.infinity()))
            out.append((2, (R1.p(), R1._a, R1._b), R1.infinity()))
            out.append((2, (g.p(), 0, 3), _curve(g.p(), 0, 3).infinity()))
        return out
    p = g.p()
    cands = [(g.p(), g._a, g._b, g), (R1.p(), R1._a, R1._b, R1), (p, 0, 3, None), (p, 1, 0, None),
             (p, 0, (y * y - x * x * x) % p, None)]
    seen = set()
    for cp, ca, cb, obj in cands:
        if (cp, ca % cp, cb % cp) in seen or not _on(cp, ca, cb, x, y):
            continue
        seen.add((cp, ca % cp, cb % cp))
        c = obj if obj is not None else _curve(cp, ca, cb)
        out.append((2, (cp, ca % cp, cb % cp), c.Point(x, y)))
    return out


def pair_categories(g, rng, n):
    """[(category, x, y)] relative to the key generator g"""
    p = g.p()
    out = [("zero", 0, 0), ("infinity", None, None), ("half-none", None, 5), ("half-none", 5, None)]
    toy3 = _curve(p, 0, 3)
    for _ in range(n):
        x, y = point_on(g, rng)
        out += [("on", x, y), ("on", x, (p - y) % p), ("unreduced", x + p, y), ("unreduced", x, y + p), ("unreduced", x, y - p),
                ("unreduced", x - p, y), ("unreduced", x + p, y + p), ("off", x, (y + 1) % p), ("off", (x + 1) % p, y)]
        e = rng.randrange(1, 1 << 64)
        m = e * g
        if m[0] is not None:
            out.append(("multiple", int(m[0]), int(m[1])))
        if p == R1.p() or p == P1:
            r = rng.randrange(1, 1 << 64) * R1
            if not _on(p, g._a, g._b, int(r[0]), int(r[1])):
                out.append(("r1-only", int(r[0]), int(r[1])))
        # a point of y^2 = x^3 + 3 over g's field
        while True:
            xx = rng.randrange(p)
            al = (xx * xx * xx + 3) % p
            yy = pow(al, (p + 1) // 4, p)
            if yy * yy % p == al:
                break
        if not _on(p, g._a, g._b, xx, yy):
            out.append(("b3-only", xx, yy))
            out.append(("b3-unreduced", xx + p, yy))
        out.append(("random", rng.randrange(p), rng.randrange(p)))
    return out


def _impl_key_public_obj(g, obj):
    k = key_class(g)(public_pair=obj)
    pp = k.public_pair()
    return (int(pp[0]), int(pp[1]))


def _impl_keys_public_obj(obj):
    k = _btc().keys.public(obj)
    pp = k.public_pair()
    return (int(pp[0]), int(pp[1]))


def _arg_opt(v):
    return "N" if v is None else arg(v)


def presentation_cases(g, rng, n, through_network=False):
    ga = gen_args(g)
    for cat, x, y in pair_categories(g, rng, n):
        for kind, (cp, ca, cb), obj in presentations(g, x, y):
            line = "key_public_arg %s %s %s %s %s %s %s" % (ga, arg(kind), arg(cp), arg(ca), arg(cb), _arg_opt(x), _arg_opt(y))
            yield Case(line, (lambda g=g, obj=obj: call(_impl_key_public_obj, g, obj)), meta=cat)
            if through_network and kind != 1:
                yield Case(line, (lambda obj=obj: call(_impl_keys_public_obj, obj)), meta=cat)


def _outcome(f, *a):
    try:
        return ("ok", f(*a))
    except Exception as ex:
        return ("exc", type(ex).__name__)


def chk_pair_presentations(curve, x, y):
    """acceptance / exception type of a public pair must not depend on how it is presented, and must be
    'on the key's curve and 0 <= x, y < p' — through Key(public_pair=...), network.keys.public(...) and the SEC round trip"""
    g = {"secp256k1": K1, "toy251": toy_generator(251, 0, 7)}[curve]
    p = g.p()
    ok = x is not None and y is not None and _on(p, g._a, g._b, x, y) and 0 <= x < p and 0 <= y < p
    want = ("ok", (x, y)) if ok else ("exc", "InvalidPublicPairError")
    addrs = set()
    for kind, cv, obj in presentations(g, x, y):
        label = {0: "tuple", 1: "list", 2: "Point of curve (p=%x.., a=%d, b=%d)" % (cv[0] >> max(cv[0].bit_length() - 16, 0), cv[1] if cv[1] < 1000 else -1, cv[2] if cv[2] < 1000 else -1)}[kind]
        got = _outcome(_impl_key_public_obj, g, obj)
        if got != want:
            return {"kind": "pair-accepted-off-curve" if got[0] == "ok" else "pair-wrong-outcome", "presentation": label,
                    "got": str(got)[:200], "want": str(want)[:200]}
        if g is K1 and kind != 1:
            for sym in ("BTC", "LTC"):
                net = dict(usable_nets())[sym]
                try:
                    k = net.keys.public(obj)
                    got = ("ok", (int(k.public_pair()[0]), int(k.public_pair()[1])))
                except Exception as ex:
                    k = None
                    got = ("exc", type(ex).__name__)
                if got != want:
                    return {"kind": "pair-accepted-off-curve" if got[0] == "ok" else "pair-wrong-outcome", "presentation": label,
                            "via": sym + ".keys.public", "got": str(got)[:200], "want": str(want)[:200],
                            "address": k.address() if k is not None else None}
                if k is not None:
                    if sym == "BTC":
                        addrs.add(k.address())
                    for c in (True, False):
                        back = net.keys.public(k.sec(is_compressed=c))
                        if tuple(back.public_pair()) != (x, y) or back.address(is_compressed=True) != k.address(is_compressed=True):
                            return {"kind": "pair-sec-roundtrip", "presentation": label}
    if len(addrs) > 1:
        return {"kind": "pair-presentation-changes-address", "addresses": sorted(addrs)}
    return None


# ---- presentations of byte strings / integers / text, and call histories ---------------------------------------
import random as _random
BLOB_KINDS = [(0, "bytes", bytes), (1, "bytearray", bytearray), (2, "memoryview(bytes)", lambda b: memoryview(bytes(b))),
              (3, "memoryview(bytearray)", lambda b: memoryview(bytearray(b)))]


class _SubInt(int):
    pass


class _SubStr(str):
    pass


def present_int(kind, v):
    return int(v) if kind == 0 else _SubInt(v) if kind == 1 else bool(v)


def int_kinds_for(v):
    return [0, 1] + ([2] if v in (0, 1) else [])


def gen_for(p, a, b):
    if (p, a % p, b % p) == (P1, A1 % P1, B1 % P1):
        return K1
    if (p, a % p, b % p) == (R1.p(), R1._a % R1.p(), R1._b % R1.p()):
        return R1
    return toy_generator(p, a, b)


def ref_sec(blob, p, a, b, strict):
    """independent reference SEC decoder (SEC1 2.3.4 as pycoin documents it): canonical string"""
    blob = bytes(blob)
    bc = (p.bit_length() + 7) >> 3
    x = int.from_bytes(blob[1:1 + bc], "big")
    if x >= p:
        return "!E_ENCODING"
    pre = blob[0] if blob else None
    if len(blob) == 1 + 2 * bc:
        if pre == 4 or (not strict and pre in (6, 7)):
            y = int.from_bytes(blob[1 + bc:], "big")
            if y >= p or (pre != 4 and (y & 1) != (pre & 1)):
                return "!E_ENCODING"
            return canon((x, y))
        return "!E_ENCODING"
    if len(blob) == 1 + bc and pre in (2, 3):
        al = (x * x * x + a * x + b) % p
        y0 = pow(al, (p + 1) // 4, p)
        if y0 == 0:
            return "!E_VALUE"
        if y0 * y0 % p != al:
            return "!E_NOPOINT"
        y = y0 if (y0 & 1) == (pre & 1) else p - y0
        return canon((x, y))
    return "!E_ENCODING"


def ref_from_sec(blob, p, a, b):
    blob = bytes(blob)
    r = ref_sec(blob, p, a, b, True)
    if r.startswith("!"):
        return r
    x, y = [int(t[1:], 16) for t in r[1:-1].split(" ")]
    if not _on(p, a, b, x, y) or not (0 <= x < p and 0 <= y < p):
        return "!E_PUBPAIR"
    return canon(((x, y), blob[:1] in (b"\x02", b"\x03")))


def _h160(b):
    h = _hl.new("ripemd160")
    h.update(_hl.sha256(bytes(b)).digest())
    return h.digest()


def chk_sec_presentations(curve, blob_hex):
    """a SEC blob is decoded alike as bytes / bytearray / memoryview (read-only, writable), and as the reference says"""
    g = gen_for(*curve)
    p, a, b = curve
    blob = bytes.fromhex(blob_hex)
    for kind, name, present in BLOB_KINDS:
        for strict in (True, False):
            got = call(_impl_sec, g, present(blob), strict)
            want = ref_sec(blob, p, a, b, strict)
            if got != want:
                return {"kind": "sec-presentation", "presentation": name, "via": "sec_to_public_pair strict=%s" % strict, "got": got[:150], "want": want[:150]}
        got = call(_impl_from_sec, g, present(blob))
        want = ref_from_sec(blob, p, a, b)
        if got != want:
            return {"kind": "sec-presentation", "presentation": name, "via": "Key.from_sec", "got": got[:150], "want": want[:150]}
        if bool(secm.is_sec_compressed(present(blob))) != (blob[:1] in (b"\x02", b"\x03")):
            return {"kind": "sec-presentation", "presentation": name, "via": "is_sec_compressed"}
        if g is K1:
            net = _btc()
            try:
                k = net.keys.public(present(blob))
                got = canon(((int(k.public_pair()[0]), int(k.public_pair()[1])), k.is_compressed()))
            except Exception as ex:
                k = None
                got = "!" + exn_tag(ex)
            if got != want:
                return {"kind": "sec-presentation", "presentation": name, "via": "BTC.keys.public", "got": got[:150], "want": want[:150]}
            if k is not None and (k.sec() != blob or k.hash160() != _h160(blob)):
                return {"kind": "sec-presentation-key-differs", "presentation": name}
    return None


def chk_sec_history(curves, blob_hex, strict):
    """module-level state: the same blob decoded for several curves in sequence (curves[0], curves[1], ..., curves[0] again):
    every answer must be that curve's own (reference decoder), through sec_to_public_pair and Key.from_sec"""
    blob = bytes.fromhex(blob_hex)
    seq = [tuple(c) for c in curves] + [tuple(curves[0])]
    for step, (p, a, b) in enumerate(seq):
        g = gen_for(p, a, b)
        got = call(_impl_sec, g, blob, strict)
        want = ref_sec(blob, p, a, b, strict)
        if got != want:
            return {"kind": "sec-history-dependent", "step": step, "curve": [hex(p), a if a < 1000 else hex(a), b if b < 1000 else hex(b)],
                    "via": "sec_to_public_pair", "got": got[:150], "want": want[:150]}
        got = call(_impl_from_sec, g, blob)
        want = ref_from_sec(blob, p, a, b)
        if got != want:
            return {"kind": "sec-history-dependent", "step": step, "curve": [hex(p), a if a < 1000 else hex(a), b if b < 1000 else hex(b)],
                    "via": "Key.from_sec", "got": got[:150], "want": want[:150]}
    return None


def ref_der_int(v):
    s = v.to_bytes(max(1, (v.bit_length() + 7) // 8), "big")
    if s[0] & 0x80:
        s = b"\x00" + s
    return b"\x02" + ref_der_len(len(s)) + s


def ref_der_len(n):
    if n < 0x80:
        return bytes([n])
    b = n.to_bytes((n.bit_length() + 7) // 8, "big")
    return bytes([0x80 | len(b)]) + b


def ref_sigencode(r, s):
    body = ref_der_int(r) + ref_der_int(s)
    return b"\x30" + ref_der_len(len(body)) + body


def chk_der_presentations(r, s):
    """DER: the reference encoding of (r, s) decodes to (r, s) as bytes and as bytearray, strict and lax, in any order of
    calls (strict, lax, strict); the encoder gives the reference bytes for int / int-subclass / bool arguments, also right
    after an argument that collides with it under hash() (v and v + 2^61 - 1)"""
    want_blob = ref_sigencode(r, s)
    for kr in int_kinds_for(r):
        for ks in int_kinds_for(s):
            got = call(der.sigencode_der, present_int(kr, r), present_int(ks, s))
            if got != canon(want_blob):
                return {"kind": "der-int-presentation", "kinds": [kr, ks], "got": got[:150], "want": canon(want_blob)[:150]}
    M = (1 << 61) - 1
    for rr, ss in ((r + M, s), (r, s), (r, s + M), (r, s)):
        got = call(der.sigencode_der, rr, ss)
        if got != canon(ref_sigencode(rr, ss)):
            return {"kind": "der-history-dependent", "r": hex(rr), "s": hex(ss), "got": got[:150]}
    for kind, name, present in BLOB_KINDS[:2]:
        for broken in (False, True, False):
            got = call(der.sigdecode_der, present(want_blob), broken)
            if got != canon((r, s)):
                return {"kind": "der-presentation", "presentation": name, "broken": broken, "got": got[:150]}
        got = call(der.sigdecode_der, present(want_blob + b"\x00"), False)
        if got != "!E_DER":
            return {"kind": "der-presentation-trailing", "presentation": name, "got": got[:150]}
    return None


def chk_int_presentations(sym, e):
    """Key(secret_exponent=...) for int / int subclass / bool, and right after a hash()-colliding exponent"""
    net = dict((s_, n_) for s_, n_, _ in nets())[sym]
    n = net.generator.order()
    M = (1 << 61) - 1
    seq = [(0, e + M), (0, e)] + [(k, e) for k in int_kinds_for(e)] + [(0, e - M), (1, e)]
    for kind, v in seq:
        try:
            k = net.keys.private(present_int(kind, v))
            got = ("ok", int(k.secret_exponent()), k.sec())
        except Exception as ex:
            got = ("exc", type(ex).__name__)
        if 1 <= v < n:
            pt = v * K1
            want = ("ok", v, bytes([2 + (int(pt[1]) & 1)]) + int(pt[0]).to_bytes(32, "big"))
        else:
            want = ("exc", "InvalidSecretExponentError")
        if got != want:
            return {"kind": "int-presentation", "presentation": ["int", "int subclass", "bool"][kind], "e": hex(v), "got": str(got)[:150], "want": str(want)[:150]}
    return None


_OBSERVERS = [("sec", (None, True, False)), ("hash160", (None, True, False)), ("address", (None, True, False)),
              ("wif", (None, True, False)), ("fingerprint", (None, True, False)), ("sec_as_hex", (None, True, False)),
              ("as_text", ()), ("public_pair", ()), ("is_compressed", ()), ("secret_exponent", ()), ("__repr__", ())]


def _observe(k, name, flag):
    f = getattr(k, name)
    r = f() if flag == "-" else f(is_compressed=flag)
    if name == "public_pair":
        r = (int(r[0]), int(r[1]))
    return r


def chk_key_history(sym, se, private, seed):
    """a Key object observed, mutated (compression flag assigned, memo fields cleared), observed again: every observer
    equals the same observer of a FRESH key built from the current fields"""
    net = dict(usable_nets())[sym]
    r = _random.Random(seed)
    flag = r.random() < 0.5
    k = net.keys.private(se, is_compressed=flag)
    if not private:
        k = k.public_copy()
    trace = []
    for step in range(14):
        op = r.choice(["obs", "obs", "obs", "flip", "clear"])
        if op == "flip":
            flag = not flag
            k._is_compressed = flag
            trace.append("flip")
            continue
        if op == "clear":
            k._hash160_compressed = None
            k._hash160_uncompressed = None
            trace.append("clear")
            continue
        name, flags = r.choice(_OBSERVERS)
        fl = r.choice(flags) if flags else "-"
        fresh = net.keys.private(se, is_compressed=flag)
        if not private:
            fresh = net.keys.public((int(fresh.public_pair()[0]), int(fresh.public_pair()[1])), is_compressed=flag)
        trace.append("%s(%s)" % (name, fl))
        got = _outcome(_observe, k, name, fl)
        want = _outcome(_observe, fresh, name, fl)
        if got != want:
            return {"kind": "key-history-dependent", "trace": trace, "got": str(got)[:150], "want": str(want)[:150]}
    return None


def ref_wif(payload, prefix, n):
    if payload is None or not payload.startswith(prefix):
        return None
    body = payload[len(prefix):]
    if len(body) == 33 and body[-1] == 1:
        c = True
    elif len(body) == 32:
        c = False
    else:
        return None
    e = int.from_bytes(body[:32], "big")
    return (e, c) if 1 <= e < n else None


def _wif_forms(text):
    from pycoin.networks.parseable_str import parseable_str
    return {"str": text, "str-subclass": _SubStr(text), "parseable_str": parseable_str(text)}


def chk_wif_history(syms, payload_hex, form):
    """one WIF text (plain str, str subclass, or ONE parseable_str object carrying its parse cache) handed to several
    networks in sequence (first one again at the end): each answer is that network's own (reference from the payload)"""
    payload = bytes.fromhex(payload_hex)
    obj = _wif_forms(b58check(payload))[form]
    nd = dict(usable_nets())
    for step, sym in enumerate(list(syms) + [syms[0]]):
        net = nd[sym]
        try:
            k = net.parse.wif(obj)
            got = None if k is None else (k.secret_exponent(), k.is_compressed())
        except Exception as ex:
            return {"kind": "wif-parse-raises", "net": sym, "step": step, "detail": "%s: %s" % (type(ex).__name__, ex)}
        want = ref_wif(payload, net.parse._wif_prefix, net.generator.order())
        if got != want:
            return {"kind": "wif-history-dependent", "net": sym, "step": step, "form": form, "got": str(got)[:120], "want": str(want)[:120]}
    return None


_LOOKALIKE = {"K": "K", "s": "ſ", "k": "K".lower() + "̇"}


def wif_variants(w):
    out = []
    for i, ch in enumerate(w):
        if ch.isascii() and ch.isalnum():
            out.append(w[:i] + chr(ord(ch) + 0xFEE0) + w[i + 1:])       # fullwidth form: NFKC-normalises to ch
            break
    for ch, rep in _LOOKALIKE.items():
        if ch in w:
            out.append(w.replace(ch, rep, 1))                               # case-folds / lower()s to ch
    out += [w + "́", "​" + w, w + " ", w.lower(), w.upper(), w.swapcase(), " " + w, w + "\n", w + "\x00",
            w[:-1], w + w[-1], w[::-1], "", w.encode("ascii")]
    return out


def chk_wif_lookalike(sym, se, c, idx):
    """texts that merely LOOK like (normalise / case-fold to) a valid WIF are not WIFs: None, no exception"""
    net = dict(usable_nets())[sym]
    w = net.keys.private(se, is_compressed=c).wif()
    vs = wif_variants(w)
    v = vs[idx % len(vs)]
    if v == w:
        return None
    try:
        k = net.parse.wif(v)
    except Exception as ex:
        return {"kind": "wif-lookalike-raises", "variant": repr(v)[:80], "detail": "%s: %s" % (type(ex).__name__, ex)}
    if k is not None:
        return {"kind": "wif-lookalike-accepted", "variant": repr(v)[:80]}
    return None


def history_curve_sets(rng):
    """curve sets sharing a byte count, so that one blob is a candidate key for each of them"""
    p16 = _prime_below(16)
    p64 = _prime_below(64)
    return [[(251, 0, 7), (239, 3, 5)], [(239, 3, 5), (251, 0, 7)], [(p16, 0, 7), (p16, 0, 3)], [(p16, 0, 3), (p16, 0, 7)],
            [(p64, 0, 7), (p64, 0, 3)], [(p64, 0, 3), (p64, 0, 7)],
            [(P1, A1, B1), (R1.p(), R1._a, R1._b)], [(R1.p(), R1._a, R1._b), (P1, A1, B1)]]


def history_blobs(cs, rng, n):
    """compressed and uncompressed keys of the first and of the second curve, plus a malformed one"""
    out = []
    for i in range(n):
        p, a, b = cs[i % len(cs)]
        g = gen_for(p, a, b)
        bc = bc_of(g)
        x, y = point_on(g, rng)
        out.append(bytes([2 + (y & 1)]) + enc_w(x, bc))
        out.append(bytes([3 - (y & 1)]) + enc_w(x, bc))
        if i % 3 == 0:
            out.append(b"\x04" + enc_w(x, bc) + enc_w(y, bc))
            out.append(bytes([5]) + enc_w(x, bc))
    return out


def presentation_and_history_cases(rng, quick):
    # SEC blobs in every bytes-like presentation: toy field exhaustive-ish, secp256k1 sampled (full-size roots rationed)
    gt = toy_generator(251, 0, 7)
    ga = gen_args(gt)
    blobs = [bytes([pre, x]) for pre in range(8) for x in range(0, 256, 1 if not quick else 5)] + \
        [bytes([pre, x, (x * 7 + pre) % 256]) for pre in (4, 6, 7, 2) for x in range(0, 256, 3)] + [b"", b"\x02", b"\x04"]
    for bl in blobs:
        for kind, _, present in BLOB_KINDS[1:]:
            st = rng.random() < 0.7
            yield Case("sec_to_public_pair_arg %s %s %s %s" % (ga, arg(kind), arg(bl), arg(st)),
                       (lambda bl=bl, present=present, st=st: call(_impl_sec, gt, present(bl), st)))
            yield Case("key_from_sec_arg %s %s %s" % (ga, arg(kind), arg(bl)),
                       (lambda bl=bl, present=present: call(_impl_from_sec, gt, present(bl))))
            yield Case("is_sec_compressed_arg %s %s" % (arg(kind), arg(bl)),
                       (lambda bl=bl, present=present: call(lambda v: bool(secm.is_sec_compressed(v)), present(bl))))
    ga = gen_args(K1)
    kb = _sec_blobs_for(K1, rng, 150 if quick else 3000, 4 if quick else 80, 3 if quick else 60)
    for bl in kb:
        kind, _, present = BLOB_KINDS[1 + rng.randrange(3)]
        if rng.random() < 0.5:
            st = rng.random() < 0.7
            yield Case("sec_to_public_pair_arg %s %s %s %s" % (ga, arg(kind), arg(bl), arg(st)),
                       (lambda bl=bl, present=present, st=st: call(_impl_sec, K1, present(bl), st)))
        else:
            yield Case("key_from_sec_arg %s %s %s" % (ga, arg(kind), arg(bl)),
                       (lambda bl=bl, present=present: call(_impl_from_sec, K1, present(bl))))
    # DER blobs as bytearray / memoryview
    for bl in _der_blobs(rng, "quick")[-(400 if quick else 1500):]:
        for kind, _, present in BLOB_KINDS[1:]:
            br = rng.random() < 0.5
            yield Case("sigdecode_der_arg %s %s %s" % (arg(kind), arg(bl), arg(br)),
                       (lambda bl=bl, present=present, br=br: call(der.sigdecode_der, present(bl), br)))
    # integers as int subclass / bool
    for e in [0, 1, 2, N1 - 1, N1, (1 << 256) - 1, -1] + [rng.randrange(1, N1) for _ in range(10 if quick else 200)]:
        for kind in int_kinds_for(e)[1:]:
            yield Case("key_private_arg %s %s %s" % (arg(N1), arg(kind), arg(e)),
                       (lambda e=e, kind=kind: call(lambda v: int(_impl_key_private(K1, v)), present_int(kind, e))))
    for r, s_ in [(0, 1), (1, 0), (1, 1), (0x80, 1), (N1 - 1, N1 // 2)] + [(rng.getrandbits(256), rng.getrandbits(255)) for _ in range(20 if quick else 400)]:
        for kr in int_kinds_for(r)[1:]:
            for ks in int_kinds_for(s_):
                yield Case("sigencode_der_arg %s %s %s %s" % (arg(kr), arg(r), arg(ks), arg(s_)),
                           (lambda r=r, s_=s_, kr=kr, ks=ks: call(der.sigencode_der, present_int(kr, r), present_int(ks, s_))))
                yield Case("public_pair_to_sec_arg %s %s %s %s T" % (arg(kr), arg(r), arg(ks), arg(s_)),
                           (lambda r=r, s_=s_, kr=kr, ks=ks: call(secm.public_pair_to_sec, (present_int(kr, r), present_int(ks, s_)), True)))
    # histories: one blob, several curves of the same byte count, in sequence (the model answers each call on its own)
    for cs in history_curve_sets(rng):
        big = cs[0][0].bit_length() > 200
        for bl in history_blobs(cs, rng, (1 if big else 6) if quick else (12 if big else 60)):
            if big and len(bl) == 33 and bl[0] in (2, 3) and quick and rng.random() < 0.5:
                continue
            st = rng.random() < 0.7
            for (p, a, b) in list(cs) + [cs[0]]:
                g = gen_for(p, a, b)
                yield Case("sec_to_public_pair %s %s %s" % (gen_args(g), arg(bl), arg(st)), (lambda g=g, bl=bl, st=st: call(_impl_sec, g, bl, st)), meta="history")
                if not big:
                    yield Case("key_from_sec %s %s" % (gen_args(g), arg(bl)), (lambda g=g, bl=bl: call(_impl_from_sec, g, bl)), meta="history")


# ---- correspondence ------------------------------------------------------------------------------------
def model_cases(rng, tier):
    quick = tier == "quick"
    # ---------------- DER
    for r, s in _sig_pairs(rng, tier):
        yield Case("sigencode_der %s %s" % (arg(r), arg(s)), (lambda r=r, s=s: call(der.sigencode_der, r, s)))
    for v in _der_ints(rng, tier):
        yield Case("encode_integer " + arg(v), (lambda v=v: call(der.encode_integer, v)))
    for l in list(range(-2, 300)) + [65535, 65536, 1 << 24, (1 << 1008) - 1, 1 << 1008, (1 << 1016) - 1, 1 << 1016, 1 << 2000]:
        yield Case("encode_length " + arg(l), (lambda l=l: call(der.encode_length, l)))
    blobs = _der_blobs(rng, tier)
    for b in blobs:
        for br in (False, True):
            yield Case("sigdecode_der %s %s" % (arg(b), arg(br)), (lambda b=b, br=br: call(der.sigdecode_der, b, br)))
    sub = [b for b in blobs if len(b) <= 1 or (len(b) == 2 and b[0] in (0, 2, 0x30, 0x7f, 0x80, 0x81, 0x82, 0xff))] + \
        [b[i:] for b in blobs[-2000:] if len(b) > 2 for i in (1, 2)] + [b for b in blobs[-1500:] if len(b) > 2]
    for b in sub:
        yield Case("read_length " + arg(b), (lambda b=b: call(der.read_length, b)))
        yield Case("remove_sequence " + arg(b), (lambda b=b: call(der.remove_sequence, b)))
        for br in (False, True):
            yield Case("remove_integer %s %s" % (arg(b), arg(br)), (lambda b=b, br=br: call(der.remove_integer, b, br)))
    # the BIP66 spec against pycoin's port of IsValidSignatureEncoding (validates the spec used by the theorem)
    for b in _valid_sigs(rng, 200 if quick else 4000):
        cands = [b + b"\x01", b, b + b"\x01\x01", b[:-1]]
        for _ in range(5):
            cands.append(_mutate_der(rng, b) + bytes([rng.choice([1, 2, 3, 0x81, 0])]))
        for c in cands:
            yield Case("bip66_valid " + arg(c), (lambda c=c: call(_impl_bip66, c)))
    for _ in range(300 if quick else 6000):
        c = bytes(rng.choice([rng.getrandbits(8), 0x30, 0x02, 0x20, 0x21, 0x00, 0x80]) for _ in range(rng.choice([8, 9, 10, 40, 70, 71, 72, 73, 74])))
        yield Case("bip66_valid " + arg(c), (lambda c=c: call(_impl_bip66, c)))

    # ---------------- bytes32 / SEC encoder
    edge = [-1, 0, 1, 255, 256, P1 - 1, P1, P1 + 1, N1, (1 << 256) - 1, 1 << 256, (1 << 256) + 1, 1 << 300]
    for v in edge + [rng.getrandbits(rng.choice([8, 64, 255, 256, 257])) for _ in range(100)]:
        yield Case("to_bytes_32 " + arg(v), (lambda v=v: call(to_bytes_32, v)))
    pairs = [(x, y) for x in edge for y in (-1, 0, 1, 2, P1 - 1, P1, (1 << 256) - 1, 1 << 256)]
    pairs += [point_on(K1, rng) for _ in range(100 if quick else 2000)]
    pairs += [(rng.getrandbits(256), rng.getrandbits(rng.choice([1, 255, 256, 257]))) for _ in range(100)]
    for x, y in pairs:
        for c in (True, False):
            yield Case("public_pair_to_sec %s %s %s" % (arg(x), arg(y), arg(c)),
                       (lambda x=x, y=y, c=c: call(secm.public_pair_to_sec, (x, y), c)))

    # ---------------- SEC decoder: production curves (model cost ~0.8 s per full-size square root: rationed)
    plan = [(K1, 1500 if quick else 30000, 12 if quick else 300, 14 if quick else 260),
            (R1, 150 if quick else 2000, 3 if quick else 40, 4 if quick else 50)]
    for g, nr, nv, budget in plan:
        ga = gen_args(g)
        blobs = _sec_blobs_for(g, rng, nr, nv, budget)
        seen = set()
        if g is K1:
            # every byte string of length 0..2 (all refused at 256 bits; quick: strict mode only for the bulk)
            for b in _small_strings(2):
                seen.add(b)
                full = (not quick) or len(b) <= 1 or b[0] < 8
                yield Case("sec_to_public_pair %s %s T" % (ga, arg(b)), (lambda g=g, b=b: call(_impl_sec, g, b, True)))
                if full:
                    yield Case("sec_to_public_pair %s %s F" % (ga, arg(b)), (lambda g=g, b=b: call(_impl_sec, g, b, False)))
                    yield Case("key_from_sec %s %s" % (ga, arg(b)), (lambda g=g, b=b: call(_impl_from_sec, g, b)))
        for b in blobs:
            if b in seen:
                continue
            seen.add(b)
            expensive = len(b) == 33 and b[:1] in (b"\x02", b"\x03") and int.from_bytes(b[1:], "big") < g.p()
            if expensive:
                # one full-size root per blob: spread the modes instead of repeating them
                mode = rng.randrange(3)
                if mode == 0:
                    yield Case("sec_to_public_pair %s %s T" % (ga, arg(b)), (lambda g=g, b=b: call(_impl_sec, g, b, True)))
                elif mode == 1:
                    yield Case("sec_to_public_pair %s %s F" % (ga, arg(b)), (lambda g=g, b=b: call(_impl_sec, g, b, False)))
                else:
                    yield Case("key_from_sec %s %s" % (ga, arg(b)), (lambda g=g, b=b: call(_impl_from_sec, g, b)))
                continue
            for st in (True, False):
                yield Case("sec_to_public_pair %s %s %s" % (ga, arg(b), arg(st)),
                           (lambda g=g, b=b, st=st: call(_impl_sec, g, b, st)))
            yield Case("key_from_sec %s %s" % (ga, arg(b)), (lambda g=g, b=b: call(_impl_from_sec, g, b)))
    # ---------------- SEC decoder: toy and mid-size fields (volume, exhaustive where small)
    for (p, a, b_) in SMALL_CURVES:
        g = toy_generator(p, a, b_)
        ga = gen_args(g)
        bc = bc_of(g)
        for x in range(p + 3):
            yield Case("points_for_x %s %s" % (ga, arg(x)), (lambda g=g, x=x: call(_impl_pts, g, x)))
        cands = list(_small_strings(2, None if bc == 1 else range(8)))
        if bc == 1:
            # every 3-byte string with a prefix 00..07 and y restricted to the interesting values
            for pre in range(8):
                for x in range(256):
                    al = (x * x * x + a * x + b_) % p
                    y0 = pow(al, (p + 1) // 4, p)
                    for y in {y0, (p - y0) % 256, 0, 1, p - 1, p, 255, (y0 + 1) % 256}:
                        cands.append(bytes([pre, x, y]))
            cands += [bytes([4, 1, 2, 3]), bytes([2, 1, 2, 3])]
        else:
            cands += _sec_blobs_for(g, rng, 400 if quick else 6000, 40 if quick else 400, 10 ** 9)
        for bl in cands:
            for st in (True, False):
                if st or (bl and bl[0] < 8):
                    yield Case("sec_to_public_pair %s %s %s" % (ga, arg(bl), arg(st)),
                               (lambda g=g, bl=bl, st=st: call(_impl_sec, g, bl, st)))
            if not bl or bl[0] < 8:
                yield Case("key_from_sec %s %s" % (ga, arg(bl)), (lambda g=g, bl=bl: call(_impl_from_sec, g, bl)))
        for _ in range(150 if quick else 3000):
            r_ = rng.random()
            if r_ < 0.4:
                x, y = point_on(g, rng)
            elif r_ < 0.7:
                x, y = point_on(g, rng)
                x, y = rng.choice([(x + p, y), (x, y + p), (x, y - p), (x, -y), (x - p, y), (x + p, y + p)])
            else:
                x, y = (rng.randrange(-2, p + 3), rng.randrange(-2, p + 3))
            yield Case("key_public %s %s %s" % (ga, arg(x), arg(y)), (lambda g=g, x=x, y=y: call(_impl_key_public, g, x, y)))
    for bits in MID_BITS:
        p = _prime_below(bits)
        g = toy_generator(p, 0, 7)
        ga = gen_args(g)
        big = bits > 100
        nr = (60 if big else 250) if quick else (600 if big else 4000)
        nv = (6 if big else 25) if quick else (80 if big else 400)
        for bl in _sec_blobs_for(g, rng, nr, nv, (40 if quick else 600) if big else 10 ** 9):
            st = rng.random() < 0.6
            yield Case("sec_to_public_pair %s %s %s" % (ga, arg(bl), arg(st)),
                       (lambda g=g, bl=bl, st=st: call(_impl_sec, g, bl, st)))
            if rng.random() < 0.5:
                yield Case("key_from_sec %s %s" % (ga, arg(bl)), (lambda g=g, bl=bl: call(_impl_from_sec, g, bl)))
        for _ in range((5 if big else 40) if quick else (60 if big else 500)):
            x = rng.randrange(p + 2)
            yield Case("points_for_x %s %s" % (ga, arg(x)), (lambda g=g, x=x: call(_impl_pts, g, x)))
    # ---------------- key range checks
    ga = gen_args(K1)
    for _ in range(200 if quick else 4000):
        x, y = point_on(K1, rng)
        r = rng.random()
        if r < 0.3:
            y = (y + rng.choice([1, P1, -1])) if rng.random() < 0.7 else P1 - y
        elif r < 0.4:
            x = x + rng.choice([1, P1, -P1])
        yield Case("key_public %s %s %s" % (ga, arg(x), arg(y)), (lambda x=x, y=y: call(_impl_key_public, K1, x, y)))
    fixed = [(0, 0), (K1[0], K1[1]), (K1[0], P1 - K1[1]), (K1[0] + P1, K1[1]), (K1[0], K1[1] + P1), (K1[0], -K1[1]), (P1, 0), (0, 7)]
    # unreduced names of on-curve points: they satisfy the curve equation but must be refused
    for _ in range(60 if quick else 1500):
        x, y = point_on(K1, rng)
        fixed += [(x + P1, y), (x, y + P1), (x, y - P1), (x, -y), (x - P1, y), (x + P1, y + P1), (x + 2 * P1, y), (x, P1 - y)]
    for x, y in fixed:
        yield Case("key_public %s %s %s" % (ga, arg(x), arg(y)), (lambda x=x, y=y: call(_impl_key_public, K1, x, y)))
        yield Case("key_public %s %s %s" % (ga, arg(x), arg(y)), (lambda x=x, y=y: call(_impl_keys_public, x, y)))
    # byte-string presentations (bytearray, memoryviews) and histories (one blob, several curves, both orders)
    for c in presentation_and_history_cases(rng, quick):
        yield c
    # every presentation of a pair (tuple / list / Point of its own, of another or of a fitted curve) x every category
    for c in presentation_cases(K1, rng, 12 if quick else 300, through_network=True):
        yield c
    for c in presentation_cases(toy_generator(251, 0, 7), rng, 25 if quick else 400):
        yield c
    for c in presentation_cases(R1, rng, 3 if quick else 60):
        yield c
    es = [-5, -1, 0, 1, 2, 3, N1 - 2, N1 - 1, N1, N1 + 1, P1, (1 << 256) - 1, 1 << 256, (1 << 256) + 1, 1 << 300, N1 // 2]
    es += [rng.getrandbits(rng.choice([8, 128, 255, 256, 257])) for _ in range(60 if quick else 1500)]
    for e in es:
        yield Case("key_private %s %s" % (arg(N1), arg(e)), (lambda e=e: call(_impl_key_private, K1, e)))
    gt = toy_generator(251, 0, 7)
    for e in range(-2, gt.order() + 4):
        yield Case("key_private %s %s" % (arg(gt.order()), arg(e)), (lambda e=e: call(_impl_key_private, gt, e)))
    # ---------------- WIF at payload level, every usable network
    ses = [1, 2, N1 - 1, N1 // 2, 1 << 255, 0x80, (1 << 248) - 1, 1 << 248]
    for sym, net in usable_nets():
        pre = net.parse._wif_prefix
        for se in ses[:3] + [rng.randrange(1, N1) for _ in range(2 if quick else 20)] + ([rng.choice(ses[3:])]):
            for c in (True, False):
                yield Case("wif_payload %s %s %s" % (arg(pre), arg(se), arg(c)),
                           (lambda net=net, se=se, c=c: call(_impl_wif_payload, net, se, c)), meta=sym)
        pls = _wif_payloads(pre, rng, 25 if quick else 400)
        if not quick or sym in ("BTC", "XTN", "DCR", "LTC", "DOGE", "POLIS"):
            pass
        else:
            pls = pls[:40] + pls[-25:]
        for d in pls + [None]:
            yield Case("parse_wif_payload %s %s %s" % (arg(pre), arg(N1), arg(d)),
                       (lambda net=net, d=d: call(_impl_parse_wif, net, d)), meta=sym)


# ---- direct property checks on the implementation ---------------------------------------------------------
def chk_der_roundtrip(r, s):
    try:
        e = der.sigencode_der(r, s)
    except Exception as ex:
        return {"kind": "der-encode-raises", "detail": "%s: %s" % (type(ex).__name__, ex)}
    for broken in (True, False):
        try:
            got = der.sigdecode_der(e, use_broken_open_ssl_mechanism=broken)
        except Exception as ex:
            return {"kind": "der-decode-raises", "detail": "%s: %s" % (type(ex).__name__, ex), "broken": broken}
        if got != (r, s):
            return {"kind": "der-roundtrip-mismatch", "got": [hex(got[0]), hex(got[1])], "broken": broken}
    return None


def chk_der_trailing(blob, t):
    """strict decoding is prefix-free"""
    try:
        v = der.sigdecode_der(blob, use_broken_open_ssl_mechanism=False)
    except Exception:
        return None
    try:
        w = der.sigdecode_der(blob + t, use_broken_open_ssl_mechanism=False)
    except der.UnexpectedDER:
        return None
    except Exception as ex:
        return {"kind": "der-trailing-wrong-exception", "detail": "%s: %s" % (type(ex).__name__, ex)}
    return {"kind": "der-trailing-accepted", "value": [hex(w[0]), hex(w[1])]}


def chk_der_bip66(r, s, ht, n):
    """1 <= r < n, 1 <= s <= n/2: the encoder output + hashtype passes pycoin's strict-DER shape check,
    decodes strictly to (r, s)"""
    e = der.sigencode_der(r, s)
    try:
        check_valid_signature(e + bytes([ht]))
    except Exception as ex:
        return {"kind": "der-low-s-fails-strict-check", "detail": "%s: %s" % (type(ex).__name__, ex), "sig": e.hex()}
    if der.sigdecode_der(e, use_broken_open_ssl_mechanism=False) != (r, s):
        return {"kind": "der-roundtrip-mismatch", "sig": e.hex()}
    if len(e) > 72:
        return {"kind": "der-too-long", "len": len(e)}
    return None


def chk_sec_roundtrip(sym, se, c):
    net = dict(usable_nets())[sym] if sym in dict(usable_nets()) else dict((s, n) for s, n, _ in nets())[sym]
    k = net.keys.private(se, is_compressed=c)
    blob = k.sec()
    if blob != k.sec(is_compressed=c) or len(blob) != (33 if c else 65):
        return {"kind": "sec-wrong-length-or-flag"}
    k2 = net.keys.public(blob)
    if tuple(k2.public_pair()) != tuple(k.public_pair()):
        return {"kind": "sec-roundtrip-point", "sec": blob.hex()}
    if k2.is_compressed() != c:
        return {"kind": "sec-roundtrip-flag", "sec": blob.hex()}
    if k2.sec() != blob or k2.hash160() != k.hash160() or k2.hash160(is_compressed=not c) != k.hash160(is_compressed=not c):
        return {"kind": "sec-roundtrip-hash160", "sec": blob.hex()}
    try:
        with contextlib.redirect_stdout(io.StringIO()):
            a1, a2 = k.address(), k2.address()
    except ImportError:
        a1 = a2 = None      # groestl address layer not installed
    if a1 != a2:
        return {"kind": "sec-roundtrip-address", "sec": blob.hex()}
    # the other form decodes to the same point with the other flag
    k3 = net.keys.public(k.sec(is_compressed=not c))
    if tuple(k3.public_pair()) != tuple(k.public_pair()) or k3.is_compressed() == c:
        return {"kind": "sec-other-form", "sec": blob.hex()}
    return None


def chk_sec_strict(g, blob):
    """accepted => the unique encoding of a curve point"""
    try:
        k = key_class(g).from_sec(blob)
    except (ValueError, AssertionError) as ex:
        if type(ex).__name__ in ("EncodingError", "NoSuchPointError", "InvalidPublicPairError") or type(ex) is ValueError:
            return None
        return {"kind": "sec-unexpected-exception", "detail": "%s: %s" % (type(ex).__name__, ex), "sec": blob.hex()}
    except Exception as ex:
        return {"kind": "sec-unexpected-exception", "detail": "%s: %s" % (type(ex).__name__, ex), "sec": blob.hex()}
    x, y = k.public_pair()
    p = g.p()
    bc = bc_of(g)
    if not (0 <= x < p and 0 <= y < p):
        return {"kind": "sec-coordinate-not-reduced", "sec": blob.hex()}
    if (y * y - (x * x * x + g._a * x + g._b)) % p != 0:
        return {"kind": "sec-off-curve-accepted", "sec": blob.hex()}
    canon_blob = (bytes([2 + (y & 1)]) + enc_w(x, bc)) if k.is_compressed() else (b"\x04" + enc_w(x, bc) + enc_w(y, bc))
    if blob != canon_blob:
        return {"kind": "sec-non-canonical-accepted", "sec": blob.hex(), "canonical": canon_blob.hex()}
    if bc == 32 and secm.public_pair_to_sec((x, y), compressed=k.is_compressed()) != blob:
        return {"kind": "sec-non-canonical-accepted", "sec": blob.hex()}
    return None


def chk_wif_roundtrip(sym, se, c):
    net = dict(usable_nets())[sym]
    k = net.keys.private(se, is_compressed=c)
    for cc in (c, not c):
        w = k.wif(is_compressed=cc) if cc != c else k.wif()
        k2 = net.parse.wif(w)
        if k2 is None:
            return {"kind": "wif-not-parsed", "wif": w}
        if k2.secret_exponent() != se or k2.is_compressed() != cc:
            return {"kind": "wif-roundtrip-mismatch", "wif": w}
        if tuple(k2.public_pair()) != tuple(k.public_pair()) or k2.sec() != k.sec(is_compressed=cc) \
                or k2.hash160() != k.hash160(is_compressed=cc) or k2.address() != k.address(is_compressed=cc):
            return {"kind": "wif-roundtrip-derived-data", "wif": w}
        if k2.wif() != w:
            return {"kind": "wif-not-stable", "wif": w}
        if net.parse.wif(w + "1") is not None or net.parse.wif(w[:-1]) is not None:
            return {"kind": "wif-corrupted-accepted", "wif": w}
    return None


def chk_wif_strict(sym, data_hex):
    """a parsed payload is prefix ‖ 32 bytes [‖ 01] with 1 <= e < n, and re-encodes to the same text"""
    net = dict(usable_nets())[sym]
    data = bytes.fromhex(data_hex)
    text = b58check(data)
    try:
        k = net.parse.wif(text)
    except Exception as ex:
        return {"kind": "wif-parse-raises", "detail": "%s: %s" % (type(ex).__name__, ex)}
    pre = net.parse._wif_prefix
    body = data[len(pre):] if data.startswith(pre) else None
    wellformed = body is not None and (len(body) == 32 or (len(body) == 33 and body[-1] == 1)) and \
        1 <= int.from_bytes(body[:32], "big") < net.generator.order()
    if k is None:
        return {"kind": "wif-wellformed-refused"} if wellformed else None
    if not wellformed:
        return {"kind": "wif-malformed-accepted", "payload": data_hex}
    if k.wif() != text or k.secret_exponent() != int.from_bytes(body[:32], "big") or k.is_compressed() != (len(body) == 33):
        return {"kind": "wif-reencode-differs", "payload": data_hex}
    return None


def chk_key_range(sym, e):
    net = dict((s, n) for s, n, _ in nets())[sym]
    n = net.generator.order()
    try:
        k = net.keys.private(e)
        ok = True
    except InvalidSecretExponentError:
        ok = False
    except Exception as ex:
        return {"kind": "key-range-wrong-exception", "detail": "%s: %s" % (type(ex).__name__, ex), "e": hex(e)}
    if ok != (1 <= e < n):
        return {"kind": "key-range", "e": hex(e), "accepted": ok}
    if not ok:
        if net.keys.InvalidSecretExponentError is not InvalidSecretExponentError:
            return {"kind": "key-range-documented-class"}
    return None


def chk_pubpair(x, y):
    on = (y * y - (x * x * x + A1 * x + B1)) % P1 == 0 and 0 <= x < P1 and 0 <= y < P1
    net = usable_nets()[0][1]
    try:
        net.keys.public((x, y))
        ok = True
    except InvalidPublicPairError:
        ok = False
    except Exception as ex:
        return {"kind": "pubpair-wrong-exception", "detail": "%s: %s" % (type(ex).__name__, ex)}
    if ok != on:
        return {"kind": "pubpair-range", "x": hex(x), "y": hex(y), "accepted": ok}
    return None


def prop_cases(rng, tier):
    quick = tier == "quick"
    pairs = _sig_pairs(rng, "quick")
    for r, s in pairs:
        if r >= 0 and s >= 0:
            yield PropCase("der_roundtrip", {"r": hex(r), "s": hex(s)}, (lambda r=r, s=s: chk_der_roundtrip(r, s)))
    for b in _der_blobs(rng, "quick")[-1500:]:
        for t in (b"\x00", b"\x01\x02", bytes([rng.getrandbits(8)])):
            yield PropCase("der_trailing", {"blob": b.hex(), "t": t.hex()}, (lambda b=b, t=t: chk_der_trailing(b, t)))
    for g in (K1, R1):
        n = g.order()
        for _ in range(400 if quick else 8000):
            r = rng.choice([1, n - 1, rng.randrange(1, n), rng.getrandbits(rng.choice([8, 200, 248, 255])) + 1])
            s = rng.choice([1, n // 2, rng.randrange(1, n // 2 + 1), rng.getrandbits(rng.choice([8, 200, 247, 254])) + 1])
            r, s = min(r, n - 1), min(s, n // 2)
            ht = rng.choice([1, 2, 3, 0x81, 0x82, 0x83, 0x41, 0, 0xff])
            yield PropCase("der_bip66", {"r": hex(r), "s": hex(s), "ht": ht, "n": hex(n)},
                           (lambda r=r, s=s, ht=ht, n=n: chk_der_bip66(r, s, ht, n)))
    syms_all = [s for s, _, _ in nets()]
    syms = [s for s, _ in usable_nets()]
    ses = [1, 2, 3, N1 - 1, N1 - 2, N1 // 2, 1 << 255, 0xff, 1 << 248]
    for sym in syms_all:
        for se in ses[:4] + [rng.randrange(1, N1) for _ in range(2 if quick else 30)]:
            for c in (True, False):
                yield PropCase("sec_roundtrip", {"net": sym, "se": hex(se), "c": c},
                               (lambda sym=sym, se=se, c=c: chk_sec_roundtrip(sym, se, c)))
    for sym in syms:
        for se in ses[:4] + [rng.choice(ses[4:])] + [rng.randrange(1, N1) for _ in range(2 if quick else 30)]:
            for c in (True, False):
                yield PropCase("wif_roundtrip", {"net": sym, "se": hex(se), "c": c},
                               (lambda sym=sym, se=se, c=c: chk_wif_roundtrip(sym, se, c)))
        pre = dict(usable_nets())[sym].parse._wif_prefix
        for d in _wif_payloads(pre, rng, 10 if quick else 200):
            yield PropCase("wif_strict", {"net": sym, "payload": d.hex()}, (lambda sym=sym, d=d: chk_wif_strict(sym, d.hex())))
        for e in (0, -1, N1, N1 + 1, (1 << 256) - 1, 1, N1 - 1):
            yield PropCase("key_range", {"net": sym, "e": hex(e)}, (lambda sym=sym, e=e: chk_key_range(sym, e)))
    for _ in range(300 if quick else 6000):
        x, y = point_on(K1, rng)
        if rng.random() < 0.6:
            x, y = rng.choice([(x, y + 1), (x, y - 1), (x, y + P1), (x, rng.randrange(P1)), (x + P1, y), (x, y - P1), (x, -y), (x - P1, y)])
        yield PropCase("pubpair", {"x": hex(x), "y": hex(y)}, (lambda x=x, y=y: chk_pubpair(x, y)))
    for curve, g, n in (("secp256k1", K1, 10 if quick else 250), ("toy251", toy_generator(251, 0, 7), 15 if quick else 300)):
        for cat, x, y in pair_categories(g, rng, n):
            yield PropCase("pair_presentations", {"curve": curve, "x": None if x is None else hex(x), "y": None if y is None else hex(y), "category": cat},
                           (lambda curve=curve, x=x, y=y: chk_pair_presentations(curve, x, y)))
    # presentations and histories (independent references: ref_sec / ref_from_sec / ref_sigencode / ref_wif / fresh objects)
    for cs in history_curve_sets(rng):
        for bl in history_blobs(cs, rng, 6 if quick else 120):
            for st in (True, False):
                yield PropCase("sec_history", {"curves": [[hex(v) for v in c] for c in cs], "sec": bl.hex(), "strict": st},
                               (lambda cs=cs, bl=bl, st=st: chk_sec_history(cs, bl.hex(), st)))
    k1c = (P1, A1, B1)
    for bl in _sec_blobs_for(K1, rng, 120 if quick else 3000, 8 if quick else 200, 10 ** 9):
        yield PropCase("sec_presentations", {"curve": [hex(v) for v in k1c], "sec": bl.hex()}, (lambda bl=bl: chk_sec_presentations(k1c, bl.hex())))
    for bl in list(_small_strings(1)) + [bytes([pre, x]) for pre in (2, 3, 4, 5) for x in range(0, 256, 3 if quick else 1)]:
        yield PropCase("sec_presentations", {"curve": ["0xfb", "0x0", "0x7"], "sec": bl.hex()}, (lambda bl=bl: chk_sec_presentations((251, 0, 7), bl.hex())))
    for _ in range(150 if quick else 4000):
        r = rng.getrandbits(rng.choice([1, 1, 7, 8, 255, 256, 257, 1016, 1100]))
        s_ = rng.getrandbits(rng.choice([1, 1, 7, 8, 255, 256, 600]))
        yield PropCase("der_presentations", {"r": hex(r), "s": hex(s_)}, (lambda r=r, s_=s_: chk_der_presentations(r, s_)))
    for sym in syms_all[:: (6 if quick else 1)]:
        for e in [0, 1, N1 - 1, N1, (1 << 61) - 1, 1 << 61] + [rng.randrange(1, N1) for _ in range(2 if quick else 20)]:
            yield PropCase("int_presentations", {"net": sym, "e": hex(e)}, (lambda sym=sym, e=e: chk_int_presentations(sym, e)))
    for sym in syms[:: (5 if quick else 1)]:
        for i in range(6 if quick else 60):
            se, private, seed = rng.randrange(1, N1), rng.random() < 0.6, rng.getrandbits(32)
            yield PropCase("key_history", {"net": sym, "se": hex(se), "private": private, "seed": seed},
                           (lambda sym=sym, se=se, private=private, seed=seed: chk_key_history(sym, se, private, seed)))
    for _ in range(60 if quick else 1500):
        trio = [rng.choice(syms) for _ in range(rng.choice([2, 3]))]
        pre = dict(usable_nets())[rng.choice(trio)].parse._wif_prefix
        d = rng.choice(_wif_payloads(pre, rng, 3))
        form = rng.choice(["str", "str-subclass", "parseable_str"])
        yield PropCase("wif_history", {"nets": trio, "payload": d.hex(), "form": form},
                       (lambda trio=trio, d=d, form=form: chk_wif_history(trio, d.hex(), form)))
    for sym in syms[:: (7 if quick else 1)]:
        for idx in range(20):
            se, c = rng.randrange(1, N1), rng.random() < 0.5
            yield PropCase("wif_lookalike", {"net": sym, "se": hex(se), "c": c, "idx": idx},
                           (lambda sym=sym, se=se, c=c, idx=idx: chk_wif_lookalike(sym, se, c, idx)))
    # strictness on the implementation: every blob that Key.from_sec accepts is canonical
    for bl in _sec_blobs_for(K1, rng, 2500 if quick else 50000, 60 if quick else 1500, 10 ** 9):
        yield PropCase("sec_strict", {"curve": "secp256k1", "sec": bl.hex()}, (lambda bl=bl: chk_sec_strict(K1, bl)))
    for bl in _sec_blobs_for(R1, rng, 300 if quick else 6000, 10 if quick else 200, 10 ** 9):
        yield PropCase("sec_strict", {"curve": "secp256r1", "sec": bl.hex()}, (lambda bl=bl: chk_sec_strict(R1, bl)))
    gt = toy_generator(251, 0, 7)
    for bl in _small_strings(2):
        yield PropCase("sec_strict", {"curve": "toy251", "sec": bl.hex()}, (lambda bl=bl: chk_sec_strict(gt, bl)))
    for pre in range(8):
        for x in range(256):
            for y in (0, 1, 250, 251, 255, rng.randrange(256), rng.randrange(256)):
                bl = bytes([pre, x, y])
                yield PropCase("sec_strict", {"curve": "toy251", "sec": bl.hex()}, (lambda bl=bl: chk_sec_strict(gt, bl)))


def _int(h):
    return int(h, 16)


def replay_input(check, inp):
    if check == "der_roundtrip":
        return chk_der_roundtrip(_int(inp["r"]), _int(inp["s"]))
    if check == "der_trailing":
        return chk_der_trailing(bytes.fromhex(inp["blob"]), bytes.fromhex(inp["t"]))
    if check == "der_bip66":
        return chk_der_bip66(_int(inp["r"]), _int(inp["s"]), inp["ht"], _int(inp["n"]))
    if check == "sec_roundtrip":
        return chk_sec_roundtrip(inp["net"], _int(inp["se"]), inp["c"])
    if check == "wif_roundtrip":
        return chk_wif_roundtrip(inp["net"], _int(inp["se"]), inp["c"])
    if check == "wif_strict":
        return chk_wif_strict(inp["net"], inp["payload"])
    if check == "key_range":
        return chk_key_range(inp["net"], _int(inp["e"]))
    if check == "pubpair":
        return chk_pubpair(_int(inp["x"]), _int(inp["y"]))
    if check == "sec_presentations":
        return chk_sec_presentations(tuple(_int(v) for v in inp["curve"]), inp["sec"])
    if check == "sec_history":
        return chk_sec_history([tuple(_int(v) for v in c) for c in inp["curves"]], inp["sec"], inp["strict"])
    if check == "der_presentations":
        return chk_der_presentations(_int(inp["r"]), _int(inp["s"]))
    if check == "int_presentations":
        return chk_int_presentations(inp["net"], _int(inp["e"]))
    if check == "key_history":
        return chk_key_history(inp["net"], _int(inp["se"]), inp["private"], inp["seed"])
    if check == "wif_history":
        return chk_wif_history(inp["nets"], inp["payload"], inp["form"])
    if check == "wif_lookalike":
        return chk_wif_lookalike(inp["net"], _int(inp["se"]), inp["c"], inp["idx"])
    if check == "pair_presentations":
        return chk_pair_presentations(inp["curve"], None if inp["x"] is None else _int(inp["x"]), None if inp["y"] is None else _int(inp["y"]))
    if check == "sec_strict":
        g = {"secp256k1": K1, "secp256r1": R1, "toy251": toy_generator(251, 0, 7)}[inp["curve"]]
        return chk_sec_strict(g, bytes.fromhex(inp["sec"]))
    return {"kind": "unknown-check"}


def classify(pc, r):
    return None          # no open finding for C10


KNOWN_REPLAYS = {}


def _tok_int(t):
    return -int(t[2:], 16) if t.startswith("i-") else int(t[1:], 16)


def search(rng, tier, disagreements, known_ids):
    """after a proof/correspondence break: look for an input on which the property itself fails"""
    cands = []
    gt = toy_generator(251, 0, 7)
    syms = [s for s, _ in usable_nets()]
    for d in disagreements[:60]:
        toks = d["case"].split(" ")
        fn = toks[0]
        try:
            if fn in ("sigencode_der",):
                r, s = _tok_int(toks[1]), _tok_int(toks[2])
                for rr, ss in ((r, s), (r, 1), (1, s), (r + 1, s), (max(r - 1, 0), s)):
                    if rr >= 0 and ss >= 0:
                        cands.append(PropCase("der_roundtrip", {"r": hex(rr), "s": hex(ss)}, (lambda rr=rr, ss=ss: chk_der_roundtrip(rr, ss))))
                        if 1 <= rr < N1 and 1 <= ss <= N1 // 2:
                            cands.append(PropCase("der_bip66", {"r": hex(rr), "s": hex(ss), "ht": 1, "n": hex(N1)},
                                                  (lambda rr=rr, ss=ss: chk_der_bip66(rr, ss, 1, N1))))
            elif fn in ("encode_integer", "encode_length"):
                v = _tok_int(toks[1])
                for rr in (v, v + 1, max(v - 1, 0), 1 << max(v, 0) if v < 3000 else v):
                    if rr >= 0:
                        cands.append(PropCase("der_roundtrip", {"r": hex(rr), "s": "0x1"}, (lambda rr=rr: chk_der_roundtrip(rr, 1))))
                        cands.append(PropCase("der_roundtrip", {"r": "0x1", "s": hex(rr)}, (lambda rr=rr: chk_der_roundtrip(1, rr))))
            elif fn in ("sigdecode_der", "read_length", "remove_integer", "remove_sequence", "bip66_valid"):
                b = bytes.fromhex(toks[1][1:])
                for bb in (b, b[:-1], b"\x30" + bytes([len(b)]) + b, b"\x30\x06\x02\x01\x01" + b):
                    for t in (b"\x00", b"\x01\x01"):
                        cands.append(PropCase("der_trailing", {"blob": bb.hex(), "t": t.hex()}, (lambda bb=bb, t=t: chk_der_trailing(bb, t))))
                    try:
                        r, s = der.sigdecode_der(bb)
                        if r >= 0 and s >= 0:
                            cands.append(PropCase("der_roundtrip", {"r": hex(r), "s": hex(s)}, (lambda r=r, s=s: chk_der_roundtrip(r, s))))
                    except Exception:
                        pass
            elif fn in ("sec_to_public_pair", "key_from_sec", "sec_to_public_pair_arg", "key_from_sec_arg", "is_sec_compressed_arg"):
                if fn == "is_sec_compressed_arg":
                    p, a_, b_ = P1, A1, B1
                    b = bytes.fromhex(toks[2][1:])
                else:
                    p, a_, b_ = _tok_int(toks[1]), _tok_int(toks[2]), _tok_int(toks[3])
                    b = bytes.fromhex(toks[5 if fn.endswith("_arg") else 4][1:])
                # presentations of this very blob, and its history under every curve set that contains this curve
                cv = (p, a_, b_)
                try:
                    gen_for(*cv)
                    cands.append(PropCase("sec_presentations", {"curve": [hex(v) for v in cv], "sec": b.hex()},
                                          (lambda cv=cv, b=b: chk_sec_presentations(cv, b.hex()))))
                    for cs in history_curve_sets(rng):
                        if any(tuple(c) == (cv[0], cv[1] % cv[0], cv[2] % cv[0]) or tuple(c) == cv for c in cs):
                            for st in (True, False):
                                cands.append(PropCase("sec_history", {"curves": [[hex(v) for v in c] for c in cs], "sec": b.hex(), "strict": st},
                                                      (lambda cs=cs, b=b, st=st: chk_sec_history(cs, b.hex(), st))))
                except Exception:
                    pass
                g, nm = (K1, "secp256k1") if p == P1 else (R1, "secp256r1") if p == R1.p() else (gt, "toy251") if p == 251 else (None, None)
                if g is not None:
                    cands.append(PropCase("sec_strict", {"curve": nm, "sec": b.hex()}, (lambda g=g, b=b: chk_sec_strict(g, b))))
                # transplant the shape of the blob to secp256k1
                if b:
                    for body in (enc_w(K1[0], 32), enc_w(K1[0], 32) + enc_w(K1[1], 32), enc_w(K1[0] + P1, 32),
                                 enc_w(K1[0], 32) + enc_w(P1 - K1[1], 32), enc_w(K1[0] + P1, 32) + enc_w(K1[1], 32),
                                 enc_w(K1[0], 32) + enc_w(K1[1] + P1, 32)):
                        bb = b[:1] + body
                        cands.append(PropCase("sec_strict", {"curve": "secp256k1", "sec": bb.hex()}, (lambda bb=bb: chk_sec_strict(K1, bb))))
            elif fn in ("public_pair_to_sec", "to_bytes_32", "points_for_x", "key_public"):
                for se in (1, 2, 3, rng.randrange(1, N1)):
                    for c in (True, False):
                        cands.append(PropCase("sec_roundtrip", {"net": "BTC", "se": hex(se), "c": c},
                                              (lambda se=se, c=c: chk_sec_roundtrip("BTC", se, c))))
            elif fn == "key_public_arg":
                xx = None if toks[8] == "N" else _tok_int(toks[8])
                yy = None if toks[9] == "N" else _tok_int(toks[9])
                cv = "secp256k1" if _tok_int(toks[1]) == P1 else "toy251" if _tok_int(toks[1]) == 251 else None
                if cv:
                    cands.append(PropCase("pair_presentations", {"curve": cv, "x": None if xx is None else hex(xx), "y": None if yy is None else hex(yy)},
                                          (lambda cv=cv, xx=xx, yy=yy: chk_pair_presentations(cv, xx, yy))))
                if cv != "secp256k1":
                    for cat, x2, y2 in pair_categories(K1, rng, 3):
                        cands.append(PropCase("pair_presentations", {"curve": "secp256k1", "x": None if x2 is None else hex(x2), "y": None if y2 is None else hex(y2)},
                                              (lambda x2=x2, y2=y2: chk_pair_presentations("secp256k1", x2, y2))))
            elif fn == "sigdecode_der_arg":
                bb = bytes.fromhex(toks[2][1:])
                try:
                    r_, s_ = der.sigdecode_der(bytes(bb))
                    if r_ >= 0 and s_ >= 0:
                        cands.append(PropCase("der_presentations", {"r": hex(r_), "s": hex(s_)}, (lambda r_=r_, s_=s_: chk_der_presentations(r_, s_))))
                except Exception:
                    pass
                cands.append(PropCase("der_presentations", {"r": "0x5", "s": "0x80"}, (lambda: chk_der_presentations(5, 0x80))))
            elif fn in ("sigencode_der_arg", "public_pair_to_sec_arg"):
                r_, s_ = _tok_int(toks[2]), _tok_int(toks[4])
                if r_ >= 0 and s_ >= 0:
                    cands.append(PropCase("der_presentations", {"r": hex(r_), "s": hex(s_)}, (lambda r_=r_, s_=s_: chk_der_presentations(r_, s_))))
            elif fn == "key_private_arg":
                e = _tok_int(toks[3])
                cands.append(PropCase("int_presentations", {"net": "BTC", "e": hex(e)}, (lambda e=e: chk_int_presentations("BTC", e))))
            elif fn == "key_private":
                e = _tok_int(toks[2])
                for ee in (e, e - 1, e + 1, 0, N1, (1 << 256) - 1):
                    cands.append(PropCase("key_range", {"net": "BTC", "e": hex(ee)}, (lambda ee=ee: chk_key_range("BTC", ee))))
            elif fn in ("wif_payload", "parse_wif_payload"):
                sym = d.get("meta") or "BTC"
                if sym not in syms:
                    sym = "BTC"
                if fn == "parse_wif_payload" and toks[3] != "N":
                    data = bytes.fromhex(toks[3][1:])
                    cands.append(PropCase("wif_strict", {"net": sym, "payload": data.hex()}, (lambda sym=sym, data=data: chk_wif_strict(sym, data.hex()))))
                for se in (1, N1 - 1, rng.randrange(1, N1)):
                    for c in (True, False):
                        cands.append(PropCase("wif_roundtrip", {"net": sym, "se": hex(se), "c": c},
                                              (lambda sym=sym, se=se, c=c: chk_wif_roundtrip(sym, se, c))))
        except Exception:
            continue
    cands += list(prop_cases(rng, "thorough" if tier == "thorough" else "quick"))
    for pc in cands:
        try:
            r = pc.thunk()
        except Exception as e:
            r = {"kind": "raises", "detail": "%s: %s" % (type(e).__name__, e)}
        if r is not None and classify(pc, r) not in known_ids:
            return {"check": pc.name, "input": pc.inp, "failure": r}
    return None
