"""C10 — key and signature encodings (WIF, SEC, DER) are lossless and strict."""
from common import *
import importlib, pkgutil, io, contextlib, hashlib as _hl
from pycoin.satoshi import der
from pycoin.satoshi.checksigops import check_valid_signature
from pycoin.encoding import sec as secm
from pycoin.encoding.bytes32 import to_bytes_32, from_bytes_32
from pycoin.ecdsa.Generator import Generator
from pycoin.ecdsa.secp256k1 import secp256k1_generator as K1
from pycoin.ecdsa.secp256r1 import secp256r1_generator as R1
from pycoin.key.Key import Key, InvalidSecretExponentError, InvalidPublicPairError
import pycoin.symbols as _symbols

PROP = "C10"
EXTRA_PROPS = ["C10compose"]   # composition theorems (see DESIGN.md section 0)
DRIVER = "C10"
RULE = ("correspondence: one driver line per call of the modelled function (sigencode_der, sigdecode_der, encode_integer, "
        "encode_length, read_length, remove_integer, remove_sequence, check_valid_signature-vs-BIP66 spec, to_bytes_32, "
        "public_pair_to_sec, sec_to_public_pair, points_for_x, Key.from_sec, Key(public_pair) for tuple/list/Point presentations "
        "(key_public_arg), Key(secret_exponent), "
        "Key.wif payload, ParseAPI.wif on a payload); distinct = distinct line; non-trivial = the model returns a value")
PARTIAL = [
    "C10_der_roundtrip carries the hypothesis der_expressible (signature body shorter than 256^127 bytes: the limit of "
    "the DER long form itself, beyond any byte string that can exist); no pycoin finding is excluded",
    "SEC round trip keeps `prime p` and the Fermat premise as hypotheses (proved by computation for p = 251 only)",
    "WIF: the Base58Check layer is a quantified pair with a round-trip hypothesis (property C11); hash160/address of the "
    "re-parsed key are compared on the implementation only (direct checks), the public point e*G is C02's subject",
    "GRS/GRSRT/TGRS: groestlcoin_hash is not installed, their WIF text layer cannot run; prefixes are in the table only",
]
TRUSTED = [
    "int.to_bytes/from_bytes(…, 'big'), '%x' formatting + unhexlify, bytes slicing, pow(a, e, m) modelled by hand "
    "(square-and-multiply with a proved a^e mod m specification)",
    "harness-side Base58Check encoder (hashlib) used to feed ParseAPI.wif with arbitrary payloads",
]

P1, A1, B1, N1 = K1.p(), K1._a, K1._b, K1.order()


# ---- helpers ---------------------------------------------------------------------------------------
_B58 = "123456789ABCDEFGHJKLMNPQRSTUVWXYZabcdefghijkmnopqrstuvwxyz"


def b58check(data: bytes) -> str:
    """independent Base58Check encoder"""
    full = data + _hl.sha256(_hl.sha256(data).digest()).digest()[:4]
    v = int.from_bytes(full, "big")
    s = ""
    while v:
        v, r = divmod(v, 58)
        s = _B58[r] + s
    return "1" * (len(full) - len(full.lstrip(b"\0"))) + s


def b58check_decode(s: str):
    v = 0
    for ch in s:
        v = v * 58 + _B58.index(ch)
    pad = len(s) - len(s.lstrip("1"))
    raw = b"\0" * pad + (v.to_bytes((v.bit_length() + 7) // 8, "big") if v else b"")
    data, chk = raw[:-4], raw[-4:]
    if _hl.sha256(_hl.sha256(data).digest()).digest()[:4] != chk:
        raise ValueError("bad checksum")
    return data


def _is_prime(n):
    if n < 2:
        return False
    for q in (2, 3, 5, 7, 11, 13, 17, 19, 23, 29, 31, 37):
        if n % q == 0:
            return n == q
    d, r = n - 1, 0
    while d % 2 == 0:
        d //= 2
        r += 1
    for a in (2, 3, 5, 7, 11, 13, 17, 19, 23, 29, 31, 37, 41, 43, 47, 53):
        x = pow(a, d, n)
        if x in (1, n - 1):
            continue
        for _ in range(r - 1):
            x = x * x % n
            if x == n - 1:
                break
        else:
            return False
    return True


def _ec_add(p, a, P, Q):
    if P is None:
        return Q
    if Q is None:
        return P
    if P[0] == Q[0] and (P[1] + Q[1]) % p == 0:
        return None
    if P == Q:
        l = (3 * P[0] * P[0] + a) * pow(2 * P[1], p - 2, p) % p
    else:
        l = (Q[1] - P[1]) * pow(Q[0] - P[0], p - 2, p) % p
    x = (l * l - P[0] - Q[0]) % p
    return (x, (l * (P[0] - x) - P[1]) % p)


def _point_order(p, a, P):
    k, Q = 1, P
    while Q is not None:
        Q = _ec_add(p, a, Q, P)
        k += 1
    return k


_ENT = lambda n: b"\x01" * n
_TOYS = {}


def toy_generator(p, a, b):
    """a pycoin Generator over F_p (p = 3 mod 4).  Small p: the group order is counted; large p: only
    y^2 = x^3 + b with p = 2 mod 3 is used, whose order is p + 1."""
    key = (p, a, b)
    if key in _TOYS:
        return _TOYS[key]
    assert p % 4 == 3 and _is_prime(p)
    if p < 3000:
        cnt = 1
        basis = None
        for x in range(p):
            al = (x * x * x + a * x + b) % p
            if al == 0:
                cnt += 1
            elif pow(al, (p - 1) // 2, p) == 1:
                cnt += 2
                if basis is None:
                    basis = (x, pow(al, (p + 1) // 4, p))
        order = _point_order(p, a, basis)
        assert cnt % order == 0
    else:
        assert a == 0 and p % 3 == 2
        order = p + 1
        x = 1
        while True:
            al = (x * x * x + b) % p
            y = pow(al, (p + 1) // 4, p)
            if y and y * y % p == al:
                basis = (x, y)
                break
            x += 1
    g = Generator(p, a, b, basis, order, entropy_f=_ENT)
    _TOYS[key] = g
    return g


def _prime_below(bits):
    """largest prime p < 2^bits with p = 11 (mod 12)"""
    p = (1 << bits) - 1
    while not (p % 12 == 11 and _is_prime(p)):
        p -= 1
    return p


SMALL_CURVES = [(251, 0, 7), (239, 3, 5), (1019, 1016, 6)]
MID_BITS = [16, 24, 32, 63, 64, 65, 127, 128]
_KEYCLS = {}


def key_class(g):
    k = id(g)
    if k not in _KEYCLS:
        _KEYCLS[k] = Key.make_subclass("T%d" % len(_KEYCLS), network=None, generator=g)
    return _KEYCLS[k]


def gen_args(g):
    return "%s %s %s" % (arg(g.p()), arg(g._a), arg(g._b))


def bc_of(g):
    return (g.p().bit_length() + 7) >> 3


def point_on(g, rng):
    """a random finite point of the curve of g (y may be 0 only by accident of the curve)"""
    p = g.p()
    while True:
        x = rng.randrange(p)
        al = (x * x * x + g._a * x + g._b) % p
        y = pow(al, (p + 1) // 4, p)
        if y * y % p == al:
            return (x, y if rng.random() < 0.5 else (p - y) % p)


def enc_w(v, w):
    return (v % (1 << (8 * w))).to_bytes(w, "big")


# ---- networks -----------------------------------------------------------------------------------------
def networks():
    """[(symbol, network, usable)] for every module of pycoin/symbols"""
    res = []
    for m in sorted(x.name for x in pkgutil.iter_modules(_symbols.__path__)):
        net = importlib.import_module("pycoin.symbols." + m).network
        usable = True
        try:
            with contextlib.redirect_stdout(io.StringIO()):
                net.wif_for_blob(b"\0" * 32)
        except ImportError:
            usable = False
        res.append((net.symbol, net, usable))
    return res


_NETS = None


def nets():
    global _NETS
    if _NETS is None:
        _NETS = networks()
    return _NETS


def usable_nets():
    return [(s, n) for s, n, u in nets() if u]


# ---- DER generators -----------------------------------------------------------------------------------
def _der_ints(rng, tier):
    out = [0, 1, 2, 0x7f, 0x80, 0x81, 0xff, 0x100, 0x7fff, 0x8000, 0xffff, 0x10000, -1, -255,
           N1 - 1, N1, N1 // 2, N1 // 2 + 1, P1, (1 << 256) - 1, 1 << 256, (1 << 255), (1 << 255) - 1]
    for k in list(range(0, 49, 8)) + list(range(240, 273, 8)) + [488, 496, 504, 1000, 1008, 1016, 1024, 2032, 2040, 2048]:
        for d in (-1, 0, 1):
            out.append((1 << k) + d)
            out.append((1 << (k - 1 if k else 0)) + d)
    out += [(1 << 1015) - 1, 1 << 1015, (1 << 1015) + 1, (1 << 1016) - 1, (1 << 2039) - 1, 1 << 2039, (1 << 2040) - 1]
    n = 300 if tier == "quick" else 6000
    for _ in range(n):
        nb = rng.choice([1, 2, 8, 16, 20, 31, 32, 32, 32, 33, 40, 61, 62, 63, 64, 100, 126, 127, 128, 130, 254, 255, 256, 260])
        v = rng.getrandbits(8 * nb)
        if rng.random() < 0.3:
            v |= 1 << (8 * nb - 1)
        if rng.random() < 0.2:
            v &= (1 << (8 * nb - 1)) - 1
        out.append(v)
    return [v for v in out if v > -1000]


def _sig_pairs(rng, tier):
    ints = _der_ints(rng, tier)
    small = [v for v in ints if 0 <= v < (1 << 300)]
    pairs = [(r, 1) for r in ints] + [(1, s) for s in (ints if tier != "quick" else ints[::3])]
    for _ in range(400 if tier == "quick" else 8000):
        pairs.append((rng.choice(small), rng.choice(small)))
    for _ in range(60 if tier == "quick" else 1500):
        pairs.append((rng.choice(ints), rng.choice(ints)))
    return pairs


def _valid_sigs(rng, k):
    out = []
    for _ in range(k):
        nb = rng.choice([1, 8, 20, 31, 32, 32, 32, 32, 33])
        r = rng.getrandbits(8 * nb) | rng.choice([0, 1 << (8 * nb - 1)])
        s = rng.getrandbits(8 * nb) | rng.choice([0, 1 << (8 * nb - 1)])
        out.append(der.sigencode_der(max(r, 1), max(s, 1)))
    return out


def _mutate_der(rng, b):
    """one mutation of a DER blob: length bytes, sign bytes, tags, truncation, trailing/inserted bytes"""
    b = bytearray(b)
    kind = rng.randrange(12)
    if kind == 0 and len(b) > 1:
        b[1] = rng.choice([0, 1, len(b) - 3, len(b) - 2, len(b) - 1, len(b), 0x7f, 0x80, 0x81, 0x82, 0x84, 0xff, b[1] ^ 1])
    elif kind == 1 and len(b) > 3:
        b[3] = rng.choice([0, 1, b[3] - 1, b[3] + 1, 0x7f, 0x80, 0x81, 0x82, 0xff]) & 0xff
    elif kind == 2 and len(b) > 3:
        i = 5 + b[3]
        if i < len(b):
            b[i] = rng.choice([0, 1, b[i] - 1, b[i] + 1, 0x7f, 0x80, 0x81, 0xff]) & 0xff
    elif kind == 3 and len(b) > 4:
        b[4] = rng.choice([0, 0x7f, 0x80, 0xff, b[4] ^ 0x80])
    elif kind == 4 and len(b) > 3:
        i = 6 + b[3]
        if i < len(b):
            b[i] = rng.choice([0, 0x7f, 0x80, 0xff, b[i] ^ 0x80])
    elif kind == 5:
        b = b[:rng.randrange(len(b) + 1)]
    elif kind == 6:
        b += bytes(rng.getrandbits(8) for _ in range(rng.choice([1, 1, 2, 5])))
    elif kind == 7 and len(b) > 2:
        i = rng.randrange(len(b))
        b[i] = rng.getrandbits(8)
    elif kind == 8 and len(b) > 2:
        i = rng.choice([0, 2, min(len(b) - 1, 4 + b[3])]) if len(b) > 3 else 0
        b[i] = rng.choice([0x30, 0x02, 0x03, 0x31, 0x00])
    elif kind == 9 and len(b) > 3:
        # long-form header
        body = bytes(b[2:])
        ll = rng.choice([1, 2, 3])
        b = bytearray(b"\x30" + bytes([0x80 | ll]) + len(body).to_bytes(ll, "big") + body)
    elif kind == 10 and len(b) > 3:
        # insert a zero in front of r
        b = bytearray(bytes(b[:4]) + b"\x00" + bytes(b[4:]))
        b[3] = (b[3] + 1) & 0xff
        b[1] = (b[1] + 1) & 0xff
    else:
        i = rng.randrange(len(b) + 1)
        b = bytearray(bytes(b[:i]) + bytes([rng.getrandbits(8)]) + bytes(b[i:]))
    return bytes(b)


def _small_strings(maxlen, first=None):
    yield b""
    if maxlen >= 1:
        for a in range(256):
            yield bytes([a])
    if maxlen >= 2:
        for a in (range(256) if first is None else first):
            for c in range(256):
                yield bytes([a, c])


def _der_blobs(rng, tier):
    out = list(_small_strings(2, None if tier == "thorough" else [0, 1, 2, 3, 4, 0x30, 0x31, 0x7f, 0x80, 0x81, 0x82, 0xff]))
    for a in (0x30, 0x02):
        for c in (0, 1, 2, 3, 0x7f, 0x80, 0x81, 0x82, 0x83, 0xff):
            for d in (0, 1, 2, 0x30, 0x80, 0xff):
                out.append(bytes([a, c, d]))
                out.append(bytes([a, c, d, 1]))
                out.append(bytes([a, c, 2, d, 1, 2, 1, 1]))
    base = _valid_sigs(rng, 150 if tier == "quick" else 2500)
    out += base
    for b in base:
        for _ in range(6 if tier == "quick" else 12):
            m = _mutate_der(rng, b)
            if rng.random() < 0.3:
                m = _mutate_der(rng, m)
            out.append(m)
    # huge announced lengths (never converted to nat in the model)
    out += [b"\x30\x84\xff\xff\xff\xff\x02\x01\x01\x02\x01\x01", b"\x30\x06\x02\x84\xff\xff\xff\xff\x01\x02\x01\x01",
            b"\x30\x88" + b"\xff" * 8 + b"\x02\x01\x01\x02\x01\x01", b"\x30\x06\x02\x01\x01\x02\x88" + b"\xff" * 8 + b"\x01",
            b"\x30\x80", b"\x30\x80\x02\x01\x01\x02\x01\x01", b"\x30\x06\x02\x80\x01\x02\x01\x01", b"\x30\x04\x02\x00\x02\x00",
            b"\x30", b"\x30\x81", b"\x30\x02\x02", b"\x30\x03\x02\x01", b"\x30\x03\x02\x01\x01", b"\x30\x05\x02\x01\x01\x02"]
    for _ in range(300 if tier == "quick" else 8000):
        out.append(bytes(rng.choice([rng.getrandbits(8), 0x30, 0x02, 0x01, 0x00, 0x80, 0x81, 0x20, 0x21]) for _ in range(rng.randint(0, 14))))
    return out


# ---- SEC generators -----------------------------------------------------------------------------------
def _sec_blobs_for(g, rng, n_random, n_valid, compressed_budget):
    """candidate SEC blobs for generator g.  `compressed_budget` caps the blobs that make the model run a
    full-size modular exponentiation (compressed form, prefix 02/03, x < p)."""
    p = g.p()
    bc = bc_of(g)
    out = []
    budget = [compressed_budget]

    def add(b):
        if len(b) == 1 + bc and b[:1] in (b"\x02", b"\x03") and int.from_bytes(b[1:], "big") < p:
            if budget[0] <= 0:
                return
            budget[0] -= 1
        out.append(b)
    top = (1 << (8 * bc)) - 1
    xs_edge = [0, 1, 2, p - 2, p - 1, p, p + 1, top, top - 1, p // 2]
    for _ in range(n_valid):
        x, y = point_on(g, rng)
        xb, yb = enc_w(x, bc), enc_w(y, bc)
        add(bytes([2 + (y & 1)]) + xb)
        add(bytes([3 - (y & 1)]) + xb)
        out.append(b"\x04" + xb + yb)
        out.append(bytes([6 + (y & 1)]) + xb + yb)
        out.append(bytes([7 - (y & 1)]) + xb + yb)
        out.append(b"\x04" + xb + enc_w(p - y, bc))
        out.append(b"\x04" + xb + enc_w(y + 1, bc))
        out.append(b"\x04" + xb + enc_w(y + p, bc))
        out.append(b"\x04" + enc_w(x + p, bc) + yb)
        out.append(b"\x04" + xb + yb + b"\x00")
        out.append(b"\x04" + xb + yb[:-1])
        out.append(bytes([2 + (y & 1)]) + xb + b"\x00")
        out.append(bytes([2 + (y & 1)]) + xb[:-1])
        out.append(bytes([2 + (y & 1)]) + enc_w(x + p, bc))
        for pre in (0, 1, 5, 8, 0x82, 0xff):
            out.append(bytes([pre]) + xb)
            out.append(bytes([pre]) + xb + yb)
    for x in xs_edge:
        for pre in range(0, 8):
            if 0 <= x <= top:
                add(bytes([pre]) + enc_w(x, bc))
                for y in (0, 1, p - 1, p, p + 1, top):
                    if 0 <= y <= top:
                        out.append(bytes([pre]) + enc_w(x, bc) + enc_w(y, bc))
    lens = [0, 1, 2, bc - 1, bc, bc + 1, bc + 2, 2 * bc - 1, 2 * bc, 2 * bc + 1, 2 * bc + 2]
    for _ in range(n_random):
        ln = rng.choice(lens) if rng.random() < 0.7 else rng.randint(0, 70)
        ln = max(0, ln)
        b = bytearray(rng.getrandbits(8) for _ in range(ln))
        if ln:
            b[0] = rng.randrange(8) if rng.random() < 0.85 else rng.getrandbits(8)
        if ln > bc and rng.random() < 0.4:
            xv = rng.choice([p - 1, p, p + 1, top, rng.randrange(p)])
            b[1:1 + bc] = enc_w(xv, bc)
        if ln > 2 * bc and rng.random() < 0.4:
            yv = rng.choice([p - 1, p, p + 1, top, rng.randrange(p)])
            b[1 + bc:1 + 2 * bc] = enc_w(yv, bc)
        add(bytes(b))
    return out


def _impl_sec(g, blob, strict):
    r = secm.sec_to_public_pair(blob, g, strict=strict)
    return (int(r[0]), int(r[1]))


def _impl_from_sec(g, blob):
    k = key_class(g).from_sec(blob)
    pp = k.public_pair()
    return ((int(pp[0]), int(pp[1])), k.is_compressed())


def _impl_pts(g, x):
    a, b = g.points_for_x(x)
    return ((int(a[0]), int(a[1])), (int(b[0]), int(b[1])))


def _impl_key_public(g, x, y):
    k = key_class(g)(public_pair=(x, y))
    pp = k.public_pair()
    return (int(pp[0]), int(pp[1]))


def _impl_keys_public(x, y):
    """through the network API: network.keys.public(pair)"""
    k = _btc().keys.public((x, y))
    pp = k.public_pair()
    return (int(pp[0]), int(pp[1]))


def _btc():
    return dict(usable_nets())["BTC"]


def _impl_key_private(g, e):
    return key_class(g)(secret_exponent=e).secret_exponent()


def _impl_bip66(b):
    from pycoin.coins.SolutionChecker import ScriptError
    try:
        check_valid_signature(b)
        return True
    except ScriptError:
        return False


def _impl_wif_payload(net, se, c):
    k = net.keys.private(se, is_compressed=not c)    # the explicit argument of wif() must win
    return b58check_decode(k.wif(is_compressed=c))


def _impl_parse_wif(net, data):
    text = b58check(data) if data is not None else "1111"
    k = net.parse.wif(text)
    if k is None:
        return None
    return (k.secret_exponent(), k.is_compressed())


def _wif_payloads(prefix, rng, n):
    out = []
    edge = [0, 1, 2, N1 - 1, N1, N1 + 1, (1 << 256) - 1, 1 << 255, P1]
    for se in edge:
        b = enc_w(se, 32)
        out += [prefix + b, prefix + b + b"\x01", prefix + b + b"\x00", prefix + b + b"\x02", prefix + b + b"\x07",
                prefix + b + b"\x01\x01", prefix + b[:-1], prefix + b[:-1] + b"\x01", b + b"\x01", b]
    out += [b"", prefix, prefix[:-1], prefix + b"\x01", prefix * 2, prefix + b"\x00" * 5, prefix + b"\x11" * 40,
            prefix + b"\x00" * 31 + b"\x01", prefix + b"\x00" * 32 + b"\x01"]
    for _ in range(n):
        ln = rng.choice([0, 1, 5, 20, 30, 31, 32, 32, 32, 33, 33, 33, 34, 35, 40, 64])
        b = bytes(rng.getrandbits(8) for _ in range(ln))
        if ln >= 33 and rng.random() < 0.7:
            b = b[:32] + bytes([rng.choice([0, 1, 1, 1, 2, 7, 0x80, 0xff])]) + b[33:]
        pre = prefix
        r = rng.random()
        if r < 0.1:
            pre = bytes([prefix[0] ^ rng.choice([1, 0x80, 0xff])]) + prefix[1:]
        elif r < 0.15:
            pre = prefix[:-1]
        elif r < 0.2:
            pre = prefix + prefix[-1:]
        out.append(pre + b)
    return out


# ---- the public pair in every presentation Key.__init__ accepts --------------------------------------------
from pycoin.ecdsa.Curve import Curve as _Curve
_CURVES = {}


def _curve(p, a, b):
    k = (p, a % p, b % p)
    if k not in _CURVES:
        _CURVES[k] = _Curve(p, a % p, b % p)
    return _CURVES[k]


def _on(p, a, b, x, y):
    return (y * y - (x * x * x + a * x + b)) % p == 0


def presentations(g, x, y):
    """[(kind, (cp, ca, cb), object)] — every way (x, y) can be handed to Key(public_pair=...) for the key generator g:
    tuple, list, and a Point object of every curve we can build it on: g's own curve (if on it, also unreduced),
    secp256r1, y^2=x^3+3 and y^2=x^3+x over g's field, and the curve y^2=x^3+b' FITTED to the pair (so even a pair
    that is on no named curve travels as a genuine, constructor-validated Point).  kind: 0 tuple, 1 list, 2 Point."""
    out = [(0, (0, 0, 0), (x, y)), (1, (0, 0, 0), [x, y])]
    if x is None or y is None:
        if x is None and y is None:
            out.append((2, (g.p(), g._a, g._b), g.infinity()))
            out.append((2, (R1.p(), R1._a, R1._b), R1.infinity()))
            out.append((2, (g.p(), 0, 3), _curve(g.p(), 0, 3).infinity()))
        return out
    p = g.p()
    cands = [(g.p(), g._a, g._b, g), (R1.p(), R1._a, R1._b, R1), (p, 0, 3, None), (p, 1, 0, None),
             (p, 0, (y * y - x * x * x) % p, None)]
    seen = set()
    for cp, ca, cb, obj in cands:
        if (cp, ca % cp, cb % cp) in seen or not _on(cp, ca, cb, x, y):
            continue
        seen.add((cp, ca % cp, cb % cp))
        c = obj if obj is not None else _curve(cp, ca, cb)
        out.append((2, (cp, ca % cp, cb % cp), c.Point(x, y)))
    return out


def pair_categories(g, rng, n):
    """[(category, x, y)] relative to the key generator g"""
    p = g.p()
    out = [("zero", 0, 0), ("infinity", None, None), ("half-none", None, 5), ("half-none", 5, None)]
    toy3 = _curve(p, 0, 3)
    for _ in range(n):
        x, y = point_on(g, rng)
        out += [("on", x, y), ("on", x, (p - y) % p), ("unreduced", x + p, y), ("unreduced", x, y + p), ("unreduced", x, y - p),
                ("unreduced", x - p, y), ("unreduced", x + p, y + p), ("off", x, (y + 1) % p), ("off", (x + 1) % p, y)]
        e = rng.randrange(1, 1 << 64)
        m = e * g
        if m[0] is not None:
            out.append(("multiple", int(m[0]), int(m[1])))
        if p == R1.p() or p == P1:
            r = rng.randrange(1, 1 << 64) * R1
            if not _on(p, g._a, g._b, int(r[0]), int(r[1])):
                out.append(("r1-only", int(r[0]), int(r[1])))
        # a point of y^2 = x^3 + 3 over g's field
        while True:
            xx = rng.randrange(p)
            al = (xx * xx * xx + 3) % p
            yy = pow(al, (p + 1) // 4, p)
            if yy * yy % p == al:
                break
        if not _on(p, g._a, g._b, xx, yy):
            out.append(("b3-only", xx, yy))
            out.append(("b3-unreduced", xx + p, yy))
        out.append(("random", rng.randrange(p), rng.randrange(p)))
    return out


def _impl_key_public_obj(g, obj):
    k = key_class(g)(public_pair=obj)
    pp = k.public_pair()
    return (int(pp[0]), int(pp[1]))


def _impl_keys_public_obj(obj):
    k = _btc().keys.public(obj)
    pp = k.public_pair()
    return (int(pp[0]), int(pp[1]))


def _arg_opt(v):
    return "N" if v is None else arg(v)


def presentation_cases(g, rng, n, through_network=False):
    ga = gen_args(g)
    for cat, x, y in pair_categories(g, rng, n):
        for kind, (cp, ca, cb), obj in presentations(g, x, y):
            line = "key_public_arg %s %s %s %s %s %s %s" % (ga, arg(kind), arg(cp), arg(ca), arg(cb), _arg_opt(x), _arg_opt(y))
            yield Case(line, (lambda g=g, obj=obj: call(_impl_key_public_obj, g, obj)), meta=cat)
            if through_network and kind != 1:
                yield Case(line, (lambda obj=obj: call(_impl_keys_public_obj, obj)), meta=cat)


def _outcome(f, *a):
    try:
        return ("ok", f(*a))
    except Exception as ex:
        return ("exc", type(ex).__name__)


def chk_pair_presentations(curve, x, y):
    """acceptance / exception type of a public pair must not depend on how it is presented, and must be
    'on the key's curve and 0 <= x, y < p' — through Key(public_pair=...), network.keys.public(...) and the SEC round trip"""
    g = {"secp256k1": K1, "toy251": toy_generator(251, 0, 7)}[curve]
    p = g.p()
    ok = x is not None and y is not None and _on(p, g._a, g._b, x, y) and 0 <= x < p and 0 <= y < p
    want = ("ok", (x, y)) if ok else ("exc", "InvalidPublicPairError")
    addrs = set()
    for kind, cv, obj in presentations(g, x, y):
        label = {0: "tuple", 1: "list", 2: "Point of curve (p=%x.., a=%d, b=%d)" % (cv[0] >> max(cv[0].bit_length() - 16, 0), cv[1] if cv[1] < 1000 else -1, cv[2] if cv[2] < 1000 else -1)}[kind]
        got = _outcome(_impl_key_public_obj, g, obj)
        if got != want:
            return {"kind": "pair-accepted-off-curve" if got[0] == "ok" else "pair-wrong-outcome", "presentation": label,
                    "got": str(got)[:200], "want": str(want)[:200]}
        if g is K1 and kind != 1:
            for sym in ("BTC", "LTC"):
                net = dict(usable_nets())[sym]
                try:
                    k = net.keys.public(obj)
                    got = ("ok", (int(k.public_pair()[0]), int(k.public_pair()[1])))
                except Exception as ex:
                    k = None
                    got = ("exc", type(ex).__name__)
                if got != want:
                    return {"kind": "pair-accepted-off-curve" if got[0] == "ok" else "pair-wrong-outcome", "presentation": label,
                            "via": sym + ".keys.public", "got": str(got)[:200], "want": str(want)[:200],
                            "address": k.address() if k is not None else None}
                if k is not None:
                    if sym == "BTC":
                        addrs.add(k.address())
                    for c in (True, False):
                        back = net.keys.public(k.sec(is_compressed=c))
                        if tuple(back.public_pair()) != (x, y) or back.address(is_compressed=True) != k.address(is_compressed=True):
                            return {"kind": "pair-sec-roundtrip", "presentation": label}
    if len(addrs) > 1:
        return {"kind": "pair-presentation-changes-address", "addresses": sorted(addrs)}
    return None


# ---- correspondence ------------------------------------------------------------------------------------
def model_cases(rng, tier):
    quick = tier == "quick"
    # ---------------- DER
    for r, s in _sig_pairs(rng, tier):
        yield Case("sigencode_der %s %s" % (arg(r), arg(s)), (lambda r=r, s=s: call(der.sigencode_der, r, s)))
    for v in _der_ints(rng, tier):
        yield Case("encode_integer " + arg(v), (lambda v=v: call(der.encode_integer, v)))
    for l in list(range(-2, 300)) + [65535, 65536, 1 << 24, (1 << 1008) - 1, 1 << 1008, (1 << 1016) - 1, 1 << 1016, 1 << 2000]:
        yield Case("encode_length " + arg(l), (lambda l=l: call(der.encode_length, l)))
    blobs = _der_blobs(rng, tier)
    for b in blobs:
        for br in (False, True):
            yield Case("sigdecode_der %s %s" % (arg(b), arg(br)), (lambda b=b, br=br: call(der.sigdecode_der, b, br)))
    sub = [b for b in blobs if len(b) <= 1 or (len(b) == 2 and b[0] in (0, 2, 0x30, 0x7f, 0x80, 0x81, 0x82, 0xff))] + \
        [b[i:] for b in blobs[-2000:] if len(b) > 2 for i in (1, 2)] + [b for b in blobs[-1500:] if len(b) > 2]
    for b in sub:
        yield Case("read_length " + arg(b), (lambda b=b: call(der.read_length, b)))
        yield Case("remove_sequence " + arg(b), (lambda b=b: call(der.remove_sequence, b)))
        for br in (False, True):
            yield Case("remove_integer %s %s" % (arg(b), arg(br)), (lambda b=b, br=br: call(der.remove_integer, b, br)))
    # the BIP66 spec against pycoin's port of IsValidSignatureEncoding (validates the spec used by the theorem)
    for b in _valid_sigs(rng, 200 if quick else 4000):
        cands = [b + b"\x01", b, b + b"\x01\x01", b[:-1]]
        for _ in range(5):
            cands.append(_mutate_der(rng, b) + bytes([rng.choice([1, 2, 3, 0x81, 0])]))
        for c in cands:
            yield Case("bip66_valid " + arg(c), (lambda c=c: call(_impl_bip66, c)))
    for _ in range(300 if quick else 6000):
        c = bytes(rng.choice([rng.getrandbits(8), 0x30, 0x02, 0x20, 0x21, 0x00, 0x80]) for _ in range(rng.choice([8, 9, 10, 40, 70, 71, 72, 73, 74])))
        yield Case("bip66_valid " + arg(c), (lambda c=c: call(_impl_bip66, c)))

    # ---------------- bytes32 / SEC encoder
    edge = [-1, 0, 1, 255, 256, P1 - 1, P1, P1 + 1, N1, (1 << 256) - 1, 1 << 256, (1 << 256) + 1, 1 << 300]
    for v in edge + [rng.getrandbits(rng.choice([8, 64, 255, 256, 257])) for _ in range(100)]:
        yield Case("to_bytes_32 " + arg(v), (lambda v=v: call(to_bytes_32, v)))
    pairs = [(x, y) for x in edge for y in (-1, 0, 1, 2, P1 - 1, P1, (1 << 256) - 1, 1 << 256)]
    pairs += [point_on(K1, rng) for _ in range(100 if quick else 2000)]
    pairs += [(rng.getrandbits(256), rng.getrandbits(rng.choice([1, 255, 256, 257]))) for _ in range(100)]
    for x, y in pairs:
        for c in (True, False):
            yield Case("public_pair_to_sec %s %s %s" % (arg(x), arg(y), arg(c)),
                       (lambda x=x, y=y, c=c: call(secm.public_pair_to_sec, (x, y), c)))

    # ---------------- SEC decoder: production curves (model cost ~0.8 s per full-size square root: rationed)
    plan = [(K1, 1500 if quick else 30000, 12 if quick else 300, 14 if quick else 260),
            (R1, 150 if quick else 2000, 3 if quick else 40, 4 if quick else 50)]
    for g, nr, nv, budget in plan:
        ga = gen_args(g)
        blobs = _sec_blobs_for(g, rng, nr, nv, budget)
        seen = set()
        if g is K1:
            # every byte string of length 0..2 (all refused at 256 bits; quick: strict mode only for the bulk)
            for b in _small_strings(2):
                seen.add(b)
                full = (not quick) or len(b) <= 1 or b[0] < 8
                yield Case("sec_to_public_pair %s %s T" % (ga, arg(b)), (lambda g=g, b=b: call(_impl_sec, g, b, True)))
                if full:
                    yield Case("sec_to_public_pair %s %s F" % (ga, arg(b)), (lambda g=g, b=b: call(_impl_sec, g, b, False)))
                    yield Case("key_from_sec %s %s" % (ga, arg(b)), (lambda g=g, b=b: call(_impl_from_sec, g, b)))
        for b in blobs:
            if b in seen:
                continue
            seen.add(b)
            expensive = len(b) == 33 and b[:1] in (b"\x02", b"\x03") and int.from_bytes(b[1:], "big") < g.p()
            if expensive:
                # one full-size root per blob: spread the modes instead of repeating them
                mode = rng.randrange(3)
                if mode == 0:
                    yield Case("sec_to_public_pair %s %s T" % (ga, arg(b)), (lambda g=g, b=b: call(_impl_sec, g, b, True)))
                elif mode == 1:
                    yield Case("sec_to_public_pair %s %s F" % (ga, arg(b)), (lambda g=g, b=b: call(_impl_sec, g, b, False)))
                else:
                    yield Case("key_from_sec %s %s" % (ga, arg(b)), (lambda g=g, b=b: call(_impl_from_sec, g, b)))
                continue
            for st in (True, False):
                yield Case("sec_to_public_pair %s %s %s" % (ga, arg(b), arg(st)),
                           (lambda g=g, b=b, st=st: call(_impl_sec, g, b, st)))
            yield Case("key_from_sec %s %s" % (ga, arg(b)), (lambda g=g, b=b: call(_impl_from_sec, g, b)))
    # ---------------- SEC decoder: toy and mid-size fields (volume, exhaustive where small)
    for (p, a, b_) in SMALL_CURVES:
        g = toy_generator(p, a, b_)
        ga = gen_args(g)
        bc = bc_of(g)
        for x in range(p + 3):
            yield Case("points_for_x %s %s" % (ga, arg(x)), (lambda g=g, x=x: call(_impl_pts, g, x)))
        cands = list(_small_strings(2, None if bc == 1 else range(8)))
        if bc == 1:
            # every 3-byte string with a prefix 00..07 and y restricted to the interesting values
            for pre in range(8):
                for x in range(256):
                    al = (x * x * x + a * x + b_) % p
                    y0 = pow(al, (p + 1) // 4, p)
                    for y in {y0, (p - y0) % 256, 0, 1, p - 1, p, 255, (y0 + 1) % 256}:
                        cands.append(bytes([pre, x, y]))
            cands += [bytes([4, 1, 2, 3]), bytes([2, 1, 2, 3])]
        else:
            cands += _sec_blobs_for(g, rng, 400 if quick else 6000, 40 if quick else 400, 10 ** 9)
        for bl in cands:
            for st in (True, False):
                if st or (bl and bl[0] < 8):
                    yield Case("sec_to_public_pair %s %s %s" % (ga, arg(bl), arg(st)),
                               (lambda g=g, bl=bl, st=st: call(_impl_sec, g, bl, st)))
            if not bl or bl[0] < 8:
                yield Case("key_from_sec %s %s" % (ga, arg(bl)), (lambda g=g, bl=bl: call(_impl_from_sec, g, bl)))
        for _ in range(150 if quick else 3000):
            r_ = rng.random()
            if r_ < 0.4:
                x, y = point_on(g, rng)
            elif r_ < 0.7:
                x, y = point_on(g, rng)
                x, y = rng.choice([(x + p, y), (x, y + p), (x, y - p), (x, -y), (x - p, y), (x + p, y + p)])
            else:
                x, y = (rng.randrange(-2, p + 3), rng.randrange(-2, p + 3))
            yield Case("key_public %s %s %s" % (ga, arg(x), arg(y)), (lambda g=g, x=x, y=y: call(_impl_key_public, g, x, y)))
    for bits in MID_BITS:
        p = _prime_below(bits)
        g = toy_generator(p, 0, 7)
        ga = gen_args(g)
        big = bits > 100
        nr = (60 if big else 250) if quick else (600 if big else 4000)
        nv = (6 if big else 25) if quick else (80 if big else 400)
        for bl in _sec_blobs_for(g, rng, nr, nv, (40 if quick else 600) if big else 10 ** 9):
            st = rng.random() < 0.6
            yield Case("sec_to_public_pair %s %s %s" % (ga, arg(bl), arg(st)),
                       (lambda g=g, bl=bl, st=st: call(_impl_sec, g, bl, st)))
            if rng.random() < 0.5:
                yield Case("key_from_sec %s %s" % (ga, arg(bl)), (lambda g=g, bl=bl: call(_impl_from_sec, g, bl)))
        for _ in range((5 if big else 40) if quick else (60 if big else 500)):
            x = rng.randrange(p + 2)
            yield Case("points_for_x %s %s" % (ga, arg(x)), (lambda g=g, x=x: call(_impl_pts, g, x)))
    # ---------------- key range checks
    ga = gen_args(K1)
    for _ in range(200 if quick else 4000):
        x, y = point_on(K1, rng)
        r = rng.random()
        if r < 0.3:
            y = (y + rng.choice([1, P1, -1])) if rng.random() < 0.7 else P1 - y
        elif r < 0.4:
            x = x + rng.choice([1, P1, -P1])
        yield Case("key_public %s %s %s" % (ga, arg(x), arg(y)), (lambda x=x, y=y: call(_impl_key_public, K1, x, y)))
    fixed = [(0, 0), (K1[0], K1[1]), (K1[0], P1 - K1[1]), (K1[0] + P1, K1[1]), (K1[0], K1[1] + P1), (K1[0], -K1[1]), (P1, 0), (0, 7)]
    # unreduced names of on-curve points: they satisfy the curve equation but must be refused
    for _ in range(60 if quick else 1500):
        x, y = point_on(K1, rng)
        fixed += [(x + P1, y), (x, y + P1), (x, y - P1), (x, -y), (x - P1, y), (x + P1, y + P1), (x + 2 * P1, y), (x, P1 - y)]
    for x, y in fixed:
        yield Case("key_public %s %s %s" % (ga, arg(x), arg(y)), (lambda x=x, y=y: call(_impl_key_public, K1, x, y)))
        yield Case("key_public %s %s %s" % (ga, arg(x), arg(y)), (lambda x=x, y=y: call(_impl_keys_public, x, y)))
    # every presentation of a pair (tuple / list / Point of its own, of another or of a fitted curve) x every category
    for c in presentation_cases(K1, rng, 12 if quick else 300, through_network=True):
        yield c
    for c in presentation_cases(toy_generator(251, 0, 7), rng, 25 if quick else 400):
        yield c
    for c in presentation_cases(R1, rng, 3 if quick else 60):
        yield c
    es = [-5, -1, 0, 1, 2, 3, N1 - 2, N1 - 1, N1, N1 + 1, P1, (1 << 256) - 1, 1 << 256, (1 << 256) + 1, 1 << 300, N1 // 2]
    es += [rng.getrandbits(rng.choice([8, 128, 255, 256, 257])) for _ in range(60 if quick else 1500)]
    for e in es:
        yield Case("key_private %s %s" % (arg(N1), arg(e)), (lambda e=e: call(_impl_key_private, K1, e)))
    gt = toy_generator(251, 0, 7)
    for e in range(-2, gt.order() + 4):
        yield Case("key_private %s %s" % (arg(gt.order()), arg(e)), (lambda e=e: call(_impl_key_private, gt, e)))
    # ---------------- WIF at payload level, every usable network
    ses = [1, 2, N1 - 1, N1 // 2, 1 << 255, 0x80, (1 << 248) - 1, 1 << 248]
    for sym, net in usable_nets():
        pre = net.parse._wif_prefix
        for se in ses[:3] + [rng.randrange(1, N1) for _ in range(2 if quick else 20)] + ([rng.choice(ses[3:])]):
            for c in (True, False):
                yield Case("wif_payload %s %s %s" % (arg(pre), arg(se), arg(c)),
                           (lambda net=net, se=se, c=c: call(_impl_wif_payload, net, se, c)), meta=sym)
        pls = _wif_payloads(pre, rng, 25 if quick else 400)
        if not quick or sym in ("BTC", "XTN", "DCR", "LTC", "DOGE", "POLIS"):
            pass
        else:
            pls = pls[:40] + pls[-25:]
        for d in pls + [None]:
            yield Case("parse_wif_payload %s %s %s" % (arg(pre), arg(N1), arg(d)),
                       (lambda net=net, d=d: call(_impl_parse_wif, net, d)), meta=sym)


# ---- direct property checks on the implementation ---------------------------------------------------------
def chk_der_roundtrip(r, s):
    try:
        e = der.sigencode_der(r, s)
    except Exception as ex:
        return {"kind": "der-encode-raises", "detail": "%s: %s" % (type(ex).__name__, ex)}
    for broken in (True, False):
        try:
            got = der.sigdecode_der(e, use_broken_open_ssl_mechanism=broken)
        except Exception as ex:
            return {"kind": "der-decode-raises", "detail": "%s: %s" % (type(ex).__name__, ex), "broken": broken}
        if got != (r, s):
            return {"kind": "der-roundtrip-mismatch", "got": [hex(got[0]), hex(got[1])], "broken": broken}
    return None


def chk_der_trailing(blob, t):
    """strict decoding is prefix-free"""
    try:
        v = der.sigdecode_der(blob, use_broken_open_ssl_mechanism=False)
    except Exception:
        return None
    try:
        w = der.sigdecode_der(blob + t, use_broken_open_ssl_mechanism=False)
    except der.UnexpectedDER:
        return None
    except Exception as ex:
        return {"kind": "der-trailing-wrong-exception", "detail": "%s: %s" % (type(ex).__name__, ex)}
    return {"kind": "der-trailing-accepted", "value": [hex(w[0]), hex(w[1])]}


def chk_der_bip66(r, s, ht, n):
    """1 <= r < n, 1 <= s <= n/2: the encoder output + hashtype passes pycoin's strict-DER shape check,
    decodes strictly to (r, s)"""
    e = der.sigencode_der(r, s)
    try:
        check_valid_signature(e + bytes([ht]))
    except Exception as ex:
        return {"kind": "der-low-s-fails-strict-check", "detail": "%s: %s" % (type(ex).__name__, ex), "sig": e.hex()}
    if der.sigdecode_der(e, use_broken_open_ssl_mechanism=False) != (r, s):
        return {"kind": "der-roundtrip-mismatch", "sig": e.hex()}
    if len(e) > 72:
        return {"kind": "der-too-long", "len": len(e)}
    return None


def chk_sec_roundtrip(sym, se, c):
    net = dict(usable_nets())[sym] if sym in dict(usable_nets()) else dict((s, n) for s, n, _ in nets())[sym]
    k = net.keys.private(se, is_compressed=c)
    blob = k.sec()
    if blob != k.sec(is_compressed=c) or len(blob) != (33 if c else 65):
        return {"kind": "sec-wrong-length-or-flag"}
    k2 = net.keys.public(blob)
    if tuple(k2.public_pair()) != tuple(k.public_pair()):
        return {"kind": "sec-roundtrip-point", "sec": blob.hex()}
    if k2.is_compressed() != c:
        return {"kind": "sec-roundtrip-flag", "sec": blob.hex()}
    if k2.sec() != blob or k2.hash160() != k.hash160() or k2.hash160(is_compressed=not c) != k.hash160(is_compressed=not c):
        return {"kind": "sec-roundtrip-hash160", "sec": blob.hex()}
    try:
        with contextlib.redirect_stdout(io.StringIO()):
            a1, a2 = k.address(), k2.address()
    except ImportError:
        a1 = a2 = None      # groestl address layer not installed
    if a1 != a2:
        return {"kind": "sec-roundtrip-address", "sec": blob.hex()}
    # the other form decodes to the same point with the other flag
    k3 = net.keys.public(k.sec(is_compressed=not c))
    if tuple(k3.public_pair()) != tuple(k.public_pair()) or k3.is_compressed() == c:
        return {"kind": "sec-other-form", "sec": blob.hex()}
    return None


def chk_sec_strict(g, blob):
    """accepted => the unique encoding of a curve point"""
    try:
        k = key_class(g).from_sec(blob)
    except (ValueError, AssertionError) as ex:
        if type(ex).__name__ in ("EncodingError", "NoSuchPointError", "InvalidPublicPairError") or type(ex) is ValueError:
            return None
        return {"kind": "sec-unexpected-exception", "detail": "%s: %s" % (type(ex).__name__, ex), "sec": blob.hex()}
    except Exception as ex:
        return {"kind": "sec-unexpected-exception", "detail": "%s: %s" % (type(ex).__name__, ex), "sec": blob.hex()}
    x, y = k.public_pair()
    p = g.p()
    bc = bc_of(g)
    if not (0 <= x < p and 0 <= y < p):
        return {"kind": "sec-coordinate-not-reduced", "sec": blob.hex()}
    if (y * y - (x * x * x + g._a * x + g._b)) % p != 0:
        return {"kind": "sec-off-curve-accepted", "sec": blob.hex()}
    canon_blob = (bytes([2 + (y & 1)]) + enc_w(x, bc)) if k.is_compressed() else (b"\x04" + enc_w(x, bc) + enc_w(y, bc))
    if blob != canon_blob:
        return {"kind": "sec-non-canonical-accepted", "sec": blob.hex(), "canonical": canon_blob.hex()}
    if bc == 32 and secm.public_pair_to_sec((x, y), compressed=k.is_compressed()) != blob:
        return {"kind": "sec-non-canonical-accepted", "sec": blob.hex()}
    return None


def chk_wif_roundtrip(sym, se, c):
    net = dict(usable_nets())[sym]
    k = net.keys.private(se, is_compressed=c)
    for cc in (c, not c):
        w = k.wif(is_compressed=cc) if cc != c else k.wif()
        k2 = net.parse.wif(w)
        if k2 is None:
            return {"kind": "wif-not-parsed", "wif": w}
        if k2.secret_exponent() != se or k2.is_compressed() != cc:
            return {"kind": "wif-roundtrip-mismatch", "wif": w}
        if tuple(k2.public_pair()) != tuple(k.public_pair()) or k2.sec() != k.sec(is_compressed=cc) \
                or k2.hash160() != k.hash160(is_compressed=cc) or k2.address() != k.address(is_compressed=cc):
            return {"kind": "wif-roundtrip-derived-data", "wif": w}
        if k2.wif() != w:
            return {"kind": "wif-not-stable", "wif": w}
        if net.parse.wif(w + "1") is not None or net.parse.wif(w[:-1]) is not None:
            return {"kind": "wif-corrupted-accepted", "wif": w}
    return None


def chk_wif_strict(sym, data_hex):
    """a parsed payload is prefix ‖ 32 bytes [‖ 01] with 1 <= e < n, and re-encodes to the same text"""
    net = dict(usable_nets())[sym]
    data = bytes.fromhex(data_hex)
    text = b58check(data)
    try:
        k = net.parse.wif(text)
    except Exception as ex:
        return {"kind": "wif-parse-raises", "detail": "%s: %s" % (type(ex).__name__, ex)}
    pre = net.parse._wif_prefix
    body = data[len(pre):] if data.startswith(pre) else None
    wellformed = body is not None and (len(body) == 32 or (len(body) == 33 and body[-1] == 1)) and \
        1 <= int.from_bytes(body[:32], "big") < net.generator.order()
    if k is None:
        return {"kind": "wif-wellformed-refused"} if wellformed else None
    if not wellformed:
        return {"kind": "wif-malformed-accepted", "payload": data_hex}
    if k.wif() != text or k.secret_exponent() != int.from_bytes(body[:32], "big") or k.is_compressed() != (len(body) == 33):
        return {"kind": "wif-reencode-differs", "payload": data_hex}
    return None


def chk_key_range(sym, e):
    net = dict((s, n) for s, n, _ in nets())[sym]
    n = net.generator.order()
    try:
        k = net.keys.private(e)
        ok = True
    except InvalidSecretExponentError:
        ok = False
    except Exception as ex:
        return {"kind": "key-range-wrong-exception", "detail": "%s: %s" % (type(ex).__name__, ex), "e": hex(e)}
    if ok != (1 <= e < n):
        return {"kind": "key-range", "e": hex(e), "accepted": ok}
    if not ok:
        if net.keys.InvalidSecretExponentError is not InvalidSecretExponentError:
            return {"kind": "key-range-documented-class"}
    return None


def chk_pubpair(x, y):
    on = (y * y - (x * x * x + A1 * x + B1)) % P1 == 0 and 0 <= x < P1 and 0 <= y < P1
    net = usable_nets()[0][1]
    try:
        net.keys.public((x, y))
        ok = True
    except InvalidPublicPairError:
        ok = False
    except Exception as ex:
        return {"kind": "pubpair-wrong-exception", "detail": "%s: %s" % (type(ex).__name__, ex)}
    if ok != on:
        return {"kind": "pubpair-range", "x": hex(x), "y": hex(y), "accepted": ok}
    return None


def prop_cases(rng, tier):
    quick = tier == "quick"
    pairs = _sig_pairs(rng, "quick")
    for r, s in pairs:
        if r >= 0 and s >= 0:
            yield PropCase("der_roundtrip", {"r": hex(r), "s": hex(s)}, (lambda r=r, s=s: chk_der_roundtrip(r, s)))
    for b in _der_blobs(rng, "quick")[-1500:]:
        for t in (b"\x00", b"\x01\x02", bytes([rng.getrandbits(8)])):
            yield PropCase("der_trailing", {"blob": b.hex(), "t": t.hex()}, (lambda b=b, t=t: chk_der_trailing(b, t)))
    for g in (K1, R1):
        n = g.order()
        for _ in range(400 if quick else 8000):
            r = rng.choice([1, n - 1, rng.randrange(1, n), rng.getrandbits(rng.choice([8, 200, 248, 255])) + 1])
            s = rng.choice([1, n // 2, rng.randrange(1, n // 2 + 1), rng.getrandbits(rng.choice([8, 200, 247, 254])) + 1])
            r, s = min(r, n - 1), min(s, n // 2)
            ht = rng.choice([1, 2, 3, 0x81, 0x82, 0x83, 0x41, 0, 0xff])
            yield PropCase("der_bip66", {"r": hex(r), "s": hex(s), "ht": ht, "n": hex(n)},
                           (lambda r=r, s=s, ht=ht, n=n: chk_der_bip66(r, s, ht, n)))
    syms_all = [s for s, _, _ in nets()]
    syms = [s for s, _ in usable_nets()]
    ses = [1, 2, 3, N1 - 1, N1 - 2, N1 // 2, 1 << 255, 0xff, 1 << 248]
    for sym in syms_all:
        for se in ses[:4] + [rng.randrange(1, N1) for _ in range(2 if quick else 30)]:
            for c in (True, False):
                yield PropCase("sec_roundtrip", {"net": sym, "se": hex(se), "c": c},
                               (lambda sym=sym, se=se, c=c: chk_sec_roundtrip(sym, se, c)))
    for sym in syms:
        for se in ses[:4] + [rng.choice(ses[4:])] + [rng.randrange(1, N1) for _ in range(2 if quick else 30)]:
            for c in (True, False):
                yield PropCase("wif_roundtrip", {"net": sym, "se": hex(se), "c": c},
                               (lambda sym=sym, se=se, c=c: chk_wif_roundtrip(sym, se, c)))
        pre = dict(usable_nets())[sym].parse._wif_prefix
        for d in _wif_payloads(pre, rng, 10 if quick else 200):
            yield PropCase("wif_strict", {"net": sym, "payload": d.hex()}, (lambda sym=sym, d=d: chk_wif_strict(sym, d.hex())))
        for e in (0, -1, N1, N1 + 1, (1 << 256) - 1, 1, N1 - 1):
            yield PropCase("key_range", {"net": sym, "e": hex(e)}, (lambda sym=sym, e=e: chk_key_range(sym, e)))
    for _ in range(300 if quick else 6000):
        x, y = point_on(K1, rng)
        if rng.random() < 0.6:
            x, y = rng.choice([(x, y + 1), (x, y - 1), (x, y + P1), (x, rng.randrange(P1)), (x + P1, y), (x, y - P1), (x, -y), (x - P1, y)])
        yield PropCase("pubpair", {"x": hex(x), "y": hex(y)}, (lambda x=x, y=y: chk_pubpair(x, y)))
    for curve, g, n in (("secp256k1", K1, 10 if quick else 250), ("toy251", toy_generator(251, 0, 7), 15 if quick else 300)):
        for cat, x, y in pair_categories(g, rng, n):
            yield PropCase("pair_presentations", {"curve": curve, "x": None if x is None else hex(x), "y": None if y is None else hex(y), "category": cat},
                           (lambda curve=curve, x=x, y=y: chk_pair_presentations(curve, x, y)))
    # strictness on the implementation: every blob that Key.from_sec accepts is canonical
    for bl in _sec_blobs_for(K1, rng, 2500 if quick else 50000, 60 if quick else 1500, 10 ** 9):
        yield PropCase("sec_strict", {"curve": "secp256k1", "sec": bl.hex()}, (lambda bl=bl: chk_sec_strict(K1, bl)))
    for bl in _sec_blobs_for(R1, rng, 300 if quick else 6000, 10 if quick else 200, 10 ** 9):
        yield PropCase("sec_strict", {"curve": "secp256r1", "sec": bl.hex()}, (lambda bl=bl: chk_sec_strict(R1, bl)))
    gt = toy_generator(251, 0, 7)
    for bl in _small_strings(2):
        yield PropCase("sec_strict", {"curve": "toy251", "sec": bl.hex()}, (lambda bl=bl: chk_sec_strict(gt, bl)))
    for pre in range(8):
        for x in range(256):
            for y in (0, 1, 250, 251, 255, rng.randrange(256), rng.randrange(256)):
                bl = bytes([pre, x, y])
                yield PropCase("sec_strict", {"curve": "toy251", "sec": bl.hex()}, (lambda bl=bl: chk_sec_strict(gt, bl)))


def _int(h):
    return int(h, 16)


def replay_input(check, inp):
    if check == "der_roundtrip":
        return chk_der_roundtrip(_int(inp["r"]), _int(inp["s"]))
    if check == "der_trailing":
        return chk_der_trailing(bytes.fromhex(inp["blob"]), bytes.fromhex(inp["t"]))
    if check == "der_bip66":
        return chk_der_bip66(_int(inp["r"]), _int(inp["s"]), inp["ht"], _int(inp["n"]))
    if check == "sec_roundtrip":
        return chk_sec_roundtrip(inp["net"], _int(inp["se"]), inp["c"])
    if check == "wif_roundtrip":
        return chk_wif_roundtrip(inp["net"], _int(inp["se"]), inp["c"])
    if check == "wif_strict":
        return chk_wif_strict(inp["net"], inp["payload"])
    if check == "key_range":
        return chk_key_range(inp["net"], _int(inp["e"]))
    if check == "pubpair":
        return chk_pubpair(_int(inp["x"]), _int(inp["y"]))
    if check == "pair_presentations":
        return chk_pair_presentations(inp["curve"], None if inp["x"] is None else _int(inp["x"]), None if inp["y"] is None else _int(inp["y"]))
    if check == "sec_strict":
        g = {"secp256k1": K1, "secp256r1": R1, "toy251": toy_generator(251, 0, 7)}[inp["curve"]]
        return chk_sec_strict(g, bytes.fromhex(inp["sec"]))
    return {"kind": "unknown-check"}


def classify(pc, r):
    return None          # no open finding for C10


KNOWN_REPLAYS = {}


def _tok_int(t):
    return -int(t[2:], 16) if t.startswith("i-") else int(t[1:], 16)


def search(rng, tier, disagreements, known_ids):
    """after a proof/correspondence break: look for an input on which the property itself fails"""
    cands = []
    gt = toy_generator(251, 0, 7)
    syms = [s for s, _ in usable_nets()]
    for d in disagreements[:60]:
        toks = d["case"].split(" ")
        fn = toks[0]
        try:
            if fn in ("sigencode_der",):
                r, s = _tok_int(toks[1]), _tok_int(toks[2])
                for rr, ss in ((r, s), (r, 1), (1, s), (r + 1, s), (max(r - 1, 0), s)):
                    if rr >= 0 and ss >= 0:
                        cands.append(PropCase("der_roundtrip", {"r": hex(rr), "s": hex(ss)}, (lambda rr=rr, ss=ss: chk_der_roundtrip(rr, ss))))
                        if 1 <= rr < N1 and 1 <= ss <= N1 // 2:
                            cands.append(PropCase("der_bip66", {"r": hex(rr), "s": hex(ss), "ht": 1, "n": hex(N1)},
                                                  (lambda rr=rr, ss=ss: chk_der_bip66(rr, ss, 1, N1))))
            elif fn in ("encode_integer", "encode_length"):
                v = _tok_int(toks[1])
                for rr in (v, v + 1, max(v - 1, 0), 1 << max(v, 0) if v < 3000 else v):
                    if rr >= 0:
                        cands.append(PropCase("der_roundtrip", {"r": hex(rr), "s": "0x1"}, (lambda rr=rr: chk_der_roundtrip(rr, 1))))
                        cands.append(PropCase("der_roundtrip", {"r": "0x1", "s": hex(rr)}, (lambda rr=rr: chk_der_roundtrip(1, rr))))
            elif fn in ("sigdecode_der", "read_length", "remove_integer", "remove_sequence", "bip66_valid"):
                b = bytes.fromhex(toks[1][1:])
                for bb in (b, b[:-1], b"\x30" + bytes([len(b)]) + b, b"\x30\x06\x02\x01\x01" + b):
                    for t in (b"\x00", b"\x01\x01"):
                        cands.append(PropCase("der_trailing", {"blob": bb.hex(), "t": t.hex()}, (lambda bb=bb, t=t: chk_der_trailing(bb, t))))
                    try:
                        r, s = der.sigdecode_der(bb)
                        if r >= 0 and s >= 0:
                            cands.append(PropCase("der_roundtrip", {"r": hex(r), "s": hex(s)}, (lambda r=r, s=s: chk_der_roundtrip(r, s))))
                    except Exception:
                        pass
            elif fn in ("sec_to_public_pair", "key_from_sec"):
                p = _tok_int(toks[1])
                b = bytes.fromhex(toks[4][1:])
                g, nm = (K1, "secp256k1") if p == P1 else (R1, "secp256r1") if p == R1.p() else (gt, "toy251") if p == 251 else (None, None)
                if g is not None:
                    cands.append(PropCase("sec_strict", {"curve": nm, "sec": b.hex()}, (lambda g=g, b=b: chk_sec_strict(g, b))))
                # transplant the shape of the blob to secp256k1
                if b:
                    for body in (enc_w(K1[0], 32), enc_w(K1[0], 32) + enc_w(K1[1], 32), enc_w(K1[0] + P1, 32),
                                 enc_w(K1[0], 32) + enc_w(P1 - K1[1], 32), enc_w(K1[0] + P1, 32) + enc_w(K1[1], 32),
                                 enc_w(K1[0], 32) + enc_w(K1[1] + P1, 32)):
                        bb = b[:1] + body
                        cands.append(PropCase("sec_strict", {"curve": "secp256k1", "sec": bb.hex()}, (lambda bb=bb: chk_sec_strict(K1, bb))))
            elif fn in ("public_pair_to_sec", "to_bytes_32", "points_for_x", "key_public"):
                for se in (1, 2, 3, rng.randrange(1, N1)):
                    for c in (True, False):
                        cands.append(PropCase("sec_roundtrip", {"net": "BTC", "se": hex(se), "c": c},
                                              (lambda se=se, c=c: chk_sec_roundtrip("BTC", se, c))))
            elif fn == "key_public_arg":
                xx = None if toks[8] == "N" else _tok_int(toks[8])
                yy = None if toks[9] == "N" else _tok_int(toks[9])
                cv = "secp256k1" if _tok_int(toks[1]) == P1 else "toy251" if _tok_int(toks[1]) == 251 else None
                if cv:
                    cands.append(PropCase("pair_presentations", {"curve": cv, "x": None if xx is None else hex(xx), "y": None if yy is None else hex(yy)},
                                          (lambda cv=cv, xx=xx, yy=yy: chk_pair_presentations(cv, xx, yy))))
                if cv != "secp256k1":
                    for cat, x2, y2 in pair_categories(K1, rng, 3):
                        cands.append(PropCase("pair_presentations", {"curve": "secp256k1", "x": None if x2 is None else hex(x2), "y": None if y2 is None else hex(y2)},
                                              (lambda x2=x2, y2=y2: chk_pair_presentations("secp256k1", x2, y2))))
            elif fn == "key_private":
                e = _tok_int(toks[2])
                for ee in (e, e - 1, e + 1, 0, N1, (1 << 256) - 1):
                    cands.append(PropCase("key_range", {"net": "BTC", "e": hex(ee)}, (lambda ee=ee: chk_key_range("BTC", ee))))
            elif fn in ("wif_payload", "parse_wif_payload"):
                sym = d.get("meta") or "BTC"
                if sym not in syms:
                    sym = "BTC"
                if fn == "parse_wif_payload" and toks[3] != "N":
                    data = bytes.fromhex(toks[3][1:])
                    cands.append(PropCase("wif_strict", {"net": sym, "payload": data.hex()}, (lambda sym=sym, data=data: chk_wif_strict(sym, data.hex()))))
                for se in (1, N1 - 1, rng.randrange(1, N1)):
                    for c in (True, False):
                        cands.append(PropCase("wif_roundtrip", {"net": sym, "se": hex(se), "c": c},
                                              (lambda sym=sym, se=se, c=c: chk_wif_roundtrip(sym, se, c))))
        except Exception:
            continue
    cands += list(prop_cases(rng, "thorough" if tier == "thorough" else "quick"))
    for pc in cands:
        try:
            r = pc.thunk()
        except Exception as e:
            r = {"kind": "raises", "detail": "%s: %s" % (type(e).__name__, e)}
        if r is not None and classify(pc, r) not in known_ids:
            return {"check": pc.name, "input": pc.inp, "failure": r}
    return None
