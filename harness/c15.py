"""C15 — header-chain tracking (ChainFinder / BlockChain): heaviest chain whatever the arrival order, index
maps, add/remove ops replay.

Implementation runs:
  * plain  — /repo exactly as it is; CPython's set order decides the pop order of meld_new_hashes.  The model
             enumerates every pop order of every delivered batch (<= 5 distinct hashes) and the observed trace
             must be one of the model's traces (driver function `member`).
  * spy    — the unmodified ChainFinder.meld_new_hashes is handed a `set` subclass whose pop() follows a
             priority list chosen by the harness (ChainFinder subclass bound to the name BlockChain.py looks
             up; no source change).  The model is run with the same priority list and the traces must be equal
             (driver function `run`).  This reaches pop orders CPython would not produce.
Which of several equally heavy chains is kept depends on the iteration order of a plain set inside the
implementation; the harness reads the kept chain's leaf from the implementation's answer and passes it to the
model as the preference `pref` — the model only honours it if that chain really is of maximum weight.
"""
from common import *
import itertools, hashlib as _hl
from pycoin.blockchain import BlockChain as _BCmod
from pycoin.blockchain.ChainFinder import ChainFinder as _CF

PROP = "C15"
DRIVER = "C15"
RULE = ("correspondence: one driver line per history (run/member), per ChainFinder load sequence (load) and per spec "
        "weight (best_weight); distinct = distinct line; non-trivial = "
        "the model returns a value that does not start with '!'")
PARTIAL = [
    "negative indices of tuple_for_index, unlocked_block_storage and did_lock_to_index_f are not modelled; "
    "preload_locked_blocks is modelled for a freshly constructed BlockChain only; change callbacks are only checked "
    "directly (they receive the returned ops list)",
]
TRUSTED = [
    "Python dict/set modelled as association lists / duplicate-free lists; set.pop() and set iteration order as "
    "externally supplied priority lists (theorems quantify over them)",
    "pop-order enumeration (all permutations of a batch) and the merging of model states that differ only in dict/set "
    "order are done in ml_src/driver_c15.ml, not in Coq (exact `run` cases do not use either)",
    "spy runs pass a set subclass with a harness-chosen pop() into the unmodified meld_new_hashes",
]
ASSUMPTIONS = [
    "headers form a forest (a rank decreases towards the parent), a hash determines parent and weight, weights > 0; "
    "preloaded headers form a chain from the anchor; lock indices do not exceed the reported length",
]

ANCHOR = 1000
ANC_PARENT, ANC_GRAND = 999, 998      # ancestors of the block whose hash is the anchor (checkpoint histories)


# ------------------------------------------------------------------------------------------------
# labels: the model works on ints; the implementation sees either the int itself or a 32-byte hash
def lab(mode, i):
    if mode == "int":
        return i
    if i == 0:
        return b"\0" * 32           # BlockChain's default anchor (ZERO_HASH)
    return _hl.sha256(b"c15-%d" % i).digest()


def mint(mode, i):
    """the model's number for label i"""
    return i if mode == "int" else int.from_bytes(lab(mode, i), "big")


class Hdr(object):
    def __init__(self, h, p, w):
        self._h, self.previous_block_hash, self.difficulty = h, p, w

    def hash(self):
        return self._h


class PSet(set):
    """a set whose pop() follows a priority list (any element is a legal answer of set.pop)"""
    prio = ()
    log = None

    def pop(self):
        for x in PSet.prio:
            if x in self:
                self.remove(x)
                PSet.log.append(x)
                return x
        x = set.pop(self)
        PSet.log.append(x)
        return x


class SpyCF(_CF):
    def meld_new_hashes(self, new_hashes):
        return _CF.meld_new_hashes(self, PSet(new_hashes))


def run_impl(hist, spy_prios=None):
    """hist = {"anchor": int, "mode": "int"|"bytes", "events": [["D", [[h,p,w],...]] | ["L", n]],
               optional "pre": [[h,p,w],...] handed to preload_locked_blocks right after construction,
               optional "default_anchor": True -> BlockChain() without parent_hash (anchor label 0, bytes mode)}
    returns (snapshots, stop, prefs, extra) ; snapshots in model numbering"""
    mode = hist["mode"]
    back = {}

    def L(i):
        x = lab(mode, i)
        back[x] = mint(mode, i)
        return x

    _BCmod.ChainFinder = SpyCF if spy_prios is not None else _CF
    try:
        if hist.get("default_anchor"):
            L(hist["anchor"])
            bc = _BCmod.BlockChain(unlocked_block_storage={})
        else:
            bc = _BCmod.BlockChain(L(hist["anchor"]), unlocked_block_storage={})
        pre = hist.get("pre") or []
        if pre:
            bc.preload_locked_blocks([Hdr(L(h), L(p), w) for h, p, w in pre])
        cb_ops = []

        def cb(_bc, ops):
            cb_ops.append(list(ops))
        bc.add_change_callback(cb)
        snaps, prefs = [], []
        delivered = [h for h, p, w in pre]
        stop = "ok"
        cb_mismatch = False
        for k, ev in enumerate(hist["events"]):
            if spy_prios is not None:
                PSet.prio = [L(i) for i in spy_prios[k]]
                PSet.log = []
            try:
                if ev[0] == "D":
                    hdrs = [Hdr(L(h), L(p), w) for h, p, w in ev[1]]
                    for h, p, w in ev[1]:
                        if h not in delivered:
                            delivered.append(h)
                    n_cb = len(cb_ops)
                    ops = bc.add_headers(hdrs)
                    if len(cb_ops) != n_cb + 1 or cb_ops[-1] != ops:
                        cb_mismatch = True
                    raw_ops = ops
                    ops = [(kind == "add", back[hd.hash()], idx) for kind, hd, idx in ops]
                    # a caller may do what it likes with the list it was handed (log += ops ...): edit it in place after
                    # reading it; a later delivery must not hand the edited list back (seed C15-e1: one shared empty list)
                    try:
                        raw_ops.append(("remove", hdrs[0] if hdrs else Hdr(L(hist["anchor"]), L(hist["anchor"]), 1), 987654))
                        raw_ops.reverse()
                    except AttributeError:
                        pass
                else:
                    bc.lock_to_index(ev[1])
                    ops = None
                n = bc.length()
                tuples = []
                for i in range(n):
                    t = bc.tuple_for_index(i)
                    if bc.hash_for_index(i) != t[0]:
                        cb_mismatch = True
                    tuples.append((back[t[0]], back[t[1]], t[2]))
                idx = []
                for h in delivered:
                    i = bc.index_for_hash(L(h))
                    if i is not None:
                        idx.append((mint(mode, h), i))
                idx.sort()
                snap = (ops, bc.locked_length(), tuples, idx, back[bc.last_block_hash()], back[bc.parent_hash])
            except Exception as e:  # noqa
                stop = "!" + exn_tag(e)
                prefs.append(None)
                break
            snaps.append(snap)
            prefs.append([tuples[-1][0]] if n > snap[1] else [])
        return snaps, stop, prefs, {"cb_mismatch": cb_mismatch}
    finally:
        _BCmod.ChainFinder = _CF


def trace_str(snaps, stop):
    return canon(list(snaps)) + " " + stop


def hexn(i):
    return format(i, "x") if i >= 0 else "-" + format(-i, "x")


def ev_tokens(hist, prios, prefs):
    """prios[k] / prefs[k]: list of label ints, or "*" (enumerate)"""
    mode = hist["mode"]
    toks = []
    if hist.get("pre"):
        toks.append("P:" + ",".join("%s.%s.%s" % (hexn(mint(mode, h)), hexn(mint(mode, p)), hexn(w)) for h, p, w in hist["pre"]))
    for k, ev in enumerate(hist["events"]):
        pr = prios[k]
        pf = prefs[k]
        prs = "*" if pr == "*" else ",".join(hexn(mint(mode, i)) for i in pr)
        pfs = "*" if pf == "*" else ",".join(hexn(x) for x in pf)   # prefs are already model numbers
        if ev[0] == "D":
            hs = ",".join("%s.%s.%s" % (hexn(mint(mode, h)), hexn(mint(mode, p)), hexn(w)) for h, p, w in ev[1])
            toks.append("D:%s;%s;%s" % (hs, prs, pfs))
        else:
            toks.append("L:%s;%s;%s" % (hexn(ev[1]), prs, pfs))
    return toks


def hist_labels(hist):
    s = [h for h, p, w in (hist.get("pre") or [])]
    for ev in hist["events"]:
        if ev[0] == "D":
            for h, p, w in ev[1]:
                if h not in s:
                    s.append(h)
    return s


# ------------------------------------------------------------------------------------------------
# spec side in Python: brute-force heaviest chain, exclusion predicates (mirror of Spec/ChainSpec.v)
def _kids(D):
    kids = {}
    for h, (p, w) in D.items():
        kids.setdefault(p, []).append(h)
    return kids


def best_weight(D, anchor):
    kids = _kids(D)
    best = 0
    stack = [(anchor, 0)]
    while stack:
        a, wt = stack.pop()
        if wt > best:
            best = wt
        for k in kids.get(a, ()):
            stack.append((k, wt + D[k][1]))
    return best


def heaviest_chains(D, anchor):
    kids = _kids(D)
    best = [0, [()]]
    stack = [(anchor, (), 0)]
    while stack:
        a, acc, wt = stack.pop()
        if acc:
            if wt > best[0]:
                best = [wt, [acc]]
            elif wt == best[0]:
                best[1].append(acc)
        for k in kids.get(a, ()):
            stack.append((k, acc + (k,), wt + D[k][1]))
    if best[0] > 0:
        best[1] = [c for c in best[1] if c]
    return best[1]


def _register(nodes, old):
    p = dict(old)
    new = []
    for h, par in nodes:
        if h in p:
            continue
        p[h] = par
        new.append(h)
    return p, new


def well_formed(hist):
    """consistent, acyclic, positive weights; the preloaded headers form a chain from the anchor.  The anchor may be
    the hash of a delivered header."""
    D = {}
    prev = hist["anchor"]
    for h, p, w in (hist.get("pre") or []):
        if p != prev or w <= 0 or D.setdefault(h, (p, w)) != (p, w):
            return False
        prev = h
    for ev in hist["events"]:
        if ev[0] == "D":
            for h, p, w in ev[1]:
                if w <= 0 or D.setdefault(h, (p, w)) != (p, w):
                    return False
    for h in D:
        x, n = h, 0
        while x in D:
            x = D[x][0]
            n += 1
            if n > len(D):
                return False
    return True


def check_history(hist, spy_prios=None):
    """the property itself on the implementation.  None or a failure dict."""
    snaps, stop, prefs, extra = run_impl(hist, spy_prios)
    anchor0 = mint(hist["mode"], hist["anchor"])
    mode = hist["mode"]
    D = {}
    replay = []
    for h, p, w in (hist.get("pre") or []):
        D.setdefault(mint(mode, h), (mint(mode, p), w))
        replay.append(mint(mode, h))
    npre = len(replay)
    for k, ev in enumerate(hist["events"]):
        if k >= len(snaps):
            if stop == "!E_INDEX" and ev[0] == "L" and ev[1] > len(replay):
                return None          # lock beyond the reported chain: caller error, outside the property
            return {"kind": "raises", "event": k, "detail": stop}
        ops, nlocked, tuples, idx, last, parent = snaps[k]
        if ev[0] == "D":
            for h, p, w in ev[1]:
                D.setdefault(mint(mode, h), (mint(mode, p), w))
            for add, h, i in ops:
                if add:
                    if i != len(replay):
                        return {"kind": "ops-replay", "event": k, "detail": "add index %d at length %d" % (i, len(replay))}
                    replay.append(h)
                else:
                    if not replay or replay[-1] != h or i != len(replay) - 1:
                        return {"kind": "ops-replay", "event": k, "detail": "remove (%x,%d) does not match the tail" % (h, i)}
                    replay.pop()
        chain = [t[0] for t in tuples]
        if replay != chain:
            return {"kind": "ops-replay", "event": k, "detail": "replayed ops give a different chain",
                    "chain": [hexn(x) for x in chain], "replayed": [hexn(x) for x in replay]}
        if nlocked > len(chain) or nlocked < npre:
            return {"kind": "locked-length", "event": k}
        prev = anchor0
        for h in chain:
            if h not in D or D[h][0] != prev:
                return {"kind": "chain-not-linked", "event": k, "chain": [hexn(x) for x in chain]}
            prev = h
        a = anchor0 if nlocked == 0 else chain[nlocked - 1]
        if a != parent or last != (chain[-1] if chain else parent):
            return {"kind": "anchor-or-last", "event": k}
        got = sum(D[h][1] for h in chain[nlocked:])
        want = best_weight(D, a)
        if got != want:
            return {"kind": "not-max-weight", "event": k, "reported_weight": got, "max_weight": want,
                    "chain": [hexn(x) for x in chain]}
        m = dict(idx)
        for i, h in enumerate(chain):
            if m.get(h) != i:
                return {"kind": "index-map", "event": k, "detail": "index_for_hash(hash_for_index(%d)) = %r" % (i, m.get(h))}
        for h, i in idx:
            if i >= len(chain) or chain[i] != h:
                return {"kind": "index-map", "event": k, "detail": "index_for_hash(%x) = %d is stale" % (h, i)}
        for t in tuples:
            if D[t[0]] != (t[1], t[2]):
                return {"kind": "tuple", "event": k}
    if extra["cb_mismatch"]:
        return {"kind": "callback-ops-differ"}
    return None


# ------------------------------------------------------------------------------------------------
# generators
def compositions(n):
    if n == 0:
        yield ()
        return
    for k in range(1, n + 1):
        for r in compositions(n - k):
            yield (k,) + r


def forests(n):
    """all acyclic parent functions on nodes 0..n-1; parent in {-1 (anchor), -2 (missing)} or another node"""
    opts = [[-1, -2] + [j for j in range(n) if j != i] for i in range(n)]
    for pf in itertools.product(*opts):
        ok = True
        for i in range(n):
            x, steps = i, 0
            while x >= 0 and steps <= n:
                x = pf[x]
                steps += 1
            if steps > n:
                ok = False
                break
        if ok:
            yield pf


def make_hist(rng, pf, comp, weights, mode, lock=None, order=None):
    n = len(pf)
    ids = rng.sample(range(1, 64), n + 1)
    name = {-1: ANCHOR, -2: 2000 + ids[n]}
    for i in range(n):
        name[i] = ids[i]
    order = list(range(n)) if order is None else order
    hs = [[name[i], name[pf[i]], weights[i]] for i in order]
    evs, pos = [], 0
    for bi, k in enumerate(comp):
        evs.append(["D", hs[pos:pos + k]])
        pos += k
        if lock is not None and lock[0] == bi:
            evs.append(["L", lock[1]])
    return {"anchor": ANCHOR, "mode": mode, "events": evs}


def exhaustive_hists(rng, nmax):
    for n in range(1, nmax + 1):
        for pf in forests(n):
            for comp in compositions(n):
                w = [1] * n if rng.random() < 0.6 else [rng.randint(1, 3) for _ in range(n)]
                yield make_hist(rng, pf, comp, w, "int" if rng.random() < 0.7 else "bytes")
                if rng.random() < 0.35:
                    yield make_hist(rng, pf, comp, w, "int", lock=(rng.randrange(len(comp)), rng.randint(1, 3)))


def random_hist(rng, nmax=40, locks=True, dups=True, tiefree=False, bad=False, maxbatch=5):
    n = rng.randint(2, nmax)
    ids = rng.sample(range(1, 400), n + 3)
    missing = [5000 + x for x in ids[n:]]
    hs = []
    fork = rng.choice([0.1, 0.3, 0.6])
    for i in range(n):
        r = rng.random()
        if i == 0 or r < 0.06:
            p = ANCHOR
        elif r < 0.12:
            p = rng.choice(missing)
        elif rng.random() < fork:
            p = ids[rng.randrange(i)]
        else:
            p = ids[i - 1]
        if tiefree:
            w = 1 << i
        else:
            w = 1 if rng.random() < 0.5 else rng.randint(1, 6)
        hs.append([ids[i], p, w])
    order = hs[:]
    style = rng.random()
    if style < 0.3:
        rng.shuffle(order)
    elif style < 0.7:
        # mostly in order with local scrambles / delayed blocks
        for _ in range(rng.randint(1, 1 + n // 3)):
            i = rng.randrange(n)
            x = order.pop(i)
            order.insert(min(n - 1, i + rng.randint(1, 6)), x)
    if dups:
        for _ in range(rng.randint(0, 3)):
            order.insert(rng.randrange(len(order) + 1), list(rng.choice(hs)))
    evs, pos, total = [], 0, 0
    while pos < len(order):
        k = rng.randint(1, maxbatch)
        evs.append(["D", order[pos:pos + k]])
        pos += k
        if locks and rng.random() < 0.25:
            evs.append(["L", ("keep", rng.randint(0, 4))])
    hist = {"anchor": ANCHOR, "mode": "int" if rng.random() < 0.6 else "bytes", "events": evs}
    return hist



# ---- every way of anchoring a BlockChain ------------------------------------------------------------------------
def _copy_hist(hist):
    h = dict(hist)
    h["events"] = [[ev[0], [list(x) for x in ev[1]]] if ev[0] == "D" else [ev[0], ev[1]] for ev in hist["events"]]
    if hist.get("pre"):
        h["pre"] = [list(x) for x in hist["pre"]]
    return h


def _batches(hist):
    return [ev for ev in hist["events"] if ev[0] == "D"]


def with_checkpoint(rng, hist, positions=None):
    """the anchor is the hash of a real block (a checkpoint given to the constructor): its own header and headers of its
    ancestors are delivered too (alone, inside other batches, repeatedly), as peers send them"""
    h = _copy_hist(hist)
    a = h["anchor"]
    wa = rng.randint(1, 4)
    anchor_hdr, parent_hdr = [a, ANC_PARENT, wa], [ANC_PARENT, ANC_GRAND, rng.randint(1, 4)]
    bs = _batches(h)
    if positions is None:
        positions = [rng.randrange(len(bs)) for _ in range(rng.randint(1, 3))] if bs else []
    for b in positions:
        bs[b][1].insert(rng.randrange(len(bs[b][1]) + 1), list(anchor_hdr))
        if rng.random() < 0.4:
            bs[b][1].insert(rng.randrange(len(bs[b][1]) + 1), list(parent_hdr))
    if rng.random() < 0.3:
        h["events"].insert(rng.randrange(len(h["events"]) + 1), ["D", [list(anchor_hdr)]])
    if rng.random() < 0.2:
        h["events"].insert(rng.randrange(len(h["events"]) + 1), ["D", [list(parent_hdr), list(anchor_hdr)]])
    return h


def with_preload(rng, hist):
    """preload_locked_blocks right after construction; roots of the forest hang off the last preloaded block (some off
    earlier ones or the original anchor: forks below the lock point); the preloaded headers are delivered again"""
    h = _copy_hist(hist)
    a = h["anchor"]
    m = rng.randint(1, 3)
    ids = [3001 + i for i in range(m)]
    pre, prev = [], a
    for x in ids:
        pre.append([x, prev, rng.randint(1, 4)])
        prev = x
    for ev in h["events"]:
        if ev[0] == "D":
            for x in ev[1]:
                if x[1] == a:
                    r = rng.random()
                    x[1] = ids[-1] if r < 0.75 else (rng.choice(ids) if r < 0.9 else a)
        elif isinstance(ev[1], int):
            ev[1] += m
    # one header, one parent: re-target consistently (same hash must keep the same parent)
    seen = {}
    for ev in h["events"]:
        if ev[0] == "D":
            for x in ev[1]:
                x[1] = seen.setdefault(x[0], x[1])
    bs = _batches(h)
    for _ in range(rng.randint(0, 3)):
        if bs:
            b = rng.choice(bs)
            b[1].insert(rng.randrange(len(b[1]) + 1), list(rng.choice([pre[-1], rng.choice(pre)])))
    h["pre"] = pre
    return h


def with_default_anchor(hist):
    """BlockChain() with the default anchor ZERO_HASH (label 0, bytes presentation)"""
    h = _copy_hist(hist)
    a = h["anchor"]
    for ev in h["events"]:
        if ev[0] == "D":
            for x in ev[1]:
                if x[1] == a:
                    x[1] = 0
                if x[0] == a:
                    x[0] = 0
    for x in h.get("pre") or []:
        if x[1] == a:
            x[1] = 0
    h["anchor"], h["mode"], h["default_anchor"] = 0, "bytes", True
    return h


def anchor_variants(rng, hist, all_kinds=False):
    """the same history under other kinds of anchor"""
    kinds = ["checkpoint", "preload", "default", "checkpoint+preload"]
    if not all_kinds:
        kinds = [rng.choice(kinds)]
    for k in kinds:
        if k == "checkpoint":
            yield with_checkpoint(rng, hist)
        elif k == "preload":
            yield with_preload(rng, hist)
        elif k == "default":
            yield with_default_anchor(with_checkpoint(rng, hist) if rng.random() < 0.5 else hist)
        else:
            yield with_checkpoint(rng, with_preload(rng, hist))


def checkpoint_exhaustive(rng, nmax):
    """every forest on <= nmax headers x every batching x the checkpoint header put into each single batch, into all
    batches, and delivered alone first / last"""
    for n in range(1, nmax + 1):
        for pf in forests(n):
            for comp in compositions(n):
                base = make_hist(rng, pf, comp, [1] * n, "int")
                nb = len(comp)
                for pos in [[b] for b in range(nb)] + [list(range(nb))]:
                    yield with_checkpoint(rng, base, positions=pos)
                hdr = [base["anchor"], ANC_PARENT, 1]
                first = _copy_hist(base)
                first["events"].insert(0, ["D", [list(hdr)]])
                yield first
                lastv = _copy_hist(base)
                lastv["events"].append(["D", [list(hdr)]])
                yield lastv


def resolve_locks(hist, spy_prios=None):
    """("keep", k) lock placeholders -> lock_to_index(length - k) using the implementation's own length (the way a
    client locks all but the last k blocks); never out of range"""
    evs = hist["events"]
    for i in range(len(evs)):
        if evs[i][0] == "L" and isinstance(evs[i][1], tuple):
            sub = dict(hist, events=evs[:i])
            snaps, stop, _, _ = run_impl(sub, None if spy_prios is None else spy_prios[:i])
            length = len(snaps[-1][2]) if (snaps and stop == "ok" and len(snaps) == i) else 0
            evs[i] = ["L", max(0, length - evs[i][1][1])]
    return hist


def rand_prios(rng, hist):
    labs = hist_labels(hist)
    return [rng.sample(labs, len(labs)) for _ in hist["events"]]


def small_batches(hist, limit=5):
    return all(ev[0] != "D" or len(set(h for h, p, w in ev[1])) <= limit for ev in hist["events"])


# ------------------------------------------------------------------------------------------------
# correspondence cases
def case_plain(hist):
    """unmodified implementation; model enumerates every pop order of every batch"""
    snaps, stop, prefs, _ = run_impl(hist)
    n = len(hist["events"])
    pf = [(p if p is not None else "*") for p in prefs] + [[]] * (n - len(prefs))
    pr = [("*" if ev[0] == "D" else []) for ev in hist["events"]]
    t = trace_str(snaps, stop).replace(" ", "_")
    line = "member %s %s %s" % (hexn(mint(hist["mode"], hist["anchor"])), t, " ".join(ev_tokens(hist, pr, pf)))
    return Case(line, (lambda: "T"), {"hist": hist, "prios": None})


def case_spy(hist, prios):
    snaps, stop, prefs, _ = run_impl(hist, prios)
    n = len(hist["events"])
    t = trace_str(snaps, stop)
    a = hexn(mint(hist["mode"], hist["anchor"]))
    if stop == "ok":
        line = "run %s %s" % (a, " ".join(ev_tokens(hist, prios, prefs)))
        return Case(line, (lambda t=t: t), {"hist": hist, "prios": prios})
    pf = [(p if p is not None else "*") for p in prefs] + [[]] * (n - len(prefs))
    line = "member %s %s %s" % (a, t.replace(" ", "_"), " ".join(ev_tokens(hist, prios, pf)))
    return Case(line, (lambda: "T"), {"hist": hist, "prios": prios})


def case_best_weight(hist):
    D = {}
    toks = []
    for ev in [["D", hist.get("pre") or []]] + hist["events"]:
        if ev[0] == "D":
            for h, p, w in ev[1]:
                if h not in D:
                    D[h] = (p, w)
                    toks.append("%s.%s.%s" % (hexn(h), hexn(p), hexn(w)))
    if not toks or hist["mode"] != "int":
        return None
    return Case("best_weight %s %s" % (hexn(hist["anchor"]), ",".join(toks)),
                (lambda D=D, a=hist["anchor"]: canon(best_weight(D, a))), {"hist": hist})


def finder_state(cf):
    return "(%s %s %s)" % (
        canon(sorted(cf.parent_lookup.items())),
        canon([(k, sorted(v)) for k, v in sorted(cf.descendents_by_top.items())]),
        canon(sorted((k, list(v)) for k, v in cf.trees_from_bottom.items())))


def case_load(rng, nmax):
    """ChainFinder alone: sequence of load_nodes calls with chosen pop orders, whole state compared"""
    h = random_hist(rng, nmax, locks=False, dups=True)
    batches = [[(a, p) for a, p, w in ev[1]] for ev in h["events"]]
    labs = hist_labels(h)
    prios = [rng.sample(labs, len(labs)) for _ in batches]
    toks = ["%s;%s" % (",".join("%s.%s" % (hexn(a), hexn(p)) for a, p in b), ",".join(hexn(x) for x in pr))
            for b, pr in zip(batches, prios)]

    def impl():
        cf = SpyCF()
        for b, pr in zip(batches, prios):
            PSet.prio, PSet.log = pr, []
            try:
                cf.load_nodes(b)
            except Exception as e:  # noqa
                return "!" + exn_tag(e)
        return finder_state(cf)
    return Case("load " + " ".join(toks), impl, {"batches": batches, "prios": prios})


REFUTE_HIST = {"anchor": 0, "mode": "int",
               "events": [["D", [[7, 9, 1], [6, 7, 1]]], ["D", [[8, 9, 1], [9, 0, 1]]]]}
ANCHOR_HIST = {"anchor": 0, "mode": "int",
               "events": [["D", [[1, 0, 1], [2, 1, 1], [3, 2, 1]]], ["L", 2], ["D", [[2, 1, 1]]], ["D", [[4, 3, 1]]]]}
TIE_HIST = {"anchor": 0, "mode": "int",
            "events": [["D", [[1, 0, 1]]], ["D", [[3, 1, 1]]], ["D", [[11, 1, 1]]], ["L", 1]]}
TIE_SPY_HIST = {"anchor": 0, "mode": "int",
                "events": [["D", [[1, 0, 1], [2, 1, 1]]], ["D", [[3, 2, 1]]], ["D", [[11, 2, 1]]], ["L", 1],
                           ["D", [[5, 3, 1], [13, 11, 1]]]]}
TIE_SPY_PRIOS = [[], [], [], [11, 3], []]


def corpus_cases():
    yield case_plain(REFUTE_HIST)
    yield case_spy(REFUTE_HIST, [[], [8]])
    yield case_spy(REFUTE_HIST, [[], [9]])
    yield case_plain(ANCHOR_HIST)
    yield case_plain(TIE_HIST)
    yield case_spy(TIE_SPY_HIST, TIE_SPY_PRIOS)
    yield case_plain(CHECKPOINT_HIST)
    yield case_plain(PRELOAD_HIST)
    yield case_plain(with_default_anchor(PRELOAD_HIST))


def _hists(rng, tier):
    """(hist, spy_prios or None)"""
    nmax = 4 if tier == "quick" else 5
    for h in exhaustive_hists(rng, nmax):
        yield h, None
        if rng.random() < 0.25:
            for v in anchor_variants(rng, h):
                if small_batches(v):
                    yield v, None
                else:
                    yield v, rand_prios(rng, v)
    for h in checkpoint_exhaustive(rng, 3 if tier == "quick" else 4):
        if small_batches(h):
            yield h, None
        if rng.random() < 0.3:
            yield h, rand_prios(rng, h)
    nrand = 4000 if tier == "quick" else 40000
    for i in range(nrand):
        h = random_hist(rng, rng.choice([6, 10, 20, 40]), tiefree=(rng.random() < 0.3))
        if rng.random() < 0.4:
            h = next(anchor_variants(rng, h))
        if i % 3 == 0 and small_batches(h) and (tier == "thorough" or len(hist_labels(h)) <= 25):
            yield resolve_locks(h), None
        else:
            pr = rand_prios(rng, h)
            yield resolve_locks(h, pr), pr


def model_cases(rng, tier):
    for h, pr in _hists(rng, tier):
        yield case_plain(h) if pr is None else case_spy(h, pr)
        if rng.random() < 0.5:
            c = case_best_weight(h)
            if c is not None:
                yield c
    # exhaustive small forests again under chosen pop orders (every permutation of the labels as priority)
    for n in range(2, (4 if tier == "quick" else 5)):
        for pf in forests(n):
            for comp in compositions(n):
                if len(comp) == n:
                    continue
                h = make_hist(rng, pf, comp, [1] * n, "int")
                labs = hist_labels(h)
                for perm in itertools.permutations(labs):
                    yield case_spy(h, [list(perm)] * len(h["events"]))
    # weights <= 0 and inconsistent duplicates: outside the property's domain, inside the model's
    for _ in range(200 if tier == "quick" else 4000):
        h = random_hist(rng, 8, locks=False)
        for ev in h["events"]:
            for x in ev[1]:
                if rng.random() < 0.3:
                    x[2] = rng.randint(-2, 1)
                if rng.random() < 0.1:
                    x[1] = rng.choice([ANCHOR, 5001])
        if not _acyclic_first(h):
            continue
        pr = rand_prios(rng, h)
        yield case_spy(h, pr)
    for _ in range(1500 if tier == "quick" else 15000):
        yield case_load(rng, rng.choice([5, 10, 25]))


def _acyclic_first(hist):
    """the parent map the finder will see (first occurrence of each hash) has no cycle"""
    D = {}
    for ev in hist["events"]:
        if ev[0] == "D":
            for h, p, w in ev[1]:
                D.setdefault(h, p)
    for h in D:
        x, n = h, 0
        while x in D:
            x = D[x]
            n += 1
            if n > len(D):
                return False
    return True


# ------------------------------------------------------------------------------------------------
# direct property checks
def _pc(hist, prios):
    return PropCase("history", {"hist": hist, "prios": prios}, (lambda: check_history(hist, prios)))


def regression_cases():
    """the three histories on which the code failed before cdbeb46 / 30b0f94 / 0658a14, under the pop orders that
    exposed the defects and under every pop order of the second batch"""
    yield _pc(REFUTE_HIST, None)
    for pr in ([8, 9], [9, 8]):
        yield _pc(REFUTE_HIST, [[], pr])
    yield _pc(ANCHOR_HIST, None)
    yield _pc(TIE_HIST, None)
    for pr in ([11, 3], [3, 11]):
        yield _pc(TIE_SPY_HIST, [[], [], [], pr, []])


CHECKPOINT_HIST = {"anchor": 9, "mode": "int",
                   "events": [["D", [[9, 1, 2], [7, 9, 2]]], ["D", [[1, 0, 2], [9, 1, 2], [6, 7, 2], [8, 9, 2]]],
                              ["D", [[9, 1, 2]]], ["D", [[5, 6, 2]]]]}
PRELOAD_HIST = {"anchor": 0, "mode": "int", "pre": [[1, 0, 1], [2, 1, 1]],
                "events": [["D", [[2, 1, 1], [3, 2, 1]]], ["D", [[1, 0, 1], [4, 3, 1]]], ["L", 3], ["D", [[3, 2, 1]]]]}


def anchor_kind_cases():
    """one fixed history under every kind of anchor: constructor checkpoint whose header is delivered (alone and inside
    overlapping batches), preloaded chain, default anchor, and after lock_to_index"""
    yield _pc(CHECKPOINT_HIST, None)
    yield _pc(dict(CHECKPOINT_HIST, mode="bytes"), None)
    for pr in itertools.permutations([9, 1, 6, 8]):
        yield _pc(CHECKPOINT_HIST, [[7, 9], list(pr), [], []])
    yield _pc(PRELOAD_HIST, None)
    yield _pc(dict(PRELOAD_HIST, mode="bytes"), None)
    yield _pc(with_default_anchor(PRELOAD_HIST), None)
    yield _pc(with_default_anchor(ANCHOR_HIST), None)
    # after lock_to_index: the block at the lock point, deeper locked blocks and their duplicates arrive again
    yield _pc({"anchor": 0, "mode": "int",
               "events": [["D", [[1, 0, 1], [2, 1, 1], [3, 2, 1], [4, 3, 1]]], ["L", 3], ["D", [[3, 2, 1], [2, 1, 1]]],
                          ["D", [[1, 0, 1], [3, 2, 1], [5, 4, 1]]], ["D", [[3, 2, 1]]]]}, None)


def prop_cases(rng, tier):
    for pc in regression_cases():
        yield pc
    for pc in anchor_kind_cases():
        yield pc
    yield _pc({"anchor": 0, "mode": "int", "events": [["D", [[1, 0, 1], [2, 1, 1]]], ["D", [[3, 2, 2]]], ["L", 1]]}, None)
    for h, pr in _hists(rng, tier):
        if not well_formed(h):
            continue
        yield _pc(h, pr)
        if pr is None and rng.random() < 0.5:
            yield _pc(h, rand_prios(rng, h))


def classify(pc, r):
    """no open finding: every failure is a violation"""
    return None


def replay_input(check, inp):
    if check == "history":
        return check_history(inp["hist"], inp.get("prios"))
    return {"kind": "unknown-check"}


KNOWN_REPLAYS = {}


def search(rng, tier, disagreements, known_ids):
    cands = []
    for d in disagreements[:40]:
        meta = d.get("meta") or {}
        h = meta.get("hist")
        if not h:
            continue
        if not well_formed(h):
            continue
        cands.append(_pc(h, meta.get("prios")))
        cands.append(_pc(h, None))
        for _ in range(20):
            cands.append(_pc(h, rand_prios(rng, h)))
        # prefixes of the history
        for k in range(1, len(h["events"])):
            sub = dict(h, events=h["events"][:k])
            cands.append(_pc(sub, None))
            cands.append(_pc(sub, rand_prios(rng, sub)))
        # the same history under every other kind of anchor (checkpoint header delivered, preloaded, default)
        if not h.get("default_anchor"):
            for _ in range(3):
                for v in anchor_variants(rng, h, all_kinds=True):
                    if well_formed(v) and all(isinstance(ev[1], (int, list)) for ev in v["events"]):
                        cands.append(_pc(v, None))
                        cands.append(_pc(v, rand_prios(rng, v)))
    for pc in cands:
        try:
            r = pc.thunk()
        except Exception as e:  # noqa
            r = {"kind": "raises", "detail": "%s: %s" % (type(e).__name__, e)}
        if r is not None and classify(pc, r) not in known_ids:
            return {"check": pc.name, "input": pc.inp, "failure": r}
    for pc in prop_cases(rng, tier):
        try:
            r = pc.thunk()
        except Exception as e:  # noqa
            r = {"kind": "raises", "detail": "%s: %s" % (type(e).__name__, e)}
        if r is not None and classify(pc, r) not in known_ids:
            return {"check": pc.name, "input": pc.inp, "failure": r}
    return None
