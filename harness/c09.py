"""C09 — hierarchical key derivation follows BIP32 and commutes with going public; extended-key text round trip;
sub-key cache transparency; path spellings and ranges; Electrum wallets.

Correspondence: extracted Model/Bip32.v (group instantiated as "points are scalars mod n", SEC bytes by oracle) and the
extracted BIP text Spec/Bip32Spec.v against the real BIP32Node / BIP49Node / BIP84Node / ElectrumWallet / ParseAPI /
subpaths code.  Oracles answered here: hmac_sha512 (hmac + hashlib), hash160, dsha256 (hashlib), c09_sec / c09_xy
(scalar*G by pycoin's generator, encoded here), c09_unsec (decoding of a 33-byte key field: prefix / x < p / Euler
criterion done HERE, discrete logarithm looked up among the keys this harness generated).
Direct checks: an independent pure-Python BIP32 (own secp256k1 arithmetic, own base58check) against the
implementation, the two official BIP32 vectors, public/private commutation, hardened refusal, metadata, text round
trip on every table network and key type, cache transparency, path spellings / ranges, Electrum commutation.
"""
from common import *
import hashlib, hmac as _hmac, importlib.util, itertools, sys, types, logging
logging.getLogger("pycoin.key.bip32").disabled = True      # the 'lotto ticket' message of the forced-HMAC scenarios

PROP = "C09"
DRIVER = "C09"
INTERACTIVE = True
RULE = ("correspondence: one driver line per scenario (a history of subkey / subkey_for_path / subkeys calls on one root, or one "
        "call of master / ckd_priv / ckd_pub / serialize / deserialize / hwif / hparse / bipNN / subpaths / int() / electrum); "
        "distinct = distinct line; non-trivial = the model returns a value (not an exception)")
PARTIAL = [
    "the group is abstract in the theorems; primality of n is not used, the hypotheses are the module laws of G "
    "(smul (a+b) G = smul a G + smul b G, smul (a mod n) G = smul a G, smul a G = O <-> a mod n = 0)",
    "C09_pub_priv_commute holds under I_L < n and child <> 0 (probability of the complement about 2^-127 per derivation on "
    "secp256k1); outside it the private side retries with 01||I_R||i and the public side reduces I_L mod n "
    "(C09_divergence_when_IL_ge_n); exercised in the correspondence run with a substituted HMAC",
    "base58check codecs are parameters of the text theorems (hypothesis dec (enc b) = Some b: C11's theorem); the driver works "
    "at payload level, the harness has its own base58check",
    "GRS / GRSRT / TGRS: groestlcoin_hash is absent in this sandbox; a stand-in 64-byte hash is injected as module "
    "groestlcoin_hash so that the GRS code paths run (the checked statements do not depend on which hash it is)",
]
TRUSTED = [
    "harness/gens/bip32_c09.py (prefix table of every pycoin/symbols module: source literal, live printer closure, live parser; codecs; group order)",
    "struct.pack('>L'/'>l'), int.to_bytes/from_bytes, str.split, int(str), '%d' modelled by hand (Latin-1 strings; 4300-digit limit of int() not modelled); tied by correspondence",
    "oracles: Python hmac/hashlib for HMAC-SHA512, hash160, double SHA-256; pycoin's generator for scalar*G in the SEC oracle "
    "(the direct checks compare it with an independent affine implementation in this file)",
    "PublicPrivateMismatchError is represented as E_OTHER in the model",
]

# ---- a stand-in for the missing groestlcoin_hash package (only when it is really absent) ---------------------------
try:
    import groestlcoin_hash  # noqa
    GROESTL_STANDIN = False
except ImportError:
    _m = types.ModuleType("groestlcoin_hash")
    _m.getHash = lambda data, n: hashlib.blake2b(b"stand-in for groestl" + bytes(data[:n])).digest()
    sys.modules["groestlcoin_hash"] = _m
    GROESTL_STANDIN = True

from pycoin.symbols.btc import network as BTC
from pycoin.symbols.xtn import network as XTN
from pycoin.symbols.ltc import network as LTC
from pycoin.key.BIP32Node import PublicPrivateMismatchError
from pycoin.key import bip32 as _bip32mod
from pycoin.key.subpaths import subpaths_for_path_range
from pycoin.networks.registry import network_for_netcode

_spec = importlib.util.spec_from_file_location("gens_bip32_c09", os.path.join(VERIF, "harness", "gens", "bip32_c09.py"))
_gens = importlib.util.module_from_spec(_spec)
_spec.loader.exec_module(_gens)
ORDER_TABLE, ROWS = _gens.collect()
# rows: (symbol, kt, print_prv, print_pub, parse_prv, parse_pub, print_codec, parse_codec)
NETS = {}
for _r in ROWS:
    if _r[0] not in NETS:
        NETS[_r[0]] = network_for_netcode(_r[0])

# ---- secp256k1, independently of pycoin ---------------------------------------------------------------------------
P_FIELD = 2 ** 256 - 2 ** 32 - 977
N_ORDER = 0xFFFFFFFFFFFFFFFFFFFFFFFFFFFFFFFEBAAEDCE6AF48A03BBFD25E8CD0364141
GX = 0x79BE667EF9DCBBAC55A06295CE870B07029BFCDB2DCE28D959F2815B16F81798
GY = 0x483ADA7726A3C4655DA4FBFC0E1108A8FD17B448A68554199C47D08FFB10D4B8
assert ORDER_TABLE == N_ORDER


def ec_add(A, B):
    if A is None:
        return B
    if B is None:
        return A
    (x1, y1), (x2, y2) = A, B
    if x1 == x2:
        if (y1 + y2) % P_FIELD == 0:
            return None
        lam = 3 * x1 * x1 * pow(2 * y1, -1, P_FIELD) % P_FIELD
    else:
        lam = (y2 - y1) * pow(x2 - x1, -1, P_FIELD) % P_FIELD
    x3 = (lam * lam - x1 - x2) % P_FIELD
    return (x3, (lam * (x1 - x3) - y1) % P_FIELD)


def ec_mul(k, A=(GX, GY)):
    k %= N_ORDER
    R = None
    while k:
        if k & 1:
            R = ec_add(R, A)
        A = ec_add(A, A)
        k >>= 1
    return R


def enc_sec(pair):
    return bytes([2 + (pair[1] & 1)]) + pair[0].to_bytes(32, "big")


def h160(b):
    return ORACLES_BASE["hash160"](b)


# ---- own base58check ----------------------------------------------------------------------------------------------
B58 = "123456789ABCDEFGHJKLMNPQRSTUVWXYZabcdefghijkmnopqrstuvwxyz"


def _b58enc(b):
    n = int.from_bytes(b, "big")
    s = ""
    while n:
        n, r = divmod(n, 58)
        s = B58[r] + s
    return "1" * (len(b) - len(b.lstrip(b"\0"))) + s


def _b58dec(s):
    n = 0
    for ch in s:
        n = n * 58 + B58.index(ch)
    z = len(s) - len(s.lstrip("1"))
    body = n.to_bytes((n.bit_length() + 7) // 8, "big")
    return b"\0" * z + body


def _grs_hash_pycoin(data):
    # groestlHash in pycoin = bytes_as_revhex(getHash(data)): the digest with its byte order reversed ... taken from
    # the library's own wrapper so that the stand-in and a real installation are treated alike
    from pycoin.coins.groestlcoin.hash import groestlHash
    return groestlHash(data)


def checksum(codec, data):
    if codec == 0:
        return hashlib.sha256(hashlib.sha256(data).digest()).digest()[:4]
    return _grs_hash_pycoin(data)[:4]


def b58check_enc(codec, data):
    return _b58enc(data + checksum(codec, data))


def b58check_dec(codec, s):
    try:
        raw = _b58dec(s)
    except ValueError:
        return None
    if len(raw) < 4 or checksum(codec, raw[:-4]) != raw[-4:]:
        return None
    return raw[:-4]


# ---- oracles ------------------------------------------------------------------------------------------------------
ORACLES_BASE = ORACLES          # common.py's table (sha256 ... hash160)
G = BTC.generator
DLOG = {}                       # compressed SEC -> scalar, for every point this harness produced
_SEC_CACHE = {}
HMAC_FORCE = b"FORCE"           # chain codes starting with this select a substituted HMAC (retry-rule scenarios)


def scalar_pair(k):
    k %= N_ORDER
    if k == 0:
        return None
    r = _SEC_CACHE.get(k)
    if r is None:
        P = k * G
        r = (int(P[0]), int(P[1]))
        _SEC_CACHE[k] = r
        DLOG[enc_sec(r)] = k
    return r


def _o_sec(b):
    pr = scalar_pair(int.from_bytes(b, "big"))
    return b"" if pr is None else enc_sec(pr)


def _o_xy(b):
    pr = scalar_pair(int.from_bytes(b, "big"))
    return b"" if pr is None else pr[0].to_bytes(32, "big") + pr[1].to_bytes(32, "big")


def sec_status(b):
    """what sec_to_public_pair(b, secp256k1) does on a 33-byte field, decided here: 'ok' / 'enc' / 'nopoint'"""
    if len(b) != 33 or b[0] not in (2, 3):
        return "enc"
    x = int.from_bytes(b[1:], "big")
    if x >= P_FIELD:
        return "enc"
    a = (pow(x, 3, P_FIELD) + 7) % P_FIELD
    if a == 0 or pow(a, (P_FIELD - 1) // 2, P_FIELD) != 1:
        return "nopoint"
    return "ok"


def _o_unsec(b):
    st = sec_status(b)
    if st == "enc":
        return b"\x01"
    if st == "nopoint":
        return b"\x02"
    k = DLOG.get(bytes(b))
    if k is None:
        return b"\x03"          # a valid point of unknown discrete logarithm: the generator must not produce it
    return k.to_bytes(32, "big")


def fake_hmac_digest(key, msg):
    """HMAC-SHA512, except for keys starting with FORCE: scenario byte key[5]
       1: first attempt (msg[0] != 1) gives I_L = 2^256-1        2: first attempt gives I_L = n
       3: first attempt gives I_L = n - k, k = int(key[6:14])   (child = 0 / point at infinity)
       4: first TWO attempts give I_L >= n (second recognised by msg[0] == 1 and msg[1] == 0xee)"""
    real = _hmac.new(key, msg, hashlib.sha512).digest()
    if not key.startswith(HMAC_FORCE) or len(key) < 14:
        return real
    sc = key[5]
    first = msg[:1] != b"\x01"
    if sc == 1 and first:
        return b"\xff" * 32 + real[32:]
    if sc == 2 and first:
        return N_ORDER.to_bytes(32, "big") + real[32:]
    if sc == 3 and first:
        return ((N_ORDER - int.from_bytes(key[6:14], "big")) % 2 ** 256).to_bytes(32, "big") + real[32:]
    if sc == 4:
        if first:
            return (N_ORDER + 5).to_bytes(32, "big") + b"\xee" + real[33:]
        if msg[1:2] == b"\xee":
            return b"\xff" * 32 + b"\xdd" + real[33:]
    return real


def _o_hmac(b):
    n = int.from_bytes(b[:4], "big")
    return fake_hmac_digest(b[4:4 + n], b[4 + n:])


ORACLES = {"c09_sec": _o_sec, "c09_xy": _o_xy, "c09_unsec": _o_unsec, "hmac_sha512": _o_hmac}


class _FakeHmacModule:
    """stands for the `hmac` module inside pycoin.key.bip32 while a FORCE scenario runs"""
    class HMAC:
        def __init__(self, key, msg, digestmod=None):
            self._d = fake_hmac_digest(key, msg)

        def digest(self):
            return self._d


class forced_hmac:
    def __enter__(self):
        self.old = _bip32mod.hmac
        _bip32mod.hmac = _FakeHmacModule
        return self

    def __exit__(self, *a):
        _bip32mod.hmac = self.old
        return False


# ---- canonical forms ----------------------------------------------------------------------------------------------
def tag9(e):
    if isinstance(e, PublicPrivateMismatchError) or type(e).__name__ == "PublicPrivateMismatchError":
        return "E_OTHER"
    return exn_tag(e)


def call9(f, *a, **kw):
    try:
        return canon(f(*a, **kw))
    except Exception as e:  # noqa
        return "!" + tag9(e)


def nd_tuple(nd):
    sec = nd.sec()
    return (nd.chain_code(), nd.tree_depth(), nd.parent_fingerprint(), nd.child_index(), nd.secret_exponent(), sec)


def ew_tuple(w):
    return (w.secret_exponent(), w.master_public_key())


def s2b(s):
    return s.encode("latin-1")


def b2s(b):
    return b.decode("latin-1")


def node_args(chain, depth, fpr, idx, secret, point_scalar):
    return "%s %s %s %s %s %s" % (arg(chain), arg(depth), arg(fpr), arg(idx), "N" if secret is None else arg(secret), arg(point_scalar))


NodeClass = {}          # (symbol, kt) -> class


def node_class(sym, kt):
    key = (sym, kt)
    if key not in NodeClass:
        net = NETS[sym]
        dz = getattr(net.keys, "bip%d_deserialize" % kt)
        NodeClass[key] = dz.__self__
    return NodeClass[key]


def make_node(sym, kt, chain, depth, fpr, idx, secret, point_scalar):
    cls = node_class(sym, kt)
    if secret is not None:
        return cls(chain_code=chain, depth=depth, parent_fingerprint=fpr, child_index=idx, secret_exponent=secret)
    return cls(chain_code=chain, depth=depth, parent_fingerprint=fpr, child_index=idx, public_pair=scalar_pair(point_scalar))


# ---- operations on one root (histories) -----------------------------------------------------------------------------
def ckey_tok(k):
    return "%s:%s:%s" % (arg(k[0]), arg(k[1]), arg(k[2]))


def op_tok(op):
    kind, cpath = op[0], op[1]
    p = "|".join(ckey_tok(k) for k in cpath)
    if kind == "S":
        _, _, i, h, ap = op
        return "S;%s;%s;%s;%s" % (p, arg(i), arg(h), "N" if ap is None else arg(ap))
    return "%s;%s;%s" % (kind, p, arg(s2b(op[2])))


def obj_at(root, cpath):
    o = root
    for k in cpath:
        o = o._subkey_cache.get(tuple(k))
        if o is None:
            return None
    return o


def run_op_impl(root, op):
    kind, cpath = op[0], op[1]
    o = obj_at(root, cpath)
    if o is None:
        return "SKIP"
    if kind == "S":
        _, _, i, h, ap = op
        try:
            return canon(nd_tuple(o.subkey(i, h, ap)))
        except Exception as e:
            return "!" + tag9(e)
    if kind == "P":
        try:
            return canon(nd_tuple(o.subkey_for_path(op[2])))
        except Exception as e:
            return "!" + tag9(e)
    got = []
    err = "N"
    try:
        for k in o.subkeys(op[2]):
            got.append(nd_tuple(k))
    except Exception as e:
        err = "!" + tag9(e)
    return "(%s %s)" % (canon(got), err)


def run_ops_impl(mkroot, ops, forced=False):
    def go():
        try:
            root = mkroot()
        except Exception as e:
            return "!" + tag9(e)
        return "[" + " ".join(run_op_impl(root, op) for op in ops) + "]"
    if forced:
        with forced_hmac():
            return go()
    return go()


def cache_paths(root, limit=40):
    """cache paths of the objects reachable from root"""
    out = [()]
    todo = [((), root)]
    while todo and len(out) < limit:
        p, o = todo.pop()
        for k, c in o._subkey_cache.items():
            q = p + (k,)
            out.append(q)
            todo.append((q, c))
    return out


IDX = [0, 1, 2, 2 ** 24 - 1, 2 ** 24, 2 ** 31 - 1, 255, 256, 65535, 65536, 1000000000]
HCH = ["'", "p", "H"]


def rnd_index(rng):
    r = rng.random()
    if r < 0.55:
        return rng.choice(IDX)
    if r < 0.9:
        return rng.getrandbits(rng.choice([4, 8, 16, 24, 31]))
    return rng.choice([-1, 2 ** 31, 2 ** 31 + 1, 2 ** 32 - 1, 2 ** 32, -2 ** 31])


def rnd_token(rng, allow_hard=True, bad=0.04):
    r = rng.random()
    if r < bad:
        return rng.choice(["", "x", "-1", "2147483648", "1 2", "_1", "1_", "1__0", "+", "H", "'", "0x10", "1.5", "²", "4294967296"])
    i = rng.choice(IDX) if rng.random() < 0.6 else rng.getrandbits(rng.choice([3, 8, 20, 31]))
    s = str(i)
    r = rng.random()
    if r < 0.05:
        s = "+" + s
    elif r < 0.08:
        s = " " + s + rng.choice(["", " ", "\t"])
    elif r < 0.11 and len(s) > 1:
        s = s[0] + "_" + s[1:]
    elif r < 0.13:
        s = "0" + s
    if allow_hard and rng.random() < 0.4:
        s += rng.choice(HCH)
    return s


def rnd_path(rng, allow_hard=True, maxdepth=8, bad=0.04):
    d = rng.choice([0, 1, 1, 2, 2, 3, 4, 5, 6, 7, 8][: maxdepth + 3])
    s = "/".join(rnd_token(rng, allow_hard, bad) for _ in range(d))
    r = rng.random()
    if r < 0.2:
        s += ".pub"
    elif r < 0.22:
        s += rng.choice([".pu", "pub", ".pub.pub", ".PUB"])
    return s


def rnd_range_item(rng, allow_hard=True):
    r = rng.random()
    if r < 0.45:
        s = rnd_token(rng, False, bad=0.03)
    elif r < 0.93:
        lo = rng.choice([0, 1, 5, 9, 2 ** 31 - 2, rng.getrandbits(10)])
        hi = lo + rng.choice([0, 1, 2, 3, -1, -2])
        s = "%d-%d" % (lo, hi)
        if rng.random() < 0.1:
            s = "+" + s
    else:
        s = rng.choice(["1-2-3", "a-b", "-", "3-", "-3", "1--1", "--1", "", "5- 7", "0-1_0"])
    if allow_hard and rng.random() < 0.35:
        s += rng.choice(HCH)
    return s


def rnd_range_path(rng, allow_hard=True):
    d = rng.choice([0, 1, 1, 2, 2, 3, 4])
    comps = []
    for _ in range(d):
        comps.append(",".join(rnd_range_item(rng, allow_hard) for _ in range(rng.choice([1, 1, 1, 2, 3]))))
    s = "/".join(comps)
    if rng.random() < 0.1:
        s += ".pub"
    return s


def gen_history(rng, mkroot, nops, public_root, forced=False):
    """random history generated while running it on a scratch root (to know which cached objects exist)"""
    ops = []
    try:
        root = mkroot()
    except Exception:
        return ops
    ctx = forced_hmac() if forced else None
    if ctx:
        ctx.__enter__()
    try:
        for _ in range(nops):
            paths = cache_paths(root)
            cpath = () if rng.random() < 0.6 else rng.choice(paths)
            if rng.random() < 0.03:
                cpath = cpath + ((7, False, True),)          # usually absent: SKIP
            r = rng.random()
            if r < 0.5:
                if ops and rng.random() < 0.35:
                    prev = [o for o in ops if o[0] == "S"]
                    if prev:
                        o = rng.choice(prev)
                        op = ("S", cpath if rng.random() < 0.5 else o[1], o[2], o[3], rng.choice([o[4], None, True, False]))
                    else:
                        op = ("S", cpath, rnd_index(rng), rng.random() < 0.4, rng.choice([None, True, False]))
                else:
                    op = ("S", cpath, rnd_index(rng), rng.random() < 0.4, rng.choice([None, None, True, False]))
            elif r < 0.88:
                op = ("P", cpath, rnd_path(rng, allow_hard=not public_root or rng.random() < 0.2, maxdepth=5))
            else:
                op = ("K", cpath, rnd_range_path(rng, allow_hard=not public_root or rng.random() < 0.2))
            ops.append(op)
            run_op_impl(root, op)
    finally:
        if ctx:
            ctx.__exit__()
    return ops


def mk_btc_root(seed, pub):
    def f():
        m = BTC.keys.bip32_seed(seed)
        return m.public_copy() if pub else m
    return f


# ---- blobs for deserialize / hparse ---------------------------------------------------------------------------------
def ser_fields(depth, fpr, idx, chain, keyfield):
    return bytes([depth & 0xFF]) + fpr + (idx & 0xFFFFFFFF).to_bytes(4, "big") + chain + keyfield


def rnd_secret(rng):
    r = rng.random()
    if r < 0.5:
        return rng.randrange(1, N_ORDER)
    if r < 0.7:
        return rng.choice([1, 2, N_ORDER - 1, N_ORDER - 2, 2 ** 255, 255, 256])
    return rng.getrandbits(rng.choice([8, 64, 128, 200]))or 1


def rnd_keyfield(rng):
    """33-byte key field: mostly valid, with the malformed variants that deserialize must refuse"""
    r = rng.random()
    if r < 0.3:
        return b"\0" + rnd_secret(rng).to_bytes(32, "big")
    if r < 0.4:
        return b"\0" + rng.choice([0, N_ORDER, N_ORDER + 1, 2 ** 256 - 1]).to_bytes(32, "big")
    k = rnd_secret(rng)
    sec = enc_sec(scalar_pair(k))
    if r < 0.7:
        return sec
    if r < 0.78:
        flipped = bytes([sec[0] ^ 1]) + sec[1:]          # the negated point: scalar n - k
        scalar_pair(N_ORDER - k)
        return flipped
    if r < 0.86:
        return bytes([rng.choice([1, 4, 5, 6, 7, 0x82, 0xff])]) + sec[1:]
    if r < 0.92:
        x = rng.choice([P_FIELD, P_FIELD + 1, 2 ** 256 - 1, P_FIELD + rng.getrandbits(20)])
        return bytes([rng.choice([2, 3])]) + x.to_bytes(32, "big")
    # an x that is NOT on the curve (a valid x of unknown discrete logarithm goes to the direct checks instead)
    while True:
        x = rng.choice([0, 5, rng.getrandbits(256) % P_FIELD])
        cand = bytes([rng.choice([2, 3])]) + x.to_bytes(32, "big")
        if sec_status(cand) == "nopoint":
            return cand


def rnd_blob78(rng, prefix):
    depth = rng.choice([0, 1, 2, 3, 255, rng.getrandbits(8)])
    fpr = bytes(rng.getrandbits(8) for _ in range(4))
    idx = rng.choice([0, 1, 2 ** 31, 2 ** 32 - 1, 2 ** 31 - 1, rng.getrandbits(32)])
    chain = bytes(rng.getrandbits(8) for _ in range(32))
    return prefix + ser_fields(depth, fpr, idx, chain, rnd_keyfield(rng))


def mangle(rng, blob):
    r = rng.random()
    if r < 0.25:
        return blob[:-1]
    if r < 0.45:
        return blob + bytes([rng.getrandbits(8)])
    if r < 0.6:
        return blob[: rng.randint(0, len(blob))]
    if r < 0.7:
        return blob[4:]
    if r < 0.8:
        return blob + blob
    return b""


def impl_deserialize(cls, data):
    return call9(lambda: nd_tuple(cls.deserialize(data)))


def opt_tok(b):
    return "N" if b is None else arg(b)


# ---- model cases ----------------------------------------------------------------------------------------------------
ASCII_INT = " +-_0123456789\t\nx"


def _int_strings(rng, tier):
    alpha = [chr(c) for c in range(256)]
    for c in alpha:
        yield c
        yield c + "5"
        yield "5" + c
        yield "1" + c + "2"
        yield c + c
    small = " +-_059"
    for n in (2, 3, 4):
        for t in itertools.product(small, repeat=n):
            yield "".join(t)
    for _ in range(1500 if tier == "quick" else 40000):
        n = rng.randint(1, 12)
        yield "".join(rng.choice(ASCII_INT) if rng.random() < 0.9 else chr(rng.getrandbits(8)) for _ in range(n))
    for k in list(range(0, 80)) + [255, 256, 257, 300, 1000, 4000]:
        yield str(2 ** k)
        yield str(10 ** (k % 90))
        yield "-" + str(2 ** k - 1)


def _pyint(s):
    return int(s)


def _path_token_impl(v):
    # the three statements of the loop body of BIP32Node.subkey_for_path, on the implementation's own terms:
    # observed through a root whose subkey is intercepted
    got = []

    class Probe(node_class("BTC", 32)):
        def subkey(self, i=0, is_hardened=False, as_private=None):
            got.append((i, bool(is_hardened)))
            return self
    m = BTC.keys.bip32_seed(b"probe")
    p = Probe(chain_code=m.chain_code(), secret_exponent=m.secret_exponent())
    p.subkey_for_path(v)
    return got


def model_cases(rng, tier):
    Q = tier == "quick"
    # 1. master keys
    seeds = [b"", b"\0", bytes(range(16)), bytes(range(64)), b"Bitcoin seed"] + \
            [bytes(rng.getrandbits(8) for _ in range(rng.choice([1, 16, 32, 64, 65, 100]))) for _ in range(40 if Q else 600)]
    for s in seeds:
        yield Case("master " + arg(s), (lambda s=s: call9(lambda: nd_tuple(BTC.keys.bip32_seed(s)))))
    # 2. histories on one root: subkey / subkey_for_path / subkeys in random order, private and public roots
    for n in range(260 if Q else 6000):
        seed = bytes(rng.getrandbits(8) for _ in range(rng.choice([16, 32, 64])))
        pub = rng.random() < 0.4
        ops = gen_history(rng, mk_btc_root(seed, pub), rng.choice([1, 2, 3, 5, 8, 12]), pub)
        line = "ops %s %s %s" % (arg(seed), arg(pub), "[" + ",".join(op_tok(o) for o in ops) + "]")
        yield Case(line, (lambda seed=seed, pub=pub, ops=ops: run_ops_impl(mk_btc_root(seed, pub), ops)))
    # 2b. histories on explicit nodes with a substituted HMAC: retry rule (I_L >= n, child = 0) and public reduction
    for n in range(60 if Q else 1200):
        sc = rng.choice([1, 2, 3, 4])
        k = rng.getrandbits(rng.choice([8, 32, 63])) or 3
        chain = HMAC_FORCE + bytes([sc]) + k.to_bytes(8, "big") + bytes(rng.getrandbits(8) for _ in range(18))
        pub = rng.random() < 0.5
        depth = rng.choice([0, 3, 254, 255])
        fpr = bytes(rng.getrandbits(8) for _ in range(4))
        idx = rng.choice([0, 2 ** 31 + 5, 7])
        mk = (lambda chain=chain, depth=depth, fpr=fpr, idx=idx, k=k, pub=pub:
              make_node("BTC", 32, chain, depth, fpr, idx, None if pub else k, k))
        ops = gen_history(rng, mk, rng.choice([1, 2, 4, 6]), pub, forced=True)
        line = "node_ops %s %s" % (node_args(chain, depth, fpr, idx, None if pub else k, k),
                                   "[" + ",".join(op_tok(o) for o in ops) + "]")
        yield Case(line, (lambda mk=mk, ops=ops: run_ops_impl(mk, ops, forced=True)))
    # 3. the two derivation functions of bip32.py on raw arguments
    from pycoin.key.bip32 import subkey_secret_exponent_chain_code_pair as CKDP, subkey_public_pair_chain_code_pair as CKDQ
    raw_i = IDX + [2 ** 31, 2 ** 31 + 1, 2 ** 32 - 1, 2 ** 32, -1, -2 ** 31, -2 ** 31 - 1, 2 ** 31 + 2 ** 24]
    for n in range(150 if Q else 3000):
        k = rnd_secret(rng)
        chain = bytes(rng.getrandbits(8) for _ in range(rng.choice([32, 32, 32, 0, 1, 64, 129])))
        i = rng.choice(raw_i) if rng.random() < 0.7 else rng.getrandbits(32)
        h = rng.random() < 0.5
        usepub = rng.random() < 0.5
        yield Case("ckd_priv %s %s %s %s %s" % (arg(k), arg(chain), arg(i), arg(h), arg(usepub)),
                   (lambda k=k, chain=chain, i=i, h=h, usepub=usepub:
                    call9(lambda: CKDP(G, k, chain, i, h, (k * G) if usepub else None))))
        yield Case("ckd_pub %s %s %s" % (arg(k), arg(chain), arg(i)),
                   (lambda k=k, chain=chain, i=i:
                    call9(lambda: (lambda r: (enc_sec((int(r[0][0]), int(r[0][1]))), r[1]))(CKDQ(G, scalar_pair(k), chain, i)))))
    for n in range(24 if Q else 300):
        sc = rng.choice([1, 2, 3, 4])
        k = rng.getrandbits(60) or 9
        chain = HMAC_FORCE + bytes([sc]) + k.to_bytes(8, "big") + bytes(rng.getrandbits(8) for _ in range(18))
        i = rng.choice(IDX)
        h = rng.random() < 0.5
        def f1(k=k, chain=chain, i=i, h=h):
            with forced_hmac():
                return call9(lambda: CKDP(G, k, chain, i | (0x80000000 if h else 0), h, None))
        def f2(k=k, chain=chain, i=i):
            with forced_hmac():
                return call9(lambda: (lambda r: (enc_sec((int(r[0][0]), int(r[0][1]))), r[1]))(CKDQ(G, scalar_pair(k), chain, i)))
        yield Case("ckd_priv %s %s %s %s F" % (arg(k), arg(chain), arg(i | (0x80000000 if h else 0)), arg(h)), f1)
        yield Case("ckd_pub %s %s %s" % (arg(k), arg(chain), arg(i)), f2)
    # 4. serialize on explicit nodes (depth and index boundaries, as_private True/False/None, public and private)
    for n in range(200 if Q else 4000):
        depth = rng.choice([0, 1, 255, 256, -1, 300, rng.getrandbits(8)])
        idx = rng.choice([0, 1, 2 ** 31, 2 ** 32 - 1, 2 ** 32, -1, rng.getrandbits(32)])
        chain = bytes(rng.getrandbits(8) for _ in range(32))
        fpr = bytes(rng.getrandbits(8) for _ in range(4))
        k = rnd_secret(rng) % N_ORDER or 1
        pub = rng.random() < 0.5
        ap = rng.choice([None, True, False])
        yield Case("serialize %s %s" % (node_args(chain, depth, fpr, idx, None if pub else k, k), "N" if ap is None else arg(ap)),
                   (lambda chain=chain, depth=depth, fpr=fpr, idx=idx, k=k, pub=pub, ap=ap:
                    call9(lambda: make_node("BTC", 32, chain, depth, fpr, idx, None if pub else k, k).serialize(as_private=ap))))
    # 5. deserialize: valid blobs, every length around 78, malformed key fields
    cls = node_class("BTC", 32)
    for L in list(range(0, 84)) + [100, 156]:
        data = bytes((7 * j + L) & 0xFF for j in range(L))
        yield Case("deserialize " + arg(data), (lambda data=data: impl_deserialize(cls, data)))
    for n in range(500 if Q else 12000):
        data = rnd_blob78(rng, bytes(rng.getrandbits(8) for _ in range(4)))
        if rng.random() < 0.08:
            data = mangle(rng, data)
        yield Case("deserialize " + arg(data), (lambda data=data: impl_deserialize(cls, data)))
    # 6. text form at payload level on every table network and key type: hwif, bipNN_prv, bipNN_pub, bipNN
    for row in ROWS:
        sym, kt, pr_prv, pr_pub, pa_prv, pa_pub, pcodec, qcodec = row
        net = NETS[sym]
        for n in range(6 if Q else 60):
            k = rnd_secret(rng) % N_ORDER or 1
            depth = rng.choice([0, 1, 5, 255, 256])
            idx = rng.choice([0, 2 ** 31, 2 ** 32 - 1, rng.getrandbits(32)])
            chain = bytes(rng.getrandbits(8) for _ in range(32))
            fpr = bytes(rng.getrandbits(8) for _ in range(4))
            pub = rng.random() < 0.4
            ap = rng.random() < 0.6
            def impl_hwif(sym=sym, kt=kt, chain=chain, depth=depth, fpr=fpr, idx=idx, k=k, pub=pub, ap=ap, pcodec=pcodec):
                def f():
                    t = make_node(sym, kt, chain, depth, fpr, idx, None if pub else k, k).hwif(as_private=ap)
                    d = b58check_dec(pcodec, t)
                    if d is None:
                        raise RuntimeError("hwif text does not decode with the printer's codec")
                    return d
                return call9(f)
            yield Case("hwif_data %s %s %s %s" % (opt_tok(pr_prv), opt_tok(pr_pub), node_args(chain, depth, fpr, idx, None if pub else k, k), arg(ap)),
                       impl_hwif)
        for n in range(10 if Q else 120):
            r = rng.random()
            prefix = rng.choice([p for p in (pa_prv, pa_pub) if p is not None])
            if r < 0.1:
                prefix = bytes(rng.getrandbits(8) for _ in range(4))
            elif r < 0.2:
                prefix = prefix[:3] + bytes([prefix[3] ^ 1])
            data = rnd_blob78(rng, prefix)
            if rng.random() < 0.1:
                data = mangle(rng, data)
            text = b58check_enc(qcodec, data)
            if rng.random() < 0.05:
                text = text[:-1] + ("1" if text[-1] != "1" else "2")       # broken checksum: data = None
                data = None
            for prv in (True, False):
                which = "bip%d_%s" % (kt, "prv" if prv else "pub")
                yield Case("hparse_data %s %s %s" % (opt_tok(pa_prv if prv else pa_pub), arg(prv), opt_tok(data)),
                           (lambda net=net, which=which, text=text:
                            call9(lambda: (lambda r: None if r is None else nd_tuple(r))(getattr(net.parse, which)(text)))))
            yield Case("parse_hd_data %s %s %s" % (opt_tok(pa_prv), opt_tok(pa_pub), opt_tok(data)),
                       (lambda net=net, kt=kt, text=text:
                        call9(lambda: (lambda r: None if r is None else nd_tuple(r))(getattr(net.parse, "bip%d" % kt)(text)))))
    # 7. strings: int(), "%d", path elements, path ranges
    for s in _int_strings(rng, tier):
        yield Case("py_int " + arg(s2b(s)), (lambda s=s: call9(_pyint, s)))
    for k in list(range(0, 300)) + [2 ** j + d for j in range(3, 70) for d in (-1, 0, 1)] + [10 ** j for j in range(1, 40)] + \
            [-1, -9, -10, -2 ** 40] + [rng.getrandbits(rng.choice([8, 31, 64, 200])) for _ in range(200)]:
        yield Case("py_dec " + arg(k), (lambda k=k: canon(s2b("%d" % k))))
    toks = ["'", "H", "p", "0", "0'", "0H", "0p", "5h", "5P", "-1H", "1_0'", " 7 p", "2147483647H", "2147483648", "H'", "''", "0'H"]
    toks += [rnd_token(rng, True, 0.15) for _ in range(300 if Q else 6000)]
    for v in toks:
        if v == "" or "/" in v or v.endswith(".pub"):
            continue
        yield Case("path_token " + arg(s2b(v)),
                   (lambda v=v: call9(lambda: (lambda g: (g[0][0], g[0][1]) if len(g) == 1 else ("unexpected", len(g)))(_path_token_impl(v)))))
    rps = ["", "0/1H/0-4", "0/2,5,9-11", "3H/2/5/15-20p", "5-6/7-8p,15/1-2", "3-1", "0,,1", "0/", "/", ",", "a-b", "1-2-3",
           "+1-+3'", "0,1H,2p,3'", "--1", "1--1", "0-2H/x", "0-99", "7-7", "1-0H", "H", "'/p"]
    rps += [rnd_range_path(rng) for _ in range(500 if Q else 12000)]
    for s in rps:
        yield Case("subpaths " + arg(s2b(s)), (lambda s=s: call9(lambda: [s2b(x) for x in subpaths_for_path_range(s, hardening_chars="'pH")])))
    # 8. Electrum
    E = BTC.keys
    for n in range(150 if Q else 3000):
        k = rnd_secret(rng) % N_ORDER or 1
        pub = rng.random() < 0.5
        path = rng.choice(["0", "1", "0/0", "0/1", "5/1", "17", "1/2/3", "", "/", "a/b", "0/", "/1", "00/1", "3-5"]) if rng.random() < 0.6 \
            else "%d/%d" % (rng.getrandbits(16), rng.getrandbits(1))
        def mkw(k=k, pub=pub):
            return E.electrum_public(master_public_key=_o_xy(k.to_bytes(32, "big"))) if pub else E.electrum_private(master_private_key=k)
        yield Case("electrum_subkey %s %s %s" % ("N" if pub else arg(k), arg(k), arg(s2b(path))),
                   (lambda mkw=mkw, path=path: call9(lambda: ew_tuple(mkw().subkey(path)))))
        if n % 5 == 0:
            rp = rnd_range_path(rng, allow_hard=False) if rng.random() < 0.5 else rng.choice(["0-3", "0-2/0-1", "1,2/0", "0-1/0-1/0", "5"])
            def impl_sk(mkw=mkw, rp=rp):
                try:
                    w = mkw()
                except Exception as e:
                    return "!" + tag9(e)
                got, err = [], "N"
                try:
                    for x in w.subkeys(rp):
                        got.append(ew_tuple(x))
                except Exception as e:
                    err = "!" + tag9(e)
                return "(%s %s)" % (canon(got), err)
            yield Case("electrum_subkeys %s %s %s" % ("N" if pub else arg(k), arg(k), arg(s2b(rp))), impl_sk)
    for s, p in [(0, None), (N_ORDER, None), (N_ORDER - 1, None), (1, None), (-1, None), (None, 5), (None, 0), (3, 3), (None, None)]:
        def impl_init(s=s, p=p):
            cls = type(E.electrum_private(master_private_key=1))
            return call9(lambda: ew_tuple(cls(master_private_key=s, public_pair=None if p is None else (scalar_pair(p) or (None, None)))))
        yield Case("electrum_init %s %s" % ("N" if s is None else arg(s), "N" if p is None else arg(p)), impl_init)
    # 9. implementation against the BIP text (extracted Spec/Bip32Spec.v): chains of extended keys, serialized
    for n in range(60 if Q else 1500):
        seed = bytes(rng.getrandbits(8) for _ in range(rng.choice([16, 32, 64])))
        depth = rng.randint(0, 8)
        path = [(rng.choice(IDX) if rng.random() < 0.6 else rng.getrandbits(31)) % 2 ** 31 | (0x80000000 if rng.random() < 0.4 else 0)
                for _ in range(depth)]
        # neuter after `cut` private steps; afterwards only non-hardened numbers make sense for the spec (failure otherwise)
        cut = rng.randint(0, depth) if rng.random() < 0.5 else depth
        if rng.random() < 0.85:
            path = [i if j < cut else i & 0x7FFFFFFF for j, i in enumerate(path)]
        sym = rng.choice(["BTC", "XTN", "LTC"])
        row = [r for r in ROWS if r[0] == sym and r[1] == 32][0]
        yield Case("spec_derive %s %s %s %s %s" % (arg(row[2]), arg(row[3]), arg(seed), arg(cut), arg(path)),
                   (lambda sym=sym, seed=seed, cut=cut, path=path: impl_chain(sym, seed, cut, path)))


def impl_chain(sym, seed, cut, path):
    """the implementation's chain of extended keys, serialized, in the layout of c09_spec_derive"""
    net = NETS[sym]
    out = []

    def ser(k):
        prv = b58check_dec(0, k.hwif(as_private=True)) if k.secret_exponent() is not None else b""
        return (prv, b58check_dec(0, k.hwif(as_private=False)))
    try:
        k = net.keys.bip32_seed(seed)
    except Exception:
        return "[N]"
    out.append(canon(ser(k)))
    for j, i in enumerate(path):
        if j == cut:
            k = k.public_copy()
        try:
            k = k.subkey(i & 0x7FFFFFFF, is_hardened=bool(i >> 31))
        except PublicPrivateMismatchError:
            out.append("N")
            break
        out.append(canon(ser(k)))
    return "[" + " ".join(out) + "]"
