"""C09 — hierarchical key derivation follows BIP32 and commutes with going public; extended-key text round trip;
sub-key cache transparency; path spellings and ranges; Electrum wallets.

Correspondence: extracted Model/Bip32.v (group instantiated as "points are scalars mod n", SEC bytes by oracle) and the
extracted BIP text Spec/Bip32Spec.v against the real BIP32Node / BIP49Node / BIP84Node / ElectrumWallet / ParseAPI /
subpaths code.  Oracles answered here: hmac_sha512 (hmac + hashlib), hash160, dsha256 (hashlib), c09_sec / c09_xy
(scalar*G by pycoin's generator, encoded here), c09_unsec (decoding of a 33-byte key field: prefix / x < p / Euler
criterion done HERE, discrete logarithm looked up among the keys this harness generated).
Direct checks: an independent pure-Python BIP32 (own secp256k1 arithmetic, own base58check) against the
implementation, the two official BIP32 vectors, public/private commutation, hardened refusal, metadata, text round
trip on every table network and key type, cache transparency, path spellings / ranges, Electrum commutation.
"""
from common import *
import struct
import hashlib, hmac as _hmac, importlib.util, itertools, sys, types, logging
logging.getLogger("pycoin.key.bip32").disabled = True      # the 'lotto ticket' message of the forced-HMAC scenarios

PROP = "C09"
EXTRA_PROPS = ["C09compose", "C09ec"]   # composition theorems (see DESIGN.md section 0); C09ec: group instantiated for secp256k1
DRIVER = "C09"
INTERACTIVE = True
RULE = ("correspondence: one driver line per scenario (a history of subkey / subkey_for_path / subkeys calls on one root or over a family "
        "of related objects (public_copy twins, re-deserialised copies, cached children), or one "
        "call of master / ckd_priv / ckd_pub / serialize / deserialize / hwif / hparse / bipNN / subpaths / int() / electrum); "
        "distinct = distinct line; non-trivial = the model returns a value (not an exception)")
PARTIAL = [
    "the group is abstract in the theorems of Props/C09.v (instantiated for secp256k1 in Props/C09ec.v); primality of n is not used, the hypotheses are the module laws of G "
    "(smul (a+b) G = smul a G + smul b G, smul (a mod n) G = smul a G, smul a G = O <-> a mod n = 0)",
    "C09_pub_priv_commute holds under I_L < n and child <> 0 (probability of the complement about 2^-127 per derivation on "
    "secp256k1); outside it the private side retries with 01||I_R||i and the public side reduces I_L mod n "
    "(C09_divergence_when_IL_ge_n); exercised in the correspondence run with a substituted HMAC",
    "base58check codecs are parameters of the text theorems (hypothesis dec (enc b) = Some b: C11's theorem); the driver works "
    "at payload level, the harness has its own base58check",
    "GRS / GRSRT / TGRS: groestlcoin_hash is absent in this sandbox; a stand-in 64-byte hash is injected as module "
    "groestlcoin_hash so that the GRS code paths run (the checked statements do not depend on which hash it is)",
]
TRUSTED = [
    "harness/gens/bip32_c09.py (prefix table of every pycoin/symbols module: source literal, live printer closure, live parser; codecs; group order)",
    "struct.pack('>L'/'>l'), int.to_bytes/from_bytes, str.split, int(str), '%d' modelled by hand (Latin-1 strings; 4300-digit limit of int() not modelled); tied by correspondence",
    "oracles: Python hmac/hashlib for HMAC-SHA512, hash160, double SHA-256; pycoin's generator for scalar*G in the SEC oracle "
    "(the direct checks compare it with an independent affine implementation in this file)",
    "PublicPrivateMismatchError is represented as E_OTHER in the model",
]

# ---- a stand-in for the missing groestlcoin_hash package (only when it is really absent) ---------------------------
try:
    import groestlcoin_hash  # noqa
    GROESTL_STANDIN = False
except ImportError:
    _m = types.ModuleType("groestlcoin_hash")
    _m.getHash = lambda data, n: hashlib.blake2b(b"stand-in for groestl" + bytes(data[:n])).digest()
    sys.modules["groestlcoin_hash"] = _m
    GROESTL_STANDIN = True

from pycoin.symbols.btc import network as BTC
from pycoin.symbols.xtn import network as XTN
from pycoin.symbols.ltc import network as LTC
from pycoin.key.BIP32Node import PublicPrivateMismatchError
from pycoin.key import bip32 as _bip32mod
from pycoin.key.subpaths import subpaths_for_path_range
from pycoin.networks.registry import network_for_netcode

_spec = importlib.util.spec_from_file_location("gens_bip32_c09", os.path.join(VERIF, "harness", "gens", "bip32_c09.py"))
_gens = importlib.util.module_from_spec(_spec)
_spec.loader.exec_module(_gens)


def _collect_lenient():
    """fallback when the fail-closed table generator refuses the tree (it then reports GENERROR and the run is a
    correspondence break): take the live parser prefixes and assume the printer uses the same, so that the direct
    checks can still look for a failing input"""
    import pkgutil, importlib
    import pycoin.symbols as S
    rows = []
    order = None
    for _, name, ispkg in pkgutil.iter_modules(S.__path__):
        try:
            net = importlib.import_module("pycoin.symbols." + name).network
            order = net.generator.order()
            codec = 1 if type(net.parse).__name__ == "GRSParseAPI" else 0
            for kt in (32, 49, 84):
                a = getattr(net.parse, "_bip%d_prv_prefix" % kt, None)
                b = getattr(net.parse, "_bip%d_pub_prefix" % kt, None)
                if a is not None or b is not None:
                    rows.append((net.symbol, kt, a, b, a, b, codec if kt == 32 else 0, codec))
        except Exception:
            continue
    return order, rows


TABLE_ERROR = None
try:
    ORDER_TABLE, ROWS = _gens.collect()
except Exception as _e:      # noqa
    TABLE_ERROR = "%s: %s" % (type(_e).__name__, _e)
    ORDER_TABLE, ROWS = _collect_lenient()
# rows: (symbol, kt, print_prv, print_pub, parse_prv, parse_pub, print_codec, parse_codec)
NETS = {}
for _r in list(ROWS):
    if _r[0] not in NETS:
        try:
            NETS[_r[0]] = network_for_netcode(_r[0])
        except Exception:
            ROWS = [x for x in ROWS if x[0] != _r[0]]

# ---- secp256k1, independently of pycoin ---------------------------------------------------------------------------
P_FIELD = 2 ** 256 - 2 ** 32 - 977
N_ORDER = 0xFFFFFFFFFFFFFFFFFFFFFFFFFFFFFFFEBAAEDCE6AF48A03BBFD25E8CD0364141
GX = 0x79BE667EF9DCBBAC55A06295CE870B07029BFCDB2DCE28D959F2815B16F81798
GY = 0x483ADA7726A3C4655DA4FBFC0E1108A8FD17B448A68554199C47D08FFB10D4B8


def ec_add(A, B):
    if A is None:
        return B
    if B is None:
        return A
    (x1, y1), (x2, y2) = A, B
    if x1 == x2:
        if (y1 + y2) % P_FIELD == 0:
            return None
        lam = 3 * x1 * x1 * pow(2 * y1, -1, P_FIELD) % P_FIELD
    else:
        lam = (y2 - y1) * pow(x2 - x1, -1, P_FIELD) % P_FIELD
    x3 = (lam * lam - x1 - x2) % P_FIELD
    return (x3, (lam * (x1 - x3) - y1) % P_FIELD)


def _jdbl(P):
    X, Y, Z = P
    if Y == 0:
        return (0, 1, 0)
    S = 4 * X * Y * Y % P_FIELD
    M = 3 * X * X % P_FIELD
    X2 = (M * M - 2 * S) % P_FIELD
    Y2 = (M * (S - X2) - 8 * pow(Y, 4, P_FIELD)) % P_FIELD
    return (X2, Y2, 2 * Y * Z % P_FIELD)


def _jadd(P, Q):
    if P[2] == 0:
        return Q
    if Q[2] == 0:
        return P
    X1, Y1, Z1 = P
    X2, Y2, Z2 = Q
    U1 = X1 * Z2 * Z2 % P_FIELD
    U2 = X2 * Z1 * Z1 % P_FIELD
    S1 = Y1 * pow(Z2, 3, P_FIELD) % P_FIELD
    S2 = Y2 * pow(Z1, 3, P_FIELD) % P_FIELD
    if U1 == U2:
        return _jdbl(P) if S1 == S2 else (0, 1, 0)
    H = (U2 - U1) % P_FIELD
    R = (S2 - S1) % P_FIELD
    X3 = (R * R - H ** 3 - 2 * U1 * H * H) % P_FIELD
    Y3 = (R * (U1 * H * H - X3) - S1 * H ** 3) % P_FIELD
    return (X3, Y3, H * Z1 * Z2 % P_FIELD)


def ec_mul(k, A=(GX, GY)):
    """k*A in affine coordinates (None = infinity); own double-and-add in Jacobian coordinates"""
    k %= N_ORDER
    if A is None:
        return None
    R = (0, 1, 0)
    B = (A[0], A[1], 1)
    while k:
        if k & 1:
            R = _jadd(R, B)
        B = _jdbl(B)
        k >>= 1
    if R[2] == 0:
        return None
    zi = pow(R[2], -1, P_FIELD)
    return (R[0] * zi * zi % P_FIELD, R[1] * zi * zi * zi % P_FIELD)


def enc_sec(pair):
    return bytes([2 + (pair[1] & 1)]) + pair[0].to_bytes(32, "big")


def h160(b):
    return ORACLES_BASE["hash160"](b)


# ---- own base58check ----------------------------------------------------------------------------------------------
B58 = "123456789ABCDEFGHJKLMNPQRSTUVWXYZabcdefghijkmnopqrstuvwxyz"


def _b58enc(b):
    n = int.from_bytes(b, "big")
    s = ""
    while n:
        n, r = divmod(n, 58)
        s = B58[r] + s
    return "1" * (len(b) - len(b.lstrip(b"\0"))) + s


def _b58dec(s):
    n = 0
    for ch in s:
        n = n * 58 + B58.index(ch)
    z = len(s) - len(s.lstrip("1"))
    body = n.to_bytes((n.bit_length() + 7) // 8, "big")
    return b"\0" * z + body


def _grs_hash_pycoin(data):
    # groestlHash in pycoin = bytes_as_revhex(getHash(data)): the digest with its byte order reversed ... taken from
    # the library's own wrapper so that the stand-in and a real installation are treated alike
    from pycoin.coins.groestlcoin.hash import groestlHash
    return groestlHash(data)


def checksum(codec, data):
    if codec == 0:
        return hashlib.sha256(hashlib.sha256(data).digest()).digest()[:4]
    return _grs_hash_pycoin(data)[:4]


def b58check_enc(codec, data):
    return _b58enc(data + checksum(codec, data))


def b58check_dec(codec, s):
    try:
        raw = _b58dec(s)
    except ValueError:
        return None
    if len(raw) < 4 or checksum(codec, raw[:-4]) != raw[-4:]:
        return None
    return raw[:-4]


# ---- oracles ------------------------------------------------------------------------------------------------------
ORACLES_BASE = ORACLES          # common.py's table (sha256 ... hash160)
G = BTC.generator
DLOG = {}                       # compressed SEC -> scalar, for every point this harness produced
_SEC_CACHE = {}
HMAC_FORCE = b"FORCE"           # chain codes starting with this select a substituted HMAC (retry-rule scenarios)


def scalar_pair(k):
    k %= N_ORDER
    if k == 0:
        return None
    r = _SEC_CACHE.get(k)
    if r is None:
        P = k * G
        r = (int(P[0]), int(P[1]))
        _SEC_CACHE[k] = r
        DLOG[enc_sec(r)] = k
    return r


def _o_sec(b):
    pr = scalar_pair(int.from_bytes(b, "big"))
    return b"" if pr is None else enc_sec(pr)


def _o_xy(b):
    pr = scalar_pair(int.from_bytes(b, "big"))
    return b"" if pr is None else pr[0].to_bytes(32, "big") + pr[1].to_bytes(32, "big")


def sec_status(b):
    """what sec_to_public_pair(b, secp256k1) does on a 33-byte field, decided here: 'ok' / 'enc' / 'nopoint'"""
    if len(b) != 33 or b[0] not in (2, 3):
        return "enc"
    x = int.from_bytes(b[1:], "big")
    if x >= P_FIELD:
        return "enc"
    a = (pow(x, 3, P_FIELD) + 7) % P_FIELD
    if a == 0 or pow(a, (P_FIELD - 1) // 2, P_FIELD) != 1:
        return "nopoint"
    return "ok"


def _o_unsec(b):
    st = sec_status(b)
    if st == "enc":
        return b"\x01"
    if st == "nopoint":
        return b"\x02"
    k = DLOG.get(bytes(b))
    if k is None:
        return b"\x03"          # a valid point of unknown discrete logarithm: the generator must not produce it
    return k.to_bytes(32, "big")


def fake_hmac_digest(key, msg):
    """HMAC-SHA512, except for keys starting with FORCE: scenario byte key[5]
       1: first attempt (msg[0] != 1) gives I_L = 2^256-1        2: first attempt gives I_L = n
       3: first attempt gives I_L = n - k, k = int(key[6:14])   (child = 0 / point at infinity)
       4: first TWO attempts give I_L >= n (second recognised by msg[0] == 1 and msg[1] == 0xee)"""
    real = _hmac.new(key, msg, hashlib.sha512).digest()
    if not key.startswith(HMAC_FORCE) or len(key) < 14:
        return real
    sc = key[5]
    first = msg[:1] != b"\x01"
    if sc == 1 and first:
        return b"\xff" * 32 + real[32:]
    if sc == 2 and first:
        return N_ORDER.to_bytes(32, "big") + real[32:]
    if sc == 3 and first:
        return ((N_ORDER - int.from_bytes(key[6:14], "big")) % 2 ** 256).to_bytes(32, "big") + real[32:]
    if sc == 4:
        if first:
            return (N_ORDER + 5).to_bytes(32, "big") + b"\xee" + real[33:]
        if msg[1:2] == b"\xee":
            return b"\xff" * 32 + b"\xdd" + real[33:]
    return real


def _o_hmac(b):
    n = int.from_bytes(b[:4], "big")
    return fake_hmac_digest(b[4:4 + n], b[4 + n:])


ORACLES = {"c09_sec": _o_sec, "c09_xy": _o_xy, "c09_unsec": _o_unsec, "hmac_sha512": _o_hmac}


class _FakeHmacModule:
    """stands for the `hmac` module inside pycoin.key.bip32 while a FORCE scenario runs"""
    class HMAC:
        def __init__(self, key, msg, digestmod=None):
            self._d = fake_hmac_digest(key, msg)

        def digest(self):
            return self._d


class forced_hmac:
    def __enter__(self):
        self.old = _bip32mod.hmac
        _bip32mod.hmac = _FakeHmacModule
        return self

    def __exit__(self, *a):
        _bip32mod.hmac = self.old
        return False


# ---- canonical forms ----------------------------------------------------------------------------------------------
def tag9(e):
    if isinstance(e, PublicPrivateMismatchError) or type(e).__name__ == "PublicPrivateMismatchError":
        return "E_OTHER"
    return exn_tag(e)


def call9(f, *a, **kw):
    try:
        return canon(f(*a, **kw))
    except Exception as e:  # noqa
        return "!" + tag9(e)


def nd_tuple(nd):
    sec = nd.sec()
    return (nd.chain_code(), nd.tree_depth(), nd.parent_fingerprint(), nd.child_index(), nd.secret_exponent(), sec)


def ew_tuple(w):
    return (w.secret_exponent(), w.master_public_key())


def s2b(s):
    return s.encode("latin-1")


def b2s(b):
    return b.decode("latin-1")


def node_args(chain, depth, fpr, idx, secret, point_scalar):
    return "%s %s %s %s %s %s" % (arg(chain), arg(depth), arg(fpr), arg(idx), "N" if secret is None else arg(secret), arg(point_scalar))


NodeClass = {}          # (symbol, kt) -> class


def node_class(sym, kt):
    key = (sym, kt)
    if key not in NodeClass:
        net = NETS[sym]
        dz = getattr(net.keys, "bip%d_deserialize" % kt)
        NodeClass[key] = dz.__self__
    return NodeClass[key]


def make_node(sym, kt, chain, depth, fpr, idx, secret, point_scalar):
    cls = node_class(sym, kt)
    if secret is not None:
        return cls(chain_code=chain, depth=depth, parent_fingerprint=fpr, child_index=idx, secret_exponent=secret)
    return cls(chain_code=chain, depth=depth, parent_fingerprint=fpr, child_index=idx, public_pair=scalar_pair(point_scalar))


# ---- operations on one root (histories) -----------------------------------------------------------------------------
def ckey_tok(k):
    return "%s:%s:%s" % (arg(k[0]), arg(k[1]), arg(k[2]))


def op_tok(op):
    kind, cpath = op[0], op[1]
    p = "|".join(ckey_tok(k) for k in cpath)
    if kind == "S":
        _, _, i, h, ap = op
        return "S;%s;%s;%s;%s" % (p, arg(i), arg(h), "N" if ap is None else arg(ap))
    return "%s;%s;%s" % (kind, p, arg(s2b(op[2])))


def obj_at(root, cpath):
    o = root
    for k in cpath:
        o = getattr(o, "_subkey_cache", {}).get(tuple(k))
        if o is None:
            return None
    return o


def run_op_impl(root, op):
    kind, cpath = op[0], op[1]
    o = obj_at(root, cpath)
    if o is None:
        return "SKIP"
    if kind == "S":
        _, _, i, h, ap = op
        try:
            return canon(nd_tuple(o.subkey(i, h, ap)))
        except Exception as e:
            return "!" + tag9(e)
    if kind == "P":
        try:
            return canon(nd_tuple(o.subkey_for_path(op[2])))
        except Exception as e:
            return "!" + tag9(e)
    got = []
    err = "N"
    try:
        for k in o.subkeys(op[2]):
            got.append(nd_tuple(k))
    except Exception as e:
        err = "!" + tag9(e)
    return "(%s %s)" % (canon(got), err)


def run_ops_impl(mkroot, ops, forced=False):
    def go():
        try:
            root = mkroot()
        except Exception as e:
            return "!" + tag9(e)
        return "[" + " ".join(run_op_impl(root, op) for op in ops) + "]"
    if forced:
        with forced_hmac():
            return go()
    return go()


def cache_paths(root, limit=40):
    """cache paths of the objects reachable from root"""
    out = [()]
    todo = [((), root)]
    while todo and len(out) < limit:
        p, o = todo.pop()
        for k, c in list(getattr(o, "_subkey_cache", {}).items()):
            if not (isinstance(k, tuple) and len(k) == 3 and isinstance(k[0], int) and isinstance(k[1], bool) and isinstance(k[2], bool)):
                continue        # a cache key of another shape: not addressable (the model will disagree on the results)
            q = p + (k,)
            out.append(q)
            todo.append((q, c))
    return out


IDX = [0, 1, 2, 2 ** 24 - 1, 2 ** 24, 2 ** 31 - 1, 255, 256, 65535, 65536, 1000000000]
HCH = ["'", "p", "H"]


def rnd_index(rng):
    r = rng.random()
    if r < 0.55:
        return rng.choice(IDX)
    if r < 0.9:
        return rng.getrandbits(rng.choice([4, 8, 16, 24, 31]))
    return rng.choice([-1, 2 ** 31, 2 ** 31 + 1, 2 ** 32 - 1, 2 ** 32, -2 ** 31])


def rnd_token(rng, allow_hard=True, bad=0.04):
    r = rng.random()
    if r < bad:
        return rng.choice(["", "x", "-1", "2147483648", "1 2", "_1", "1_", "1__0", "+", "H", "'", "0x10", "1.5", "²", "4294967296"])
    i = rng.choice(IDX) if rng.random() < 0.6 else rng.getrandbits(rng.choice([3, 8, 20, 31]))
    s = str(i)
    r = rng.random()
    if r < 0.05:
        s = "+" + s
    elif r < 0.08:
        s = " " + s + rng.choice(["", " ", "\t"])
    elif r < 0.11 and len(s) > 1:
        s = s[0] + "_" + s[1:]
    elif r < 0.13:
        s = "0" + s
    if allow_hard and rng.random() < 0.4:
        s += rng.choice(HCH)
    return s


def rnd_path(rng, allow_hard=True, maxdepth=8, bad=0.04):
    d = rng.choice([0, 1, 1, 2, 2, 3, 4, 5, 6, 7, 8][: maxdepth + 3])
    s = "/".join(rnd_token(rng, allow_hard, bad) for _ in range(d))
    r = rng.random()
    if r < 0.2:
        s += ".pub"
    elif r < 0.22:
        s += rng.choice([".pu", "pub", ".pub.pub", ".PUB"])
    return s


def rnd_range_item(rng, allow_hard=True):
    r = rng.random()
    if r < 0.45:
        s = rnd_token(rng, False, bad=0.03)
    elif r < 0.93:
        lo = rng.choice([0, 1, 5, 9, 2 ** 31 - 2, rng.getrandbits(10)])
        hi = lo + rng.choice([0, 1, 2, 3, -1, -2])
        s = "%d-%d" % (lo, hi)
        if rng.random() < 0.1:
            s = "+" + s
    else:
        s = rng.choice(["1-2-3", "a-b", "-", "3-", "-3", "1--1", "--1", "", "5- 7", "0-1_0", "\xb2", "\xb2-3", "2-\xb3", "9-3", "2147483646-2147483645",
                        "\xa04-\xa05", "\xb9"])
    if allow_hard and rng.random() < 0.35:
        s += rng.choice(HCH)
    return s


def rnd_range_path(rng, allow_hard=True):
    d = rng.choice([0, 1, 1, 2, 2, 3, 4])
    comps = []
    for _ in range(d):
        comps.append(",".join(rnd_range_item(rng, allow_hard) for _ in range(rng.choice([1, 1, 1, 2, 3]))))
    s = "/".join(comps)
    if rng.random() < 0.1:
        s += ".pub"
    return s


def gen_history(rng, mkroot, nops, public_root, forced=False):
    """random history generated while running it on a scratch root (to know which cached objects exist)"""
    ops = []
    try:
        root = mkroot()
    except Exception:
        return ops
    ctx = forced_hmac() if forced else None
    if ctx:
        ctx.__enter__()
    try:
        for _ in range(nops):
            paths = cache_paths(root)
            cpath = () if rng.random() < 0.6 else rng.choice(paths)
            if rng.random() < 0.03:
                cpath = cpath + ((7, False, True),)          # usually absent: SKIP
            r = rng.random()
            if r < 0.5:
                if ops and rng.random() < 0.35:
                    prev = [o for o in ops if o[0] == "S"]
                    if prev:
                        o = rng.choice(prev)
                        op = ("S", cpath if rng.random() < 0.5 else o[1], o[2], o[3], rng.choice([o[4], None, True, False]))
                    else:
                        op = ("S", cpath, rnd_index(rng), rng.random() < 0.4, rng.choice([None, True, False]))
                else:
                    op = ("S", cpath, rnd_index(rng), rng.random() < 0.4, rng.choice([None, None, True, False]))
            elif r < 0.88:
                op = ("P", cpath, rnd_path(rng, allow_hard=not public_root or rng.random() < 0.2, maxdepth=5))
            else:
                op = ("K", cpath, rnd_range_path(rng, allow_hard=not public_root or rng.random() < 0.2))
            ops.append(op)
            run_op_impl(root, op)
    finally:
        if ctx:
            ctx.__exit__()
    return ops


def fop_tok(f):
    if f[0] == "C":
        return "%d@%s" % (f[1], op_tok(f[2]))
    return "%d@%s;%s" % (f[1], f[0], "|".join(ckey_tok(k) for k in f[2]))


def run_fop_impl(roots, f):
    """one family operation on the real objects; roots = the objects that own a cache universe, in creation order"""
    if f[1] >= len(roots):
        return "SKIP"
    if f[0] == "C":
        return run_op_impl(roots[f[1]], f[2])
    o = obj_at(roots[f[1]], f[2])
    if o is None:
        return "SKIP"
    try:
        new = o.public_copy() if f[0] == "Y" else type(o).deserialize(b"\0\0\0\0" + o.serialize())
    except Exception as e:
        return "!" + tag9(e)
    roots.append(new)
    return canon(nd_tuple(new))


def run_fops_impl(mkroot, fops):
    try:
        roots = [mkroot()]
    except Exception as e:
        return "!" + tag9(e)
    return "[" + " ".join(run_fop_impl(roots, f) for f in fops) + "]"


def gen_family(rng, mkroot, nops):
    """random history over a family of related objects, generated while running it on scratch objects"""
    fops = []
    try:
        roots = [mkroot()]
    except Exception:
        return fops
    pool = [rng.choice(IDX[:7]) for _ in range(rng.choice([1, 2, 3]))]
    for step in range(nops):
        rid = rng.randrange(len(roots)) if rng.random() < 0.9 else len(roots)      # sometimes a root that does not exist
        paths = cache_paths(roots[rid], 12) if rid < len(roots) else [()]
        cpath = () if rng.random() < 0.7 else rng.choice(paths)
        r = rng.random()
        if (step == 0 and r < 0.6) or r < 0.14:
            f = ("Y", rid, cpath)
        elif r < 0.2:
            f = ("R", rid, cpath)
        elif r < 0.85:
            f = ("C", rid, ("S", cpath, rng.choice(pool), rng.random() < 0.4, rng.choice([None, True, False])))
        elif r < 0.97:
            toks = ["%d%s" % (rng.choice(pool), rng.choice(HCH) if rng.random() < 0.35 else "") for _ in range(rng.choice([1, 1, 2]))]
            f = ("C", rid, ("P", cpath, "/".join(toks) + (".pub" if rng.random() < 0.2 else "")))
        else:
            f = ("C", rid, ("K", cpath, "%d-%d%s" % (pool[0], pool[0] + 1, rng.choice(["", "H"]))))
        fops.append(f)
        run_fop_impl(roots, f)
    return fops


def mk_btc_root(seed, pub):
    def f():
        m = BTC.keys.bip32_seed(seed)
        return m.public_copy() if pub else m
    return f


# ---- blobs for deserialize / hparse ---------------------------------------------------------------------------------
def ser_fields(depth, fpr, idx, chain, keyfield):
    return bytes([depth & 0xFF]) + fpr + (idx & 0xFFFFFFFF).to_bytes(4, "big") + chain + keyfield


def rnd_secret(rng):
    r = rng.random()
    if r < 0.5:
        return rng.randrange(1, N_ORDER)
    if r < 0.7:
        return rng.choice([1, 2, N_ORDER - 1, N_ORDER - 2, 2 ** 255, 255, 256])
    return rng.getrandbits(rng.choice([8, 64, 128, 200]))or 1


def rnd_keyfield(rng):
    """33-byte key field: mostly valid, with the malformed variants that deserialize must refuse"""
    r = rng.random()
    if r < 0.3:
        return b"\0" + rnd_secret(rng).to_bytes(32, "big")
    if r < 0.4:
        return b"\0" + rng.choice([0, N_ORDER, N_ORDER + 1, 2 ** 256 - 1]).to_bytes(32, "big")
    k = rnd_secret(rng)
    sec = enc_sec(scalar_pair(k))
    if r < 0.7:
        return sec
    if r < 0.78:
        flipped = bytes([sec[0] ^ 1]) + sec[1:]          # the negated point: scalar n - k
        scalar_pair(N_ORDER - k)
        return flipped
    if r < 0.86:
        return bytes([rng.choice([1, 4, 5, 6, 7, 0x82, 0xff])]) + sec[1:]
    if r < 0.92:
        x = rng.choice([P_FIELD, P_FIELD + 1, 2 ** 256 - 1, P_FIELD + rng.getrandbits(20)])
        return bytes([rng.choice([2, 3])]) + x.to_bytes(32, "big")
    # an x that is NOT on the curve (a valid x of unknown discrete logarithm goes to the direct checks instead)
    while True:
        x = rng.choice([0, 5, rng.getrandbits(256) % P_FIELD])
        cand = bytes([rng.choice([2, 3])]) + x.to_bytes(32, "big")
        if sec_status(cand) == "nopoint":
            return cand


def rnd_blob78(rng, prefix):
    depth = rng.choice([0, 1, 2, 3, 255, rng.getrandbits(8)])
    fpr = bytes(rng.getrandbits(8) for _ in range(4))
    idx = rng.choice([0, 1, 2 ** 31, 2 ** 32 - 1, 2 ** 31 - 1, rng.getrandbits(32)])
    chain = bytes(rng.getrandbits(8) for _ in range(32))
    return prefix + ser_fields(depth, fpr, idx, chain, rnd_keyfield(rng))


def mangle(rng, blob):
    r = rng.random()
    if r < 0.25:
        return blob[:-1]
    if r < 0.45:
        return blob + bytes([rng.getrandbits(8)])
    if r < 0.6:
        return blob[: rng.randint(0, len(blob))]
    if r < 0.7:
        return blob[4:]
    if r < 0.8:
        return blob + blob
    return b""


def impl_deserialize(cls, data):
    return call9(lambda: nd_tuple(cls.deserialize(data)))


def opt_tok(b):
    return "N" if b is None else arg(b)


# ---- model cases ----------------------------------------------------------------------------------------------------
ASCII_INT = " +-_0123456789\t\nx"


def _int_strings(rng, tier):
    alpha = [chr(c) for c in range(256)]
    for c in alpha:
        yield c
        yield c + "5"
        yield "5" + c
        yield "1" + c + "2"
        yield c + c
    small = " +-_059"
    for n in (2, 3, 4):
        for t in itertools.product(small, repeat=n):
            yield "".join(t)
    for _ in range(1500 if tier == "quick" else 40000):
        n = rng.randint(1, 12)
        yield "".join(rng.choice(ASCII_INT) if rng.random() < 0.9 else chr(rng.getrandbits(8)) for _ in range(n))
    for k in list(range(0, 80)) + [255, 256, 257, 300, 1000, 4000]:
        yield str(2 ** k)
        yield str(10 ** (k % 90))
        yield "-" + str(2 ** k - 1)


def _pyint(s):
    return int(s)


def _path_token_impl(v):
    # the three statements of the loop body of BIP32Node.subkey_for_path, on the implementation's own terms:
    # observed through a root whose subkey is intercepted
    got = []

    class Probe(node_class("BTC", 32)):
        def subkey(self, i=0, is_hardened=False, as_private=None):
            got.append((i, bool(is_hardened)))
            return self
    m = BTC.keys.bip32_seed(b"probe")
    p = Probe(chain_code=m.chain_code(), secret_exponent=m.secret_exponent())
    p.subkey_for_path(v)
    return got


def _sec_master(rng, tier):
    Q = tier == "quick"
    # 1. master keys
    seeds = [b"", b"\0", bytes(range(16)), bytes(range(64)), b"Bitcoin seed"] + \
            [bytes(rng.getrandbits(8) for _ in range(rng.choice([1, 16, 32, 64, 65, 100]))) for _ in range(40 if Q else 600)]
    for s in seeds:
        yield Case("master " + arg(s), (lambda s=s: call9(lambda: nd_tuple(BTC.keys.bip32_seed(s)))))


def _sec_ops(rng, tier):
    Q = tier == "quick"
    # 2. histories on one root: subkey / subkey_for_path / subkeys in random order, private and public roots
    for n in range(420 if Q else 6000):
        seed = bytes(rng.getrandbits(8) for _ in range(rng.choice([16, 32, 64])))
        pub = rng.random() < 0.4
        ops = gen_history(rng, mk_btc_root(seed, pub), rng.choice([1, 2, 3, 5, 8, 12]), pub)
        line = "ops %s %s %s" % (arg(seed), arg(pub), "[" + ",".join(op_tok(o) for o in ops) + "]")
        yield Case(line, (lambda seed=seed, pub=pub, ops=ops: run_ops_impl(mk_btc_root(seed, pub), ops)))


def _sec_node_ops(rng, tier):
    Q = tier == "quick"
    # 2b. histories on explicit nodes with a substituted HMAC: retry rule (I_L >= n, child = 0) and public reduction
    for n in range(100 if Q else 1200):
        sc = rng.choice([1, 2, 3, 4])
        k = rng.getrandbits(rng.choice([8, 32, 63])) or 3
        chain = HMAC_FORCE + bytes([sc]) + k.to_bytes(8, "big") + bytes(rng.getrandbits(8) for _ in range(18))
        pub = rng.random() < 0.5
        depth = rng.choice([0, 3, 254, 255])
        fpr = bytes(rng.getrandbits(8) for _ in range(4))
        idx = rng.choice([0, 2 ** 31 + 5, 7])
        mk = (lambda chain=chain, depth=depth, fpr=fpr, idx=idx, k=k, pub=pub:
              make_node("BTC", 32, chain, depth, fpr, idx, None if pub else k, k))
        ops = gen_history(rng, mk, rng.choice([1, 2, 4, 6]), pub, forced=True)
        line = "node_ops %s %s" % (node_args(chain, depth, fpr, idx, None if pub else k, k),
                                   "[" + ",".join(op_tok(o) for o in ops) + "]")
        yield Case(line, (lambda mk=mk, ops=ops: run_ops_impl(mk, ops, forced=True)))


def _sec_ckd(rng, tier):
    Q = tier == "quick"
    # 3. the two derivation functions of bip32.py on raw arguments
    from pycoin.key.bip32 import subkey_secret_exponent_chain_code_pair as CKDP, subkey_public_pair_chain_code_pair as CKDQ
    raw_i = IDX + [2 ** 31, 2 ** 31 + 1, 2 ** 32 - 1, 2 ** 32, -1, -2 ** 31, -2 ** 31 - 1, 2 ** 31 + 2 ** 24]
    for n in range(150 if Q else 3000):
        k = rnd_secret(rng)
        chain = bytes(rng.getrandbits(8) for _ in range(rng.choice([32, 32, 32, 0, 1, 64, 129])))
        i = rng.choice(raw_i) if rng.random() < 0.7 else rng.getrandbits(32)
        h = rng.random() < 0.5
        usepub = rng.random() < 0.5
        yield Case("ckd_priv %s %s %s %s %s" % (arg(k), arg(chain), arg(i), arg(h), arg(usepub)),
                   (lambda k=k, chain=chain, i=i, h=h, usepub=usepub:
                    call9(lambda: CKDP(G, k, chain, i, h, (k * G) if usepub else None))))
        yield Case("ckd_pub %s %s %s" % (arg(k), arg(chain), arg(i)),
                   (lambda k=k, chain=chain, i=i:
                    call9(lambda: (lambda r: (enc_sec((int(r[0][0]), int(r[0][1]))), r[1]))(CKDQ(G, scalar_pair(k), chain, i)))))
    for n in range(24 if Q else 300):
        sc = rng.choice([1, 2, 3, 4])
        k = rng.getrandbits(60) or 9
        chain = HMAC_FORCE + bytes([sc]) + k.to_bytes(8, "big") + bytes(rng.getrandbits(8) for _ in range(18))
        i = rng.choice(IDX)
        h = rng.random() < 0.5
        def f1(k=k, chain=chain, i=i, h=h):
            with forced_hmac():
                return call9(lambda: CKDP(G, k, chain, i | (0x80000000 if h else 0), h, None))
        def f2(k=k, chain=chain, i=i):
            with forced_hmac():
                return call9(lambda: (lambda r: (enc_sec((int(r[0][0]), int(r[0][1]))), r[1]))(CKDQ(G, scalar_pair(k), chain, i)))
        yield Case("ckd_priv %s %s %s %s F" % (arg(k), arg(chain), arg(i | (0x80000000 if h else 0)), arg(h)), f1)
        yield Case("ckd_pub %s %s %s" % (arg(k), arg(chain), arg(i)), f2)


def _sec_serialize(rng, tier):
    Q = tier == "quick"
    # 4. serialize on explicit nodes (depth and index boundaries, as_private True/False/None, public and private)
    for n in range(200 if Q else 4000):
        depth = rng.choice([0, 1, 2, 7, 255, 255, rng.getrandbits(8), rng.getrandbits(8), 256, -1, 300])
        idx = rng.choice([0, 1, 2 ** 31, 2 ** 32 - 1, 2 ** 31 - 1, rng.getrandbits(32), rng.getrandbits(32), rng.getrandbits(32), 2 ** 32, -1])
        chain = bytes(rng.getrandbits(8) for _ in range(32))
        fpr = bytes(rng.getrandbits(8) for _ in range(4))
        k = rnd_secret(rng) % N_ORDER or 1
        pub = rng.random() < 0.4
        ap = rng.choice([None, None, False, True]) if pub else rng.choice([None, True, False])
        yield Case("serialize %s %s" % (node_args(chain, depth, fpr, idx, None if pub else k, k), "N" if ap is None else arg(ap)),
                   (lambda chain=chain, depth=depth, fpr=fpr, idx=idx, k=k, pub=pub, ap=ap:
                    call9(lambda: make_node("BTC", 32, chain, depth, fpr, idx, None if pub else k, k).serialize(as_private=ap))))


def _sec_node_init(rng, tier):
    Q = tier == "quick"
    # 4b. the constructor: wrong lengths, both / neither key, out-of-range secret, point at infinity
    cls0 = node_class("BTC", 32)
    for n in range(120 if Q else 2500):
        defect = rng.choice([""] * 9 + ["chain", "fpr", "both", "neither", "secret", "infinity"])
        chain = bytes(rng.getrandbits(8) for _ in range(rng.choice([31, 33, 0, 64]) if defect == "chain" else 32))
        fpr = bytes(rng.getrandbits(8) for _ in range(rng.choice([3, 5, 0]) if defect == "fpr" else 4))
        depth = rng.choice([0, 1, 255, 256, -1])
        idx = rng.choice([0, 2 ** 31, 2 ** 32, -1])
        if rng.random() < 0.5:
            sx, pp = rnd_secret(rng) % N_ORDER or 1, None
        else:
            sx, pp = None, rnd_secret(rng) % N_ORDER or 1
        if defect == "both":
            sx, pp = 5, 5
        elif defect == "neither":
            sx, pp = None, None
        elif defect == "secret":
            sx, pp = rng.choice([0, N_ORDER, -1, N_ORDER + 7, 2 ** 256]), None
        elif defect == "infinity":
            sx, pp = None, 0
        def impl_init(chain=chain, fpr=fpr, depth=depth, idx=idx, sx=sx, pp=pp):
            pair = None if pp is None else (scalar_pair(pp) or (None, None))
            return call9(lambda: nd_tuple(cls0(chain_code=chain, depth=depth, parent_fingerprint=fpr, child_index=idx,
                                               secret_exponent=sx, public_pair=pair)))
        yield Case("node_init %s %s %s %s %s %s" % (arg(chain), arg(depth), arg(fpr), arg(idx), "N" if sx is None else arg(sx),
                                                   "N" if pp is None else arg(pp)), impl_init)


def _sec_deserialize(rng, tier):
    Q = tier == "quick"
    # 5. deserialize: valid blobs, every length around 78, malformed key fields
    cls = node_class("BTC", 32)
    for L in list(range(0, 84)) + [100, 156]:
        data = bytes((7 * j + L) & 0xFF for j in range(L))
        yield Case("deserialize " + arg(data), (lambda data=data: impl_deserialize(cls, data)))
    for n in range(500 if Q else 12000):
        data = rnd_blob78(rng, bytes(rng.getrandbits(8) for _ in range(4)))
        if rng.random() < 0.08:
            data = mangle(rng, data)
        yield Case("deserialize " + arg(data), (lambda data=data: impl_deserialize(cls, data)))


def _sec_text(rng, tier):
    Q = tier == "quick"
    # 6. text form at payload level on every table network and key type: hwif, bipNN_prv, bipNN_pub, bipNN
    for row in ROWS:
        sym, kt, pr_prv, pr_pub, pa_prv, pa_pub, pcodec, qcodec = row
        net = NETS[sym]
        for n in range(6 if Q else 60):
            k = rnd_secret(rng) % N_ORDER or 1
            depth = rng.choice([0, 1, 5, 255, rng.getrandbits(8), 256])
            idx = rng.choice([0, 2 ** 31, 2 ** 32 - 1, rng.getrandbits(32)])
            chain = bytes(rng.getrandbits(8) for _ in range(32))
            fpr = bytes(rng.getrandbits(8) for _ in range(4))
            pub = rng.random() < 0.4
            ap = rng.random() < (0.15 if pub else 0.6)
            def impl_hwif(sym=sym, kt=kt, chain=chain, depth=depth, fpr=fpr, idx=idx, k=k, pub=pub, ap=ap, pcodec=pcodec):
                def f():
                    t = make_node(sym, kt, chain, depth, fpr, idx, None if pub else k, k).hwif(as_private=ap)
                    d = b58check_dec(pcodec, t)
                    if d is None:
                        raise RuntimeError("hwif text does not decode with the printer's codec")
                    return d
                return call9(f)
            yield Case("hwif_data %s %s %s %s" % (opt_tok(pr_prv), opt_tok(pr_pub), node_args(chain, depth, fpr, idx, None if pub else k, k), arg(ap)),
                       impl_hwif)
        for n in range(10 if Q else 120):
            r = rng.random()
            prefix = rng.choice([p for p in (pa_prv, pa_pub) if p is not None])
            if r < 0.1:
                prefix = bytes(rng.getrandbits(8) for _ in range(4))
            elif r < 0.2:
                prefix = prefix[:3] + bytes([prefix[3] ^ 1])
            data = rnd_blob78(rng, prefix)
            if rng.random() < 0.1:
                data = mangle(rng, data)
            text = b58check_enc(qcodec, data)
            if rng.random() < 0.05:
                text = text[:-1] + ("1" if text[-1] != "1" else "2")       # broken checksum: data = None
                data = None
            for prv in (True, False):
                which = "bip%d_%s" % (kt, "prv" if prv else "pub")
                yield Case("hparse_data %s %s %s" % (opt_tok(pa_prv if prv else pa_pub), arg(prv), opt_tok(data)),
                           (lambda net=net, which=which, text=text:
                            call9(lambda: (lambda r: None if r is None else nd_tuple(r))(getattr(net.parse, which)(text)))))
            yield Case("parse_hd_data %s %s %s" % (opt_tok(pa_prv), opt_tok(pa_pub), opt_tok(data)),
                       (lambda net=net, kt=kt, text=text:
                        call9(lambda: (lambda r: None if r is None else nd_tuple(r))(getattr(net.parse, "bip%d" % kt)(text)))))


def _sec_strings(rng, tier):
    Q = tier == "quick"
    # 7. strings: int(), "%d", path elements, path ranges
    for s in _int_strings(rng, tier):
        yield Case("py_int " + arg(s2b(s)), (lambda s=s: call9(_pyint, s)))
    for k in list(range(0, 300)) + [2 ** j + d for j in range(3, 70) for d in (-1, 0, 1)] + [10 ** j for j in range(1, 40)] + \
            [-1, -9, -10, -2 ** 40] + [rng.getrandbits(rng.choice([8, 31, 64, 200])) for _ in range(200)]:
        yield Case("py_dec " + arg(k), (lambda k=k: canon(s2b("%d" % k))))
    toks = ["'", "H", "p", "0", "0'", "0H", "0p", "5h", "5P", "-1H", "1_0'", " 7 p", "2147483647H", "2147483648", "H'", "''", "0'H"]
    toks += [rnd_token(rng, True, 0.15) for _ in range(300 if Q else 6000)]
    for v in toks:
        if v == "" or "/" in v or v.endswith(".pub"):
            continue
        yield Case("path_token " + arg(s2b(v)),
                   (lambda v=v: call9(lambda: (lambda g: (g[0][0], g[0][1]) if len(g) == 1 else ("unexpected", len(g)))(_path_token_impl(v)))))
    rps = ["", "0/1H/0-4", "0/2,5,9-11", "3H/2/5/15-20p", "5-6/7-8p,15/1-2", "3-1", "0,,1", "0/", "/", ",", "a-b", "1-2-3",
           "+1-+3'", "0,1H,2p,3'", "--1", "1--1", "0-2H/x", "0-99", "7-7", "1-0H", "H", "'/p"]
    rps += [rnd_range_path(rng) for _ in range(500 if Q else 12000)]
    for s in rps:
        yield Case("subpaths " + arg(s2b(s)), (lambda s=s: call9(lambda: [s2b(x) for x in subpaths_for_path_range(s, hardening_chars="'pH")])))


def _sec_electrum(rng, tier):
    Q = tier == "quick"
    # 8. Electrum
    E = BTC.keys
    for n in range(150 if Q else 3000):
        k = rnd_secret(rng) % N_ORDER or 1
        pub = rng.random() < 0.5
        r = rng.random()
        if r < 0.5:
            path = rng.choice(["0", "1", "0/0", "0/1", "5/1", "17", "1/2/3", "", "/", "a/b", "0/", "/1", "00/1", "3-5"])
        elif r < 0.65:
            # Latin-1 characters: the path text is hashed as UTF-8 (superscript digits, NBSP, accented letters, 0x80, 0xff)
            path = rng.choice(["\xb2", "\xb2/1", "4\xb9/\xb3", "\xa05", "\xe9/0", "\x80", "\xff/\x7f", "0/\xb2"]) if rng.random() < 0.6 \
                else "".join(chr(rng.choice([0xb2, 0xb9, 0x31, 0x80, 0xff, 0x7f, 0xc2, rng.getrandbits(8)])) for _ in range(rng.randint(1, 4))).replace("/", "")
        else:
            path = "%d/%d" % (rng.getrandbits(16), rng.getrandbits(1))
        def mkw(k=k, pub=pub):
            return E.electrum_public(master_public_key=_o_xy(k.to_bytes(32, "big"))) if pub else E.electrum_private(master_private_key=k)
        yield Case("electrum_subkey %s %s %s" % ("N" if pub else arg(k), arg(k), arg(s2b(path))),
                   (lambda mkw=mkw, path=path: call9(lambda: ew_tuple(mkw().subkey(path)))))
        if n % 5 == 0:
            rp = rnd_range_path(rng, allow_hard=False) if rng.random() < 0.4 else \
                rng.choice(["0-3", "0-2/0-1", "1,2/0", "0-1/0-1/0", "5", "4,\xb2,2147483646-2147483645", "\xb2,\xb3", "3-1", "3-1,7", "5-4/0",
                            "\xb2-\xb3", "1-\xb2", "0,\xe9/1-0", "\xa01-\xa02", "2-2,\xb9"])
            def impl_sk(mkw=mkw, rp=rp):
                try:
                    w = mkw()
                except Exception as e:
                    return "!" + tag9(e)
                got, err = [], "N"
                try:
                    for x in w.subkeys(rp):
                        got.append(ew_tuple(x))
                except Exception as e:
                    err = "!" + tag9(e)
                return "(%s %s)" % (canon(got), err)
            yield Case("electrum_subkeys %s %s %s" % ("N" if pub else arg(k), arg(k), arg(s2b(rp))), impl_sk)
    for s, p in [(0, None), (N_ORDER, None), (N_ORDER - 1, None), (1, None), (-1, None), (None, 5), (None, 0), (3, 3), (None, None)]:
        def impl_init(s=s, p=p):
            cls = type(E.electrum_private(master_private_key=1))
            return call9(lambda: ew_tuple(cls(master_private_key=s, public_pair=None if p is None else (scalar_pair(p) or (None, None)))))
        yield Case("electrum_init %s %s" % ("N" if s is None else arg(s), "N" if p is None else arg(p)), impl_init)


def _sec_spec(rng, tier):
    Q = tier == "quick"
    # 9. implementation against the BIP text (extracted Spec/Bip32Spec.v): chains of extended keys, serialized
    for n in range(120 if Q else 1500):
        seed = bytes(rng.getrandbits(8) for _ in range(rng.choice([16, 32, 64])))
        depth = rng.randint(0, 8)
        path = [(rng.choice(IDX) if rng.random() < 0.6 else rng.getrandbits(31)) % 2 ** 31 | (0x80000000 if rng.random() < 0.4 else 0)
                for _ in range(depth)]
        # neuter after `cut` private steps; afterwards only non-hardened numbers make sense for the spec (failure otherwise)
        cut = rng.randint(0, depth) if rng.random() < 0.5 else depth
        if rng.random() < 0.85:
            path = [i if j < cut else i & 0x7FFFFFFF for j, i in enumerate(path)]
        sym = rng.choice(["BTC", "XTN", "LTC"])
        row = [r for r in ROWS if r[0] == sym and r[1] == 32][0]
        yield Case("spec_derive %s %s %s %s %s" % (arg(row[2]), arg(row[3]), arg(seed), arg(cut), arg(path)),
                   (lambda sym=sym, seed=seed, cut=cut, path=path: impl_chain(sym, seed, cut, path)))


def _sec_fops(rng, tier):
    Q = tier == "quick"
    # 2c. histories over a FAMILY of related objects: the root, public_copy() twins, re-deserialised copies and cached
    # children, all flag combinations on a small pool of indices so that twins are asked for the same cache keys
    for n in range(300 if Q else 5000):
        seed = bytes(rng.getrandbits(8) for _ in range(rng.choice([16, 32])))
        pub = rng.random() < 0.15
        fops = gen_family(rng, mk_btc_root(seed, pub), rng.choice([3, 4, 6, 8, 12, 16]))
        line = "fops %s %s %s" % (arg(seed), arg(pub), "[" + ",".join(fop_tok(f) for f in fops) + "]")
        yield Case(line, (lambda seed=seed, pub=pub, fops=fops: run_fops_impl(mk_btc_root(seed, pub), fops)))


# sections of the correspondence stream and how many cases each contributes per round: the stream is interleaved so that
# every prefix of it (a shard of the runner, an escalated run cut off by its time budget) is a proportional mix
SECTIONS = [("master", _sec_master, 4), ("ops", _sec_ops, 24), ("fops", _sec_fops, 20), ("node_ops", _sec_node_ops, 6),
            ("ckd", _sec_ckd, 28), ("serialize", _sec_serialize, 16), ("node_init", _sec_node_init, 10),
            ("deserialize", _sec_deserialize, 50), ("text", _sec_text, 40), ("strings", _sec_strings, 260),
            ("electrum", _sec_electrum, 14), ("spec", _sec_spec, 6)]


def model_cases(rng, tier):
    import random as _random
    base = rng.getrandbits(64)
    gens = [(iter(f(_random.Random("%d/%s" % (base, name)), tier)), w) for name, f, w in SECTIONS]
    while gens:
        alive = []
        for g, w in gens:
            done = False
            for _ in range(w):
                try:
                    yield next(g)
                except StopIteration:
                    done = True
                    break
            if not done:
                alive.append((g, w))
        gens = alive


def impl_chain(sym, seed, cut, path):
    """the implementation's chain of extended keys, serialized, in the layout of c09_spec_derive"""
    net = NETS[sym]
    out = []

    def ser(k):
        prv = b58check_dec(0, k.hwif(as_private=True)) if k.secret_exponent() is not None else b""
        return (prv, b58check_dec(0, k.hwif(as_private=False)))
    try:
        k = net.keys.bip32_seed(seed)
    except Exception:
        return "[N]"
    out.append(canon(ser(k)))
    for j, i in enumerate(path):
        if j == cut:
            k = k.public_copy()
        try:
            k = k.subkey(i & 0x7FFFFFFF, is_hardened=bool(i >> 31))
        except PublicPrivateMismatchError:
            out.append("N")
            break
        out.append(canon(ser(k)))
    return "[" + " ".join(out) + "]"


# =====================================================================================================================
# direct checks of the property on the implementation
# =====================================================================================================================
VECTORS = [
    ("000102030405060708090a0b0c0d0e0f", [2147483648, 1, 2147483650, 2, 1000000000], [
        ("xprv9s21ZrQH143K3QTDL4LXw2F7HEK3wJUD2nW2nRk4stbPy6cq3jPPqjiChkVvvNKmPGJxWUtg6LnF5kejMRNNU3TGtRBeJgk33yuGBxrMPHi",
         "xpub661MyMwAqRbcFtXgS5sYJABqqG9YLmC4Q1Rdap9gSE8NqtwybGhePY2gZ29ESFjqJoCu1Rupje8YtGqsefD265TMg7usUDFdp6W1EGMcet8"),
        ("xprv9uHRZZhk6KAJC1avXpDAp4MDc3sQKNxDiPvvkX8Br5ngLNv1TxvUxt4cV1rGL5hj6KCesnDYUhd7oWgT11eZG7XnxHrnYeSvkzY7d2bhkJ7",
         "xpub68Gmy5EdvgibQVfPdqkBBCHxA5htiqg55crXYuXoQRKfDBFA1WEjWgP6LHhwBZeNK1VTsfTFUHCdrfp1bgwQ9xv5ski8PX9rL2dZXvgGDnw"),
        ("xprv9wTYmMFdV23N2TdNG573QoEsfRrWKQgWeibmLntzniatZvR9BmLnvSxqu53Kw1UmYPxLgboyZQaXwTCg8MSY3H2EU4pWcQDnRnrVA1xe8fs",
         "xpub6ASuArnXKPbfEwhqN6e3mwBcDTgzisQN1wXN9BJcM47sSikHjJf3UFHKkNAWbWMiGj7Wf5uMash7SyYq527Hqck2AxYysAA7xmALppuCkwQ"),
        ("xprv9z4pot5VBttmtdRTWfWQmoH1taj2axGVzFqSb8C9xaxKymcFzXBDptWmT7FwuEzG3ryjH4ktypQSAewRiNMjANTtpgP4mLTj34bhnZX7UiM",
         "xpub6D4BDPcP2GT577Vvch3R8wDkScZWzQzMMUm3PWbmWvVJrZwQY4VUNgqFJPMM3No2dFDFGTsxxpG5uJh7n7epu4trkrX7x7DogT5Uv6fcLW5"),
        ("xprvA2JDeKCSNNZky6uBCviVfJSKyQ1mDYahRjijr5idH2WwLsEd4Hsb2Tyh8RfQMuPh7f7RtyzTtdrbdqqsunu5Mm3wDvUAKRHSC34sJ7in334",
         "xpub6FHa3pjLCk84BayeJxFW2SP4XRrFd1JYnxeLeU8EqN3vDfZmbqBqaGJAyiLjTAwm6ZLRQUMv1ZACTj37sR62cfN7fe5JnJ7dh8zL4fiyLHV"),
        ("xprvA41z7zogVVwxVSgdKUHDy1SKmdb533PjDz7J6N6mV6uS3ze1ai8FHa8kmHScGpWmj4WggLyQjgPie1rFSruoUihUZREPSL39UNdE3BBDu76",
         "xpub6H1LXWLaKsWFhvm6RVpEL9P4KfRZSW7abD2ttkWP3SSQvnyA8FSVqNTEcYFgJS2UaFcxupHiYkro49S8yGasTvXEYBVPamhGW6cFJodrTHy")]),
    ("fffcf9f6f3f0edeae7e4e1dedbd8d5d2cfccc9c6c3c0bdbab7b4b1aeaba8a5a29f9c999693908d8a8784817e7b7875726f6c696663605d5a5754514e4b484542",
     [0, 4294967295, 1, 4294967294, 2], [
        ("xprv9s21ZrQH143K31xYSDQpPDxsXRTUcvj2iNHm5NUtrGiGG5e2DtALGdso3pGz6ssrdK4PFmM8NSpSBHNqPqm55Qn3LqFtT2emdEXVYsCzC2U",
         "xpub661MyMwAqRbcFW31YEwpkMuc5THy2PSt5bDMsktWQcFF8syAmRUapSCGu8ED9W6oDMSgv6Zz8idoc4a6mr8BDzTJY47LJhkJ8UB7WEGuduB"),
        ("xprv9vHkqa6EV4sPZHYqZznhT2NPtPCjKuDKGY38FBWLvgaDx45zo9WQRUT3dKYnjwih2yJD9mkrocEZXo1ex8G81dwSM1fwqWpWkeS3v86pgKt",
         "xpub69H7F5d8KSRgmmdJg2KhpAK8SR3DjMwAdkxj3ZuxV27CprR9LgpeyGmXUbC6wb7ERfvrnKZjXoUmmDznezpbZb7ap6r1D3tgFxHmwMkQTPH"),
        ("xprv9wSp6B7kry3Vj9m1zSnLvN3xH8RdsPP1Mh7fAaR7aRLcQMKTR2vidYEeEg2mUCTAwCd6vnxVrcjfy2kRgVsFawNzmjuHc2YmYRmagcEPdU9",
         "xpub6ASAVgeehLbnwdqV6UKMHVzgqAG8Gr6riv3Fxxpj8ksbH9ebxaEyBLZ85ySDhKiLDBrQSARLq1uNRts8RuJiHjaDMBU4Zn9h8LZNnBC5y4a"),
        ("xprv9zFnWC6h2cLgpmSA46vutJzBcfJ8yaJGg8cX1e5StJh45BBciYTRXSd25UEPVuesF9yog62tGAQtHjXajPPdbRCHuWS6T8XA2ECKADdw4Ef",
         "xpub6DF8uhdarytz3FWdA8TvFSvvAh8dP3283MY7p2V4SeE2wyWmG5mg5EwVvmdMVCQcoNJxGoWaU9DCWh89LojfZ537wTfunKau47EL2dhHKon"),
        ("xprvA1RpRA33e1JQ7ifknakTFpgNXPmW2YvmhqLQYMmrj4xJXXWYpDPS3xz7iAxn8L39njGVyuoseXzU6rcxFLJ8HFsTjSyQbLYnMpCqE2VbFWc",
         "xpub6ERApfZwUNrhLCkDtcHTcxd75RbzS1ed54G1LkBUHQVHQKqhMkhgbmJbZRkrgZw4koxb5JaHWkY4ALHY2grBGRjaDMzQLcgJvLJuZZvRcEL"),
        ("xprvA2nrNbFZABcdryreWet9Ea4LvTJcGsqrMzxHx98MMrotbir7yrKCEXw7nadnHM8Dq38EGfSh6dqA9QWTyefMLEcBYJUuekgW4BYPJcr9E7j",
         "xpub6FnCn6nSzZAw5Tw7cgR9bi15UV96gLZhjDstkXXxvCLsUXBGXPdSnLFbdpq8p9HmGsApME5hQTZ3emM2rnY5agb9rXpVGyy3bdW6EEgAtqt")]),
]
BTC_XPRV, BTC_XPUB = bytes.fromhex("0488ade4"), bytes.fromhex("0488b21e")


def row_of(sym, kt):
    for r in ROWS:
        if r[0] == sym and r[1] == kt:
            return r
    raise KeyError((sym, kt))


def chk_vector_impl(vi):
    seed, path, exp = VECTORS[vi]
    k = BTC.keys.bip32_seed(bytes.fromhex(seed))
    for j in range(len(path) + 1):
        if j:
            i = path[j - 1]
            k = k.subkey(i & 0x7FFFFFFF, is_hardened=bool(i >> 31))
        got = (k.hwif(as_private=True), k.hwif())
        if got != exp[j]:
            return {"kind": "bip32-vector", "vector": vi + 1, "step": j, "got": got, "want": exp[j]}
        # and from the public side wherever the step is not hardened
    return None


_DRV = None


def drv_run(lines):
    global _DRV
    if _DRV is None:
        _DRV = Driver(DRIVER, ORACLES, True)
    return _DRV.run(lines)


def chk_vector_spec(vi):
    """the extracted BIP text (Spec/Bip32Spec.v) reproduces the published vector: validates the SPEC"""
    seed, path, exp = VECTORS[vi]
    line = "spec_derive %s %s %s %s %s" % (arg(BTC_XPRV), arg(BTC_XPUB), arg(bytes.fromhex(seed)), arg(len(path)), arg(path))
    got = drv_run([line])[0]
    want = "[" + " ".join(canon((b58check_dec(0, a), b58check_dec(0, b))) for a, b in exp) + "]"
    if got != want:
        return {"kind": "spec-vs-bip32-vector", "vector": vi + 1, "got": got[:300], "want": want[:300]}
    return None


# ---- an independent BIP32 (own curve arithmetic, own serialization) ----
def ref_master(seed):
    I = _hmac.new(b"Bitcoin seed", seed, hashlib.sha512).digest()
    k = int.from_bytes(I[:32], "big")
    if k == 0 or k >= N_ORDER:
        return None
    return {"k": k, "K": ec_mul(k), "c": I[32:], "depth": 0, "fpr": b"\0\0\0\0", "idx": 0}


def ref_child(x, i):
    fpr = h160(enc_sec(x["K"]))[:4]
    if x["k"] is not None:
        data = (b"\0" + x["k"].to_bytes(32, "big") if i >= 2 ** 31 else enc_sec(x["K"])) + i.to_bytes(4, "big")
        I = _hmac.new(x["c"], data, hashlib.sha512).digest()
        il = int.from_bytes(I[:32], "big")
        k = (il + x["k"]) % N_ORDER
        if il >= N_ORDER or k == 0:
            return None
        return {"k": k, "K": ec_mul(k), "c": I[32:], "depth": x["depth"] + 1, "fpr": fpr, "idx": i}
    if i >= 2 ** 31:
        return "refused"
    I = _hmac.new(x["c"], enc_sec(x["K"]) + i.to_bytes(4, "big"), hashlib.sha512).digest()
    il = int.from_bytes(I[:32], "big")
    K = ec_add(ec_mul(il), x["K"])
    if il >= N_ORDER or K is None:
        return None
    return {"k": None, "K": K, "c": I[32:], "depth": x["depth"] + 1, "fpr": fpr, "idx": i}


def ref_neuter(x):
    y = dict(x)
    y["k"] = None
    return y


def ref_ser(prefix, x, as_private):
    key = b"\0" + x["k"].to_bytes(32, "big") if as_private else enc_sec(x["K"])
    return prefix + bytes([x["depth"]]) + x["fpr"] + x["idx"].to_bytes(4, "big") + x["c"] + key


def ref_tuple(x):
    return (x["c"], x["depth"], x["fpr"], x["idx"], x["k"], enc_sec(x["K"]))


def chk_ref(sym, kt, seed, path, cut):
    """implementation = independent BIP32 at every step of a path: fields, and the text form on the given network"""
    row = row_of(sym, kt)
    cls = node_class(sym, kt)
    x = ref_master(seed)
    if x is None:
        return None
    k = cls.from_master_secret(seed)
    for j in range(len(path) + 1):
        if j:
            i = path[j - 1]
            if j - 1 == cut:
                k = k.public_copy()
                x = ref_neuter(x)
            y = ref_child(x, i)
            try:
                k = k.subkey(i & 0x7FFFFFFF, is_hardened=bool(i >> 31))
            except PublicPrivateMismatchError:
                if y == "refused":
                    return None
                return {"kind": "refused-unexpectedly", "step": j}
            if y == "refused":
                return {"kind": "hardened-derived-from-public", "step": j, "index": i}
            if y is None:
                return None             # outside I_L < n / child <> 0: not reachable with a real HMAC
            x = y
        if nd_tuple(k) != ref_tuple(x):
            return {"kind": "child-differs-from-bip32", "step": j, "impl": canon(nd_tuple(k)), "bip32": canon(ref_tuple(x))}
        for ap in ([True, False] if x["k"] is not None else [False]):
            pfx = row[2] if ap else row[3]
            if pfx is None:
                continue
            want = b58check_enc(row[6], ref_ser(pfx, x, ap))
            got = k.hwif(as_private=ap)
            if got != want:
                return {"kind": "text-differs-from-bip32", "step": j, "as_private": ap, "impl": got, "bip32": want}
    return None


def pub_view(t):
    return (t[0], t[1], t[2], t[3], None, t[5])


def chk_commute(sym, kt, seed, p1, p2):
    """public_copy(derive(m, p1/p2)) = derive(public_copy(derive(m, p1)), p2) for non-hardened p2"""
    cls = node_class(sym, kt)
    m = cls.from_master_secret(seed)
    a = m.subkey_for_path(p1) if p1 else m
    full = a.subkey_for_path(p2) if p2 else a
    pa = a.public_copy()
    b = pa.subkey_for_path(p2) if p2 else pa
    if pub_view(nd_tuple(full)) != nd_tuple(b) or full.public_copy().hwif() != b.hwif() or full.hwif() != b.hwif():
        return {"kind": "public-private-do-not-commute", "p1": p1, "p2": p2, "private": canon(nd_tuple(full)), "public": canon(nd_tuple(b))}
    if b.secret_exponent() is not None or full.public_copy().secret_exponent() is not None:
        return {"kind": "public-node-has-secret"}
    # .pub spelling
    c = m.subkey_for_path((p1 + "/" if p1 and p2 else p1) + p2 + ".pub") if (p1 or p2) else m.subkey_for_path(".pub")
    if nd_tuple(c) != nd_tuple(b):
        return {"kind": "dot-pub-differs", "p1": p1, "p2": p2}
    return None


def chk_hardened_refused(sym, kt, seed, p1, i):
    cls = node_class(sym, kt)
    pa = cls.from_master_secret(seed).subkey_for_path(p1 + ".pub")
    for f in (lambda: pa.subkey(i, is_hardened=True), lambda: pa.subkey(i, is_hardened=True, as_private=True),
              lambda: pa.subkey_for_path("%dH" % i), lambda: pa.subkey_for_path("0/%d'" % i), lambda: pa.subkey_for_path("%dp.pub" % i)):
        try:
            r = f()
        except PublicPrivateMismatchError:
            continue
        except Exception as e:
            return {"kind": "hardened-on-public-wrong-exception", "detail": "%s: %s" % (type(e).__name__, e)}
        return {"kind": "hardened-derived-from-public", "got": canon(nd_tuple(r))}
    return None


def chk_index_range(seed, i, pub):
    """indices outside 0..2^31-1 are refused (ValueError) by subkey and by the path syntax: no aliasing of other children"""
    m = BTC.keys.bip32_seed(seed)
    if pub:
        m = m.public_copy()
    for f in (lambda: m.subkey(i), lambda: m.subkey(i, is_hardened=not pub), lambda: m.subkey_for_path("%d" % i),
              lambda: m.subkey_for_path("0/%d" % i)):
        try:
            r = f()
        except ValueError:
            continue
        except Exception as e:
            return {"kind": "index-out-of-range-wrong-exception", "i": i, "detail": "%s: %s" % (type(e).__name__, e)}
        return {"kind": "index-out-of-range-accepted", "i": i, "child_index": r.child_index()}
    return None


def chk_metadata(seed, p1, i, h, pub):
    m = BTC.keys.bip32_seed(seed)
    parent = m.subkey_for_path(p1) if p1 else m
    if pub:
        parent = parent.public_copy()
        h = False
    child = parent.subkey(i, is_hardened=h)
    num = i | (0x80000000 if h else 0)
    fpr = h160(parent.sec())[:4]
    if child.tree_depth() != parent.tree_depth() + 1 or child.parent_fingerprint() != fpr or child.child_index() != num:
        return {"kind": "child-metadata", "depth": child.tree_depth(), "fpr": child.parent_fingerprint().hex(), "want_fpr": fpr.hex(),
                "index": child.child_index(), "want_index": num}
    data = (b"\0" + parent.secret_exponent().to_bytes(32, "big") if h else parent.sec()) + num.to_bytes(4, "big")
    I = _hmac.new(parent.chain_code(), data, hashlib.sha512).digest()
    if child.chain_code() != I[32:]:
        return {"kind": "hmac-input-not-big-endian-index", "index": num}
    ser = child.serialize(as_private=False)
    if len(ser) != 74 or ser[0] != child.tree_depth() % 256 or ser[1:5] != fpr or ser[5:9] != num.to_bytes(4, "big") or ser[9:41] != I[32:]:
        return {"kind": "serialization-layout", "ser": ser.hex()}
    return None


def chk_text_roundtrip(sym, kt, seed, path, ap):
    row = row_of(sym, kt)
    net = NETS[sym]
    cls = node_class(sym, kt)
    k = cls.from_master_secret(seed)
    if path:
        k = k.subkey_for_path(path)
    if not ap and len(seed) % 2:
        k = k.public_copy()
    try:
        text = k.hwif(as_private=ap)
    except ImportError as e:
        return {"kind": "skipped-no-groestl", "detail": str(e)}
    want = nd_tuple(k) if ap else pub_view(nd_tuple(k))
    mismatch = row[6] != row[7]
    for which in ("bip%d" % kt, "bip%d_%s" % (kt, "prv" if ap else "pub")):
        back = getattr(net.parse, which)(text)
        if back is None:
            return {"kind": "text-does-not-parse-back", "network": sym, "key_type": kt, "parser": which, "text": text,
                    "codec_mismatch": mismatch}
        if nd_tuple(back) != want or type(back) is not cls:
            return {"kind": "text-roundtrip-changes-fields", "network": sym, "key_type": kt, "parser": which, "text": text,
                    "got": canon(nd_tuple(back)), "want": canon(want), "class": type(back).__name__}
        if back.hwif(as_private=ap) != text:
            return {"kind": "text-roundtrip-reprint-differs", "network": sym, "key_type": kt}
    other = getattr(net.parse, "bip%d_%s" % (kt, "pub" if ap else "prv"))(text)
    if other is not None:
        return {"kind": "private-public-kinds-confused", "network": sym, "key_type": kt, "text": text}
    for kt2 in (32, 49, 84):
        if kt2 != kt:
            o = getattr(net.parse, "bip%d" % kt2)(text)
            rows2 = [r for r in ROWS if r[0] == sym and r[1] == kt2]
            if o is not None and rows2 and rows2[0][4:6] != row[4:6]:
                return {"kind": "key-types-confused", "network": sym, "printed_as": kt, "parsed_as": kt2}
    return None


def chk_cache(seed, pub, calls):
    """repeated derivations in any order on one node: each equals the uncached _subkey on a fresh copy; repeats are the same object"""
    m = BTC.keys.bip32_seed(seed)
    if pub:
        m = m.public_copy()
    seen = {}
    for (i, h, ap) in calls:
        fresh = type(m).deserialize(b"\0\0\0\0" + m.serialize())
        try:
            want = canon(nd_tuple(fresh._subkey(i, h, (fresh.secret_exponent() is not None) if ap is None else ap)))
        except Exception as e:
            want = "!" + tag9(e)
        try:
            r = m.subkey(i, h, ap)
            got = canon(nd_tuple(r))
        except Exception as e:
            r = None
            got = "!" + tag9(e)
        if got != want:
            return {"kind": "cached-differs-from-uncached", "call": [i, h, ap], "got": got, "want": want}
        key = (i, bool(h), (m.secret_exponent() is not None) if ap is None else bool(ap))
        if r is not None:
            if key in seen and seen[key] is not r:
                return {"kind": "cache-returns-different-object", "call": [i, h, ap]}
            seen[key] = r
    return None


def fresh_copy(o):
    """a brand-new object with the fields of o (constructor call: no cache, nothing shared)"""
    kw = dict(chain_code=o.chain_code(), depth=o.tree_depth(), parent_fingerprint=o.parent_fingerprint(), child_index=o.child_index())
    if o.secret_exponent() is not None:
        kw["secret_exponent"] = o.secret_exponent()
    else:
        pp = o.public_pair()
        kw["public_pair"] = (int(pp[0]), int(pp[1]))
    return type(o)(**kw)


def _outcome(f):
    try:
        return canon(nd_tuple(f()))
    except Exception as e:
        return "!" + tag9(e)


def fops_to_json(fops):
    out = []
    for f in fops:
        if f[0] == "C":
            op = f[2]
            out.append(["C", f[1], [op[0], [list(k) for k in op[1]]] + list(op[2:])])
        else:
            out.append([f[0], f[1], [list(k) for k in f[2]]])
    return out


def fops_from_json(js):
    out = []
    for f in js:
        if f[0] == "C":
            op = f[2]
            out.append(("C", f[1], tuple([op[0], tuple(tuple(k) for k in op[1])] + list(op[2:]))))
        else:
            out.append((f[0], f[1], tuple(tuple(k) for k in f[2])))
    return out


def chk_family(seed, pub, fops):
    """a history over a family of related objects (root, public_copy() twins, re-read copies, cached children): every answer
    equals the answer of a brand-new object with the same fields; a public-only object refuses hardened children and never
    hands out a secret, whatever was asked of its relatives before"""
    roots = [mk_btc_root(seed, pub)()]
    for step, f in enumerate(fops):
        if f[1] >= len(roots):
            continue
        if f[0] != "C":
            o = obj_at(roots[f[1]], f[2])
            if o is None:
                continue
            try:
                new = o.public_copy() if f[0] == "Y" else type(o).deserialize(b"\0\0\0\0" + o.serialize())
            except ValueError:
                continue
            want = pub_view(nd_tuple(o)) if f[0] == "Y" else nd_tuple(o)
            if nd_tuple(new) != want:
                return {"kind": "copy-differs", "step": step, "op": f[0]}
            roots.append(new)
            continue
        op = f[2]
        o = obj_at(roots[f[1]], op[1])
        if o is None:
            continue
        fresh = fresh_copy(o)
        is_pub = o.secret_exponent() is None
        if op[0] == "S":
            _, _, i, h, ap = op
            rap = (not is_pub) if ap is None else ap
            want = _outcome(lambda: fresh._subkey(i, h, rap))
            got_obj = []
            got = _outcome(lambda: got_obj.append(o.subkey(i, h, ap)) or got_obj[0])
            desc = [i, h, ap]
        elif op[0] == "P":
            want = _outcome(lambda: fresh.subkey_for_path(op[2]))
            got_obj = []
            got = _outcome(lambda: got_obj.append(o.subkey_for_path(op[2])) or got_obj[0])
            desc = op[2]
            h = None
        else:
            def all_of(x):
                res, err = [], "N"
                try:
                    for k in x.subkeys(op[2]):
                        res.append(nd_tuple(k))
                except Exception as e:
                    err = "!" + tag9(e)
                return "(%s %s)" % (canon(res), err)
            want, got, got_obj, desc, h = all_of(fresh), all_of(o), [], op[2], None
        if got != want:
            return {"kind": "answer-differs-from-fresh-object", "step": step, "object": [f[1], [list(k) for k in op[1]]],
                    "receiver_is_public": is_pub, "call": desc, "got": got[:300], "fresh": want[:300]}
        if is_pub and got_obj and got_obj[0].secret_exponent() is not None:
            return {"kind": "public-object-returned-a-secret", "step": step, "call": desc}
        if is_pub and op[0] == "S" and h and got != "!E_OTHER":
            return {"kind": "hardened-derived-from-public", "step": step, "call": desc, "got": got[:200]}
    return None


def chk_deep(sym, kt, seed, start_depth, steps, idx, pub, ap):
    """metadata that does not fit its field is never silently wrapped: a node of depth start_depth (built by the
    constructor), `steps` derivations further down, child number idx on the start node: serialize / hwif either REFUSE
    (ValueError / struct.error) or the text parses back with every field preserved; depths 0..255 with a 32-bit child number
    must not be refused"""
    row = row_of(sym, kt)
    net = NETS[sym]
    cls = node_class(sym, kt)
    m = cls.from_master_secret(seed)
    k = cls(chain_code=m.chain_code(), depth=start_depth, parent_fingerprint=b"\x01\x02\x03\x04", child_index=idx,
            secret_exponent=m.secret_exponent())
    for j in range(steps):
        k = k.subkey(j % 3, is_hardened=(j % 2 == 1))
    if pub:
        k = k.public_copy()
    depth = start_depth + steps
    if k.tree_depth() != depth:
        return {"kind": "depth-not-counted", "got": k.tree_depth(), "want": depth}
    fits = 0 <= depth < 256 and 0 <= k.child_index() < 2 ** 32
    use_private = ap and not pub
    want = nd_tuple(k) if use_private else pub_view(nd_tuple(k))
    for what in ("serialize", "hwif"):
        try:
            out = k.serialize(as_private=use_private) if what == "serialize" else k.hwif(as_private=use_private)
        except (ValueError, struct.error) as e:
            if fits:
                return {"kind": "representable-node-refused", "what": what, "depth": depth, "detail": "%s: %s" % (type(e).__name__, e)}
            continue
        except Exception as e:
            return {"kind": "unexpected-exception", "what": what, "depth": depth, "detail": "%s: %s" % (type(e).__name__, e)}
        if what == "serialize":
            pfx = row[4] if use_private else row[5]
            back = call9(lambda: nd_tuple(cls.deserialize(pfx + out)))
        else:
            back = call9(lambda: (lambda r: None if r is None else nd_tuple(r))(getattr(net.parse, "bip%d" % kt)(out)))
        if back != canon(want):
            return {"kind": "metadata-wrapped-in-round-trip", "what": what, "depth": depth, "child_index": k.child_index(),
                    "written": out if isinstance(out, str) else out.hex(), "back": back[:300], "want": canon(want)[:300]}
    return None


class _IntSub(int):
    pass


def chk_presentation(seed, i, h):
    """the same input presented differently (bytes / bytearray / memoryview, int subclass / bool, str subclass) gives the same
    key or is refused with TypeError -- never a different key; and the order of presentation on one node does not matter"""
    base = nd_tuple(BTC.keys.bip32_seed(seed))
    for name, alt in (("bytearray", bytearray(seed)), ("memoryview", memoryview(seed))):
        try:
            t = nd_tuple(BTC.keys.bip32_seed(alt))
        except TypeError:
            continue
        if t != base:
            return {"kind": "seed-presentation-changes-key", "as": name}
    blob = BTC_XPRV + BTC.keys.bip32_seed(seed).subkey(i, is_hardened=h).serialize(as_private=True)
    cls = node_class("BTC", 32)
    ref = nd_tuple(cls.deserialize(blob))
    for name, alt in (("bytearray", bytearray(blob)), ("memoryview", memoryview(blob))):
        try:
            t = nd_tuple(cls.deserialize(alt))
        except TypeError:
            continue
        if t != ref:
            return {"kind": "blob-presentation-changes-key", "as": name}
    want = nd_tuple(fresh_copy(BTC.keys.bip32_seed(seed))._subkey(i, h, True))
    for order in ((_IntSub(i), i), (i, _IntSub(i))) + (((True, 1), (1, True)) if i == 1 else ()) + (((False, 0), (0, False)) if i == 0 else ()):
        m = BTC.keys.bip32_seed(seed)
        for x in order:
            t = nd_tuple(m.subkey(x, is_hardened=h))
            if t != want or type(t[3]) is not int:
                return {"kind": "index-presentation-changes-key", "as": type(x).__name__, "order": [type(y).__name__ for y in order]}

    class S(str):
        pass
    path = "%d%s/7" % (i, "H" if h else "")
    m = BTC.keys.bip32_seed(seed)
    if nd_tuple(m.subkey_for_path(S(path))) != nd_tuple(BTC.keys.bip32_seed(seed).subkey_for_path(path)):
        return {"kind": "path-presentation-changes-key"}
    return None


UNI_DIGITS = {"arabic-indic": 0x0660, "extended-arabic": 0x06F0, "devanagari": 0x0966, "fullwidth": 0xFF10, "math-bold": 0x1D7CE}


def chk_unicode_path(seed, toks, script, k_el):
    """decimal digits of other scripts (accepted by int()) name the same children as ASCII digits, in paths and in ranges;
    characters that are digits only for str.isdigit (superscripts) are refused with ValueError by the path parser and pass
    through range expansion verbatim; Electrum hashes the path text as UTF-8 and commutes with going public for any text"""
    base = UNI_DIGITS[script]
    tr = lambda s: "".join(chr(base + ord(c) - 48) if c.isdigit() else c for c in s)
    m = BTC.keys.bip32_seed(seed)
    ascii_path = "/".join("%d%s" % (i, "H" if h else "") for i, h in toks)
    want = nd_tuple(BTC.keys.bip32_seed(seed).subkey_for_path(ascii_path))
    if nd_tuple(m.subkey_for_path(tr(ascii_path))) != want:
        return {"kind": "unicode-digits-name-another-child", "script": script, "path": ascii_path}
    lo = toks[0][0]
    rng_text = "%d-%d" % (lo, lo + 2)
    if list(subpaths_for_path_range(tr(rng_text))) != [str(lo), str(lo + 1), str(lo + 2)]:
        return {"kind": "unicode-range", "script": script, "range": rng_text}
    if list(subpaths_for_path_range("%d-%d" % (lo + 2, lo))) != [] or list(subpaths_for_path_range("%d-%d,7" % (lo + 2, lo))) != ["7"]:
        return {"kind": "reversed-range-not-empty"}
    for sup in ("\u00b2", "1\u00b9", "\u2075"):
        try:
            m.subkey_for_path(sup)
            return {"kind": "superscript-accepted-as-index", "text": sup}
        except ValueError:
            pass
        if list(subpaths_for_path_range("4," + sup)) != ["4", sup]:
            return {"kind": "superscript-range-item", "text": sup}
        try:
            list(subpaths_for_path_range(sup + "-9"))
            return {"kind": "superscript-range-bound-accepted", "text": sup}
        except ValueError:
            pass
    # Electrum: any text, private and public agree, and the child is (k + dsha256(utf8(text:0:) + mpk)) mod n
    for text in (tr("%d" % lo), "\u00b2", "\u00e9", "%d" % lo):
        r = chk_electrum(k_el, text)
        if r is not None:
            r["path_text"] = text
            return r
    return None


def chk_spellings(seed, toks, pub):
    """toks: list of (index, hardened): the three spellings give the same node; a range path expands to the product"""
    m = BTC.keys.bip32_seed(seed)
    base = None
    for ch in HCH:
        path = "/".join("%d%s" % (i, ch if h else "") for i, h in toks)
        k = m.subkey_for_path(path + (".pub" if pub else ""))
        t = nd_tuple(k)
        if base is None:
            base = t
        elif t != base:
            return {"kind": "spelling-changes-result", "path": path}
    mixed = "/".join("%d%s" % (i, HCH[(j + i) % 3] if h else "") for j, (i, h) in enumerate(toks))
    if nd_tuple(m.subkey_for_path(mixed + (".pub" if pub else ""))) != base:
        return {"kind": "spelling-changes-result", "path": mixed}
    # step by step
    k = m
    for i, h in toks:
        k = k.subkey(i, is_hardened=h)
    if (pub_view(nd_tuple(k)) if pub else nd_tuple(k)) != base:
        return {"kind": "path-differs-from-steps", "path": mixed}
    return None


def chk_range(seed, comps):
    """comps: list of components, each a list of (lo, hi, hardened-char or '') ; subkeys(range) = product, in order"""
    m = BTC.keys.bip32_seed(seed)
    text = "/".join(",".join(("%d" % lo if lo == hi and (lo + len(c)) % 2 else "%d-%d" % (lo, hi)) + hc for lo, hi, hc in c) for c in comps)
    exp_comps = []
    for c in comps:
        items = []
        for lo, hi, hc in c:
            items += [(t, bool(hc)) for t in range(lo, hi + 1)]
        exp_comps.append(items)
    want_paths = list(itertools.product(*exp_comps))
    try:
        got_paths = list(subpaths_for_path_range(text))
        keys = list(m.subkeys(text))
    except Exception as e:
        return {"kind": "range-raises", "range": text, "detail": "%s: %s" % (type(e).__name__, e)}
    if len(got_paths) != len(want_paths):
        return {"kind": "range-count", "range": text, "got": len(got_paths), "want": len(want_paths)}
    for gp, wp, k in zip(got_paths, want_paths, keys):
        if gp != "/".join("%d%s" % (t, "H" if h else "") for t, h in wp):
            return {"kind": "range-element", "range": text, "got": gp}
        ref = m
        for t, h in wp:
            ref = ref.subkey(t, is_hardened=h)
        if nd_tuple(ref) != nd_tuple(k):
            return {"kind": "range-key-differs", "range": text, "path": gp}
    return None


def chk_electrum(k, path):
    E = BTC.keys
    prv = E.electrum_private(master_private_key=k)
    pub = prv.public_copy()
    if pub.secret_exponent() is not None or pub.master_public_key() != prv.master_public_key():
        return {"kind": "electrum-public-copy"}
    try:
        a = prv.subkey(path)
    except Exception as e1:
        try:
            pub.subkey(path)
        except Exception:
            return None
        return {"kind": "electrum-private-raises-public-does-not", "detail": str(e1)}
    b = pub.subkey(path)
    if a.master_public_key() != b.master_public_key() or b.secret_exponent() is not None or a.address() != b.address() \
            or a.public_copy().master_public_key() != b.master_public_key():
        return {"kind": "electrum-public-private-do-not-commute", "path": path}
    # independent: child = (k + dsha(n:fc:mpk)) mod n
    t = path.split("/")
    n, fc = (t[0], t[1]) if len(t) == 2 else (t[0], "0")
    mpk = ec_mul(k)
    mpkb = mpk[0].to_bytes(32, "big") + mpk[1].to_bytes(32, "big")
    off = int.from_bytes(hashlib.sha256(hashlib.sha256(("%s:%s:" % (n, fc)).encode() + mpkb).digest()).digest(), "big")
    ck = (k + off) % N_ORDER
    if a.secret_exponent() != ck:
        return {"kind": "electrum-child-key", "path": path}
    cp = ec_mul(ck)
    if b.master_public_key() != cp[0].to_bytes(32, "big") + cp[1].to_bytes(32, "big"):
        return {"kind": "electrum-child-point", "path": path}
    return None


def chk_blob_roundtrip(x, odd, depth, idx):
    """a public key of unknown discrete logarithm: deserialize o serialize is the identity on the 78 bytes"""
    cand = bytes([3 if odd else 2]) + x.to_bytes(32, "big")
    if sec_status(cand) != "ok":
        return None
    blob = BTC_XPUB + ser_fields(depth, b"\x01\x02\x03\x04", idx, bytes(range(32)), cand)
    try:
        nd = node_class("BTC", 32).deserialize(blob)
        back = nd.serialize()
    except Exception as e:
        return {"kind": "blob-roundtrip-raises", "blob": blob.hex(), "detail": "%s: %s" % (type(e).__name__, e)}
    if back != blob[4:] or nd.tree_depth() != depth or nd.child_index() != idx:
        return {"kind": "blob-roundtrip", "blob": blob.hex(), "depth": nd.tree_depth(), "index": nd.child_index()}
    t = BTC.parse.bip32(b58check_enc(0, blob))
    if t is None or t.hwif() != b58check_enc(0, blob):
        return {"kind": "text-blob-roundtrip", "blob": blob.hex()}
    return None


def chk_sec_oracle(k):
    """the SEC oracle of the correspondence run (pycoin's generator) against the independent arithmetic of this file"""
    if _o_sec(k.to_bytes(32, "big")) != enc_sec(ec_mul(k)):
        return {"kind": "sec-oracle-differs-from-independent-arithmetic", "k": k}
    return None


def _nh_path(rng, maxd=4):
    return "/".join(str(rng.choice(IDX) if rng.random() < 0.6 else rng.getrandbits(31)) for _ in range(rng.randint(0, maxd)))


def _any_path(rng, maxd=4):
    return "/".join(str(rng.choice(IDX) if rng.random() < 0.6 else rng.getrandbits(31)) + (rng.choice(HCH) if rng.random() < 0.4 else "")
                    for _ in range(rng.randint(0, maxd)))


def _seed(rng):
    return bytes(rng.getrandbits(8) for _ in range(rng.choice([16, 32, 64])))


def prop_cases(rng, tier):
    Q = tier == "quick"
    for vi in range(len(VECTORS)):
        yield PropCase("vector_impl", {"vector": vi}, (lambda vi=vi: chk_vector_impl(vi)))
        yield PropCase("vector_spec", {"vector": vi}, (lambda vi=vi: chk_vector_spec(vi)))
    for _ in range(60 if Q else 1500):
        yield (lambda k: PropCase("sec_oracle", {"k": k}, (lambda: chk_sec_oracle(k))))(rnd_secret(rng) % N_ORDER or 1)
    real = [("BTC", 32), ("XTN", 32), ("LTC", 32), ("BTC", 49), ("BTC", 84), ("XTN", 49), ("XTN", 84), ("LTC", 49), ("LTC", 84)]
    for n in range(160 if Q else 2500):
        sym, kt = real[n % len(real)]
        seed = _seed(rng)
        depth = rng.randint(0, 8 if n % 7 == 0 else 4)
        path = [((rng.choice(IDX) if rng.random() < 0.6 else rng.getrandbits(31)) % 2 ** 31) | (0x80000000 if rng.random() < 0.4 else 0)
                for _ in range(depth)]
        cut = rng.randint(0, depth) if rng.random() < 0.6 else depth
        path = [i if j < cut or rng.random() < 0.05 else i & 0x7FFFFFFF for j, i in enumerate(path)]
        inp = {"net": sym, "kt": kt, "seed": seed.hex(), "path": path, "cut": cut}
        yield PropCase("ref", inp, (lambda sym=sym, kt=kt, seed=seed, path=path, cut=cut: chk_ref(sym, kt, seed, path, cut)))
    for n in range(400 if Q else 4000):
        sym, kt = real[n % len(real)]
        seed, p1, p2 = _seed(rng), _any_path(rng, 3), _nh_path(rng, 5)
        inp = {"net": sym, "kt": kt, "seed": seed.hex(), "p1": p1, "p2": p2}
        yield PropCase("commute", inp, (lambda sym=sym, kt=kt, seed=seed, p1=p1, p2=p2: chk_commute(sym, kt, seed, p1, p2)))
    for n in range(40 if Q else 800):
        sym, kt = real[n % len(real)]
        seed, p1, i = _seed(rng), _any_path(rng, 2), rng.choice(IDX) if rng.random() < 0.7 else rng.getrandbits(31)
        inp = {"net": sym, "kt": kt, "seed": seed.hex(), "p1": p1, "i": i}
        yield PropCase("hardened_refused", inp, (lambda sym=sym, kt=kt, seed=seed, p1=p1, i=i: chk_hardened_refused(sym, kt, seed, p1, i)))
    for n in range(500 if Q else 5000):
        seed, p1 = _seed(rng), _any_path(rng, 3)
        i = rng.choice(IDX) if rng.random() < 0.7 else rng.getrandbits(31)
        h, pub = rng.random() < 0.5, rng.random() < 0.4
        inp = {"seed": seed.hex(), "p1": p1, "i": i, "h": h, "pub": pub}
        yield PropCase("metadata", inp, (lambda seed=seed, p1=p1, i=i, h=h, pub=pub: chk_metadata(seed, p1, i, h, pub)))
    for i in [-1, -2 ** 31, 2 ** 31, 2 ** 31 + 1, 2 ** 32 - 1, 2 ** 32, 2 ** 32 + 5, 2 ** 40] + [2 ** 31 + rng.getrandbits(31) for _ in range(10 if Q else 200)]:
        for pub in (False, True):
            seed = _seed(rng)
            yield PropCase("index_range", {"seed": seed.hex(), "i": i, "pub": pub}, (lambda seed=seed, i=i, pub=pub: chk_index_range(seed, i, pub)))
    # text round trip: every table row (all networks x key types), private and public
    for row in ROWS:
        for n in range(4 if Q else 12):
            seed, path, ap = _seed(rng), _any_path(rng, 3), n % 2 == 0
            inp = {"net": row[0], "kt": row[1], "seed": seed.hex(), "path": path, "ap": ap}
            yield PropCase("text_roundtrip", inp, (lambda row=row, seed=seed, path=path, ap=ap: chk_text_roundtrip(row[0], row[1], seed, path, ap)))
    for n in range(300 if Q else 3000):
        seed, pub = _seed(rng), rng.random() < 0.4
        pool = [(rnd_index(rng), rng.random() < 0.4, rng.choice([None, True, False])) for _ in range(rng.randint(1, 6))]
        calls = [rng.choice(pool) for _ in range(rng.randint(1, 14))]
        inp = {"seed": seed.hex(), "pub": pub, "calls": [list(c) for c in calls]}
        yield PropCase("cache", inp, (lambda seed=seed, pub=pub, calls=calls: chk_cache(seed, pub, calls)))
    # metadata that does not fit its field: depth around and beyond 255 / 256 (constructor + derivations), child numbers
    # outside 32 bits; on real networks and key types
    deep = [(d0, st) for d0 in (0, 250, 253, 254, 255, 256, 257, 300, 511, 512, 1000, 65535, -1, -3) for st in (0, 1, 3)]
    for n, (d0, st) in enumerate(deep):
        for pub in (False, True):
            sym, kt = real[(n + pub) % len(real)]
            seed, idx, ap = _seed(rng), rng.choice([0, 5, 2 ** 31, 2 ** 32 - 1]), rng.random() < 0.5
            inp = {"net": sym, "kt": kt, "seed": seed.hex(), "start_depth": d0, "steps": st, "idx": idx, "pub": pub, "ap": ap}
            yield PropCase("deep", inp, (lambda sym=sym, kt=kt, seed=seed, d0=d0, st=st, idx=idx, pub=pub, ap=ap:
                                         chk_deep(sym, kt, seed, d0, st, idx, pub, ap)))
    for n in range(20 if Q else 600):
        sym, kt = real[n % len(real)]
        seed = _seed(rng)
        d0 = rng.choice([rng.randint(240, 270), rng.randint(0, 255), 256 * rng.randint(1, 300) + rng.randint(0, 255)])
        st, idx = rng.randint(0, 4), rng.choice([0, 2 ** 32 - 1, 2 ** 32, -1, 2 ** 40 + 7, rng.getrandbits(32)])
        pub, ap = rng.random() < 0.4, rng.random() < 0.5
        inp = {"net": sym, "kt": kt, "seed": seed.hex(), "start_depth": d0, "steps": st, "idx": idx, "pub": pub, "ap": ap}
        yield PropCase("deep", inp, (lambda sym=sym, kt=kt, seed=seed, d0=d0, st=st, idx=idx, pub=pub, ap=ap:
                                     chk_deep(sym, kt, seed, d0, st, idx, pub, ap)))
    # one real derivation path of depth 256 from a master key (what the seeded depth wrap needs), then 4 more levels
    yield PropCase("deep", {"net": "BTC", "kt": 32, "seed": "00" * 16, "start_depth": 0, "steps": 260, "idx": 0, "pub": False, "ap": True},
                   (lambda: chk_deep("BTC", 32, b"\0" * 16, 0, 260, 0, False, True)))
    for n in range(30 if Q else 600):
        seed, i, h = _seed(rng), rng.choice([0, 1, 1, 0, 2 ** 31 - 1, rng.getrandbits(31)]), rng.random() < 0.5
        yield PropCase("presentation", {"seed": seed.hex(), "i": i, "h": h}, (lambda seed=seed, i=i, h=h: chk_presentation(seed, i, h)))
    for n in range(25 if Q else 500):
        seed = _seed(rng)
        toks = [(rng.choice(IDX) if rng.random() < 0.6 else rng.getrandbits(30), rng.random() < 0.4) for _ in range(rng.randint(1, 4))]
        script = sorted(UNI_DIGITS)[n % len(UNI_DIGITS)]
        k_el = rnd_secret(rng) % N_ORDER or 1
        yield PropCase("unicode_path", {"seed": seed.hex(), "toks": [list(t) for t in toks], "script": script, "k": k_el},
                       (lambda seed=seed, toks=toks, script=script, k_el=k_el: chk_unicode_path(seed, toks, script, k_el)))
    # families: fixed twin scenarios (every ordered pair of calls on a private node and its public copy), then random ones
    twin_calls = [(rid, (i, h, ap)) for rid in (0, 1) for i in (1, 5) for h in (False, True) for ap in (None, True, False)]
    seed0 = bytes(range(16))
    for a in twin_calls:
        for b2 in twin_calls:
            if a[1][0] != b2[1][0] or a == b2:
                continue
            fops = [("Y", 0, ()), ("C", a[0], ("S", ()) + a[1]), ("C", b2[0], ("S", ()) + b2[1])]
            yield PropCase("family", {"seed": seed0.hex(), "pub": False, "fops": fops_to_json(fops)},
                           (lambda fops=fops: chk_family(seed0, False, fops)))
    for n in range(250 if Q else 6000):
        seed, pub = _seed(rng), rng.random() < 0.15
        fops = gen_family(rng, mk_btc_root(seed, pub), rng.choice([3, 5, 8, 12, 16]))
        yield PropCase("family", {"seed": seed.hex(), "pub": pub, "fops": fops_to_json(fops)},
                       (lambda seed=seed, pub=pub, fops=fops: chk_family(seed, pub, fops)))
    for n in range(200 if Q else 2000):
        seed = _seed(rng)
        toks = [(rng.choice(IDX) if rng.random() < 0.6 else rng.getrandbits(31), rng.random() < 0.5) for _ in range(rng.randint(1, 6))]
        pub = rng.random() < 0.3
        inp = {"seed": seed.hex(), "toks": [list(t) for t in toks], "pub": pub}
        yield PropCase("spellings", inp, (lambda seed=seed, toks=toks, pub=pub: chk_spellings(seed, toks, pub)))
    for n in range(40 if Q else 800):
        seed = _seed(rng)
        comps = []
        for _ in range(rng.randint(1, 3)):
            c = []
            for _ in range(rng.choice([1, 1, 2])):
                lo = rng.choice([0, 1, 7, 2 ** 31 - 3, rng.getrandbits(12)])
                c.append((lo, lo + rng.choice([0, 1, 2]), rng.choice(["", "", "H", "p", "'"])))
            comps.append(c)
        inp = {"seed": seed.hex(), "comps": [[list(x) for x in c] for c in comps]}
        yield PropCase("range", inp, (lambda seed=seed, comps=comps: chk_range(seed, comps)))
    for n in range(80 if Q else 2000):
        k = rnd_secret(rng) % N_ORDER or 1
        path = rng.choice(["0", "1", "0/1", "5/0", "17/1"]) if rng.random() < 0.5 else "%d/%d" % (rng.getrandbits(20), rng.getrandbits(1))
        yield PropCase("electrum", {"k": k, "path": path}, (lambda k=k, path=path: chk_electrum(k, path)))
    n_blob = 0
    while n_blob < (40 if Q else 800):
        x = rng.getrandbits(256) % P_FIELD
        if sec_status(b"\x02" + x.to_bytes(32, "big")) != "ok":
            continue
        n_blob += 1
        odd, depth, idx = rng.random() < 0.5, rng.choice([0, 1, 255]), rng.choice([0, 2 ** 31, 2 ** 32 - 1, rng.getrandbits(32)])
        yield PropCase("blob_roundtrip", {"x": x, "odd": odd, "depth": depth, "idx": idx},
                       (lambda x=x, odd=odd, depth=depth, idx=idx: chk_blob_roundtrip(x, odd, depth, idx)))


def replay_input(check, inp):
    b = bytes.fromhex
    if check == "vector_impl":
        return chk_vector_impl(inp["vector"])
    if check == "vector_spec":
        return chk_vector_spec(inp["vector"])
    if check == "sec_oracle":
        return chk_sec_oracle(int(inp["k"]))
    if check == "ref":
        return chk_ref(inp["net"], inp["kt"], b(inp["seed"]), list(inp["path"]), inp["cut"])
    if check == "commute":
        return chk_commute(inp["net"], inp["kt"], b(inp["seed"]), inp["p1"], inp["p2"])
    if check == "hardened_refused":
        return chk_hardened_refused(inp["net"], inp["kt"], b(inp["seed"]), inp["p1"], inp["i"])
    if check == "index_range":
        return chk_index_range(b(inp["seed"]), int(inp["i"]), inp["pub"])
    if check == "metadata":
        return chk_metadata(b(inp["seed"]), inp["p1"], inp["i"], inp["h"], inp["pub"])
    if check == "text_roundtrip":
        return chk_text_roundtrip(inp["net"], inp["kt"], b(inp["seed"]), inp["path"], inp["ap"])
    if check == "unicode_path":
        return chk_unicode_path(b(inp["seed"]), [tuple(t) for t in inp["toks"]], inp["script"], int(inp["k"]))
    if check == "deep":
        return chk_deep(inp["net"], inp["kt"], b(inp["seed"]), inp["start_depth"], inp["steps"], int(inp["idx"]), inp["pub"], inp["ap"])
    if check == "presentation":
        return chk_presentation(b(inp["seed"]), int(inp["i"]), inp["h"])
    if check == "family":
        return chk_family(b(inp["seed"]), inp["pub"], fops_from_json(inp["fops"]))
    if check == "cache":
        return chk_cache(b(inp["seed"]), inp["pub"], [tuple(c) for c in inp["calls"]])
    if check == "spellings":
        return chk_spellings(b(inp["seed"]), [tuple(t) for t in inp["toks"]], inp["pub"])
    if check == "range":
        return chk_range(b(inp["seed"]), [[tuple(x) for x in c] for c in inp["comps"]])
    if check == "electrum":
        return chk_electrum(int(inp["k"]), inp["path"])
    if check == "blob_roundtrip":
        return chk_blob_roundtrip(int(inp["x"]), inp["odd"], inp["depth"], inp["idx"])
    return {"kind": "unknown-check"}


def classify(pc, r):
    return None        # no open finding (grs-bip49-bip84-checksum was fixed in /repo 26cc3b6)


KNOWN_REPLAYS = {}


def search(rng, tier, disagreements, known_ids):
    """after a proof / correspondence break: look for an input on which the property itself fails"""
    cands = []
    for d in disagreements[:40]:
        toks = d["case"].split(" ")
        fn = toks[0]
        try:
            if fn in ("ops", "fops"):
                seed_f = bytes.fromhex(toks[1][1:])
                for i in (0, 1, 5):
                    for first in (("C", 0, ("S", (), i, True, False)), ("C", 0, ("S", (), i, False, None)), ("C", 1, ("S", (), i, False, True))):
                        for second in (("C", 1, ("S", (), i, True, None)), ("C", 1, ("S", (), i, False, True)), ("C", 0, ("S", (), i, False, None))):
                            fops = [("Y", 0, ()), first, second]
                            cands.append(PropCase("family", {"seed": seed_f.hex(), "pub": False, "fops": fops_to_json(fops)},
                                                  (lambda seed_f=seed_f, fops=fops: chk_family(seed_f, False, fops))))
            if fn in ("ops", "fops", "master", "spec_derive"):
                seed = bytes.fromhex(toks[3][1:] if fn == "spec_derive" else toks[1][1:])
                for sym, kt in (("BTC", 32), ("XTN", 32), ("BTC", 49)):
                    for p1, p2 in (("", "0"), ("0H", "1/2"), ("1", "16777216/2147483647"), ("44'/0'", "0/5")):
                        cands.append(PropCase("commute", {"net": sym, "kt": kt, "seed": seed.hex(), "p1": p1, "p2": p2},
                                              (lambda sym=sym, kt=kt, seed=seed, p1=p1, p2=p2: chk_commute(sym, kt, seed, p1, p2))))
                    for path, cut in (([0, 1], 2), ([2 ** 31, 1, 2 ** 24], 1), ([2 ** 31 - 1, 2 ** 32 - 1], 2), ([5, 6, 7], 0)):
                        cands.append(PropCase("ref", {"net": sym, "kt": kt, "seed": seed.hex(), "path": path, "cut": cut},
                                              (lambda sym=sym, kt=kt, seed=seed, path=path, cut=cut: chk_ref(sym, kt, seed, path, cut))))
                for i in IDX:
                    for h in (False, True):
                        cands.append(PropCase("metadata", {"seed": seed.hex(), "p1": "", "i": i, "h": h, "pub": False},
                                              (lambda seed=seed, i=i, h=h: chk_metadata(seed, "", i, h, False))))
                for i in (-1, 2 ** 31, 2 ** 32):
                    cands.append(PropCase("index_range", {"seed": seed.hex(), "i": i, "pub": False},
                                          (lambda seed=seed, i=i: chk_index_range(seed, i, False))))
                cands.append(PropCase("cache", {"seed": seed.hex(), "pub": False, "calls": [[1, False, None], [1, False, True], [1, False, None], [1, True, False]]},
                                      (lambda seed=seed: chk_cache(seed, False, [(1, False, None), (1, False, True), (1, False, None), (1, True, False)]))))
                cands.append(PropCase("spellings", {"seed": seed.hex(), "toks": [[1, True], [2, False], [2 ** 24, True]], "pub": False},
                                      (lambda seed=seed: chk_spellings(seed, [(1, True), (2, False), (2 ** 24, True)], False))))
            elif fn in ("hwif_data", "hparse_data", "parse_hd_data", "serialize", "deserialize"):
                for d0 in (255, 256, 257, 300, 512, -1):
                    for idx in (0, 2 ** 32 - 1, 2 ** 32, -1):
                        for pub in (False, True):
                            cands.append(PropCase("deep", {"net": "BTC", "kt": 32, "seed": "00" * 16, "start_depth": d0, "steps": 1, "idx": idx, "pub": pub, "ap": True},
                                                  (lambda d0=d0, idx=idx, pub=pub: chk_deep("BTC", 32, b"\0" * 16, d0, 1, idx, pub, True))))
                for row in ROWS:
                    for ap in (True, False):
                        cands.append(PropCase("text_roundtrip", {"net": row[0], "kt": row[1], "seed": "00" * 16, "path": "0H/1", "ap": ap},
                                              (lambda row=row, ap=ap: chk_text_roundtrip(row[0], row[1], b"\0" * 16, "0H/1", ap))))
            elif fn in ("subpaths", "py_int", "py_dec", "path_token"):
                cands.append(PropCase("range", {"seed": "00" * 16, "comps": [[[0, 2, "H"]], [[5, 5, ""], [9, 11, "p"]]]},
                                      (lambda: chk_range(b"\0" * 16, [[(0, 2, "H")], [(5, 5, ""), (9, 11, "p")]]))))
            elif fn.startswith("electrum"):
                for path in ("0", "0/1", "7/0"):
                    cands.append(PropCase("electrum", {"k": 12345, "path": path}, (lambda path=path: chk_electrum(12345, path))))
        except Exception:
            pass
    cands += list(prop_cases(rng, "quick"))
    for pc in cands:
        try:
            r = pc.thunk()
        except Exception as e:
            r = {"kind": "raises", "detail": "%s: %s" % (type(e).__name__, e)}
        if r is not None and classify(pc, r) not in known_ids:
            return {"check": pc.name, "input": pc.inp, "failure": r}
    return None
