#!/usr/bin/env python3
"""print a markdown table of /verif/seeded/*/result.json"""
import json, glob, os
rows = []
benign = []
for d in sorted(glob.glob(os.path.join(os.path.dirname(os.path.dirname(os.path.abspath(__file__))), "seeded", "*"))):
    try:
        m = json.load(open(os.path.join(d, "meta.json")))
        r = json.load(open(os.path.join(d, "result.json")))
    except Exception:
        continue
    if m.get("benign"):
        benign.append((os.path.basename(d), m.get("summary", "")[:150].replace("|", "/"), "yes" if r.get("valid_seed") else "NO",
                       "FALSE ALARM" if r.get("false_alarm") else "quiet", (r.get("violation_line") or "-")))
        continue
    rep = r.get("replay") or {}
    how = "-"
    if r.get("caught"):
        vl = r.get("violation_line") or ""
        if "no-failing-input-found" in vl:
            how = "obligation/correspondence broke (no failing input found): " + str(rep.get("broken_obligation") or "correspondence")
        else:
            how = "failing input: check `%s`" % rep.get("check")
            if rep.get("broken_obligation"):
                how += " (+ obligation %s)" % rep.get("broken_obligation")
            elif rep.get("disagreements"):
                how += " (+ correspondence)"
    rows.append((os.path.basename(d), m.get("summary", "")[:150].replace("|", "/"), "yes" if r.get("valid_seed") else "NO",
                 "caught" if r.get("caught") else "MISSED", how))
print("| seed | change | confirmed | verdict | by |")
print("|---|---|---|---|---|")
for row in rows:
    print("| %s | %s | %s | %s | %s |" % row)
print("\n%d seeds, %d caught" % (len(rows), sum(1 for r in rows if r[3] == "caught")))

if benign:
    print("\nBehaviour-preserving changes (the check must stay quiet):\n")
    print("| change | what | suite unchanged | verdict | line |")
    print("|---|---|---|---|---|")
    for row in benign:
        print("| %s | %s | %s | %s | %s |" % row)
    print("\n%d benign changes, %d false alarms" % (len(benign), sum(1 for r in benign if r[3] != "quiet")))
