"""C14 — blocks round-trip, ids and merkle roots follow the Bitcoin definition, BIP37 merkleblock proofs.

Correspondence (model_cases): extracted Gallina models of merkle/merkle_pair, Block.parse_as_header/stream_header/
hash/id/set_nonce, Block.parse + as_bin (transactions through the oracle txparse_<coin>, answered by the real Tx class),
post_unpack_merkleblock and network.message.parse("merkleblock") against /repo; plus spec-vs-impl lines (merkle_spec,
build) where the Coq SPEC (recursive root, BIP37 builder) is compared with the implementation / with an independent
Python transcription of Core's CPartialMerkleTree.
Direct checks (prop_cases): the property itself on the implementation.
"""
from common import *
import io, struct, hashlib, itertools

from pycoin.merkle import merkle, merkle_pair
from pycoin.block import Block, BadMerkleRootError
from pycoin.encoding.hash import double_sha256
try:        # optional: a module-level helper, not the public entry point (network.message.parse is)
    from pycoin.message.make_parser_and_packer import post_unpack_merkleblock
except Exception:
    post_unpack_merkleblock = None
from pycoin.symbols.btc import network as BTC
from pycoin.symbols.ltc import network as LTC

PROP = "C14"
# Cases that look INSIDE a function of /repo (a local computation re-executed from its source, a module-level helper called
# directly) are optional: when the internal cannot be isolated on the current tree they are skipped and counted here; the
# whole-function correspondence through the public entry points carries the verdict.
SKIPPED = {}


def _skip(key, why):
    first = key not in SKIPPED
    SKIPPED[key] = SKIPPED.get(key, 0) + 1
    if first:
        PARTIAL.append("skipped internal-step cases '%s' on this tree (%s); covered by the whole-function cases" % (key, why))
EXTRA_PROPS = ["C14compose"]   # composition theorems (see DESIGN.md section 0)
DRIVER = "C14"
INTERACTIVE = True
NETS = {"btc": BTC, "ltc": LTC}
RULE = ("correspondence: one driver line per call (merkle, merkle_pair, parse_header, stream_header, block_hash, block_id, "
        "set_nonce_hash, block_history, block_parse, block_parse_call, post_unpack, parse_merkleblock) plus spec lines (merkle_spec, build, matched); "
        "distinct = distinct line; non-trivial = the model returns a value (not an exception)")
PARTIAL = ["transaction wire codec is abstract in the theorems (hypotheses tx_frame / tx_parser_consumes / tx_parser_exact; "
           "C07 owns it); in the correspondence run transactions are parsed by the real Tx class through an oracle",
           "hex rendering of Block.id() (b2h_rev) is Python's; the model returns the reversed hash bytes"]
TRUSTED = ["struct '<L' modelled as 4-byte little-endian, '#' as f.read(32) / v[:32], '1' as one unsigned byte "
           "(probed on the live streamer by harness/gens/block_c14.py on every run)",
           "oracle txparse_<coin>: consumed length, txid and re-serialisation of each transaction come from the real Tx class",
           "harness-side reference implementations (recursive merkle root, BIP37 builder after Core's CPartialMerkleTree) "
           "used by the direct checks; the Coq builder is cross-checked against the Python one on every proof generated"]
ASSUMPTIONS = ["C14_reject_altered_hashes / C14_accepted_proof_sound assume a 32-byte-output hash and conclude "
               "'rejected or a collision of the hash is exhibited'; collision resistance of SHA-256 itself is not a theorem",
               "time and memory are not modelled: a hashes count near 2^64 in a merkleblock message makes the real parser "
               "loop until memory is exhausted (the model returns the TypeError that would follow)"]

_EXN_CODE = {"E_STRUCT": 1, "E_TYPE": 2, "E_VALUE": 3, "E_INDEX": 4, "E_ASSERT": 5, "E_ATTR": 6, "E_KEY": 7, "E_OVERFLOW": 8}


def dsha(b):
    return hashlib.sha256(hashlib.sha256(b).digest()).digest()


def sha(b):
    return hashlib.sha256(b).digest()


def _txparse(net):
    def f(b):
        s = io.BytesIO(b)
        try:
            tx = net.tx.parse(s)
            return b"\0" + s.tell().to_bytes(4, "big") + tx.hash() + tx.as_bin()
        except Exception as e:
            return bytes([_EXN_CODE.get(exn_tag(e), 9)])
    return f


ORACLES = {"txparse_btc": _txparse(BTC), "txparse_ltc": _txparse(LTC)}


# ---- independent references (after Bitcoin Core's merkleblock.cpp; not pycoin) ---------------------------
def ref_width(n, height):
    return (n + (1 << height) - 1) >> height


def ref_height(n):
    h = 0
    while ref_width(n, h) > 1:
        h += 1
    return h


def ref_calc_hash(height, pos, txids, H=dsha):
    if height == 0:
        return txids[pos]
    left = ref_calc_hash(height - 1, pos * 2, txids, H)
    if pos * 2 + 1 < ref_width(len(txids), height - 1):
        right = ref_calc_hash(height - 1, pos * 2 + 1, txids, H)
    else:
        right = left
    return H(left + right)


def ref_root(txids, H=dsha):
    return ref_calc_hash(ref_height(len(txids)), 0, txids, H)


def ref_build(txids, matches):
    """CPartialMerkleTree(vTxid, vMatch): returns (total, hashes, flag bytes, number of bits)"""
    n = len(txids)
    bits, hashes = [], []

    def trav(height, pos):
        parent = any(matches[p] for p in range(pos << height, min((pos + 1) << height, n)))
        bits.append(parent)
        if height == 0 or not parent:
            hashes.append(ref_calc_hash(height, pos, txids))
        else:
            trav(height - 1, pos * 2)
            if pos * 2 + 1 < ref_width(n, height - 1):
                trav(height - 1, pos * 2 + 1)
    trav(ref_height(n), 0)
    fl = bytearray((len(bits) + 7) // 8)
    for p, b in enumerate(bits):
        if b:
            fl[p // 8] |= 1 << (p % 8)
    return n, hashes, bytes(fl), len(bits)


def varint(v):
    if v < 253:
        return bytes([v])
    if v <= 0xffff:
        return b"\xfd" + struct.pack("<H", v)
    if v <= 0xffffffff:
        return b"\xfe" + struct.pack("<L", v)
    return b"\xff" + struct.pack("<Q", v)


def hdr80(version, prev, root, ts, diff, nonce):
    return struct.pack("<L", version) + prev + root + struct.pack("<LLL", ts, diff, nonce)


def mb_wire(root, total, hashes, flags, hcount=None, fcount=None, trailing=b""):
    return (hdr80(2, b"\x11" * 32, root, 1700000000, 0x1d00ffff, 42) + struct.pack("<L", total)
            + varint(len(hashes) if hcount is None else hcount) + b"".join(hashes)
            + varint(len(flags) if fcount is None else fcount) + bytes(flags) + trailing)


# ---- implementation thunks ---------------------------------------------------------------------------------
def impl_parse_header(data):
    f = io.BytesIO(data)
    try:
        b = Block.parse_as_header(f)
    except Exception as e:
        return "!" + exn_tag(e)
    return "(%s %s)" % (canon(_hdr_tuple(b)), canon(data[f.tell():]))


def _hdr_tuple(b):
    return (b.version, bytes(b.previous_block_hash), bytes(b.merkle_root), b.timestamp, b.difficulty, b.nonce)


def impl_stream_header(fields):
    b = Block(*fields)
    f = io.BytesIO()
    b.stream_header(f)
    return f.getvalue()


def impl_block_id(fields):
    return bytes.fromhex(Block(*fields).id())


def impl_set_nonce_hash(fields, n2):
    b = Block(*fields)
    try:
        b.hash()            # fill the (intended) cache first; a bad initial nonce only fails here
    except Exception:
        pass
    b.set_nonce(n2)
    return b.hash()


# ---- histories on one Block object ---------------------------------------------------------------------------
# op strings: "h" hash(), "i" id(), "S" str(b), "s" stream_header, "a" as_bin(), "n:<int>" set_nonce,
# "v:<int>" version =, "t:<int>" timestamp =, "d:<int>" difficulty =, "p:<hex>" previous_block_hash =, "r:<hex>" merkle_root =
_ATTR = {"v": "version", "t": "timestamp", "d": "difficulty", "p": "previous_block_hash", "r": "merkle_root"}


def op_token(op):
    k, _, val = op.partition(":")
    if k in "nvtd" and val:
        return k + format(int(val), "x")
    return k + val


def apply_op(b, op):
    """run one op on the Block object; returns None for an assignment, else a thunk result (bytes) or raises"""
    k, _, val = op.partition(":")
    if k == "h":
        return b.hash()
    if k == "i":
        return bytes.fromhex(b.id())
    if k == "S":
        txt = str(b)
        if repr(b) != txt:
            raise AssertionError("repr differs from str")
        import re
        ids = re.findall(r"[0-9a-f]{64}", txt)
        if not ids:                                     # rendering changed: fall back to id() itself
            _skip("str(block) rendering", "no 64-digit hex id in str(block)")
            return bytes.fromhex(b.id())
        return bytes.fromhex(ids[0])
    if k == "s":
        f = io.BytesIO()
        b.stream_header(f)
        return f.getvalue()
    if k == "a":
        return b.as_bin()
    if k == "n":
        b.set_nonce(int(val))
    elif k in "vtd":
        setattr(b, _ATTR[k], int(val))
    elif k in "pr":
        setattr(b, _ATTR[k], bytes.fromhex(val))
    else:
        raise ValueError("op " + op)
    return None


def new_block_obj(fields, ctor):
    if ctor == "header":
        return Block.parse_as_header(io.BytesIO(hdr80(*fields)))
    if ctor == "from_bin_header":
        return Block.parse(io.BytesIO(hdr80(*fields)), include_transactions=False)
    return Block(*fields)


def impl_history(fields, ops, ctor="new"):
    b = new_block_obj(fields, ctor)
    obs = []
    for op in ops:
        if op[0] in "hiSsa":
            obs.append(call(apply_op, b, op))
        else:
            apply_op(b, op)
    return "[" + " ".join(obs) + "]"


def rand_setter(rng, valid=True):
    k = rng.choice("nvtdpr")
    if k in "pr":
        n = 32 if valid or rng.random() < 0.5 else rng.choice([0, 1, 31, 33, 64])
        return k + ":" + rng.randbytes(n).hex()
    vals = [0, 1, 2, 0x7fffffff, 0x80000000, 0xffffffff, rng.getrandbits(32), rng.getrandbits(8)]
    if not valid and rng.random() < 0.4:
        vals = [0x100000000, 1 << 40]
    return k + ":" + str(rng.choice(vals))


def gen_histories(rng, tier, valid_only=False):
    """(fields, ops): every observer / setter / observer triple, then random interleavings"""
    def fields():
        return (rng.choice([1, 2, 0x20000000]), rng.randbytes(32), rng.randbytes(32), rng.getrandbits(32),
                rng.choice([0x1d00ffff, rng.getrandbits(32)]), rng.getrandbits(32))
    obs = ["h", "i", "S"]
    for a in obs:
        for k in "nvtdpr":
            for b in obs:
                st = rand_setter(rng)
                while st[0] != k:
                    st = rand_setter(rng)
                yield fields(), [a, st, b]
                yield fields(), [a, "a", st, "s", b, "a"]
    for k in "nvtdpr":
        f = fields()
        ops = []
        for _ in range(3):
            st = rand_setter(rng)
            while st[0] != k:
                st = rand_setter(rng)
            ops += [st, rng.choice(obs)]
        yield f, ops
    # the miner loop: nonces, then a timestamp bump, then a new merkle root
    f = fields()
    yield f, ["h", "n:1", "i", "n:4294967295", "h", "t:%d" % ((f[3] + 1) & 0xffffffff), "i", "n:0", "h",
              "r:" + rng.randbytes(32).hex(), "S", "v:536870912", "h", "a"]
    for _ in range(250 if tier == "quick" else 6000):
        ops = []
        for _ in range(rng.randint(2, 12)):
            if rng.random() < 0.5:
                ops.append(rng.choice(obs + ["a", "s"]))
            else:
                ops.append(rand_setter(rng, valid=valid_only or rng.random() < 0.85))
        ops.append(rng.choice(obs))
        yield fields(), ops


def chk_history(inp):
    fields = inp["fields"]
    fields = (fields[0], bytes.fromhex(fields[1]), bytes.fromhex(fields[2]), fields[3], fields[4], fields[5])
    ctor = inp.get("ctor", "new")
    if ctor == "block":
        hdr, txbins = inp["hdr"], [bytes.fromhex(t) for t in inp["txs"]]
        net = NETS[inp["coin"]]
        txids = [net.tx.from_bin(t).hash() for t in txbins]
        raw = block_wire((hdr[0], bytes.fromhex(hdr[1]), hdr[2], hdr[3], hdr[4]), txbins, txids)
        b = net.block.parse(io.BytesIO(raw))
    else:
        b = new_block_obj(fields, ctor)

    def current():
        return hdr80(b.version, bytes(b.previous_block_hash), bytes(b.merkle_root), b.timestamp, b.difficulty, b.nonce)
    ops = list(inp["ops"]) + ["h", "i", "S", "s"]
    for j, op in enumerate(ops):
        try:
            got = apply_op(b, op)
        except Exception as e:
            return {"kind": "history-op-raises", "op": op, "index": j, "detail": "%s: %s" % (type(e).__name__, e)}
        if got is None:
            continue
        raw = current()                                # what the header is NOW, from the attributes
        f = io.BytesIO()
        b.stream_header(f)
        if f.getvalue() != raw or len(raw) != 80:
            return {"kind": "header-not-80-bytes-of-fields", "index": j}
        want = dsha(raw)
        k = op[0]
        exp = want if k == "h" else want[::-1] if k in "iS" else raw
        if k == "a":
            got = got[:80]
        if got != exp:
            return {"kind": "id-stale-after-history" if k in "hiS" else "header-stream-after-history",
                    "op": op, "index": j, "history": ops[:j + 1][-6:], "got": got.hex()[:64],
                    "expected": exp.hex()[:64]}
    return None


def _history_inp(f, ops, ctor="new"):
    return {"fields": [f[0], f[1].hex(), f[2].hex(), f[3], f[4], f[5]], "ops": ops, "ctor": ctor}


def impl_block_parse(coin, inc, chk, data):
    f = io.BytesIO(data)
    try:
        b = NETS[coin].block.parse(f, include_transactions=inc, check_merkle_hash=chk)
    except Exception as e:
        return "!" + exn_tag(e)
    return "(%s %s %s %s %s)" % (canon(_hdr_tuple(b)), canon([tx.hash() for tx in b.txs]),
                                 canon(len(data) - f.tell()), call(b.as_bin), call(lambda: bytes.fromhex(b.id())))


# ---- calling conventions: every public entry point, positionally in the PINNED order, by keyword, with defaults -----
_REQ = object()
PINNED = {      # the documented signatures (the same list is pinned in coq/Proofs/C14Tie.v against Gen/GenSigC14.v)
    "Block": [("version", _REQ), ("previous_block_hash", _REQ), ("merkle_root", _REQ), ("timestamp", _REQ),
              ("difficulty", _REQ), ("nonce", _REQ)],
    "Block.parse": [("f", _REQ), ("include_transactions", True), ("include_offsets", None), ("check_merkle_hash", True)],
    "Block.parse_as_header": [("f", _REQ)],
    "Block.from_bin": [("bytes", _REQ)],
    "Block.set_nonce": [("nonce", _REQ)],
    "Block.set_txs": [("txs", _REQ), ("check_merkle_hash", True)],
    "Block.stream": [("f", _REQ)],
    "Block.stream_header": [("f", _REQ)],
    "merkle": [("hashes", _REQ), ("hash_f", double_sha256)],
    "merkle_pair": [("hashes", _REQ), ("hash_f", _REQ)],
    "message.parse": [("message_name", _REQ), ("data", _REQ)],
}
_PYTOK = {"T": True, "F": False, "N": None, "i0": 0, "i1": 1, "i2": 2}


def call_styles(label, values):
    """[(style name, positional args, keyword args)] for one intended binding `values` (list in pinned order, entries
    may be omitted at the end only if they equal the pinned default)"""
    prm = PINNED[label]
    names = [n for n, _ in prm]
    vals = list(values)
    out = [("positional", tuple(vals), {}), ("keyword", (), dict(zip(names, vals))),
           ("keyword-reversed", (), dict(reversed(list(zip(names, vals)))))]
    for k in range(1, len(vals)):
        out.append(("mixed-%d" % k, tuple(vals[:k]), dict(zip(names[k:], vals[k:]))))
    # rely on defaults wherever the intended value IS the pinned default
    nd = [(n, v) for (n, d), v in zip(prm, vals) if not (d is not _REQ and v is d)]
    if len(nd) < len(vals):
        out.append(("defaults-keyword", (), dict(nd)))
        k = len(vals)
        while k > 0 and prm[k - 1][1] is not _REQ and vals[k - 1] is prm[k - 1][1]:
            k -= 1
        out.append(("defaults-positional", tuple(vals[:k]), {}))
        if k >= 1:
            out.append(("defaults-mixed", tuple(vals[:1]), dict((n, v) for n, v in nd if n != names[0])))
    return out


def _obs_block(b, raw):
    """what a caller can see of a parsed block, incl. the offsets recorded when include_offsets is set"""
    offs = []
    for t in b.txs:
        o = getattr(t, "offset_in_block", None)
        offs.append(None if o is None else (o if raw[o:o + len(t.as_bin())] == t.as_bin() else "WRONG"))
    return (_hdr_tuple(b), [t.hash() for t in b.txs], offs, b.as_bin())


def chk_callstyles(inp):
    what = inp["what"]
    if what == "block_parse":
        net = NETS[inp["coin"]]
        hdr = inp["hdr"]
        hdr = (hdr[0], bytes.fromhex(hdr[1]), hdr[2], hdr[3], hdr[4])
        txbins = [bytes.fromhex(t) for t in inp["txs"]]
        txids = [bytes.fromhex(t) for t in inp["txids"]]
        raw = block_wire(hdr, txbins, txids)
        if inp["bad"]:
            x = bytearray(raw)
            if inp["bad"] == "root":
                x[36 + 7] ^= 0x10
            else:
                x[-1] ^= 0x01
            raw = bytes(x)
        inc, offs, chk = (_PYTOK[t] for t in inp["args"])
        # reference verdict, from the meaning of the three parameters
        must_raise = bool(inc) and bool(chk) and bool(inp["bad"])
        for style, pos, kw in call_styles("Block.parse", [None, inc, offs, chk]):
            f = io.BytesIO(raw)
            if pos:
                pos = (f,) + pos[1:]
            else:
                kw = dict(kw, f=f)
            try:
                b = net.block.parse(*pos, **kw)
            except BadMerkleRootError:
                if not must_raise:
                    return {"kind": "call-style-changes-meaning", "style": style, "detail": "BadMerkleRootError although "
                            "the check is off or the block is consistent", "args": inp["args"]}
                continue
            except Exception as e:
                return {"kind": "call-style-raises", "style": style, "args": inp["args"],
                        "detail": "%s: %s" % (type(e).__name__, e)}
            if must_raise:
                return {"kind": "bad-merkle-root-accepted", "what": "call style " + style, "style": style,
                        "args": inp["args"], "n": len(txbins)}
            exp_txs = len(txbins) if inc else 0
            o = _obs_block(b, raw)
            if len(o[1]) != exp_txs or o[0][2] != raw[36:68]:
                return {"kind": "call-style-changes-meaning", "style": style, "args": inp["args"],
                        "detail": "%d transactions parsed, expected %d" % (len(o[1]), exp_txs)}
            want_offs = bool(offs) and bool(inc)
            if any((x is None) == want_offs or x == "WRONG" for x in o[2]):
                return {"kind": "call-style-changes-meaning", "style": style, "args": inp["args"],
                        "detail": "offset_in_block %s" % o[2]}
        return None
    if what == "ctor":
        f = inp["fields"]
        vals = [f[0], bytes.fromhex(f[1]), bytes.fromhex(f[2]), f[3], f[4], f[5]]
        ref = hdr80(*vals)
        for style, pos, kw in call_styles("Block", vals):
            for cls in (Block, BTC.block, LTC.block):
                b = cls(*pos, **kw)
                if b.as_bin() != ref or b.id() != dsha(ref)[::-1].hex():
                    return {"kind": "call-style-changes-meaning", "style": style, "detail": "constructor " + cls.__name__}
        b = Block(*vals)
        for style, pos, kw in call_styles("Block.set_nonce", [f[5] ^ 1]):
            b.set_nonce(*pos, **kw)
            if b.as_bin() != ref[:76] + struct.pack("<L", f[5] ^ 1) or b.id() != dsha(b.as_bin())[::-1].hex():
                return {"kind": "call-style-changes-meaning", "style": style, "detail": "set_nonce"}
            b.set_nonce(f[5])
        for label, meth in (("Block.stream", "stream"), ("Block.stream_header", "stream_header")):
            for style, pos, kw in call_styles(label, [None]):
                out = io.BytesIO()
                getattr(b, meth)(*((out,) if pos else ()), **(dict(f=out) if kw else {}))
                if out.getvalue() != ref:
                    return {"kind": "call-style-changes-meaning", "style": style, "detail": meth}
        for style, pos, kw in call_styles("Block.parse_as_header", [None]):
            s_ = io.BytesIO(ref + b"zz")
            b2 = Block.parse_as_header(*((s_,) if pos else ()), **(dict(f=s_) if kw else {}))
            if b2.as_bin() != ref or s_.tell() != 80:
                return {"kind": "call-style-changes-meaning", "style": style, "detail": "parse_as_header"}
        return None
    if what == "set_txs":
        net = NETS[inp["coin"]]
        hdr = inp["hdr"]
        hdr = (hdr[0], bytes.fromhex(hdr[1]), hdr[2], hdr[3], hdr[4])
        txbins = [bytes.fromhex(t) for t in inp["txs"]]
        chk = _PYTOK[inp["args"][0]]
        for bad in (False, True):
            for style, pos, kw in call_styles("Block.set_txs", [None, chk]):
                txs = [net.tx.from_bin(t) for t in txbins]
                root = ref_root([t.hash() for t in txs])
                if bad:
                    root = bytes([root[0] ^ 1]) + root[1:]
                b = net.block(hdr[0], hdr[1], root, hdr[2], hdr[3], hdr[4])
                if pos:
                    pos = (txs,) + pos[1:]
                else:
                    kw = dict(kw, txs=txs)
                try:
                    b.set_txs(*pos, **kw)
                    raised = False
                except BadMerkleRootError:
                    raised = True
                if raised != (bad and bool(chk)):
                    return {"kind": "bad-merkle-root-accepted" if not raised else "call-style-changes-meaning",
                            "what": "set_txs " + style, "style": style, "args": inp["args"], "n": len(txbins)}
                if [t.as_bin() for t in b.txs] != txbins:
                    return {"kind": "call-style-changes-meaning", "style": style, "detail": "set_txs lost transactions"}
        data = block_wire(hdr, txbins, [bytes.fromhex(t) for t in inp["txids"]])
        for style, pos, kw in call_styles("Block.from_bin", [data]):
            if net.block.from_bin(*pos, **kw).as_bin() != data:
                return {"kind": "call-style-changes-meaning", "style": style, "detail": "from_bin"}
        return None
    if what == "merkle":
        l = [bytes.fromhex(h) for h in inp["hashes"]]
        exp = ref_root(l)
        forms = call_styles("merkle", [l, double_sha256])
        for style, pos, kw in forms:
            pos = tuple(list(a) if isinstance(a, list) else a for a in pos)
            kw = dict((k, list(v) if isinstance(v, list) else v) for k, v in kw.items())
            if merkle(*pos, **kw) != exp:
                return {"kind": "merkle-root-differs-from-definition", "style": style, "n": len(l)}
        exp_s = ref_root(l, sha)
        for style, pos, kw in call_styles("merkle", [l, sha]):
            if merkle(*pos, **kw) != exp_s:
                return {"kind": "merkle-root-differs-from-definition", "style": style, "n": len(l), "hash": "sha"}
        row = [dsha(a + b) for a, b in zip((l + l[-1:])[0::2], (l + l[-1:])[1::2])] if len(l) % 2 else \
              [dsha(a + b) for a, b in zip(l[0::2], l[1::2])]
        for style, pos, kw in call_styles("merkle_pair", [l, double_sha256]):
            if list(merkle_pair(*pos, **kw)) != row:
                return {"kind": "call-style-changes-meaning", "style": style, "detail": "merkle_pair"}
        return None
    if what == "message_parse":
        txids, m = _proof_of(inp)
        n, hashes, fl, _ = ref_build(txids, m)
        data = mb_wire(ref_root(txids), n, hashes, fl)
        exp = [t for t, b in zip(txids, m) if b]
        for style, pos, kw in call_styles("message.parse", ["merkleblock", data]):
            for net in (BTC, LTC):
                got = [bytes(x) for x in net.message.parse(*pos, **kw)["tx_hashes"]]
                if got != exp:
                    return {"kind": "honest-proof-wrong-matches", "style": style, "n": n}
        return None
    return {"kind": "unknown-callstyle-check"}


def gen_callstyle_inputs(rng, tier):
    vals_inc = ["T", "F", "i1", "i0"]
    vals_off = ["N", "F", "T", "i0", "i1"]
    vals_chk = ["T", "F", "N", "i0", "i1"]
    blocks = []
    for coin, n in (("btc", 1), ("btc", 2), ("ltc", 3), ("btc", 5)) if tier == "quick" else \
            (("btc", 1), ("btc", 2), ("btc", 3), ("ltc", 1), ("ltc", 3), ("btc", 5), ("btc", 8), ("ltc", 8)):
        binp = _block_inp(rng, coin, n)
        if "generator_error" not in binp:
            blocks.append(binp)
    for bi, binp in enumerate(blocks):
        for a in vals_inc:
            for b in vals_off:
                for c in vals_chk:
                    for bad in ("root", "tx", ""):
                        if tier == "quick" and bi > 0 and not (b in ("N", "F", "i0") and c in ("T", "i1")) and rng.random() < 0.7:
                            continue
                        yield dict(binp, what="block_parse", args=[a, b, c], bad=bad)
        for c in vals_chk:
            yield dict(binp, what="set_txs", args=[c])
    for f in itertools.islice(gen_header_fields(rng, "quick"), 400):
        if len(f[1]) == 32 and len(f[2]) == 32 and all(f[k] <= 0xffffffff for k in (0, 3, 4, 5)):
            yield {"what": "ctor", "fields": [f[0], f[1].hex(), f[2].hex(), f[3], f[4], f[5]]}
            if tier == "quick" and rng.random() < 0.8:
                continue
    for n in list(range(1, 10)) + [16, 17, 33]:
        yield {"what": "merkle", "hashes": [h.hex() for h in rand_hashes(rng, n)]}
    for n in (1, 2, 3, 5, 7, 8):
        txids = rand_hashes(rng, n)
        m = [rng.random() < 0.5 for _ in range(n)]
        yield {"what": "message_parse", "txids": [t.hex() for t in txids], "matches": "".join("1" if b else "0" for b in m)}


def impl_block_parse_call(coin, pos, kw, data):
    f = io.BytesIO(data)
    try:
        b = NETS[coin].block.parse(f, *[_PYTOK[t] for t in pos], **dict((k, _PYTOK[t]) for k, t in kw))
    except Exception as e:
        return "!" + exn_tag(e)
    return "(%s %s %s %s %s)" % (canon(_hdr_tuple(b)), canon([tx.hash() for tx in b.txs]),
                                 canon(len(data) - f.tell()), call(b.as_bin), call(lambda: bytes.fromhex(b.id())))


def gen_parse_calls(rng, tier):
    """(coin, pos tokens, kw (name, token) pairs, bytes): call forms of Block.parse incl. the refusals"""
    names = ["include_transactions", "include_offsets", "check_merkle_hash"]
    toks = ["T", "F", "N", "i0", "i1"]
    streams = []
    for coin, n in (("btc", 1), ("btc", 2), ("ltc", 3)):
        hdr, txbins, txids = rand_block_parts(rng, coin, n)
        good = block_wire(hdr, txbins, txids)
        bad = bytearray(good)
        bad[-1] ^= 1
        streams += [(coin, good), (coin, bytes(bad))]
    forms = []
    for a in toks:
        forms.append(([a], []))
        for b in toks:
            forms.append(([a, b], []))
            for c in toks:
                forms.append(([a, b, c], []))
                forms.append(([], [(names[0], a), (names[1], b), (names[2], c)]))
                forms.append(([], [(names[2], c), (names[0], a), (names[1], b)]))
                forms.append(([a], [(names[2], c), (names[1], b)]))
                forms.append(([a, b], [(names[2], c)]))
    forms += [([], []), ([], [(names[1], "N")]), ([], [(names[1], "F")]), ([], [(names[1], "T")]), ([], [(names[2], "T")]),
              ([], [(names[2], "F")]), ([], [(names[2], "N")]),
              (["T", "N", "T", "T"], []), (["T"], [(names[0], "T")]), (["T", "N"], [(names[1], "N")]),
              ([], [("check_merkle", "T")]), ([], [("offsets", "N")]), (["T", "N", "T"], [(names[2], "T")])]
    for coin, data in streams:
        for pos, kw in forms:
            if tier == "quick" and len(pos) + len(kw) == 3 and rng.random() < 0.55:
                continue
            yield coin, pos, kw, data


def wire_expressible(total, hashes, flags, root):
    return 0 <= total < (1 << 32) and len(root) == 32 and all(len(h) == 32 for h in hashes)


def impl_post_unpack(total, hashes, flags, root):
    """post_unpack_merkleblock on the parsed fields.  When that helper cannot be called directly on this tree, the same
    fields go through the public entry point (they are equal by C14_merkleblock_wire whenever the fields fit the wire)."""
    if post_unpack_merkleblock is not None:
        d = dict(header=Block(1, b"\0" * 32, root, 0, 0, 0), total_transactions=total, hashes=tuple(hashes),
                 flags=tuple(flags))
        return [bytes(x) for x in post_unpack_merkleblock(d, None)["tx_hashes"]]
    return impl_parse_merkleblock(mb_wire(root, total, hashes, flags))


def impl_parse_merkleblock(data):
    return [bytes(x) for x in BTC.message.parse("merkleblock", data)["tx_hashes"]]


def impl_build(txids, matches):
    n, hashes, fl, _ = ref_build(txids, matches)
    return (n, hashes, fl)


# ---- generators ------------------------------------------------------------------------------------------------
def rand_hashes(rng, n):
    return [rng.randbytes(32) for _ in range(n)]


def gen_hash_lists(rng, tier):
    top = 70 if tier == "quick" else 140
    for n in range(0, top + 1):
        yield rand_hashes(rng, n)
    for n in ([127, 128, 129] if tier == "quick" else [255, 256, 257, 300, 511, 513]):
        yield rand_hashes(rng, n)
    # shapes: duplicated last elements (the CVE-2012-2459 shape), equal neighbours, odd-length and empty elements
    for n in range(1, 10):
        l = rand_hashes(rng, n)
        yield l + [l[-1]]
        yield [l[0]] * n
        yield [rng.randbytes(rng.choice([0, 1, 31, 33, 64])) for _ in range(n)]
    for _ in range(60 if tier == "quick" else 1500):
        yield rand_hashes(rng, rng.randint(1, 40))


def gen_header_fields(rng, tier):
    ints = [0, 1, 2, 0x7fffffff, 0x80000000, 0xffffffff]
    big = [0x100000000, 1 << 40]
    for _ in range(150 if tier == "quick" else 4000):
        f = [rng.choice(ints + [rng.getrandbits(32)]), rng.randbytes(32), rng.randbytes(32),
             rng.choice(ints + [rng.getrandbits(32)]), rng.choice(ints + [rng.getrandbits(32)]),
             rng.choice(ints + [rng.getrandbits(32)])]
        r = rng.random()
        if r < 0.15:
            f[rng.choice([0, 3, 4, 5])] = rng.choice(big)
        elif r < 0.35:
            f[rng.choice([1, 2])] = rng.randbytes(rng.choice([0, 1, 31, 33, 40, 64]))
        yield tuple(f)
    for k in (0, 3, 4, 5):
        for v in ints + big:
            f = [1, b"\x11" * 32, b"\x22" * 32, 5, 6, 7]
            f[k] = v
            yield tuple(f)


def gen_header_bytes(rng, tier):
    for n in range(0, 91):
        yield rng.randbytes(n)
    yield b"\0" * 80
    yield b"\xff" * 80
    for _ in range(50 if tier == "quick" else 2000):
        yield rng.randbytes(rng.choice([79, 80, 80, 81, 100]))


def rand_tx(rng, net, coinbase=False):
    Tx = net.tx
    if coinbase:
        return Tx.coinbase_tx(b"\x02" + rng.randbytes(32), 50 * 10 ** 8, coinbase_bytes=rng.randbytes(rng.randint(2, 8)))
    nin = rng.choice([1, 1, 1, 2, 3])
    nout = rng.choice([1, 1, 2, 3])
    ins = [Tx.TxIn(rng.randbytes(32), rng.randrange(0, 4), script=rng.randbytes(rng.choice([0, 1, 5, 25])),
                   sequence=rng.choice([0xffffffff, 0, rng.getrandbits(32)])) for _ in range(nin)]
    outs = [Tx.TxOut(rng.getrandbits(40), rng.randbytes(rng.choice([0, 1, 22, 25]))) for _ in range(nout)]
    tx = Tx(rng.choice([1, 2]), ins, outs, lock_time=rng.choice([0, 0, rng.getrandbits(32)]))
    if rng.random() < 0.3:
        for i in range(nin):
            if rng.random() < 0.7:
                tx.set_witness(i, [rng.randbytes(rng.choice([0, 1, 33, 71])) for _ in range(rng.randint(1, 3))])
    return tx


def rand_block_parts(rng, coin, n):
    """(header fields without root, [tx bytes], [txids]) of a block with n random transactions built through the
    public API (constructors, as_bin, hash; nothing is parsed here)"""
    net = NETS[coin]
    txs = [rand_tx(rng, net, coinbase=(i == 0)) for i in range(n)]
    hdr = (rng.choice([1, 2, 0x20000000]), rng.randbytes(32), rng.getrandbits(32), rng.getrandbits(32), rng.getrandbits(32))
    return hdr, [tx.as_bin() for tx in txs], [tx.hash() for tx in txs]


def block_wire(hdr, txbins, txids):
    """the Bitcoin serialisation written by hand (reference, not pycoin)"""
    return hdr80(hdr[0], hdr[1], ref_root(txids), hdr[2], hdr[3], hdr[4]) + varint(len(txbins)) + b"".join(txbins)


def make_block(coin, hdr, txbins, root=None):
    net = NETS[coin]
    txs = [net.tx.from_bin(t) for t in txbins]
    if root is None:
        root = merkle([tx.hash() for tx in txs], double_sha256)
    b = net.block(hdr[0], hdr[1], root, hdr[2], hdr[3], hdr[4])
    b.set_txs(txs, check_merkle_hash=False)
    return b


def gen_block_streams(rng, tier):
    """(coin, include_transactions, check, bytes) for Block.parse: valid blocks and malformed neighbours"""
    sizes = list(range(1, 13)) + [16, 17, 20] if tier == "quick" else list(range(1, 71))
    for n in sizes:
        coin = "ltc" if n % 5 == 0 else "btc"
        hdr, txbins, txids = rand_block_parts(rng, coin, n)
        data = block_wire(hdr, txbins, txids)
        yield (coin, True, True, data)
        yield (coin, True, True, data + rng.randbytes(rng.randint(1, 9)))        # trailing bytes stay unread
        if n <= 8 or n % 7 == 0:
            yield (coin, False, True, data)
            for pos in (0, 31, rng.randrange(32)):
                bad = bytearray(data)
                bad[36 + pos] ^= 1 << rng.randrange(8)                           # header root altered
                yield (coin, True, True, bytes(bad))
            yield (coin, True, False, bytes(bad))
            bad = bytearray(data)
            bad[-1 - rng.randrange(4)] ^= 0x01                                   # lock_time of the last tx altered
            yield (coin, True, True, bytes(bad))
            yield (coin, True, True, data[:rng.randrange(80, len(data))])        # truncated
            yield (coin, True, True, data[:-1])
            cnt = varint(n)
            body = data[80 + len(cnt):]
            yield (coin, True, True, data[:80] + b"\xfd" + struct.pack("<H", n) + body)        # non-minimal count
            yield (coin, True, True, data[:80] + varint(n + 1) + body)                         # count too large
            if n > 1:
                yield (coin, True, True, data[:80] + varint(n - 1) + body)                     # count too small
            yield (coin, True, True, data[:80] + b"\xff" + b"\xff" * 8 + body)                 # count 2^64-1
    h = rng.randbytes(80)
    for tail in (b"", b"\0", b"\0abc", b"\x01", b"\xfd", b"\xfd\x01", b"\xfe\x01\0\0", b"\xff" * 9, b"\x01\x01\0\0\0"):
        yield ("btc", True, True, h + tail)
        yield ("btc", False, True, h + tail)
    for n in (0, 4, 79):
        yield ("btc", True, True, h[:n])


def subsets(n):
    for bits in itertools.product([False, True], repeat=n):
        yield list(bits)


def corruptions(rng, txids, matches, all_positions=True):
    """(kind, idx, (total, hashes, flags, root)) single-position corruptions of the honest proof"""
    n, hashes, fl, nbits = ref_build(txids, matches)
    root = ref_root(txids)
    out = []
    hi = range(len(hashes)) if all_positions else sorted(set([0, len(hashes) - 1, rng.randrange(len(hashes))]))
    for i in hi:
        h2 = list(hashes)
        b = bytearray(h2[i])
        b[rng.randrange(32)] ^= 1 << rng.randrange(8)
        h2[i] = bytes(b)
        out.append(("hash_alter", i, (n, h2, fl, root)))
        out.append(("hash_remove", i, (n, hashes[:i] + hashes[i + 1:], fl, root)))
        out.append(("hash_dup", i, (n, hashes[:i] + [hashes[i]] + hashes[i:], fl, root)))
        if i + 1 < len(hashes) and hashes[i] != hashes[i + 1]:
            h3 = list(hashes)
            h3[i], h3[i + 1] = h3[i + 1], h3[i]
            out.append(("hash_swap", i, (n, h3, fl, root)))
    out.append(("hash_add", len(hashes), (n, hashes + [rng.randbytes(32)], fl, root)))
    for p in range(nbits, 8 * len(fl)):
        f2 = bytearray(fl)
        f2[p // 8] |= 1 << (p % 8)
        out.append(("flag_pad", p, (n, hashes, bytes(f2), root)))
    out.append(("flag_extra", 0, (n, hashes, fl + b"\0", root)))
    out.append(("flag_extra", 1, (n, hashes, fl + bytes([rng.randrange(1, 256)]), root)))
    out.append(("flag_remove", 0, (n, hashes, fl[:-1], root)))
    r2 = bytearray(root)
    r2[rng.randrange(32)] ^= 1 << rng.randrange(8)
    out.append(("root_alter", 0, (n, hashes, fl, bytes(r2))))
    bi = range(nbits) if all_positions else sorted(set([0, nbits - 1, rng.randrange(nbits)]))
    for p in bi:
        f2 = bytearray(fl)
        f2[p // 8] ^= 1 << (p % 8)
        out.append(("flag_flip", p, (n, hashes, bytes(f2), root)))
    for t in (0, n - 1, n + 1, 2 * n):
        if t != n:
            out.append(("total", t, (t, hashes, fl, root)))
    return out


MUST_RAISE = {"hash_alter", "hash_remove", "hash_dup", "hash_swap", "hash_add", "flag_pad", "flag_extra", "flag_remove",
              "root_alter"}


def gen_proof_inputs(rng, tier):
    """(txids, matches, exhaustive?)"""
    top = 6 if tier == "quick" else 8
    for n in range(1, top + 1):
        txids = rand_hashes(rng, n)
        for m in subsets(n):
            yield txids, m, True
    for n in range(top + 1, 71):
        txids = rand_hashes(rng, n)
        reps = 2 if tier == "quick" else 12
        for k in range(reps):
            p = rng.choice([0.05, 0.2, 0.5, 0.9])
            m = [rng.random() < p for _ in range(n)]
            if k == 0:
                m = [False] * n
                m[rng.randrange(n)] = True
            yield txids, m, False
        yield txids, [False] * n, False
        yield txids, [True] * n, False
        yield txids, [i == 0 for i in range(n)], False              # left edge only
        yield txids, [i == n - 1 for i in range(n)], False          # right edge only (single-child chain when odd)
        if tier == "thorough" or n in (7, 8, 9, 15, 16, 17, 31, 32, 33, 63, 64, 65):
            yield txids, [i % 2 == 0 for i in range(n)], False
            yield txids, [i >= n - 2 for i in range(n)], False
            yield txids, [i < (n + 1) // 2 for i in range(n)], False
    for n in ((127, 128, 129, 255, 256, 257) if tier == "quick" else (127, 128, 129, 255, 256, 257, 511, 513, 1000)):
        txids = rand_hashes(rng, n)
        yield txids, [i == n - 1 for i in range(n)], False
        yield txids, [i == 0 for i in range(n)], False
        yield txids, [rng.random() < 0.1 for _ in range(n)], False


def _pu_case(total, hashes, flags, root, meta=None):
    """list with one Case, or [] when the helper is not callable on this tree and the fields do not fit the wire"""
    if post_unpack_merkleblock is None and not wire_expressible(total, hashes, flags, root):
        _skip("post_unpack(non-wire fields)", "post_unpack_merkleblock is not importable")
        return []
    return [Case("post_unpack %s %s %s %s" % (arg(total), arg(hashes), arg(bytes(flags)), arg(root)),
                 (lambda: call(impl_post_unpack, total, hashes, flags, root)), meta)]


def _mb_case(data, meta=None):
    return Case("parse_merkleblock " + arg(data), (lambda: call(impl_parse_merkleblock, data)), meta)


def model_cases(rng, tier):
    # --- merkle: model and spec against the implementation
    for l in gen_hash_lists(rng, tier):
        yield Case("merkle " + arg(l), (lambda l=l: call(merkle, list(l), double_sha256)))
        if l:
            yield Case("merkle_spec " + arg(l), (lambda l=l: call(merkle, list(l), double_sha256)))
        if len(l) <= 12:
            yield Case("merkle_sha " + arg(l), (lambda l=l: call(merkle, list(l), sha)))
            yield Case("merkle_pair " + arg(l), (lambda l=l: call(lambda: list(merkle_pair(list(l), double_sha256)))))
    # --- headers
    for s in gen_header_bytes(rng, tier):
        yield Case("parse_header " + arg(s), (lambda s=s: impl_parse_header(s)))
    for f in gen_header_fields(rng, tier):
        a = " ".join(arg(x) for x in f)
        yield Case("stream_header " + a, (lambda f=f: call(impl_stream_header, f)))
        yield Case("block_hash " + a, (lambda f=f: call(lambda: Block(*f).hash())))
        yield Case("block_id " + a, (lambda f=f: call(impl_block_id, f)))
        n2 = rng.choice([0, 1, 0xffffffff, 0x100000000, rng.getrandbits(32)])
        yield Case("set_nonce_hash %s %s" % (a, arg(n2)), (lambda f=f, n2=n2: call(impl_set_nonce_hash, f, n2)))
    # --- histories on one Block object (memo attribute as state)
    for f, ops in gen_histories(rng, tier):
        a = " ".join(arg(x) for x in f)
        toks = "[" + ",".join(op_token(o) for o in ops) + "]"
        ctor = "new"
        if rng.random() < 0.3:
            ctor = rng.choice(["header", "from_bin_header"])
        yield Case("block_history %s %s" % (a, toks), (lambda f=f, ops=ops, ctor=ctor: impl_history(f, ops, ctor)),
                   {"ctor": ctor})
        if rng.random() < 0.25:
            yield Case("block_history_spec %s %s" % (a, toks), (lambda f=f, ops=ops: impl_history(f, ops, "new")))
    # --- blocks (transactions through the oracle)
    try:
        block_streams = list(gen_block_streams(rng, tier))
    except Exception as e:      # building transactions through the API failed: surface as a disagreement
        block_streams = []
        msg = "!HARNESS:block generator raised %s: %s" % (type(e).__name__, str(e)[:80])
        yield Case("generator_failure", (lambda msg=msg: msg))
    try:
        parse_calls = list(gen_parse_calls(rng, tier))
    except Exception as e:
        parse_calls = []
        msg = "!HARNESS:block generator raised %s: %s" % (type(e).__name__, str(e)[:80])
        yield Case("generator_failure", (lambda msg=msg: msg))
    for coin, pos, kw, data in parse_calls:
        yield Case("block_parse_call s%s [%s] [%s] %s" % (coin, ",".join(pos), ",".join("%s=%s" % kv for kv in kw), arg(data)),
                   (lambda coin=coin, pos=pos, kw=kw, data=data: impl_block_parse_call(coin, pos, kw, data)),
                   {"pos": pos, "kw": kw})
    for coin, inc, chk, data in block_streams:
        yield Case("block_parse s%s %s %s %s" % (coin, arg(inc), arg(chk), arg(data)),
                   (lambda coin=coin, inc=inc, chk=chk, data=data: impl_block_parse(coin, inc, chk, data)))
    # --- merkleblock: honest proofs, every single-position corruption, wire format, malformed wire
    lw = isolate_level_widths()
    for t in [0, 1, 2, 3, 4, 5, 7, 8, 9, 0xffff, 0x10000, 0xffffffff] + [rng.getrandbits(32) for _ in range(20)]:
        if lw is None:
            _skip("level_widths", "the per-level width computation cannot be isolated from post_unpack_merkleblock")
        else:
            yield Case("level_widths " + arg(t), (lambda t=t: call(lambda: list(lw(t)))))
    # every width / depth boundary through the PUBLIC entry point: one-leaf proofs in trees of any size
    for T in BOUNDARY_TOTALS + [rng.getrandbits(rng.choice([5, 9, 17, 32])) or 1 for _ in range(12 if tier == "quick" else 300)]:
        for pos in sorted(set([0, T - 1, T // 2, (T - 1) // 2, rng.randrange(T), rng.randrange(T)])):
            bits, hashes, root, leaf = synth_path_proof(rng, T, pos)
            fl = pack_flag_bits(bits)
            yield _mb_case(mb_wire(root, T, hashes, fl), {"synth": [T, pos]})
            yield from _pu_case(T, hashes, fl, root, {"synth": [T, pos]})
            # the same proof claimed for neighbouring totals: the width of some level changes
            for T2 in (T - 1, T + 1):
                if 1 <= T2 < (1 << 32) and rng.random() < 0.5:
                    yield _mb_case(mb_wire(root, T2, hashes, fl), {"synth": [T, pos], "claimed": T2})
    k = 0
    for txids, m, exhaustive in gen_proof_inputs(rng, tier):
        k += 1
        n, hashes, fl, nbits = ref_build(txids, m)
        root = ref_root(txids)
        yield Case("build %s %s" % (arg(txids), arg(m)), (lambda txids=txids, m=m: canon(impl_build(txids, m))))
        yield Case("matched %s %s" % (arg(txids), arg(m)),
                   (lambda txids=txids, m=m: canon([t for t, b in zip(txids, m) if b])))
        yield from _pu_case(n, hashes, fl, root)
        yield _mb_case(mb_wire(root, n, hashes, fl, trailing=rng.randbytes(rng.choice([0, 0, 3]))))
        if exhaustive or k % 3 == 0 or (len(txids) in BOUNDARY_TOTALS and k % 2 == 0):
            for kind, idx, (t2, h2, f2, r2) in corruptions(rng, txids, m, all_positions=exhaustive):
                if rng.random() < (0.8 if exhaustive else 0.5):
                    yield from _pu_case(t2, h2, f2, r2, {"kind": kind, "idx": idx})
                else:
                    yield _mb_case(mb_wire(r2, t2, h2, f2), {"kind": kind, "idx": idx})
    # equal siblings (duplicate txids): the left == right test
    for n in range(2, 9):
        txids = rand_hashes(rng, n)
        i = rng.randrange(n - 1)
        txids[i + 1] = txids[i]
        for m in ([True] * n, [j == i for j in range(n)], [False] * n):
            t, hashes, fl, _ = ref_build(txids, m)
            yield from _pu_case(t, hashes, fl, ref_root(txids))
    # malformed wire messages
    root = rng.randbytes(32)
    good = mb_wire(root, 1, [root], b"\x01")
    for cut in range(0, len(good) + 1):
        yield _mb_case(good[:cut])
    a, b = rng.randbytes(32), rng.randbytes(32)
    r2 = dsha(a + b)
    for hashes, hcount, flags, fcount in [
            ([a, b], 3, b"\x07", None), ([a, b], 1, b"\x07", None), ([a, b], 0, b"\x07", None),
            ([a, b], None, b"\x07", 2), ([a, b], None, b"\x07\x00", 1), ([a, b], None, b"", 0),
            ([a, b[:20]], 2, b"", None), ([a, b], 70000, b"\x07", None), ([a, b], 0xfd, b"\x07", None),
            ([a, b], None, b"\x07", 0xffffffffffffffff), ([], 0, b"\x00", None), ([a, b], None, b"\x07" * 3, 3)]:
        yield _mb_case(mb_wire(r2, 2, hashes, flags, hcount=hcount, fcount=fcount))
    for _ in range(150 if tier == "quick" else 4000):
        n = rng.randint(1, 9)
        txids = rand_hashes(rng, n)
        m = [rng.random() < 0.5 for _ in range(n)]
        t, hashes, fl, _ = ref_build(txids, m)
        d = bytearray(mb_wire(ref_root(txids), t, hashes, fl))
        for _ in range(rng.randint(1, 2)):
            p = rng.randrange(80, len(d))
            # keep the hash count small: the real parser loops `count` times whatever the stream holds
            d[p] = rng.choice([0, 1, 2, d[p] ^ 1, rng.randrange(0, 0xfd)])
        yield _mb_case(bytes(d))
    for _ in range(150 if tier == "quick" else 4000):
        # random small proofs, mostly rejected
        t = rng.randint(0, 9)
        hashes = rand_hashes(rng, rng.randint(0, 5))
        fl = rng.randbytes(rng.randint(0, 3))
        yield from _pu_case(t, hashes, fl, rng.choice(hashes + [rng.randbytes(32)]))


BOUNDARY_TOTALS = [1, 2, 3, 4, 5, 6, 7, 8, 9, 15, 16, 17, 31, 32, 33, 63, 64, 65, 127, 128, 129, 255, 256, 257, 1000,
                   65535, 65536, 65537, (1 << 31) - 1, 1 << 31, (1 << 31) + 1, (1 << 32) - 1]


def pack_flag_bits(bits):
    fl = bytearray((len(bits) + 7) // 8)
    for p, b in enumerate(bits):
        if b:
            fl[p // 8] |= 1 << (p % 8)
    return bytes(fl)


def synth_path_proof(rng, total, pos):
    """BIP37 proof of the single leaf `pos` in a tree of `total` leaves whose other subtrees are random hashes
    (reference, after Core: no tree of `total` leaves is ever built).  Returns (bits, hashes, root, leaf)."""
    bits, hashes = [], []
    leaf = rng.randbytes(32)

    def node(height, idx):
        if (pos >> height) != idx:
            bits.append(False)
            h = rng.randbytes(32)
            hashes.append(h)
            return h
        bits.append(True)
        if height == 0:
            hashes.append(leaf)
            return leaf
        left = node(height - 1, idx * 2)
        if idx * 2 + 1 < ref_width(total, height - 1):
            right = node(height - 1, idx * 2 + 1)
        else:
            right = left
        return dsha(left + right)
    root = node(ref_height(total), 0)
    return bits, hashes, root, leaf


_LW = []


def isolate_level_widths():
    """OPTIONAL internal step: the per-level width list that post_unpack_merkleblock computes before the traversal.
    Tried in turn: the statements up to `.reverse()` re-executed from the function's source; a one-argument module-level
    helper whose name the function references and that returns such a list.  Each candidate is accepted only if it
    yields lists of ints ending in the count for a few probe values.  None when the step cannot be isolated: the cases
    are then skipped (the public-entry cases above cover every width boundary)."""
    if _LW:
        return _LW[0]
    cands = []
    try:
        import ast, inspect, textwrap
        fn = ast.parse(textwrap.dedent(inspect.getsource(post_unpack_merkleblock))).body[0]
        body = []
        found = False
        for st in fn.body:
            if isinstance(st, ast.Expr) and isinstance(st.value, ast.Constant):
                continue
            body.append(st)
            if isinstance(st, ast.Expr) and isinstance(st.value, ast.Call) and getattr(st.value.func, "attr", "") == "reverse":
                found = True
                break
        if found:
            mod = ast.Module(body=body, type_ignores=[])
            ast.fix_missing_locations(mod)
            code = compile(mod, "<level_widths>", "exec")
            target = body[-1].value.func.value.id

            def from_source(count, code=code, target=target):
                env = dict(getattr(post_unpack_merkleblock, "__globals__", {}))
                env["d"] = {"total_transactions": count}
                exec(code, env)
                return env[target]
            cands.append(from_source)
    except Exception:
        pass
    try:
        g = post_unpack_merkleblock.__globals__
        for name in post_unpack_merkleblock.__code__.co_names:
            f = g.get(name)
            if callable(f) and getattr(f, "__module__", None) == post_unpack_merkleblock.__module__ \
                    and getattr(getattr(f, "__code__", None), "co_argcount", 0) == 1 and "width" in name:
                cands.append(f)
    except Exception:
        pass
    chosen = None
    for c in cands:
        try:
            ok = all(isinstance(c(t), list) and all(isinstance(x, int) for x in c(t)) and c(t)[0] == 1
                     and c(t)[-1] == max(t, 1) for t in (1, 2, 5, 8, 1000))
        except Exception:
            ok = False
        if ok:
            chosen = c
            break
    _LW.append(chosen)
    return chosen


def nontrivial(line, r):
    return not r.startswith("!")


# ---- direct property checks ---------------------------------------------------------------------------------------
def chk_merkle(hexes, hname):
    l = [bytes.fromhex(h) for h in hexes]
    H = dsha if hname == "dsha" else sha
    Himpl = double_sha256 if hname == "dsha" else sha
    arg_list = list(l)
    got = merkle(arg_list, Himpl)
    if arg_list != l:
        return {"kind": "merkle-mutates-its-argument", "n": len(l)}
    exp = ref_root(l, H)
    if got != exp:
        return {"kind": "merkle-root-differs-from-definition", "n": len(l), "got": got.hex(), "expected": exp.hex()}
    if len(l) == 1 and got != l[0]:
        return {"kind": "merkle-single"}
    return None


def chk_header_fields(fields):
    v, p, m, t, d, n = fields[0], bytes.fromhex(fields[1]), bytes.fromhex(fields[2]), fields[3], fields[4], fields[5]
    b = Block(v, p, m, t, d, n)
    raw = b.as_bin()
    if len(raw) != 80 or raw != hdr80(v, p, m, t, d, n):
        return {"kind": "header-not-80-bytes-of-fields", "len": len(raw)}
    f = io.BytesIO(raw + b"tail")
    b2 = Block.parse_as_header(f)
    if _hdr_tuple(b2) != (v, p, m, t, d, n) or f.tell() != 80:
        return {"kind": "header-roundtrip", "got": repr(_hdr_tuple(b2))}
    if b.hash() != dsha(raw) or b.id() != dsha(raw)[::-1].hex() or b2.id() != b.id():
        return {"kind": "id-not-dsha256-of-80-bytes", "id": b.id()}
    b.set_nonce((n + 1) & 0xffffffff)
    raw2 = raw[:76] + struct.pack("<L", (n + 1) & 0xffffffff)
    if b.as_bin() != raw2 or b.id() != dsha(raw2)[::-1].hex():
        return {"kind": "id-stale-after-set_nonce", "id": b.id()}
    if b.as_blockheader().as_bin() != raw2:
        return {"kind": "as_blockheader"}
    return None


def chk_header_bytes(hx):
    data = bytes.fromhex(hx)
    f = io.BytesIO(data)
    try:
        b = Block.parse_as_header(f)
    except Exception as e:
        if len(data) >= 80:
            return {"kind": "header-parse-raises", "detail": "%s: %s" % (type(e).__name__, e)}
        if exn_tag(e) != "E_STRUCT":
            return {"kind": "short-header-unexpected-exception", "detail": type(e).__name__}
        return None
    if len(data) < 80:
        return {"kind": "short-header-accepted", "len": len(data)}
    if b.as_bin() != data[:80] or f.tell() != 80:
        return {"kind": "header-bytes-roundtrip"}
    if b.id() != dsha(data[:80])[::-1].hex():
        return {"kind": "id-not-dsha256-of-80-bytes"}
    return None


def chk_block(coin, hdr, txhex, txidhex=None):
    net = NETS[coin]
    hdr = (hdr[0], bytes.fromhex(hdr[1]), hdr[2], hdr[3], hdr[4])
    txbins = [bytes.fromhex(t) for t in txhex]
    b = make_block(coin, hdr, txbins)
    txids = [tx.hash() for tx in b.txs]
    if txidhex is not None and [t.hex() for t in txids] != txidhex:
        return {"kind": "txid-changes-through-serialisation", "n": len(txids)}
    if b.merkle_root != ref_root(txids):
        return {"kind": "merkle-root-differs-from-definition", "n": len(txids)}
    try:
        b.check_merkle_hash()
    except Exception as e:
        return {"kind": "own-root-rejected", "detail": str(e)}
    raw = b.as_bin()
    exp = hdr80(hdr[0], hdr[1], b.merkle_root, hdr[2], hdr[3], hdr[4]) + varint(len(txbins)) + b"".join(txbins)
    if raw != exp:
        return {"kind": "block-serialisation", "n": len(txbins)}
    f = io.BytesIO(raw + b"xyz")
    try:
        b2 = net.block.parse(f)
    except Exception as e:
        return {"kind": "block-parse-raises", "detail": "%s: %s" % (type(e).__name__, e), "n": len(txbins)}
    if f.tell() != len(raw) or _hdr_tuple(b2) != _hdr_tuple(b) or [t.as_bin() for t in b2.txs] != txbins:
        return {"kind": "block-roundtrip", "n": len(txbins)}
    if b2.as_bin() != raw or net.block.from_bin(raw).as_bin() != raw:
        return {"kind": "block-bytes-roundtrip", "n": len(txbins)}
    if b2.id() != dsha(raw[:80])[::-1].hex() or b2.hash() != dsha(raw[:80]) or b.id() != b2.id():
        return {"kind": "id-not-dsha256-of-80-bytes"}
    if any(t.block is not b2 for t in b2.txs):
        return {"kind": "tx.block-backlink"}
    h = net.block.parse(io.BytesIO(raw), include_transactions=False)
    if h.txs != [] or h.as_bin() != raw[:80] or h.id() != b.id():
        return {"kind": "header-of-block"}
    # bad merkle root: header root altered / one transaction altered / two transactions swapped / one dropped
    bads = []
    for pos in (0, 31, len(raw) % 32):
        x = bytearray(raw)
        x[36 + pos] ^= 0x40
        bads.append(("root", bytes(x)))
    x = bytearray(raw)
    x[-1] ^= 0x01
    bads.append(("last-tx-locktime", bytes(x)))
    if len(txbins) >= 2 and txbins[0] != txbins[1]:
        pre = raw[:80] + varint(len(txbins))
        bads.append(("swap", pre + txbins[1] + txbins[0] + b"".join(txbins[2:])))
        bads.append(("drop", raw[:80] + varint(len(txbins) - 1) + b"".join(txbins[:-1])))
    for what, bad in bads:
        try:
            net.block.from_bin(bad)
        except BadMerkleRootError:
            pass
        except Exception as e:
            return {"kind": "bad-root-other-exception", "what": what, "detail": "%s: %s" % (type(e).__name__, e)}
        else:
            # dropping the last of an odd level whose last two are equal keeps the root (CVE-2012-2459 shape): not here
            return {"kind": "bad-merkle-root-accepted", "what": what, "n": len(txbins)}
        try:
            net.block.parse(io.BytesIO(bad), check_merkle_hash=False)
        except Exception as e:
            return {"kind": "unchecked-parse-raises", "what": what, "detail": str(e)}
    return None


def _proof_of(inp):
    txids = [bytes.fromhex(t) for t in inp["txids"]]
    m = [c == "1" for c in inp["matches"]]
    return txids, m


def chk_proof(inp):
    txids, m = _proof_of(inp)
    n, hashes, fl, nbits = ref_build(txids, m)
    root = ref_root(txids)
    exp = [t for t, b in zip(txids, m) if b]
    if merkle(list(txids), double_sha256) != root:
        return {"kind": "merkle-root-differs-from-definition", "n": n}
    try:
        got = impl_parse_merkleblock(mb_wire(root, n, hashes, fl, trailing=b"\x99" * (n % 3)))
    except Exception as e:
        return {"kind": "honest-proof-rejected", "n": n, "detail": "%s: %s" % (type(e).__name__, e)}
    if got != exp:
        return {"kind": "honest-proof-wrong-matches", "n": n, "got": [g.hex()[:8] for g in got]}
    try:
        got2 = impl_post_unpack(n, hashes, fl, root)
    except Exception as e:
        return {"kind": "honest-proof-rejected", "n": n, "detail": "post_unpack %s: %s" % (type(e).__name__, e)}
    if got2 != exp:
        return {"kind": "honest-proof-wrong-matches", "n": n}
    return None


def _is_subsequence(a, b):
    it = iter(b)
    return all(any(x == y for y in it) for x in a)


def chk_corrupt(inp):
    txids, m = _proof_of(inp)
    rng = random.Random(inp["cseed"])
    cs = corruptions(rng, txids, m, all_positions=inp["all"])
    for kind, idx, (t2, h2, f2, r2) in cs:
        wire = mb_wire(r2, t2, h2, f2)
        try:
            got = impl_parse_merkleblock(wire)
        except Exception as e:
            if exn_tag(e) not in ("E_VALUE", "E_INDEX"):
                return {"kind": "corrupt-proof-unexpected-exception", "corruption": kind, "idx": idx,
                        "detail": "%s: %s" % (type(e).__name__, e)}
            continue
        if kind in MUST_RAISE:
            return {"kind": "corrupt-proof-accepted", "corruption": kind, "idx": idx, "n": len(txids),
                    "got": [g.hex()[:8] for g in got]}
        if kind == "flag_flip" and not _is_subsequence(got, txids):
            return {"kind": "accepted-proof-unsound", "corruption": kind, "idx": idx, "n": len(txids)}
    return None


def dup_attack_lists(txids):
    """CVE-2012-2459 shapes: longer txid lists with the same merkle root (last 2^k ids repeated, when the level is odd)"""
    n = len(txids)
    out = []
    k = 0
    while (1 << k) <= n:
        if n % (1 << k) == 0 and (n >> k) % 2 == 1 and (n >> k) > 1:
            out.append(txids + txids[-(1 << k):])
        k += 1
    return out


def chk_dup_attack(inp):
    txids = [bytes.fromhex(t) for t in inp["txids"]]
    root = ref_root(txids)
    for t2 in dup_attack_lists(txids):
        if ref_root(t2) != root:
            return {"kind": "harness-dup-root"}          # sanity of the construction itself
        n2 = len(t2)
        k = n2 - len(txids)
        for m in ([True] * n2, [i >= n2 - 2 * k for i in range(n2)], [i >= n2 - k for i in range(n2)]):
            t, hashes, fl, _ = ref_build(t2, m)
            try:
                got = impl_parse_merkleblock(mb_wire(root, t, hashes, fl))
            except Exception as e:
                if exn_tag(e) != "E_VALUE":
                    return {"kind": "corrupt-proof-unexpected-exception", "corruption": "dup_attack", "detail": str(e)}
                continue
            return {"kind": "duplicated-subtree-proof-accepted", "n": len(txids), "claimed_total": n2,
                    "got": [g.hex()[:8] for g in got]}
    return None


def _block_inp(rng, coin, n):
    try:
        hdr, txbins, txids = rand_block_parts(rng, coin, n)
    except Exception as e:
        return {"coin": coin, "n": n, "generator_error": "%s: %s" % (type(e).__name__, e)}
    return {"coin": coin, "hdr": [hdr[0], hdr[1].hex(), hdr[2], hdr[3], hdr[4]], "txs": [t.hex() for t in txbins],
            "txids": [t.hex() for t in txids]}


def chk_block_inp(inp):
    if "generator_error" in inp:
        return {"kind": "tx-api-raises", "detail": inp["generator_error"]}
    try:
        return chk_block(inp["coin"], inp["hdr"], inp["txs"], inp.get("txids"))
    except Exception as e:
        return {"kind": "block-api-raises", "detail": "%s: %s" % (type(e).__name__, e), "n": len(inp["txs"])}


def prop_cases(rng, tier):
    for l in gen_hash_lists(rng, tier):
        if not l:
            continue
        hx = [x.hex() for x in l]
        yield PropCase("merkle", {"hashes": hx, "hash": "dsha"}, (lambda hx=hx: chk_merkle(hx, "dsha")))
        if len(l) <= 33:
            yield PropCase("merkle", {"hashes": hx, "hash": "sha"}, (lambda hx=hx: chk_merkle(hx, "sha")))
    for f in gen_header_fields(rng, tier):
        if len(f[1]) != 32 or len(f[2]) != 32 or any(f[k] > 0xffffffff for k in (0, 3, 4, 5)):
            continue
        fj = [f[0], f[1].hex(), f[2].hex(), f[3], f[4], f[5]]
        yield PropCase("header_fields", {"fields": fj}, (lambda fj=fj: chk_header_fields(fj)))
    for inp in gen_callstyle_inputs(rng, tier):
        yield PropCase("callstyles", inp, (lambda inp=inp: _guard(chk_callstyles, inp)))
    kk = 0
    for f, ops in gen_histories(rng, tier, valid_only=True):
        kk += 1
        inp = _history_inp(f, ops, ["new", "header", "from_bin_header"][kk % 3])
        yield PropCase("history", inp, (lambda inp=inp: chk_history(inp)))
    for n in (1, 2, 3, 5):
        for coin in ("btc", "ltc"):
            binp = _block_inp(rng, coin, n)
            if "generator_error" in binp:
                continue
            for f, ops in itertools.islice(gen_histories(rng, "quick", valid_only=True), 40 if tier == "quick" else 150):
                inp = dict(_history_inp(f, ops, "block"), coin=coin, hdr=binp["hdr"], txs=binp["txs"])
                yield PropCase("history", inp, (lambda inp=inp: chk_history(inp)))
    for s in gen_header_bytes(rng, tier):
        yield PropCase("header_bytes", {"data": s.hex()}, (lambda s=s: chk_header_bytes(s.hex())))
    # real Block objects from random transactions through the public API: every size 1..70
    for n in range(1, 71):
        for coin in (["btc", "ltc"] if (n <= 8 or n % 8 == 0 or tier == "thorough") else ["btc"]):
            inp = _block_inp(rng, coin, n)
            yield PropCase("block", inp, (lambda inp=inp: chk_block_inp(inp)))
    if tier == "thorough":
        for n in (127, 128, 129, 255, 256, 257):
            inp = _block_inp(rng, "btc", n)
            yield PropCase("block", inp, (lambda inp=inp: chk_block_inp(inp)))
    for n in range(2, 71):
        txids = rand_hashes(rng, n)
        if dup_attack_lists(txids):
            inp = {"txids": [t.hex() for t in txids]}
            yield PropCase("dup_attack", inp, (lambda inp=inp: chk_dup_attack(inp)))
    k = 0
    for txids, m, exhaustive in gen_proof_inputs(rng, tier):
        k += 1
        inp = {"txids": [t.hex() for t in txids], "matches": "".join("1" if b else "0" for b in m)}
        yield PropCase("proof", inp, (lambda inp=inp: chk_proof(inp)))
        if exhaustive or k % 2 == 0 or tier == "thorough":
            inp2 = dict(inp, cseed=rng.getrandbits(32), all=bool(exhaustive or len(txids) <= 16))
            yield PropCase("corrupt", inp2, (lambda inp2=inp2: chk_corrupt(inp2)))


def _guard(fn, inp):
    try:
        return fn(inp)
    except Exception as e:
        return {"kind": "api-call-raises", "detail": "%s: %s" % (type(e).__name__, e), "what": inp.get("what")}


def replay_input(check, inp):
    if check == "callstyles":
        return _guard(chk_callstyles, inp)
    if check == "history":
        return chk_history(inp)
    if check == "dup_attack":
        return chk_dup_attack(inp)
    if check == "merkle":
        return chk_merkle(inp["hashes"], inp["hash"])
    if check == "header_fields":
        return chk_header_fields(inp["fields"])
    if check == "header_bytes":
        return chk_header_bytes(inp["data"])
    if check == "block":
        return chk_block_inp(inp)
    if check == "proof":
        return chk_proof(inp)
    if check == "corrupt":
        return chk_corrupt(inp)
    return {"kind": "unknown-check"}


def classify(pc, r):
    return None          # no open finding for C14


KNOWN_REPLAYS = {}


def _run(pc):
    try:
        return pc.thunk()
    except Exception as e:
        return {"kind": "raises", "detail": "%s: %s" % (type(e).__name__, e)}


def search(rng, tier, disagreements, known_ids):
    """after a proof/correspondence break: look for an input on which the property itself fails"""
    cands = []
    for d in disagreements[:40]:
        toks = d["case"].split(" ")
        fn = toks[0]
        try:
            if fn in ("merkle", "merkle_spec", "merkle_sha", "merkle_pair"):
                body = toks[1][1:-1]
                l = [bytes.fromhex(t[1:]) for t in body.split(",")] if body else []
                for n in {len(l), len(l) + 1, max(1, len(l) - 1), 2 * len(l) + 1}:
                    ll = (l + rand_hashes(rng, n))[:n]
                    if ll:
                        hx = [x.hex() for x in ll]
                        hn = "sha" if fn == "merkle_sha" else "dsha"
                        cands.append(PropCase("merkle", {"hashes": hx, "hash": hn}, (lambda hx=hx, hn=hn: chk_merkle(hx, hn))))
            elif fn == "parse_header":
                hx = toks[1][1:]
                cands.append(PropCase("header_bytes", {"data": hx}, (lambda hx=hx: chk_header_bytes(hx))))
            elif fn in ("block_history", "block_history_spec"):
                for f, ops in itertools.islice(gen_histories(rng, "quick", valid_only=True), 200):
                    inp = _history_inp(f, ops)
                    cands.append(PropCase("history", inp, (lambda inp=inp: chk_history(inp))))
            elif fn in ("stream_header", "block_hash", "block_id", "set_nonce_hash"):
                f = [int(toks[1][1:], 16), toks[2][1:], toks[3][1:], int(toks[4][1:], 16), int(toks[5][1:], 16), int(toks[6][1:], 16)]
                if len(f[1]) == 64 and len(f[2]) == 64 and all(f[k] <= 0xffffffff for k in (0, 3, 4, 5)):
                    cands.append(PropCase("header_fields", {"fields": f}, (lambda f=f: chk_header_fields(f))))
            elif fn == "block_parse_call":
                for inp in gen_callstyle_inputs(rng, "quick"):
                    if inp["what"] in ("block_parse", "set_txs"):
                        cands.append(PropCase("callstyles", inp, (lambda inp=inp: _guard(chk_callstyles, inp))))
            elif fn == "block_parse":
                coin = toks[1][1:]
                for n in (1, 2, 3, 5, 8):
                    inp = _block_inp(rng, coin, n)
                    cands.append(PropCase("block", inp, (lambda inp=inp: chk_block_inp(inp))))
            elif fn in ("post_unpack", "parse_merkleblock", "level_widths", "build", "matched"):
                for n in (1, 2, 3, 4, 5, 6, 7):
                    txids = rand_hashes(rng, n)
                    inp0 = {"txids": [t.hex() for t in txids]}
                    cands.append(PropCase("dup_attack", inp0, (lambda inp0=inp0: chk_dup_attack(inp0))))
                    for m in subsets(n):
                        inp = {"txids": [t.hex() for t in txids], "matches": "".join("1" if b else "0" for b in m)}
                        cands.append(PropCase("proof", inp, (lambda inp=inp: chk_proof(inp))))
                        inp2 = dict(inp, cseed=rng.getrandbits(32), all=True)
                        cands.append(PropCase("corrupt", inp2, (lambda inp2=inp2: chk_corrupt(inp2))))
                break
        except Exception:
            continue
    for pc in cands:
        r = _run(pc)
        if r is not None and classify(pc, r) not in known_ids:
            return {"check": pc.name, "input": pc.inp, "failure": r}
    for pc in prop_cases(rng, tier):
        r = _run(pc)
        if r is not None and classify(pc, r) not in known_ids:
            return {"check": pc.name, "input": pc.inp, "failure": r}
    return None
