#!/usr/bin/env python3
"""Write /verif/MANIFEST.json from harness/meta/Cxx.json (one small file per claimed property)."""
import json, os, glob
V = os.path.dirname(os.path.dirname(os.path.abspath(__file__)))
props = [json.loads(l) for l in open(os.path.join(V, "properties.jsonl"))]
ids = [p["id"] for p in props]
ready = set(open(os.path.join(V, "harness", "READY")).read().split()) if os.path.exists(os.path.join(V, "harness", "READY")) else set()
checks, na = [], []
for pid in ids:
    mp = os.path.join(V, "harness", "meta", pid + ".json")
    have = os.path.exists(mp) and os.path.exists(os.path.join(V, "harness", pid.lower() + ".py")) \
        and os.path.exists(os.path.join(V, "coq", "Props", pid + ".v")) and pid in ready
    if not have:
        reason = "no check built yet for this property (design in DESIGN.md section 6); not claimed"
        if os.path.exists(mp):
            reason = json.load(open(mp)).get("na_reason", reason)
        na.append({"property_id": pid, "reason": reason})
        continue
    m = json.load(open(mp))
    checks.append({
        "property_id": pid,
        "quick_cmd": "./check %s quick" % pid,
        "thorough_cmd": "./check %s thorough" % pid,
        "evidence_file": "/verif/evidence/%s.json" % pid,
        "replay_cmd_template": "./check replay {path}",
        "engine": "coq-proof+correspondence",
        "level_claimed": {"category": "proof", "text": m["text"], "design_ref": m.get("design_ref", "DESIGN.md section 6 " + pid)},
        "level_note": m["note"],
        "technique": m.get("technique", "machine-checked proof in Coq 8.16.1 over a Gallina model; model tied to /repo by regenerated tables and an extracted-model correspondence run"),
    })
man = {
    "version": 1,
    "setup_cmd": "./check setup",
    "hooks": {"guard": "PYCOIN_VERIF", "enable": "no source hooks are needed: every observation point is a public function (checks run /repo as is, PYTHONPATH=/repo)",
              "baseline_off_cmd": "python3 /verif/harness/baseline.py", "source_commits": [], "add_only": True},
    "engines": [{"name": "coq-proof+correspondence", "path": "/verif/check",
                 "serves_properties": [c["property_id"] for c in checks],
                 "kind_free_text": "Coq 8.16.1 theorems over hand-written Gallina models (coq/Model, coq/Proofs, coq/Props); tables regenerated from /repo (harness/gen_tables.py -> coq/Gen); models extracted to OCaml and run against the implementation on generated inputs (harness/cXX.py); failing-input search on the implementation when a proof or the correspondence breaks"}],
    "checks": checks,
    "not_applicable": na,
    "notes": "See DESIGN.md. KNOWN_FINDINGS.txt lists open and fixed findings. Each check rebuilds coq/Gen from /repo, re-makes its Props/Cxx.vo, runs the correspondence and the direct property checks, and writes evidence/Cxx.json.",
}
json.dump(man, open(os.path.join(V, "MANIFEST.json"), "w"), indent=1)
print("MANIFEST: %d checks, %d not_applicable" % (len(checks), len(na)))
