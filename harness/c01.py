"""C01 — ECDSA: deterministic signatures verify for the signer and for nobody else; RFC 6979; recovery.

Correspondence (extracted Coq model vs /repo): Curve.inverse_mod, rfc6979.deterministic_generate_k (any order,
HMAC answered by the oracle below), the RFC 6979 spec, and Generator.verify / sign_with_recid /
possible_public_pairs_for_signature on toy curves of prime order (exhaustive on the small ones).
Direct checks: the property itself on toy curves and — through one worker process per arithmetic
configuration (PYCOIN_NATIVE=openssl / none) — on secp256k1 and secp256r1, against each other, against
reference arithmetic (c01_ec.py) and against RFC 6979 recomputed with Python's hmac; Key.sign/verify via DER."""
from common import *
import hmac as _hmac, hashlib as _hashlib, json as _json, subprocess as _subprocess
import c01_ec as E
from pycoin.ecdsa.Generator import Generator
from pycoin.ecdsa.Curve import Curve
from pycoin.ecdsa.rfc6979 import deterministic_generate_k

PROP = "C01"
EXTRA_PROPS = ["C01compose"]   # composition theorems (see DESIGN.md section 0)
DRIVER = "C01"
INTERACTIVE = True


def _hmac_oracle(b):
    kl = int.from_bytes(b[:4], "big")
    return _hmac.new(b[4:4 + kl], b[4 + kl:], _hashlib.sha256).digest()


ORACLES = {"hmac_sha256": _hmac_oracle}
RULE = ("correspondence: one driver line per call of inverse_mod / deterministic_generate_k / RFC-6979 spec / verify / "
        "sign_with_recid / possible_public_pairs_for_signature / d*G on a toy curve; distinct = distinct line; "
        "non-trivial = the model returns a value (not an exception)")
PARTIAL = [
    "termination of signing (C01_sign_total) assumes that some nonce of [1, n-1] gives non-zero r and s and that the RFC 6979 "
    "HMAC loop has returned; both are hypotheses (the first checked exhaustively for two toy curves)",
    "the group laws (incl. associativity), n prime, n*P = O, the two-roots law of points_for_x are hypotheses of the theorems; "
    "discharged by kernel computation for four toy curves only (premises M2/M4 for secp256k1/secp256r1)",
    "independence of nonces for distinct (key, hash) pairs beyond injectivity of the HMAC input is a PRF property of HMAC-SHA256: no theorem",
    "production curves: no extracted-model run in the quick tier (a 256-bit scalar multiplication takes ~20 s in the extracted affine model); "
    "openssl vs pure-Python vs reference arithmetic vs RFC 6979 by direct checks",
    "libsecp256k1 is absent in this sandbox: its sign/verify overrides (native/secp256k1.py) are not exercised",
    "Key.sign / Key.verify (DER wrapper): direct checks only; DER theorems belong to C10",
]
TRUSTED = ["HMAC-SHA256 answered by Python's hmac/hashlib over the oracle pipe (key length prefix + key + message)",
           "harness/c01_ec.py reference arithmetic (pow(x,-1,p)) for the direct checks"]
ASSUMPTIONS = ["M2: the group order n is prime (hypothesis `prime n` of the theorems)",
               "group_laws / lift_laws of Spec/EcdsaSpec.v for the curve in use (proved by computation for toy curves only)"]

SECP256K1 = dict(p=2 ** 256 - 2 ** 32 - 977, a=0, b=7,
                 g=(0x79BE667EF9DCBBAC55A06295CE870B07029BFCDB2DCE28D959F2815B16F81798,
                    0x483ADA7726A3C4655DA4FBFC0E1108A8FD17B448A68554199C47D08FFB10D4B8),
                 n=0xFFFFFFFFFFFFFFFFFFFFFFFFFFFFFFFEBAAEDCE6AF48A03BBFD25E8CD0364141)
SECP256R1 = dict(p=0xFFFFFFFF00000001000000000000000000000000FFFFFFFFFFFFFFFFFFFFFFFF,
                 a=0xFFFFFFFF00000001000000000000000000000000FFFFFFFFFFFFFFFFFFFFFFFC,
                 b=0x5AC635D8AA3A93E7B3EBBD55769886BC651D06B0CC53B0F63BCE3C3E27D2604B,
                 g=(0x6B17D1F2E12C4247F8BCE6E563A440F277037D812DEB33A0F4A13945D898C296,
                    0x4FE342E2FE1A7F9B8EE7EB4A7C0F9E162BCE33576B315ECECBB6406837BF51F5),
                 n=0xFFFFFFFF00000000FFFFFFFFFFFFFFFFBCE6FAADA7179E84F3B9CAC2FC632551)
PROD = {"secp256k1": E.RefCurve(**SECP256K1), "secp256r1": E.RefCurve(**SECP256R1)}
N384 = 0xffffffffffffffffffffffffffffffffffffffffffffffffc7634d81f4372ddf581a0db248b0a77aecec196accc52973
N521 = 2 ** 521 - 0x5AE79787C40D069948033FEB708F65A2FC44A36477663B851449048E16EC79BF6 - 1  # any 521-bit integer will do

SMALL = E.small_toy_curves()
BIG = E.big_toy_curves()


_GENS = {}


def gen_of(params):
    params = tuple(params)
    g = _GENS.get(params)
    if g is None:
        p, a, b, gx, gy, n = params
        g = Generator(p, a, b, (gx, gy), n, lambda k: b"\x5a" * k)      # public constructor, fixed blinding factor
        _GENS[params] = g
    return g


def ref_of(params):
    p, a, b, gx, gy, n = params
    return E.RefCurve(p, a, b, (gx, gy), n)


def cv(params):
    return " ".join(arg(v) for v in params)


def _pt(P):
    return (None, None) if P is None else tuple(P)


def _z_octets(z):
    return z.to_bytes(32, "big")


# ------------------------------------------------------------------------------------------------
# implementation thunks (toy curves)
def impl_verify(params, Q, z, r, s):
    return call(lambda: gen_of(params).verify(_pt(Q), z, (r, s)))


def impl_sign(params, d, z):
    if z != 0 and not has_good_nonce(ref_of(params), d, z):
        # no nonce of [1, n-1] gives non-zero r and s: the implementation would not terminate; the reference
        # arithmetic predicts that, the implementation is not called (see C01_sign_loop_total)
        try:
            deterministic_generate_k(params[5], d, z)
        except Exception as e:
            return "!" + exn_tag(e)
        return "!OUT_OF_FUEL"
    return call(lambda: tuple(gen_of(params).sign_with_recid(d, z)))


def impl_sign_k(params, d, z, k):
    if z != 0 and k % params[5] != 0 and not has_good_nonce(ref_of(params), d, z):
        return "!OUT_OF_FUEL"
    return call(lambda: tuple(gen_of(params).sign_with_recid(d, z, gen_k=lambda *_: k)))


def impl_recover(params, z, r, s, yp):
    return call(lambda: [tuple(P) for P in gen_of(params).possible_public_pairs_for_signature(z, (r, s), yp)])


def impl_pub(params, d):
    return call(lambda: tuple(d * gen_of(params)))


def _tok_pt(Q):
    return "N N" if Q is None else "%s %s" % (arg(Q[0]), arg(Q[1]))


def case_verify(params, Q, z, r, s):
    return Case("verify %s %s %s %s %s" % (cv(params), _tok_pt(Q), arg(z), arg(r), arg(s)),
                (lambda: impl_verify(params, Q, z, r, s)))


def case_sign(params, d, z, fuel):
    return Case("sign i12c %s %s %s %s" % (arg(fuel), cv(params), arg(d), arg(z)), (lambda: impl_sign(params, d, z)))


def case_sign_k(params, d, z, k, fuel):
    return Case("sign_k %s %s %s %s %s" % (arg(fuel), cv(params), arg(d), arg(z), arg(k)),
                (lambda: impl_sign_k(params, d, z, k)))


def case_recover(params, z, r, s, yp):
    return Case("recover %s %s %s %s %s" % (cv(params), arg(z), arg(r), arg(s), "N" if yp is None else arg(yp)),
                (lambda: impl_recover(params, z, r, s, yp)))


def case_pub(params, d):
    return Case("pubkey %s %s" % (cv(params), arg(d)), (lambda: impl_pub(params, d)))


def case_gen_k(n, d, z):
    return Case("gen_k i12c %s %s %s" % (arg(n), arg(d), arg(z)), (lambda: call(deterministic_generate_k, n, d, z)))


def case_spec_k(n, d, z):
    # the RFC spec on the octet string of the hash: must agree with the implementation for 0 <= z < 2^256
    return Case("spec_k i12c %s %s %s" % (arg(n), arg(d), arg(_z_octets(z))), (lambda: call(deterministic_generate_k, n, d, z)))


def case_inv(a, m):
    return Case("inverse_mod %s %s" % (arg(a), arg(m)), (lambda: call(Curve.inverse_mod, None, a, m)))


# ------------------------------------------------------------------------------------------------
def _all_points(ref):
    return [None] + [(x, y) for x in range(ref.p) for y in range(ref.p) if ref.on_curve((x, y))]


def _some_point(ref, rng):
    return ref.mul(rng.randrange(1, ref.n), ref.g)


def _off_curve(ref, rng):
    while True:
        Q = (rng.randrange(ref.p), rng.randrange(ref.p))
        if not ref.on_curve(Q):
            return Q


def _infinity_Q(ref, z, r):
    """Q = -(z/r)*G: then (z/s)*G + (r/s)*Q is the point at infinity for every s"""
    return ref.mul(-z * pow(r, -1, ref.n), ref.g)


def _interesting_scalars(ref):
    n, p = ref.n, ref.p
    return [0, 1, n - 1, n, n + 1, p, 2 ** 256 - 1, -1]


def toy_cases(rng, tier):
    thorough = tier == "thorough"
    # --- exhaustive sign over (d, z): z = 1..n covers every residue incl. z = n (0 mod n)
    lim = 61 if thorough else 23
    for c in SMALL:
        if c.n > lim:
            continue
        P = c.params()
        for d in range(1, c.n):
            for z in range(1, c.n + 1):
                yield case_sign(P, d, z, c.n + 2)
    # --- exhaustive sign with a caller-supplied nonce over (d, z, k)
    lim = 13 if thorough else 7
    for c in SMALL:
        if c.n > lim:
            continue
        P = c.params()
        for d in range(1, c.n):
            for z in range(1, c.n + 1):
                for k in range(0, c.n + 1):
                    yield case_sign_k(P, d, z, k, c.n + 2)
    # --- exhaustive verify / recover on the smallest curves
    ex = [c for c in SMALL if c.n <= (11 if thorough else 7)]
    if not thorough:
        ex = ex[:2]
    for c in ex:
        P = c.params()
        pts = _all_points(c)
        for Q in pts:
            for z in range(0, c.n + 2):
                for r in range(0, c.n + 1):
                    for s in range(0, c.n + 1):
                        yield case_verify(P, Q, z, r, s)
        for z in range(0, c.n + 1):
            for r in range(0, c.n + 1):
                for s in range(0, c.n + 1):
                    for yp in (None, 0, 1):
                        yield case_recover(P, z, r, s, yp)
        for d in range(-2, 2 * c.n + 2):
            yield case_pub(P, d)
    # --- structured stream on every curve: valid signatures and their neighbourhood
    reps = 60 if thorough else 4
    for c in SMALL + BIG:
        P = c.params()
        n, p = c.n, c.p
        heavy = p.bit_length() > 24 and not thorough       # the extracted affine model costs ~20-60 ms per operation there
        big = p.bit_length() > 24
        for _ in range(reps if c.p < 50 else (1 if heavy else (reps if big else 3 * reps))):
            d = rng.randrange(1, n)
            z = rng.choice([rng.randrange(1, n), rng.getrandbits(256) or 1, rng.randrange(1, 4 * n), n])
            yield case_sign(P, d, z, min(n + 2, 60))
            yield case_pub(P, d)
            k = rng.randrange(1, n)
            sig = c.sig_from_nonce(d, z, k)
            yield case_sign_k(P, d, z, k, min(n + 2, 60))
            if sig is None:
                continue
            r, s, recid = sig
            Q = c.mul(d, c.g)
            yield case_verify(P, Q, z, r, s)
            yield case_verify(P, Q, z, r, n - s)
            yield case_verify(P, Q, z + n, r, s)
            yield case_verify(P, Q, z + 1, r, s)
            yield case_verify(P, Q, z, r, (s + 1) % n)
            yield case_verify(P, Q, z, (r + 1) % n, s)
            yield case_verify(P, c.neg(Q), z, r, s)
            yield case_verify(P, _some_point(c, rng), z, r, s)
            yield case_verify(P, _off_curve(c, rng), z, r, s)
            yield case_verify(P, None, z, r, s)
            yield case_verify(P, (Q[0] + p, Q[1]), z, r, s)              # unreduced coordinates of a curve point
            yield case_verify(P, (Q[0] - p, Q[1] + 2 * p), n, r, r)
            if z % n:
                yield case_verify(P, _infinity_Q(c, z, r), z, r, s)
            yield case_recover(P, z, r, s, None)
            yield case_recover(P, z, r, s, recid)
            yield case_recover(P, z, r, s, recid ^ 1)
            yield case_recover(P, z, r, n - s, None)
            yield case_recover(P, z + 1, r, s, rng.choice([None, 0, 1, 2, 3, 255]))
        # --- malformed stream
        Q = _some_point(c, rng)
        vals = _interesting_scalars(c)
        if heavy:
            vals = rng.sample(vals, 3)
        for r in vals:
            for s in vals:
                z = rng.choice([1, n, 2 ** 256 - 1, rng.randrange(1, n)])
                yield case_verify(P, Q, z, r, s)
                yield case_recover(P, z, r, s, rng.choice([None, 0, 1]))
        for z in (0, n, 2 * n, 2 ** 256 - 1, 2 ** 256, -1, -n):
            r, s = rng.randrange(1, n), rng.randrange(1, n)
            yield case_verify(P, Q, z, r, s)
            yield case_verify(P, _off_curve(c, rng), z, r, s)
            yield case_recover(P, z, r, s, None)
            yield case_sign(P, rng.randrange(1, n), z, min(n + 2, 60))
        for d in (0, n, n + 1, -1, 2 ** 256, 256 ** ((n.bit_length() + 7) // 8) - 1, 256 ** ((n.bit_length() + 7) // 8)):
            yield case_sign(P, d, rng.randrange(1, n), min(n + 2, 60))
            yield case_pub(P, d)
        if p < 50:
            for r in range(1, n):                                # sum point = the key itself, given unreduced
                yield case_verify(P, (c.g[0] + p, c.g[1]), n, r, r)
        for r in range(max(1, p - 2), min(n, p + 3)):          # abscissae around p (exist only when n > p)
            yield case_recover(P, rng.randrange(1, n), r, rng.randrange(1, n), None)


def genk_cases(rng, tier):
    thorough = tier == "thorough"
    orders = sorted({c.n for c in SMALL + BIG}) + [SECP256K1["n"], SECP256R1["n"], N384, N521, 2, 3, 4, 255, 256, 257,
                                                     2 ** 255 - 19, 2 ** 255 + 95, 2 ** 256 - 189, 2 ** 256 + 297,
                                                     2 ** 248 + 1, 2 ** 264 - 1, 2 ** 127 - 1, 65537]
    reps = 40 if thorough else 3
    for n in orders:
        osz = (n.bit_length() + 7) // 8
        for _ in range(reps):
            d = rng.randrange(1, n)
            z = rng.choice([rng.getrandbits(256), rng.randrange(0, 2 * n + 2), rng.getrandbits(rng.randrange(1, 257))])
            yield case_gen_k(n, d, z)
            if 0 <= z < 2 ** 256:
                yield case_spec_k(n, d, z)
        for d in (0, 1, n - 1, n, -1, 256 ** osz - 1, 256 ** osz):
            yield case_gen_k(n, d, rng.getrandbits(256))
        for z in (0, 1, n - 1, n, n + 1, 2 * n - 1, 2 * n, 2 ** 256 - 1, 2 ** 256, 2 ** 256 + n, -1, 256 ** osz, 2 ** 600):
            d = rng.randrange(1, n)
            yield case_gen_k(n, d, z)
            if 0 <= z < 2 ** 256:
                yield case_spec_k(n, d, z)
    # exhaustive over (d, z) for three small orders
    for n in (5, 7, 13) + ((17, 19, 23, 29, 31) if thorough else ()):
        for d in range(0, n + 1):
            for z in range(0, 2 * n + 2):
                yield case_gen_k(n, d, z)
                if 1 <= d < n:
                    yield case_spec_k(n, d, z)
    # hashes with high bits set (the shift for short orders)
    for n in (13, 263, 64969, 1019503, 2305843009264825729):
        for _ in range(reps):
            z = rng.getrandbits(256) | (1 << 255)
            d = rng.randrange(1, n)
            yield case_gen_k(n, d, z)
            yield case_spec_k(n, d, z)


def inv_cases(rng, tier):
    thorough = tier == "thorough"
    for m in range(1, 41 if not thorough else 90):
        for a in range(-m - 2, 2 * m + 3):
            yield case_inv(a, m)
    mods = [SECP256K1["n"], SECP256K1["p"], SECP256R1["n"], SECP256R1["p"], N384, 2 ** 256, 2 ** 255 - 19, 3 * 5 * 7 * 11 * 13 * 2 ** 200]
    mods += [c.n for c in BIG] + [c.p for c in BIG]
    for m in mods:
        for a in (0, 1, 2, m - 1, m, m + 1, -1, 2 * m + 1, m // 2, m // 3):
            yield case_inv(a, m)
        for _ in range(200 if thorough else 4):
            yield case_inv(rng.randrange(-m, 2 * m), m)
    for _ in range(4000 if thorough else 150):
        m = rng.getrandbits(rng.choice([8, 16, 33, 64, 130, 256, 300])) + 1
        yield case_inv(rng.randrange(-m, 2 * m), m)


def prod_model_cases(rng, tier):
    """the extracted affine model on the production curves: ~20-60 s per case, thorough tier only"""
    if tier != "thorough":
        return
    for name in ("secp256k1", "secp256r1"):
        c = PROD[name]
        P = c.params()
        d = rng.randrange(1, c.n)
        z = rng.getrandbits(256)
        yield Case("sign i12c i4 %s %s %s" % (cv(P), arg(d), arg(z)), (lambda name=name, d=d, z=z: _prod_main(name, "sign", d=d, z=z)))
        k = E.rfc6979_k(c.n, d, _z_octets(z))
        r, s, _ = c.sig_from_nonce(d, z, k)
        Q = c.mul(d, c.g)
        yield Case("verify %s %s %s %s %s" % (cv(P), _tok_pt(Q), arg(z), arg(r), arg(s)),
                   (lambda name=name, Q=Q, z=z, r=r, s=s: _prod_main(name, "verify", q=Q, z=z, r=r, s=s)))


def _prod_main(name, op, **kw):
    """the production generators of the main harness process (default configuration: OpenSSL when libcrypto loads)"""
    from pycoin.ecdsa.secp256k1 import secp256k1_generator
    from pycoin.ecdsa.secp256r1 import secp256r1_generator
    g = {"secp256k1": secp256k1_generator, "secp256r1": secp256r1_generator}[name]
    if op == "sign":
        return call(lambda: tuple(g.sign_with_recid(kw["d"], kw["z"])))
    if op == "verify":
        return call(lambda: g.verify(_pt(kw["q"]), kw["z"], (kw["r"], kw["s"])))
    raise ValueError(op)


def model_cases(rng, tier):
    _start_workers(tier)
    for c in inv_cases(rng, tier):
        yield c
    for c in genk_cases(rng, tier):
        yield c
    for c in history_model_cases(rng_for(int(os.environ.get("VERIF_SEED", "0") or 0), PROP, "history-model"), tier):
        yield c
    for c in toy_cases(rng, tier):
        yield c
    for c in prod_model_cases(rng, tier):
        yield c


# ------------------------------------------------------------------------------------------------
# direct property checks on toy curves
def _first_good_nonce(ref, d, z, k0):
    """pycoin's retry rule `k += 1; if k >= n: k = 1`: the first nonce of the cycle k0, k0+1, .., n-1, 1, .., k0-1 with
    non-zero r and s; None when no nonce of [1, n-1] is good (the implementation then loops forever)"""
    n = ref.n
    k = k0
    for _ in range(n - 1):
        sig = ref.sig_from_nonce(d, z, k)
        if sig is not None:
            return k, sig
        k += 1
        if k >= n:
            k = 1
    return None


def has_good_nonce(ref, d, z):
    """False only when sign_with_recid(d, z) would cycle forever on this (small) curve"""
    if ref.n > 200:
        return True
    return any(ref.sig_from_nonce(d, z, k) is not None for k in range(1, ref.n))


def chk_toy_sign(params, d, z):
    params = tuple(params)
    G, ref = gen_of(params), ref_of(params)
    n = ref.n
    k0 = E.rfc6979_k(n, d, _z_octets(z)) if 0 <= z < 2 ** 256 else None
    if not has_good_nonce(ref, d, z):
        return None          # no nonce of [1, n-1] signs: outside the hypotheses of C01_sign_total (and the call would not return)
    try:
        r, s, recid = G.sign_with_recid(d, z)
    except Exception as e:
        return {"kind": "sign-raises", "exc": exn_tag(e), "k0": k0}
    if not (1 <= r < n and 1 <= s < n):
        return {"kind": "sig-out-of-range", "sig": [r, s]}
    Q = ref.mul(d, ref.g)
    if tuple(d * G) != _pt(Q):
        return {"kind": "pubkey-mismatch", "impl": list(d * G), "ref": Q}
    if G.verify(_pt(Q), z, (r, s)) is not True or not ref.verify(Q, z, r, s):
        return {"kind": "own-signature-does-not-verify", "sig": [r, s]}
    if tuple(G.sign(d, z)) != (r, s):
        return {"kind": "sign-differs-from-sign_with_recid"}
    if k0 is not None:
        exp = ref.sig_from_nonce(d, z, k0)
        if exp is not None:
            if exp != (r, s, recid):
                return {"kind": "not-the-rfc6979-signature", "impl": [r, s, recid], "rfc6979": list(exp), "k": k0}
        else:
            fg = _first_good_nonce(ref, d, z, k0)
            if fg is None or fg[1] != (r, s, recid):
                return {"kind": "retry-rule-mismatch", "impl": [r, s, recid], "expected": fg}
    # low-S symmetry and rejection of the neighbours
    if G.verify(_pt(Q), z, (r, n - s)) is not True:
        return {"kind": "low-s-symmetry", "sig": [r, n - s]}
    # recovery
    rec = [tuple(P) for P in G.possible_public_pairs_for_signature(z, (r, s))]
    for P in rec:
        if not G.verify(P, z, (r, s)):
            return {"kind": "recovered-key-does-not-verify", "r": r, "s": s, "key": list(P)}
    if recid < 2:
        if _pt(Q) not in rec:
            return {"kind": "signer-not-recovered", "recid": recid, "rec": rec}
        one = [tuple(P) for P in G.possible_public_pairs_for_signature(z, (r, s), recid)]
        if one != [_pt(Q)]:
            return {"kind": "recid-selects-wrong-key", "recid": recid, "got": one}
    return None


def chk_toy_verify(params, Q, z, r, s):
    """verification iff: the implementation's verdict equals the textbook predicate (z != 0, Q a curve point)"""
    params = tuple(params)
    G, ref = gen_of(params), ref_of(params)
    Q = None if Q is None else tuple(Q)
    try:
        got = G.verify(_pt(Q), z, (r, s))
    except Exception as e:
        return {"kind": "verify-raises", "exc": exn_tag(e)}
    want = (z != 0) and ref.verify(Q, z, r, s)
    if got is not want:
        return {"kind": "verify-verdict", "impl": got, "textbook": want}
    return None


def chk_toy_recover(params, z, r, s):
    params = tuple(params)
    G, ref = gen_of(params), ref_of(params)
    n, p = ref.n, ref.p
    try:
        rec = [tuple(P) for P in G.possible_public_pairs_for_signature(z, (r, s))]
    except Exception as e:
        return {"kind": "recover-raises", "exc": exn_tag(e)}
    if z == 0:
        return None
    for P in rec:
        canon_P = None if P[0] is None else (P[0] % p, P[1] % p)
        if not G.verify(P, z, (r, s)) or not ref.verify(canon_P, z, r, s):
            return {"kind": "recovered-key-does-not-verify", "r": r, "s": s, "key": list(P)}
    if 1 <= r < n and 1 <= s < n:
        # completeness: every key whose sum point has abscissa exactly r is returned
        ir = pow(r, -1, n)
        for R in ref.points_with_x(r):
            Qk = ref.add(ref.mul(s * ir, R), ref.mul(-z * ir, ref.g))
            if _pt(Qk) not in rec:
                return {"kind": "verifying-key-not-recovered", "key": Qk}
    return None


def chk_toy_noncanonical(params, Q, z, r, s):
    """a public pair given with unreduced coordinates (x + p, y) must be judged like (x, y)"""
    params = tuple(params)
    G, ref = gen_of(params), ref_of(params)
    Q = tuple(Q)
    try:
        a = G.verify(Q, z, (r, s))
        b = G.verify((Q[0] + ref.p, Q[1]), z, (r, s))
    except Exception as e:
        return {"kind": "verify-raises", "exc": exn_tag(e)}
    if a is not b:
        return {"kind": "unreduced-public-pair-judged-differently", "canonical": a, "unreduced": b,
                "corner": z % ref.n == 0 and r == s}
    return None


def toy_prop_cases(rng, tier):
    thorough = tier == "thorough"
    # regression: the two inputs that failed before commits de8ed07 (retry run reached k = n) and 28216b2 (r >= p)
    yield PropCase("toy_sign", {"curve": _W, "d": 2, "z": 11}, (lambda: chk_toy_sign(_W, 2, 11)))
    yield PropCase("toy_recover", {"curve": _W, "z": 1, "r": 8, "s": 1}, (lambda: chk_toy_recover(_W, 1, 8, 1)))
    # the corner that used to fail before commit bbdd27a (Curve.multiply returned unreduced coordinates for e = 1 mod n)
    yield PropCase("toy_noncanonical", {"curve": _W, "q": (1, 2), "z": 13, "r": 8, "s": 8}, (lambda: chk_toy_noncanonical(_W, (1, 2), 13, 8, 8)))
    for c in SMALL:
        Q = c.g
        for r in range(1, c.n):
            yield PropCase("toy_noncanonical", {"curve": c.params(), "q": Q, "z": c.n, "r": r, "s": r},
                           (lambda P=c.params(), Q=Q, n=c.n, r=r: chk_toy_noncanonical(P, Q, n, r, r)))
    lim = 43 if thorough else 11
    for c in SMALL:
        P = c.params()
        if c.n <= lim:
            for d in range(1, c.n):
                for z in range(1, c.n + 1):
                    yield PropCase("toy_sign", {"curve": P, "d": d, "z": z}, (lambda P=P, d=d, z=z: chk_toy_sign(P, d, z)))
    ex = [c for c in SMALL if c.n <= (11 if thorough else 7)]
    for c in (ex if thorough else ex[1:3]):
        P = c.params()
        for Q in _all_points(c):
            for z in range(1, c.n + 2):
                for r in range(0, c.n + 1):
                    for s in range(0, c.n + 1):
                        yield PropCase("toy_verify", {"curve": P, "q": Q, "z": z, "r": r, "s": s},
                                       (lambda P=P, Q=Q, z=z, r=r, s=s: chk_toy_verify(P, Q, z, r, s)))
    for c in SMALL:
        if c.n > (61 if thorough else 13):
            continue
        P = c.params()
        full = c.n <= (13 if thorough else 7)
        zs = range(1, c.n + 1) if full else [1, c.n, rng.randrange(1, c.n)]
        for z in zs:
            for r in range(0, c.n + 1):
                for s in (range(0, c.n + 1) if full else [1, r, rng.randrange(1, c.n)]):
                    yield PropCase("toy_recover", {"curve": P, "z": z, "r": r, "s": s},
                                   (lambda P=P, z=z, r=r, s=s: chk_toy_recover(P, z, r, s)))
    for c in SMALL + BIG:
        P = c.params()
        n = c.n
        for _ in range(40 if thorough else 3):
            d = rng.randrange(1, n)
            z = rng.choice([rng.randrange(1, n), rng.getrandbits(256) or 1, n])
            yield PropCase("toy_sign", {"curve": P, "d": d, "z": z}, (lambda P=P, d=d, z=z: chk_toy_sign(P, d, z)))
            k = rng.randrange(1, n)
            sig = c.sig_from_nonce(d, z, k)
            if sig is None:
                continue
            r, s, _ = sig
            Q = c.mul(d, c.g)
            muts = [(Q, z, r, s), (Q, z, r, n - s), (Q, z + 1, r, s), (Q, z + n, r, s), (Q, z, r, (s + 1) % n),
                    (c.neg(Q), z, r, s), (_some_point(c, rng), z, r, s), (None, z, r, s),
                    (Q, z, r + n, s), (Q, z, r, s + n), (Q, z, 0, s), (Q, z, r, 0), (Q, z, n, s), (Q, z, r, n)]
            if z % n:
                muts.append((_infinity_Q(c, z, r), z, r, s))
            for (Q1, z1, r1, s1) in muts:
                yield PropCase("toy_verify", {"curve": P, "q": Q1, "z": z1, "r": r1, "s": s1},
                               (lambda P=P, Q1=Q1, z1=z1, r1=r1, s1=s1: chk_toy_verify(P, Q1, z1, r1, s1)))
            yield PropCase("toy_recover", {"curve": P, "z": z, "r": r, "s": s}, (lambda P=P, z=z, r=r, s=s: chk_toy_recover(P, z, r, s)))
            yield PropCase("toy_recover", {"curve": P, "z": z + 1, "r": r, "s": n - s},
                           (lambda P=P, z=z, r=r, s=s: chk_toy_recover(P, z + 1, r, n - s)))
            yield PropCase("toy_noncanonical", {"curve": P, "q": Q, "z": z, "r": r, "s": s},
                           (lambda P=P, Q=Q, z=z, r=r, s=s: chk_toy_noncanonical(P, Q, z, r, s)))



# ------------------------------------------------------------------------------------------------
# histories of calls, configurations in both orders, presentations (round c)
#
# An `op` is a JSON-able dict: {"op": "gen_k", "n", "d", "z", "hashf"} | {"op": "sign", "curve", "d", "z"} |
# {"op": "verify", "curve", "q", "z", "r", "s"} | {"op": "recover", "curve", "z", "r", "s", "yp"};
# "curve" is a 6-list of toy parameters or the name of a production curve.  A history is a list of ops executed in
# order in THIS process on the cached generator objects; every result is compared with reference arithmetic that
# knows nothing of the history (c01_ec.py, RFC 6979 with Python's hmac), and the last op also with a FRESH generator object.
HASH_M = (1 << 61) - 1          # CPython: hash(int) is the residue modulo 2**61 - 1


def _collide(v, lo, hi, js=(1, -1, 5, 2, -3)):
    """values of [lo, hi) that differ from v by a multiple of the Python hash modulus"""
    return [v + j * HASH_M for j in js if lo <= v + j * HASH_M < hi]


def _curve_ref(cur):
    return PROD[cur] if isinstance(cur, str) else ref_of(tuple(cur))


def _curve_gen(cur, fresh=False):
    if isinstance(cur, str):
        from pycoin.ecdsa.secp256k1 import secp256k1_generator
        from pycoin.ecdsa.secp256r1 import secp256r1_generator
        g = {"secp256k1": secp256k1_generator, "secp256r1": secp256r1_generator}[cur]
        if fresh:
            g = type(g)(g._p, g._a, g._b, (g[0], g[1]), g._order)
        return g
    if fresh:
        p, a, b, gx, gy, n = tuple(cur)
        return Generator(p, a, b, (gx, gy), n)
    return gen_of(tuple(cur))


def _hashf(name):
    return getattr(_hashlib, name or "sha256")


def run_op(op, fresh=False, wrap=None):
    """the implementation's canonical answer; wrap = a function applied to every int argument (presentations)"""
    w = wrap or (lambda v: v)
    kind = op["op"]
    if kind == "gen_k":
        if op.get("hashf"):
            return call(lambda: int(deterministic_generate_k(w(op["n"]), w(op["d"]), w(op["z"]), _hashf(op["hashf"]))))
        return call(lambda: int(deterministic_generate_k(w(op["n"]), w(op["d"]), w(op["z"]))))
    g = _curve_gen(op["curve"], fresh)
    if kind == "sign":
        return call(lambda: tuple(int(v) for v in g.sign_with_recid(w(op["d"]), w(op["z"]))))
    if kind == "verify":
        q = (None, None) if op["q"] is None else (w(op["q"][0]), w(op["q"][1]))
        return call(lambda: g.verify(q, w(op["z"]), (w(op["r"]), w(op["s"]))))
    if kind == "recover":
        yp = op.get("yp")
        return call(lambda: [tuple(P) for P in g.possible_public_pairs_for_signature(w(op["z"]), (w(op["r"]), w(op["s"])), None if yp is None else w(yp))])
    raise ValueError(kind)


def ref_op(op):
    """the required answer, from reference arithmetic; None = no requirement (outside the property's domain)"""
    kind = op["op"]
    if kind == "gen_k":
        hf = _hashf(op.get("hashf"))
        hs = hf().digest_size
        n, d, z = op["n"], op["d"], op["z"]
        if not (n >= 2 and 0 <= d < n and 0 <= z < 1 << (8 * hs)):
            return None
        return canon(E.rfc6979_k(n, d, z.to_bytes(hs, "big"), hf))
    c = _curve_ref(op["curve"])
    n, p = c.n, c.p
    if kind == "sign":
        d, z = op["d"], op["z"]
        if not (1 <= d < n and 0 < z < 1 << 256) or not has_good_nonce(c, d, z):
            return None
        fg = _first_good_nonce(c, d, z, E.rfc6979_k(n, d, _z_octets(z)))
        return None if fg is None else canon(fg[1])
    if kind == "verify":
        q = None if op["q"] is None else tuple(op["q"])
        if not c.on_curve(q):
            return None
        return canon(op["z"] != 0 and c.verify(q, op["z"], op["r"], op["s"]))
    if kind == "recover":
        z, r, s, yp = op["z"], op["r"], op["s"], op.get("yp")
        if not (1 <= r < n and 1 <= s < n and r < p):
            return "[]"
        ir = pow(r, -1, n)
        pts = c.points_with_x(r)
        if len(pts) == 2 and pts[0][1] == 0:
            return None
        if yp is not None:
            pts = pts[1:] if yp & 1 else pts[:1]
        return canon([_pt(c.add(c.mul(s * ir, R), c.mul(-z * ir, c.g))) for R in pts])
    raise ValueError(kind)


def _fresh_process(op):
    """the answer of a new interpreter that has seen no other call (module-level state empty)"""
    try:
        env = dict(os.environ, PYTHONPATH=REPO + ":" + os.path.join(VERIF, "harness"))
        pr = _subprocess.run([PY, "-W", "ignore", os.path.join(VERIF, "harness", "c01_worker.py")], input=_json.dumps([op]).encode(),
                             stdout=_subprocess.PIPE, stderr=_subprocess.PIPE, env=env, timeout=300)
        return _json.loads(pr.stdout)["results"][0]
    except Exception as e:
        return "?" + type(e).__name__


def chk_history(ops):
    """history independence: every call of the sequence answers as the reference does, and as a fresh object does"""
    for i, op in enumerate(ops):
        want = ref_op(op)
        if op["op"] == "sign" and want is None:
            continue                      # no requirement / would not terminate: not called
        got = run_op(op)
        if want is not None and got != want:
            alone = run_op(op, fresh=True) if op["op"] != "gen_k" else _fresh_process(op)
            return {"kind": "result-depends-on-history" if (i > 0 and alone == want) else "differs-from-reference", "index": i, "op": op,
                    "impl": got, "reference": want, "fresh_object_or_process": alone, "history": ops[:i]}
    last = ops[-1]
    if last["op"] != "gen_k" and not (last["op"] == "sign" and ref_op(last) is None):
        a, b = run_op(last), run_op(last, fresh=True)
        if a != b:
            return {"kind": "cached-object-differs-from-fresh-object", "op": last, "cached": a, "fresh": b, "history": ops[:-1]}
    return None


class _I(int):
    """an int subclass (exotic but legal argument type)"""
    __slots__ = ()


class _IH(int):
    """an int subclass with its own (legal, value-compatible but degenerate) hash"""
    __slots__ = ()

    def __hash__(self):
        return 7


def _as_bool(v):
    return bool(v) if v in (0, 1) else v


PRESENTATIONS = {"int_subclass": _I, "int_subclass_const_hash": _IH, "bool_for_0_1": _as_bool}


def chk_presentation(op):
    """presentation independence: int subclasses / bools / lists for tuples give the answer of the plain ints"""
    base = run_op(op)
    want = ref_op(op)
    if op["op"] == "sign" and want is None:
        return None
    if want is not None and base != want:
        return {"kind": "differs-from-reference", "op": op, "impl": base, "reference": want}
    for name, w in PRESENTATIONS.items():
        got = run_op(op, wrap=w)
        if got != base:
            return {"kind": "presentation-changes-the-answer", "presentation": name, "op": op, "plain": base, "presented": got}
    if op["op"] == "verify" and op["q"] is not None:
        g = _curve_gen(op["curve"])
        for name, q in (("list_pair", list(op["q"])), ("Point", g.Point(*op["q"]) if _curve_ref(op["curve"]).on_curve(tuple(op["q"])) else None)):
            if q is None:
                continue
            for sname, sig in (("tuple_sig", (op["r"], op["s"])), ("list_sig", [op["r"], op["s"]])):
                got = call(lambda: g.verify(q, op["z"], sig))
                if got != base:
                    return {"kind": "presentation-changes-the-answer", "presentation": name + "/" + sname, "op": op, "plain": base, "presented": got}
    return None


def chk_key_presentation(d, z, tamper):
    """Key.sign / Key.verify on BTC: bytes / bytearray / memoryview hashes and bytes / bytearray signatures agree, and
    agree with the reference DER signature"""
    from pycoin.symbols.btc import network as btc
    c = PROD["secp256k1"]
    h = _z_octets(z)
    k = btc.keys.private(d)
    r, s, _ = c.sig_from_nonce(d, z, E.rfc6979_k(c.n, d, h))
    want = _der(r, s)
    for name, hh in (("bytes", h), ("bytearray", bytearray(h)), ("memoryview", memoryview(h))):
        got = call(k.sign, hh)
        if got != canon(want):
            return {"kind": "Key.sign-differs-from-reference", "hash_as": name, "impl": got, "reference": canon(want)}
        sig = want if not tamper else want[:-1] + bytes([want[-1] ^ 1])
        for sname, ss in (("bytes", sig), ("bytearray", bytearray(sig))):
            got = call(k.verify, hh, ss)
            if got != canon(not tamper):
                return {"kind": "Key.verify-verdict", "hash_as": name, "sig_as": sname, "tampered": tamper, "impl": got}
    return None


def _sig_for(c, rng):
    while True:
        d = rng.randrange(1, c.n)
        z = rng.getrandbits(256) or 1
        k = rng.randrange(1, c.n)
        sig = c.sig_from_nonce(d, z, k)
        if sig is not None and has_good_nonce(c, d, z):
            return d, z, sig


def history_ops(rng, tier):
    """generator of histories: (name, ops)"""
    thorough = tier == "thorough"
    reps = 6 if thorough else 1
    big61 = [c for c in BIG if c.n > HASH_M]
    mids = [c for c in BIG if 1 << 20 < c.n < HASH_M][:3]
    toys = [SMALL[3], SMALL[8], SMALL[20]] + mids + big61
    k1, r1 = SECP256K1["n"], SECP256R1["n"]
    for _ in range(reps):
        # --- nonce function: arguments colliding under hash(), in both orders, then the first call again
        for n in [c.n for c in toys] + [k1, r1, N384, 2 ** 255 - 19]:
            d = rng.randrange(1, min(n, max(2, n - HASH_M)) if n > HASH_M + 2 else n)
            z = rng.getrandbits(250) + HASH_M * 8
            base = {"op": "gen_k", "n": n, "d": d, "z": z}
            hist = [base]
            hist += [dict(base, z=v) for v in _collide(z, 0, 1 << 256)]
            hist += [dict(base, d=v) for v in _collide(d, 1, n)]
            hist += [dict(base, n=n + HASH_M), dict(base, n=n + 2 * HASH_M)]
            if z < n:
                hist.append(dict(base, d=z % n or 1, z=d))
            hist += [dict(base, d=d + 1, z=z - 1), dict(base, d=d ^ 1 or 2, z=z ^ 1), base]
            yield "gen_k_hash_collisions", hist
            yield "gen_k_hash_collisions_reversed", hist[::-1]
        # --- the same (key, hash) under different orders and hash functions, in both orders
        d = rng.randrange(1, 1 << 60)
        z = rng.getrandbits(159)
        orders = [k1, r1, toys[-1].n, N384, k1 + HASH_M]
        hist = [{"op": "gen_k", "n": n, "d": d, "z": z} for n in orders + orders[::-1]]
        yield "gen_k_configurations", hist
        hist = [{"op": "gen_k", "n": n, "d": d, "z": z, "hashf": hf} for n in (k1, r1) for hf in ("sha256", "sha512", "sha1", "sha384", "sha256")]
        yield "gen_k_hash_functions", hist + hist[::-1]
        # --- signing: colliding hashes / keys on one generator object; the same (d, z) on several curves in both orders
        for cur, c in [(c.params(), c) for c in toys] + [("secp256k1", PROD["secp256k1"]), ("secp256r1", PROD["secp256r1"])]:
            cur = cur if isinstance(cur, str) else list(cur)
            n = c.n
            d = rng.randrange(1, max(2, n - HASH_M) if n > HASH_M + 2 else n)
            z = rng.getrandbits(250) + HASH_M * 8
            base = {"op": "sign", "curve": cur, "d": d, "z": z}
            hist = [base] + [dict(base, z=v) for v in _collide(z, 1, 1 << 256)] + [dict(base, d=v) for v in _collide(d, 1, n)] + [base]
            yield "sign_hash_collisions", hist
            yield "sign_hash_collisions_reversed", hist[::-1]
        same_n = [c for c in SMALL if c.n == 13][:3]
        d, z = rng.randrange(1, 13), rng.getrandbits(256) or 1
        hist = [{"op": "sign", "curve": list(c.params()), "d": d, "z": z} for c in same_n + same_n[::-1]]
        yield "sign_same_order_other_curve", hist
        d, z = rng.randrange(1, 1 << 200), rng.getrandbits(256) or 1
        hist = [{"op": "sign", "curve": cur, "d": d, "z": z} for cur in ("secp256k1", "secp256r1", "secp256k1", "secp256r1")]
        yield "sign_production_curves_both_orders", hist
        # --- verification and recovery: a valid signature, its neighbours under hash(), other keys, and again
        for cur, c in [(list(c.params()), c) for c in toys[-3:]] + [("secp256k1", PROD["secp256k1"]), ("secp256r1", PROD["secp256r1"])]:
            n = c.n
            d, z, (r, s, recid) = _sig_for(c, rng)
            Q = list(c.mul(d, c.g))
            Q2 = list(c.mul(rng.randrange(1, n), c.g))
            base = {"op": "verify", "curve": cur, "q": Q, "z": z, "r": r, "s": s}
            hist = [base] + [dict(base, z=v) for v in _collide(z, 1, 1 << 256)] + [dict(base, r=v) for v in _collide(r, 1, n)]
            hist += [dict(base, s=v) for v in _collide(s, 1, n)] + [dict(base, q=Q2), dict(base, q=None), dict(base, s=n - s), base]
            yield "verify_hash_collisions", hist
            yield "verify_hash_collisions_reversed", hist[::-1]
            rb = {"op": "recover", "curve": cur, "z": z, "r": r, "s": s, "yp": None}
            hist = [rb, dict(rb, yp=recid & 1), dict(rb, yp=(recid & 1) ^ 1)] + [dict(rb, z=v) for v in _collide(z, 1, 1 << 256)]
            hist += [dict(rb, s=v) for v in _collide(s, 1, n)] + [dict(rb, yp=(recid & 1) + 2 * HASH_M), rb]
            yield "recover_hash_collisions", hist
            yield "recover_hash_collisions_reversed", hist[::-1]


def presentation_ops(rng, tier):
    for c, cur in [(SMALL[5], list(SMALL[5].params())), (BIG[-1], list(BIG[-1].params())), (PROD["secp256k1"], "secp256k1"), (PROD["secp256r1"], "secp256r1")]:
        for _ in range(4 if tier == "thorough" else 1):
            d, z, (r, s, recid) = _sig_for(c, rng)
            Q = list(c.mul(d, c.g))
            yield {"op": "gen_k", "n": c.n, "d": d, "z": z}
            yield {"op": "gen_k", "n": c.n, "d": 1, "z": 1}
            yield {"op": "sign", "curve": cur, "d": d, "z": z}
            yield {"op": "sign", "curve": cur, "d": 1, "z": 1}
            yield {"op": "verify", "curve": cur, "q": Q, "z": z, "r": r, "s": s}
            yield {"op": "verify", "curve": cur, "q": Q, "z": z + 1, "r": r, "s": s}
            yield {"op": "verify", "curve": cur, "q": Q, "z": 0, "r": r, "s": s}
            yield {"op": "recover", "curve": cur, "z": z, "r": r, "s": s, "yp": recid & 1}
            yield {"op": "recover", "curve": cur, "z": z, "r": r, "s": s, "yp": None}


def history_prop_cases(rng, tier):
    for name, ops in history_ops(rng, tier):
        yield PropCase("history", {"family": name, "ops": ops}, (lambda ops=ops: chk_history(ops)))
    for op in presentation_ops(rng, tier):
        yield PropCase("presentation", {"op": op}, (lambda op=op: chk_presentation(op)))
    n = SECP256K1["n"]
    for i in range(6 if tier == "thorough" else 2):
        d, z = rng.randrange(1, n), rng.getrandbits(256) or 1
        for tamper in (False, True):
            yield PropCase("key_presentation", {"d": d, "z": z, "tamper": tamper}, (lambda d=d, z=z, t=tamper: chk_key_presentation(d, z, t)))
        # Key.sign after Key.sign of a hash colliding under hash(), same key object semantics
        for z2 in _collide(z, 1, 1 << 256)[:2]:
            yield PropCase("key_presentation", {"d": d, "z": z2, "tamper": False}, (lambda d=d, z2=z2: chk_key_presentation(d, z2, False)))


def op_case(op):
    """the correspondence case of a toy-curve / nonce op (the model evaluates every line on its own)"""
    if op["op"] == "gen_k" and not op.get("hashf"):
        return case_gen_k(op["n"], op["d"], op["z"])
    if op["op"] == "gen_k" or isinstance(op.get("curve"), str):
        return None
    P = tuple(op["curve"])
    if op["op"] == "sign":
        return case_sign(P, op["d"], op["z"], min(P[5] + 2, 60))
    if op["op"] == "verify":
        return case_verify(P, None if op["q"] is None else tuple(op["q"]), op["z"], op["r"], op["s"])
    if op["op"] == "recover":
        return case_recover(P, op["z"], op["r"], op["s"], op.get("yp"))
    return None


def history_model_cases(rng, tier):
    for name, ops in history_ops(rng, "quick"):
        if name.endswith("_reversed") and tier != "thorough":
            continue
        for op in ops:
            if op["op"] != "gen_k" and not isinstance(op.get("curve"), str) and tuple(op["curve"])[0].bit_length() > 40 and tier != "thorough":
                continue                   # the extracted affine model is slow on the 2^61 curve
            c = op_case(op)
            if c is not None:
                yield c

# ------------------------------------------------------------------------------------------------
# production curves: one worker process per arithmetic configuration
_WORK = {}


def _der(r, s):
    def enc_int(v):
        b = v.to_bytes((v.bit_length() + 8) // 8 or 1, "big")
        return b"\x02" + bytes([len(b)]) + b
    body = enc_int(r) + enc_int(s)
    return b"\x30" + bytes([len(body)]) + body


def prod_case_list(tier):
    """deterministic (own PRNG stream) list of production-curve operations with what each must return"""
    seed = int(os.environ.get("VERIF_SEED", "0") or 0)
    rng = rng_for(seed, PROP, "prod")
    thorough = tier == "thorough"
    cases = []

    def add(op, expect, **kw):
        kw["op"] = op
        cases.append((kw, expect))

    for name, c in PROD.items():
        n, p = c.n, c.p
        for i in range(60 if thorough else 7):
            d = rng.choice([rng.randrange(1, n), rng.randrange(1, n), 1, n - 1, rng.randrange(1, 2 ** 64)])
            z = rng.choice([rng.getrandbits(256) or 1, rng.getrandbits(256) or 1, n, n - 1, n + 1, 2 ** 256 - 1, 1, rng.getrandbits(64) or 1])
            k = E.rfc6979_k(n, d, _z_octets(z))
            sig = c.sig_from_nonce(d, z, k)
            Q = c.mul(d, c.g)
            add("gen_k", canon(k), n=n, d=d, z=z)
            add("sign", canon(sig), curve=name, d=d, z=z)
            add("sign_plain", canon(sig[:2]), curve=name, d=d, z=z)
            add("pub", canon(Q), curve=name, d=d)
            r, s, recid = sig
            add("verify", "T", curve=name, q=Q, z=z, r=r, s=s)
            add("verify", "T", curve=name, q=Q, z=z, r=r, s=n - s)
            Q2 = c.mul(rng.randrange(1, n), c.g)
            for (Q1, z1, r1, s1) in [(Q2, z, r, s), (c.neg(Q), z, r, s), (Q, z ^ 1 or 2, r, s), (Q, z, r, (s + 1) % n), (Q, z, (r + 1) % n, s)]:
                add("verify", canon(c.verify(Q1, z1, r1, s1)), curve=name, q=Q1, z=z1, r=r1, s=s1)
            if i < (10 if thorough else 2):
                add("verify", canon(c.verify(None, z, r, s)), curve=name, q=None, z=z, r=r, s=s)
                if z % n:
                    add("verify", "F", curve=name, q=_infinity_Q(c, z, r), z=z, r=r, s=s)
                add("verify", "!E_NOPOINT", curve=name, q=(Q[0], (Q[1] + 1) % p), z=z, r=r, s=s)
                # the sum is the point at infinity AND r is the abscissa of one of the operands (x(Q) or x(G)): a verifier that
                # reads a coordinate buffer after a failed "get affine coordinates" answers True here (seed C01-e1)
                rq = Q[0] % n
                zq = (-rq * d) % n
                if rq and zq:
                    for s2 in (s, 1, n - 1, rng.randrange(1, n)):
                        add("verify", "F", curve=name, q=Q, z=zq, r=rq, s=s2)
                        add("verify", "F", curve=name, q=Q, z=zq + n if zq + n < 2 ** 256 else zq, r=rq, s=s2)
                rg = c.g[0] % n
                if rg and z % n:
                    add("verify", "F", curve=name, q=_infinity_Q(c, z, rg), z=z, r=rg, s=s)
                    Qi = _infinity_Q(c, z, rg)
                    add("verify", "F", curve=name, q=Qi, z=z, r=Qi[0] % n, s=s) if Qi[0] % n else None
            # recovery: every key returned verifies (checked against the reference predicate by the harness), signer included
            exp = []
            ir = pow(r, -1, n)
            for R in c.points_with_x(r):
                exp.append(c.add(c.mul(s * ir, R), c.mul(-z * ir, c.g)))
            add("recover", canon(exp), curve=name, z=z, r=r, s=s)
            add("recover", canon([Q]) if recid < 2 else None, curve=name, z=z, r=r, s=s, yp=recid)
            if name == "secp256k1":
                h = _z_octets(z)
                der = _der(r, s)
                add("keysign", canon(der), d=d, h=h.hex())
                add("keyverify", "T", d=d, h=h.hex(), sig=der.hex())
                add("keyverify", "T", q=Q, h=h.hex(), sig=_der(r, n - s).hex())
                add("keyverify", "F", q=Q2, h=h.hex(), sig=der.hex())
                add("keyverify", "F", q=Q, h=_z_octets(z ^ 1 or 2).hex(), sig=der.hex())
                add("keyverify", "F", q=Q, h=h.hex(), sig=der[:-1].hex())
                add("keyverify", "F", q=Q, h=h.hex(), sig=(der + b"\x00").hex())
                add("keyverify", "F", q=Q, h=h.hex(), sig=_der(r, s + n).hex())
                add("keyverify", "F", q=Q, h=h.hex(), sig=_der(0, s).hex())
                add("keyverify", "F", q=Q, h=h.hex(), sig=bytes(rng.getrandbits(8) for _ in range(rng.randrange(0, 12))).hex())
        # malformed stream
        d = rng.randrange(1, n)
        Q = c.mul(d, c.g)
        vals = [0, n - 1, n, n + 1, p, 2 ** 256 - 1]
        for r in vals:
            for s in vals:
                for z in ([n, 2 ** 256 - 1, rng.getrandbits(256) or 1] if thorough else [rng.choice([n, 2 ** 256 - 1, rng.getrandbits(256) or 1])]):
                    add("verify", canon(c.verify(Q, z, r, s)), curve=name, q=Q, z=z, r=r, s=s)
                    inr = 1 <= r < n and 1 <= s < n
                    add("recover", None if inr else "[]", curve=name, z=z, r=r, s=s)
        for z in (0,):
            add("verify", "F", curve=name, q=Q, z=0, r=rng.randrange(1, n), s=rng.randrange(1, n))
            add("sign", "!E_VALUE", curve=name, d=d, z=0)
        # a history inside each worker process: hashes / keys colliding under Python's hash(), then the first pair again
        d = rng.randrange(1, n - 8 * HASH_M)
        z1 = rng.getrandbits(250) + 8 * HASH_M
        for (dd, zz) in [(d, z1), (d, z1 + HASH_M), (d + HASH_M, z1), (d, z1 + 5 * HASH_M), (d, z1 - 3 * HASH_M), (d, z1)]:
            k = E.rfc6979_k(n, dd, _z_octets(zz))
            sig = c.sig_from_nonce(dd, zz, k)
            add("gen_k", canon(k), n=n, d=dd, z=zz)
            add("sign", canon(sig), curve=name, d=dd, z=zz)
            add("verify", "T", curve=name, q=c.mul(dd, c.g), z=zz, r=sig[0], s=sig[1])
            add("verify", canon(c.verify(c.mul(d, c.g), zz + HASH_M, sig[0], sig[1])), curve=name, q=c.mul(d, c.g), z=zz + HASH_M, r=sig[0], s=sig[1])
            if name == "secp256k1":
                add("keysign", canon(_der(sig[0], sig[1])), d=dd, h=_z_octets(zz).hex())
    return cases


def _start_workers(tier):
    if _WORK:
        return
    cl = prod_case_list(tier)
    _WORK["cases"] = cl
    payload = _json.dumps([c for c, _ in cl]).encode()
    rev = _json.dumps([c for c, _ in cl][::-1]).encode()      # the same operations in the opposite order (order independence)
    for nat in ("openssl", "none", "openssl_reversed"):
        env = dict(os.environ)
        env["PYCOIN_NATIVE"] = nat.split("_")[0]
        env["PYTHONPATH"] = REPO + ":" + os.path.join(VERIF, "harness")
        pr = _subprocess.Popen([PY, "-W", "ignore", os.path.join(VERIF, "harness", "c01_worker.py")], stdin=_subprocess.PIPE,
                               stdout=_subprocess.PIPE, stderr=_subprocess.PIPE, env=env)
        pr.stdin.write(rev if nat.endswith("reversed") else payload)
        pr.stdin.close()
        _WORK[nat] = pr


def _collect_workers():
    if "res" in _WORK:
        return _WORK["res"]
    res = {}
    for nat in ("openssl", "none", "openssl_reversed"):
        pr = _WORK[nat]
        out = pr.stdout.read()
        err = pr.stderr.read().decode("utf8", "replace")
        pr.wait(timeout=3600)
        try:
            res[nat] = _json.loads(out)
        except Exception:
            res[nat] = {"backend": {"error": err[-400:]}, "results": []}
    res["openssl_reversed"]["results"] = res["openssl_reversed"]["results"][::-1]
    _WORK["res"] = res
    return res


def chk_prod(i):
    res = _collect_workers()
    case, expect = _WORK["cases"][i]
    ro = res["openssl"]["results"]
    rn = res["none"]["results"]
    if i >= len(ro) or i >= len(rn):
        return {"kind": "worker-died", "backend": {k: res[k]["backend"] for k in res}}
    a, b = ro[i], rn[i]
    if a != b:
        return {"kind": "configurations-disagree", "openssl": a, "none": b}
    rr = res["openssl_reversed"]["results"]
    if len(rr) == len(ro) and rr[i] != a:
        return {"kind": "result-depends-on-the-order-of-calls", "in_order": a, "reversed_order": rr[i]}
    if expect is not None and a != expect:
        return {"kind": "differs-from-reference", "impl": a, "reference": expect}
    if case["op"] == "recover" and expect is None and a.startswith("["):
        # keys returned for an in-range signature: each must verify under the reference predicate
        c = PROD[case["curve"]]
        for tok in re.findall(r"\((i[0-9a-f]+) (i[0-9a-f]+)\)", a):
            Q = (int(tok[0][1:], 16), int(tok[1][1:], 16))
            if not c.verify(Q, case["z"], case["r"], case["s"]):
                return {"kind": "recovered-key-does-not-verify", "key": Q}
    return None


def chk_backends():
    res = _collect_workers()
    bo, bn = res["openssl"]["backend"], res["none"]["backend"]
    if "error" in bo or "error" in bn:
        return {"kind": "worker-died", "backend": [bo, bn]}
    if not bo.get("libcrypto_loaded"):
        return None  # nothing to compare against; recorded in the evidence through the histogram
    if "OpenSSL" not in bo["multiply_from"] and "Optimizations" not in bo["multiply_from"]:
        return {"kind": "openssl-configuration-not-active", "backend": bo}
    if bn["multiply_from"] != "Curve.multiply" or bn["inverse_mod_from"] != "Curve.inverse_mod":
        return {"kind": "pure-python-configuration-not-pure", "backend": bn}
    return None


def prop_cases(rng, tier):
    _start_workers(tier)
    for pc in history_prop_cases(rng_for(int(os.environ.get("VERIF_SEED", "0") or 0), PROP, "history"), tier):
        yield pc
    for pc in toy_prop_cases(rng, tier):
        yield pc
    yield PropCase("backends", {}, chk_backends)
    for i, (case, expect) in enumerate(_WORK["cases"]):
        yield PropCase("prod_" + case["op"], {"index": i, "case": case, "expect": expect}, (lambda i=i: chk_prod(i)))


# ------------------------------------------------------------------------------------------------
def classify(pc, r):
    return None          # no open finding for C01


_W = (7, 0, 3, 1, 2, 13)
KNOWN_REPLAYS = {}


def _replay_prod(case, expect):
    """re-run one production-curve operation in both configurations"""
    outs = {}
    for nat in ("openssl", "none"):
        env = dict(os.environ)
        env["PYCOIN_NATIVE"] = nat
        env["PYTHONPATH"] = REPO + ":" + os.path.join(VERIF, "harness")
        pr = _subprocess.run([PY, "-W", "ignore", os.path.join(VERIF, "harness", "c01_worker.py")], input=_json.dumps([case]).encode(),
                             stdout=_subprocess.PIPE, stderr=_subprocess.PIPE, env=env, timeout=600)
        try:
            outs[nat] = _json.loads(pr.stdout)["results"][0]
        except Exception:
            return {"kind": "worker-died", "stderr": pr.stderr.decode("utf8", "replace")[-300:]}
    if outs["openssl"] != outs["none"]:
        return {"kind": "configurations-disagree", **outs}
    if expect is not None and outs["none"] != expect:
        return {"kind": "differs-from-reference", "impl": outs["none"], "reference": expect}
    return None


def replay_input(check, inp):
    if check == "toy_sign":
        return chk_toy_sign(inp["curve"], inp["d"], inp["z"])
    if check == "toy_verify":
        return chk_toy_verify(inp["curve"], inp["q"], inp["z"], inp["r"], inp["s"])
    if check == "toy_recover":
        return chk_toy_recover(inp["curve"], inp["z"], inp["r"], inp["s"])
    if check == "toy_noncanonical":
        return chk_toy_noncanonical(inp["curve"], inp["q"], inp["z"], inp["r"], inp["s"])
    if check and check.startswith("prod_"):
        return _replay_prod(inp["case"], inp.get("expect"))
    if check == "backends":
        _start_workers("quick")
        return chk_backends()
    if check == "history":
        return chk_history(inp["ops"])
    if check == "presentation":
        return chk_presentation(inp["op"])
    if check == "key_presentation":
        return chk_key_presentation(inp["d"], inp["z"], inp["tamper"])
    return {"kind": "unknown-check"}


def _hx(tok):
    if tok == "N":
        return None
    return -int(tok[2:], 16) if tok.startswith("i-") else int(tok[1:], 16)


def search(rng, tier, disagreements, known_ids):
    """after a proof/correspondence break: look for an input on which the property itself fails"""
    cands = []
    for dis in disagreements[:60]:
        t = dis["case"].split(" ")
        fn = t[0]
        try:
            if fn == "sign":
                P = tuple(_hx(x) for x in t[3:9])
                d, z = _hx(t[9]), _hx(t[10])
                for dd, dz in ((0, 0), (0, 1), (1, 0), (0, P[5])):
                    if 1 <= d + dd < P[5] and z + dz > 0:
                        cands.append(PropCase("toy_sign", {"curve": P, "d": d + dd, "z": z + dz},
                                              (lambda P=P, a=d + dd, b=z + dz: chk_toy_sign(P, a, b))))
            elif fn == "sign_k":
                P = tuple(_hx(x) for x in t[2:8])
                d, z, k = _hx(t[8]), _hx(t[9]), _hx(t[10])
                if 1 <= d < P[5] and z > 0:
                    cands.append(PropCase("toy_sign", {"curve": P, "d": d, "z": z}, (lambda P=P, d=d, z=z: chk_toy_sign(P, d, z))))
                    sig = ref_of(P).sig_from_nonce(d, z, k) if k % P[5] else None
                    if sig:
                        Q = ref_of(P).mul(d, ref_of(P).g)
                        cands.append(PropCase("toy_verify", {"curve": P, "q": Q, "z": z, "r": sig[0], "s": sig[1]},
                                              (lambda P=P, Q=Q, z=z, sig=sig: chk_toy_verify(P, Q, z, sig[0], sig[1]))))
            elif fn == "verify":
                P = tuple(_hx(x) for x in t[1:7])
                Q = None if t[7] == "N" else (_hx(t[7]), _hx(t[8]))
                z, r, s = _hx(t[9]), _hx(t[10]), _hx(t[11])
                if z != 0 and ref_of(P).on_curve(Q):
                    cands.append(PropCase("toy_verify", {"curve": P, "q": Q, "z": z, "r": r, "s": s},
                                          (lambda P=P, Q=Q, z=z, r=r, s=s: chk_toy_verify(P, Q, z, r, s))))
            elif fn == "recover":
                P = tuple(_hx(x) for x in t[1:7])
                z, r, s = _hx(t[7]), _hx(t[8]), _hx(t[9])
                cands.append(PropCase("toy_recover", {"curve": P, "z": z, "r": r, "s": s}, (lambda P=P, z=z, r=r, s=s: chk_toy_recover(P, z, r, s))))
            elif fn in ("gen_k", "spec_k"):
                n, d = _hx(t[2]), _hx(t[3])
                # a toy curve of that order, else any curve: the nonce rule shows up in toy_sign
                for c in SMALL + BIG:
                    if c.n == n and 1 <= d < n:
                        z = _hx(t[4]) if fn == "gen_k" else int(t[4][1:], 16)
                        if 0 < z:
                            cands.append(PropCase("toy_sign", {"curve": c.params(), "d": d, "z": z},
                                                  (lambda P=c.params(), d=d, z=z: chk_toy_sign(P, d, z))))
        except Exception:
            continue
    # histories around each disagreeing case: the case after its neighbours under Python's hash(), after the same call on
    # another configuration, and its exotic presentations
    for dis in disagreements[:40]:
        t = dis["case"].split(" ")
        try:
            op = None
            if t[0] == "gen_k":
                op = {"op": "gen_k", "n": _hx(t[2]), "d": _hx(t[3]), "z": _hx(t[4])}
                nb = [dict(op, z=v) for v in _collide(op["z"], 0, 1 << 256)] + [dict(op, d=v) for v in _collide(op["d"], 0, op["n"])]
                nb += [dict(op, n=op["n"] + HASH_M), dict(op, n=SECP256K1["n"]), dict(op, n=SECP256R1["n"])]
            elif t[0] == "sign":
                P = [_hx(x) for x in t[3:9]]
                op = {"op": "sign", "curve": P, "d": _hx(t[9]), "z": _hx(t[10])}
                nb = [dict(op, z=v) for v in _collide(op["z"], 1, 1 << 256)] + [dict(op, d=v) for v in _collide(op["d"], 1, P[5])]
                nb += [dict(op, curve=list(c.params())) for c in SMALL if c.n == P[5] and list(c.params()) != P][:2]
            elif t[0] == "verify":
                P = [_hx(x) for x in t[1:7]]
                Q = None if t[7] == "N" else [_hx(t[7]), _hx(t[8])]
                op = {"op": "verify", "curve": P, "q": Q, "z": _hx(t[9]), "r": _hx(t[10]), "s": _hx(t[11])}
                nb = [dict(op, z=v) for v in _collide(op["z"], 1, 1 << 256)] + [dict(op, r=v) for v in _collide(op["r"], 1, P[5])]
                nb += [dict(op, s=v) for v in _collide(op["s"], 1, P[5])] + [dict(op, s=P[5] - op["s"])]
            elif t[0] == "recover":
                P = [_hx(x) for x in t[1:7]]
                op = {"op": "recover", "curve": P, "z": _hx(t[7]), "r": _hx(t[8]), "s": _hx(t[9]), "yp": _hx(t[10])}
                nb = [dict(op, z=v) for v in _collide(op["z"], 1, 1 << 256)] + [dict(op, s=v) for v in _collide(op["s"], 1, P[5])]
                nb += [dict(op, yp=None), dict(op, yp=0), dict(op, yp=1)]
            if op is not None:
                for ops in ([op], nb + [op], [op] + nb + [op]):
                    cands.append(PropCase("history", {"family": "search", "ops": ops}, (lambda ops=ops: chk_history(ops))))
                cands.append(PropCase("presentation", {"op": op}, (lambda op=op: chk_presentation(op))))
        except Exception:
            continue
    cands += list(prop_cases(rng, tier))
    for pc in cands:
        try:
            r = pc.thunk()
        except Exception as e:
            r = {"kind": "raises", "detail": "%s: %s" % (type(e).__name__, e)}
        if r is not None and classify(pc, r) not in known_ids:
            return {"check": pc.name, "input": pc.inp, "failure": r}
    return None
