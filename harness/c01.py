"""C01 — ECDSA: deterministic signatures verify for the signer and for nobody else; RFC 6979; recovery.

Correspondence (extracted Coq model vs /repo): Curve.inverse_mod, rfc6979.deterministic_generate_k (any order,
HMAC answered by the oracle below), the RFC 6979 spec, and Generator.verify / sign_with_recid /
possible_public_pairs_for_signature on toy curves of prime order (exhaustive on the small ones).
Direct checks: the property itself on toy curves and — through one worker process per arithmetic
configuration (PYCOIN_NATIVE=openssl / none) — on secp256k1 and secp256r1, against each other, against
reference arithmetic (c01_ec.py) and against RFC 6979 recomputed with Python's hmac; Key.sign/verify via DER."""
from common import *
import hmac as _hmac, hashlib as _hashlib, json as _json, subprocess as _subprocess
import c01_ec as E
from pycoin.ecdsa.Generator import Generator
from pycoin.ecdsa.Curve import Curve
from pycoin.ecdsa.rfc6979 import deterministic_generate_k

PROP = "C01"
EXTRA_PROPS = ["C01compose"]   # composition theorems (see DESIGN.md section 0)
DRIVER = "C01"
INTERACTIVE = True


def _hmac_oracle(b):
    kl = int.from_bytes(b[:4], "big")
    return _hmac.new(b[4:4 + kl], b[4 + kl:], _hashlib.sha256).digest()


ORACLES = {"hmac_sha256": _hmac_oracle}
RULE = ("correspondence: one driver line per call of inverse_mod / deterministic_generate_k / RFC-6979 spec / verify / "
        "sign_with_recid / possible_public_pairs_for_signature / d*G on a toy curve; distinct = distinct line; "
        "non-trivial = the model returns a value (not an exception)")
PARTIAL = [
    "termination of signing (C01_sign_total) assumes that some nonce of [1, n-1] gives non-zero r and s and that the RFC 6979 "
    "HMAC loop has returned; both are hypotheses (the first checked exhaustively for two toy curves)",
    "the group laws (incl. associativity), n prime, n*P = O, the two-roots law of points_for_x are hypotheses of the theorems; "
    "discharged by kernel computation for four toy curves only (premises M2/M4 for secp256k1/secp256r1)",
    "independence of nonces for distinct (key, hash) pairs beyond injectivity of the HMAC input is a PRF property of HMAC-SHA256: no theorem",
    "production curves: no extracted-model run in the quick tier (a 256-bit scalar multiplication takes ~20 s in the extracted affine model); "
    "openssl vs pure-Python vs reference arithmetic vs RFC 6979 by direct checks",
    "libsecp256k1 is absent in this sandbox: its sign/verify overrides (native/secp256k1.py) are not exercised",
    "Key.sign / Key.verify (DER wrapper): direct checks only; DER theorems belong to C10",
]
TRUSTED = ["HMAC-SHA256 answered by Python's hmac/hashlib over the oracle pipe (key length prefix + key + message)",
           "harness/c01_ec.py reference arithmetic (pow(x,-1,p)) for the direct checks"]
ASSUMPTIONS = ["M2: the group order n is prime (hypothesis `prime n` of the theorems)",
               "group_laws / lift_laws of Spec/EcdsaSpec.v for the curve in use (proved by computation for toy curves only)"]

SECP256K1 = dict(p=2 ** 256 - 2 ** 32 - 977, a=0, b=7,
                 g=(0x79BE667EF9DCBBAC55A06295CE870B07029BFCDB2DCE28D959F2815B16F81798,
                    0x483ADA7726A3C4655DA4FBFC0E1108A8FD17B448A68554199C47D08FFB10D4B8),
                 n=0xFFFFFFFFFFFFFFFFFFFFFFFFFFFFFFFEBAAEDCE6AF48A03BBFD25E8CD0364141)
SECP256R1 = dict(p=0xFFFFFFFF00000001000000000000000000000000FFFFFFFFFFFFFFFFFFFFFFFF,
                 a=0xFFFFFFFF00000001000000000000000000000000FFFFFFFFFFFFFFFFFFFFFFFC,
                 b=0x5AC635D8AA3A93E7B3EBBD55769886BC651D06B0CC53B0F63BCE3C3E27D2604B,
                 g=(0x6B17D1F2E12C4247F8BCE6E563A440F277037D812DEB33A0F4A13945D898C296,
                    0x4FE342E2FE1A7F9B8EE7EB4A7C0F9E162BCE33576B315ECECBB6406837BF51F5),
                 n=0xFFFFFFFF00000000FFFFFFFFFFFFFFFFBCE6FAADA7179E84F3B9CAC2FC632551)
PROD = {"secp256k1": E.RefCurve(**SECP256K1), "secp256r1": E.RefCurve(**SECP256R1)}
N384 = 0xffffffffffffffffffffffffffffffffffffffffffffffffc7634d81f4372ddf581a0db248b0a77aecec196accc52973
N521 = 2 ** 521 - 0x5AE79787C40D069948033FEB708F65A2FC44A36477663B851449048E16EC79BF6 - 1  # any 521-bit integer will do

SMALL = E.small_toy_curves()
BIG = E.big_toy_curves()


_GENS = {}


def gen_of(params):
    params = tuple(params)
    g = _GENS.get(params)
    if g is None:
        p, a, b, gx, gy, n = params
        g = Generator(p, a, b, (gx, gy), n, lambda k: b"\x5a" * k)      # public constructor, fixed blinding factor
        _GENS[params] = g
    return g


def ref_of(params):
    p, a, b, gx, gy, n = params
    return E.RefCurve(p, a, b, (gx, gy), n)


def cv(params):
    return " ".join(arg(v) for v in params)


def _pt(P):
    return (None, None) if P is None else tuple(P)


def _z_octets(z):
    return z.to_bytes(32, "big")


# ------------------------------------------------------------------------------------------------
# implementation thunks (toy curves)
def impl_verify(params, Q, z, r, s):
    return call(lambda: gen_of(params).verify(_pt(Q), z, (r, s)))


def impl_sign(params, d, z):
    if z != 0 and not has_good_nonce(ref_of(params), d, z):
        # no nonce of [1, n-1] gives non-zero r and s: the implementation would not terminate; the reference
        # arithmetic predicts that, the implementation is not called (see C01_sign_loop_total)
        try:
            deterministic_generate_k(params[5], d, z)
        except Exception as e:
            return "!" + exn_tag(e)
        return "!OUT_OF_FUEL"
    return call(lambda: tuple(gen_of(params).sign_with_recid(d, z)))


def impl_sign_k(params, d, z, k):
    if z != 0 and k % params[5] != 0 and not has_good_nonce(ref_of(params), d, z):
        return "!OUT_OF_FUEL"
    return call(lambda: tuple(gen_of(params).sign_with_recid(d, z, gen_k=lambda *_: k)))


def impl_recover(params, z, r, s, yp):
    return call(lambda: [tuple(P) for P in gen_of(params).possible_public_pairs_for_signature(z, (r, s), yp)])


def impl_pub(params, d):
    return call(lambda: tuple(d * gen_of(params)))


def _tok_pt(Q):
    return "N N" if Q is None else "%s %s" % (arg(Q[0]), arg(Q[1]))


def case_verify(params, Q, z, r, s):
    return Case("verify %s %s %s %s %s" % (cv(params), _tok_pt(Q), arg(z), arg(r), arg(s)),
                (lambda: impl_verify(params, Q, z, r, s)))


def case_sign(params, d, z, fuel):
    return Case("sign i12c %s %s %s %s" % (arg(fuel), cv(params), arg(d), arg(z)), (lambda: impl_sign(params, d, z)))


def case_sign_k(params, d, z, k, fuel):
    return Case("sign_k %s %s %s %s %s" % (arg(fuel), cv(params), arg(d), arg(z), arg(k)),
                (lambda: impl_sign_k(params, d, z, k)))


def case_recover(params, z, r, s, yp):
    return Case("recover %s %s %s %s %s" % (cv(params), arg(z), arg(r), arg(s), "N" if yp is None else arg(yp)),
                (lambda: impl_recover(params, z, r, s, yp)))


def case_pub(params, d):
    return Case("pubkey %s %s" % (cv(params), arg(d)), (lambda: impl_pub(params, d)))


def case_gen_k(n, d, z):
    return Case("gen_k i12c %s %s %s" % (arg(n), arg(d), arg(z)), (lambda: call(deterministic_generate_k, n, d, z)))


def case_spec_k(n, d, z):
    # the RFC spec on the octet string of the hash: must agree with the implementation for 0 <= z < 2^256
    return Case("spec_k i12c %s %s %s" % (arg(n), arg(d), arg(_z_octets(z))), (lambda: call(deterministic_generate_k, n, d, z)))


def case_inv(a, m):
    return Case("inverse_mod %s %s" % (arg(a), arg(m)), (lambda: call(Curve.inverse_mod, None, a, m)))


# ------------------------------------------------------------------------------------------------
def _all_points(ref):
    return [None] + [(x, y) for x in range(ref.p) for y in range(ref.p) if ref.on_curve((x, y))]


def _some_point(ref, rng):
    return ref.mul(rng.randrange(1, ref.n), ref.g)


def _off_curve(ref, rng):
    while True:
        Q = (rng.randrange(ref.p), rng.randrange(ref.p))
        if not ref.on_curve(Q):
            return Q


def _infinity_Q(ref, z, r):
    """Q = -(z/r)*G: then (z/s)*G + (r/s)*Q is the point at infinity for every s"""
    return ref.mul(-z * pow(r, -1, ref.n), ref.g)


def _interesting_scalars(ref):
    n, p = ref.n, ref.p
    return [0, 1, n - 1, n, n + 1, p, 2 ** 256 - 1, -1]


def toy_cases(rng, tier):
    thorough = tier == "thorough"
    # --- exhaustive sign over (d, z): z = 1..n covers every residue incl. z = n (0 mod n)
    lim = 61 if thorough else 23
    for c in SMALL:
        if c.n > lim:
            continue
        P = c.params()
        for d in range(1, c.n):
            for z in range(1, c.n + 1):
                yield case_sign(P, d, z, c.n + 2)
    # --- exhaustive sign with a caller-supplied nonce over (d, z, k)
    lim = 13 if thorough else 7
    for c in SMALL:
        if c.n > lim:
            continue
        P = c.params()
        for d in range(1, c.n):
            for z in range(1, c.n + 1):
                for k in range(0, c.n + 1):
                    yield case_sign_k(P, d, z, k, c.n + 2)
    # --- exhaustive verify / recover on the smallest curves
    ex = [c for c in SMALL if c.n <= (11 if thorough else 7)]
    if not thorough:
        ex = ex[:2]
    for c in ex:
        P = c.params()
        pts = _all_points(c)
        for Q in pts:
            for z in range(0, c.n + 2):
                for r in range(0, c.n + 1):
                    for s in range(0, c.n + 1):
                        yield case_verify(P, Q, z, r, s)
        for z in range(0, c.n + 1):
            for r in range(0, c.n + 1):
                for s in range(0, c.n + 1):
                    for yp in (None, 0, 1):
                        yield case_recover(P, z, r, s, yp)
        for d in range(-2, 2 * c.n + 2):
            yield case_pub(P, d)
    # --- structured stream on every curve: valid signatures and their neighbourhood
    reps = 60 if thorough else 4
    for c in SMALL + BIG:
        P = c.params()
        n, p = c.n, c.p
        heavy = p.bit_length() > 24 and not thorough       # the extracted affine model costs ~20-60 ms per operation there
        big = p.bit_length() > 24
        for _ in range(reps if c.p < 50 else (1 if heavy else (reps if big else 3 * reps))):
            d = rng.randrange(1, n)
            z = rng.choice([rng.randrange(1, n), rng.getrandbits(256) or 1, rng.randrange(1, 4 * n), n])
            yield case_sign(P, d, z, min(n + 2, 60))
            yield case_pub(P, d)
            k = rng.randrange(1, n)
            sig = c.sig_from_nonce(d, z, k)
            yield case_sign_k(P, d, z, k, min(n + 2, 60))
            if sig is None:
                continue
            r, s, recid = sig
            Q = c.mul(d, c.g)
            yield case_verify(P, Q, z, r, s)
            yield case_verify(P, Q, z, r, n - s)
            yield case_verify(P, Q, z + n, r, s)
            yield case_verify(P, Q, z + 1, r, s)
            yield case_verify(P, Q, z, r, (s + 1) % n)
            yield case_verify(P, Q, z, (r + 1) % n, s)
            yield case_verify(P, c.neg(Q), z, r, s)
            yield case_verify(P, _some_point(c, rng), z, r, s)
            yield case_verify(P, _off_curve(c, rng), z, r, s)
            yield case_verify(P, None, z, r, s)
            yield case_verify(P, (Q[0] + p, Q[1]), z, r, s)              # unreduced coordinates of a curve point
            yield case_verify(P, (Q[0] - p, Q[1] + 2 * p), n, r, r)
            if z % n:
                yield case_verify(P, _infinity_Q(c, z, r), z, r, s)
            yield case_recover(P, z, r, s, None)
            yield case_recover(P, z, r, s, recid)
            yield case_recover(P, z, r, s, recid ^ 1)
            yield case_recover(P, z, r, n - s, None)
            yield case_recover(P, z + 1, r, s, rng.choice([None, 0, 1, 2, 3, 255]))
        # --- malformed stream
        Q = _some_point(c, rng)
        vals = _interesting_scalars(c)
        if heavy:
            vals = rng.sample(vals, 3)
        for r in vals:
            for s in vals:
                z = rng.choice([1, n, 2 ** 256 - 1, rng.randrange(1, n)])
                yield case_verify(P, Q, z, r, s)
                yield case_recover(P, z, r, s, rng.choice([None, 0, 1]))
        for z in (0, n, 2 * n, 2 ** 256 - 1, 2 ** 256, -1, -n):
            r, s = rng.randrange(1, n), rng.randrange(1, n)
            yield case_verify(P, Q, z, r, s)
            yield case_verify(P, _off_curve(c, rng), z, r, s)
            yield case_recover(P, z, r, s, None)
            yield case_sign(P, rng.randrange(1, n), z, min(n + 2, 60))
        for d in (0, n, n + 1, -1, 2 ** 256, 256 ** ((n.bit_length() + 7) // 8) - 1, 256 ** ((n.bit_length() + 7) // 8)):
            yield case_sign(P, d, rng.randrange(1, n), min(n + 2, 60))
            yield case_pub(P, d)
        if p < 50:
            for r in range(1, n):                                # sum point = the key itself, given unreduced
                yield case_verify(P, (c.g[0] + p, c.g[1]), n, r, r)
        for r in range(max(1, p - 2), min(n, p + 3)):          # abscissae around p (exist only when n > p)
            yield case_recover(P, rng.randrange(1, n), r, rng.randrange(1, n), None)


def genk_cases(rng, tier):
    thorough = tier == "thorough"
    orders = sorted({c.n for c in SMALL + BIG}) + [SECP256K1["n"], SECP256R1["n"], N384, N521, 2, 3, 4, 255, 256, 257,
                                                     2 ** 255 - 19, 2 ** 255 + 95, 2 ** 256 - 189, 2 ** 256 + 297,
                                                     2 ** 248 + 1, 2 ** 264 - 1, 2 ** 127 - 1, 65537]
    reps = 40 if thorough else 3
    for n in orders:
        osz = (n.bit_length() + 7) // 8
        for _ in range(reps):
            d = rng.randrange(1, n)
            z = rng.choice([rng.getrandbits(256), rng.randrange(0, 2 * n + 2), rng.getrandbits(rng.randrange(1, 257))])
            yield case_gen_k(n, d, z)
            if 0 <= z < 2 ** 256:
                yield case_spec_k(n, d, z)
        for d in (0, 1, n - 1, n, -1, 256 ** osz - 1, 256 ** osz):
            yield case_gen_k(n, d, rng.getrandbits(256))
        for z in (0, 1, n - 1, n, n + 1, 2 * n - 1, 2 * n, 2 ** 256 - 1, 2 ** 256, 2 ** 256 + n, -1, 256 ** osz, 2 ** 600):
            d = rng.randrange(1, n)
            yield case_gen_k(n, d, z)
            if 0 <= z < 2 ** 256:
                yield case_spec_k(n, d, z)
    # exhaustive over (d, z) for three small orders
    for n in (5, 7, 13) + ((17, 19, 23, 29, 31) if thorough else ()):
        for d in range(0, n + 1):
            for z in range(0, 2 * n + 2):
                yield case_gen_k(n, d, z)
                if 1 <= d < n:
                    yield case_spec_k(n, d, z)
    # hashes with high bits set (the shift for short orders)
    for n in (13, 263, 64969, 1019503, 2305843009264825729):
        for _ in range(reps):
            z = rng.getrandbits(256) | (1 << 255)
            d = rng.randrange(1, n)
            yield case_gen_k(n, d, z)
            yield case_spec_k(n, d, z)


def inv_cases(rng, tier):
    thorough = tier == "thorough"
    for m in range(1, 41 if not thorough else 90):
        for a in range(-m - 2, 2 * m + 3):
            yield case_inv(a, m)
    mods = [SECP256K1["n"], SECP256K1["p"], SECP256R1["n"], SECP256R1["p"], N384, 2 ** 256, 2 ** 255 - 19, 3 * 5 * 7 * 11 * 13 * 2 ** 200]
    mods += [c.n for c in BIG] + [c.p for c in BIG]
    for m in mods:
        for a in (0, 1, 2, m - 1, m, m + 1, -1, 2 * m + 1, m // 2, m // 3):
            yield case_inv(a, m)
        for _ in range(200 if thorough else 4):
            yield case_inv(rng.randrange(-m, 2 * m), m)
    for _ in range(4000 if thorough else 150):
        m = rng.getrandbits(rng.choice([8, 16, 33, 64, 130, 256, 300])) + 1
        yield case_inv(rng.randrange(-m, 2 * m), m)


def prod_model_cases(rng, tier):
    """the extracted affine model on the production curves: ~20-60 s per case, thorough tier only"""
    if tier != "thorough":
        return
    for name in ("secp256k1", "secp256r1"):
        c = PROD[name]
        P = c.params()
        d = rng.randrange(1, c.n)
        z = rng.getrandbits(256)
        yield Case("sign i12c i4 %s %s %s" % (cv(P), arg(d), arg(z)), (lambda name=name, d=d, z=z: _prod_main(name, "sign", d=d, z=z)))
        k = E.rfc6979_k(c.n, d, _z_octets(z))
        r, s, _ = c.sig_from_nonce(d, z, k)
        Q = c.mul(d, c.g)
        yield Case("verify %s %s %s %s %s" % (cv(P), _tok_pt(Q), arg(z), arg(r), arg(s)),
                   (lambda name=name, Q=Q, z=z, r=r, s=s: _prod_main(name, "verify", q=Q, z=z, r=r, s=s)))


def _prod_main(name, op, **kw):
    """the production generators of the main harness process (default configuration: OpenSSL when libcrypto loads)"""
    from pycoin.ecdsa.secp256k1 import secp256k1_generator
    from pycoin.ecdsa.secp256r1 import secp256r1_generator
    g = {"secp256k1": secp256k1_generator, "secp256r1": secp256r1_generator}[name]
    if op == "sign":
        return call(lambda: tuple(g.sign_with_recid(kw["d"], kw["z"])))
    if op == "verify":
        return call(lambda: g.verify(_pt(kw["q"]), kw["z"], (kw["r"], kw["s"])))
    raise ValueError(op)


def model_cases(rng, tier):
    _start_workers(tier)
    for c in inv_cases(rng, tier):
        yield c
    for c in genk_cases(rng, tier):
        yield c
    for c in toy_cases(rng, tier):
        yield c
    for c in prod_model_cases(rng, tier):
        yield c


# ------------------------------------------------------------------------------------------------
# direct property checks on toy curves
def _first_good_nonce(ref, d, z, k0):
    """pycoin's retry rule `k += 1; if k >= n: k = 1`: the first nonce of the cycle k0, k0+1, .., n-1, 1, .., k0-1 with
    non-zero r and s; None when no nonce of [1, n-1] is good (the implementation then loops forever)"""
    n = ref.n
    k = k0
    for _ in range(n - 1):
        sig = ref.sig_from_nonce(d, z, k)
        if sig is not None:
            return k, sig
        k += 1
        if k >= n:
            k = 1
    return None


def has_good_nonce(ref, d, z):
    """False only when sign_with_recid(d, z) would cycle forever on this (small) curve"""
    if ref.n > 200:
        return True
    return any(ref.sig_from_nonce(d, z, k) is not None for k in range(1, ref.n))


def chk_toy_sign(params, d, z):
    params = tuple(params)
    G, ref = gen_of(params), ref_of(params)
    n = ref.n
    k0 = E.rfc6979_k(n, d, _z_octets(z)) if 0 <= z < 2 ** 256 else None
    if not has_good_nonce(ref, d, z):
        return None          # no nonce of [1, n-1] signs: outside the hypotheses of C01_sign_total (and the call would not return)
    try:
        r, s, recid = G.sign_with_recid(d, z)
    except Exception as e:
        return {"kind": "sign-raises", "exc": exn_tag(e), "k0": k0}
    if not (1 <= r < n and 1 <= s < n):
        return {"kind": "sig-out-of-range", "sig": [r, s]}
    Q = ref.mul(d, ref.g)
    if tuple(d * G) != _pt(Q):
        return {"kind": "pubkey-mismatch", "impl": list(d * G), "ref": Q}
    if G.verify(_pt(Q), z, (r, s)) is not True or not ref.verify(Q, z, r, s):
        return {"kind": "own-signature-does-not-verify", "sig": [r, s]}
    if tuple(G.sign(d, z)) != (r, s):
        return {"kind": "sign-differs-from-sign_with_recid"}
    if k0 is not None:
        exp = ref.sig_from_nonce(d, z, k0)
        if exp is not None:
            if exp != (r, s, recid):
                return {"kind": "not-the-rfc6979-signature", "impl": [r, s, recid], "rfc6979": list(exp), "k": k0}
        else:
            fg = _first_good_nonce(ref, d, z, k0)
            if fg is None or fg[1] != (r, s, recid):
                return {"kind": "retry-rule-mismatch", "impl": [r, s, recid], "expected": fg}
    # low-S symmetry and rejection of the neighbours
    if G.verify(_pt(Q), z, (r, n - s)) is not True:
        return {"kind": "low-s-symmetry", "sig": [r, n - s]}
    # recovery
    rec = [tuple(P) for P in G.possible_public_pairs_for_signature(z, (r, s))]
    for P in rec:
        if not G.verify(P, z, (r, s)):
            return {"kind": "recovered-key-does-not-verify", "r": r, "s": s, "key": list(P)}
    if recid < 2:
        if _pt(Q) not in rec:
            return {"kind": "signer-not-recovered", "recid": recid, "rec": rec}
        one = [tuple(P) for P in G.possible_public_pairs_for_signature(z, (r, s), recid)]
        if one != [_pt(Q)]:
            return {"kind": "recid-selects-wrong-key", "recid": recid, "got": one}
    return None


def chk_toy_verify(params, Q, z, r, s):
    """verification iff: the implementation's verdict equals the textbook predicate (z != 0, Q a curve point)"""
    params = tuple(params)
    G, ref = gen_of(params), ref_of(params)
    Q = None if Q is None else tuple(Q)
    try:
        got = G.verify(_pt(Q), z, (r, s))
    except Exception as e:
        return {"kind": "verify-raises", "exc": exn_tag(e)}
    want = (z != 0) and ref.verify(Q, z, r, s)
    if got is not want:
        return {"kind": "verify-verdict", "impl": got, "textbook": want}
    return None


def chk_toy_recover(params, z, r, s):
    params = tuple(params)
    G, ref = gen_of(params), ref_of(params)
    n, p = ref.n, ref.p
    try:
        rec = [tuple(P) for P in G.possible_public_pairs_for_signature(z, (r, s))]
    except Exception as e:
        return {"kind": "recover-raises", "exc": exn_tag(e)}
    if z == 0:
        return None
    for P in rec:
        canon_P = None if P[0] is None else (P[0] % p, P[1] % p)
        if not G.verify(P, z, (r, s)) or not ref.verify(canon_P, z, r, s):
            return {"kind": "recovered-key-does-not-verify", "r": r, "s": s, "key": list(P)}
    if 1 <= r < n and 1 <= s < n:
        # completeness: every key whose sum point has abscissa exactly r is returned
        ir = pow(r, -1, n)
        for R in ref.points_with_x(r):
            Qk = ref.add(ref.mul(s * ir, R), ref.mul(-z * ir, ref.g))
            if _pt(Qk) not in rec:
                return {"kind": "verifying-key-not-recovered", "key": Qk}
    return None


def chk_toy_noncanonical(params, Q, z, r, s):
    """a public pair given with unreduced coordinates (x + p, y) must be judged like (x, y)"""
    params = tuple(params)
    G, ref = gen_of(params), ref_of(params)
    Q = tuple(Q)
    try:
        a = G.verify(Q, z, (r, s))
        b = G.verify((Q[0] + ref.p, Q[1]), z, (r, s))
    except Exception as e:
        return {"kind": "verify-raises", "exc": exn_tag(e)}
    if a is not b:
        return {"kind": "unreduced-public-pair-judged-differently", "canonical": a, "unreduced": b,
                "corner": z % ref.n == 0 and r == s}
    return None


def toy_prop_cases(rng, tier):
    thorough = tier == "thorough"
    # regression: the two inputs that failed before commits de8ed07 (retry run reached k = n) and 28216b2 (r >= p)
    yield PropCase("toy_sign", {"curve": _W, "d": 2, "z": 11}, (lambda: chk_toy_sign(_W, 2, 11)))
    yield PropCase("toy_recover", {"curve": _W, "z": 1, "r": 8, "s": 1}, (lambda: chk_toy_recover(_W, 1, 8, 1)))
    # the corner that used to fail before commit bbdd27a (Curve.multiply returned unreduced coordinates for e = 1 mod n)
    yield PropCase("toy_noncanonical", {"curve": _W, "q": (1, 2), "z": 13, "r": 8, "s": 8}, (lambda: chk_toy_noncanonical(_W, (1, 2), 13, 8, 8)))
    for c in SMALL:
        Q = c.g
        for r in range(1, c.n):
            yield PropCase("toy_noncanonical", {"curve": c.params(), "q": Q, "z": c.n, "r": r, "s": r},
                           (lambda P=c.params(), Q=Q, n=c.n, r=r: chk_toy_noncanonical(P, Q, n, r, r)))
    lim = 43 if thorough else 11
    for c in SMALL:
        P = c.params()
        if c.n <= lim:
            for d in range(1, c.n):
                for z in range(1, c.n + 1):
                    yield PropCase("toy_sign", {"curve": P, "d": d, "z": z}, (lambda P=P, d=d, z=z: chk_toy_sign(P, d, z)))
    ex = [c for c in SMALL if c.n <= (11 if thorough else 7)]
    for c in (ex if thorough else ex[1:3]):
        P = c.params()
        for Q in _all_points(c):
            for z in range(1, c.n + 2):
                for r in range(0, c.n + 1):
                    for s in range(0, c.n + 1):
                        yield PropCase("toy_verify", {"curve": P, "q": Q, "z": z, "r": r, "s": s},
                                       (lambda P=P, Q=Q, z=z, r=r, s=s: chk_toy_verify(P, Q, z, r, s)))
    for c in SMALL:
        if c.n > (61 if thorough else 13):
            continue
        P = c.params()
        full = c.n <= (13 if thorough else 7)
        zs = range(1, c.n + 1) if full else [1, c.n, rng.randrange(1, c.n)]
        for z in zs:
            for r in range(0, c.n + 1):
                for s in (range(0, c.n + 1) if full else [1, r, rng.randrange(1, c.n)]):
                    yield PropCase("toy_recover", {"curve": P, "z": z, "r": r, "s": s},
                                   (lambda P=P, z=z, r=r, s=s: chk_toy_recover(P, z, r, s)))
    for c in SMALL + BIG:
        P = c.params()
        n = c.n
        for _ in range(40 if thorough else 3):
            d = rng.randrange(1, n)
            z = rng.choice([rng.randrange(1, n), rng.getrandbits(256) or 1, n])
            yield PropCase("toy_sign", {"curve": P, "d": d, "z": z}, (lambda P=P, d=d, z=z: chk_toy_sign(P, d, z)))
            k = rng.randrange(1, n)
            sig = c.sig_from_nonce(d, z, k)
            if sig is None:
                continue
            r, s, _ = sig
            Q = c.mul(d, c.g)
            muts = [(Q, z, r, s), (Q, z, r, n - s), (Q, z + 1, r, s), (Q, z + n, r, s), (Q, z, r, (s + 1) % n),
                    (c.neg(Q), z, r, s), (_some_point(c, rng), z, r, s), (None, z, r, s),
                    (Q, z, r + n, s), (Q, z, r, s + n), (Q, z, 0, s), (Q, z, r, 0), (Q, z, n, s), (Q, z, r, n)]
            if z % n:
                muts.append((_infinity_Q(c, z, r), z, r, s))
            for (Q1, z1, r1, s1) in muts:
                yield PropCase("toy_verify", {"curve": P, "q": Q1, "z": z1, "r": r1, "s": s1},
                               (lambda P=P, Q1=Q1, z1=z1, r1=r1, s1=s1: chk_toy_verify(P, Q1, z1, r1, s1)))
            yield PropCase("toy_recover", {"curve": P, "z": z, "r": r, "s": s}, (lambda P=P, z=z, r=r, s=s: chk_toy_recover(P, z, r, s)))
            yield PropCase("toy_recover", {"curve": P, "z": z + 1, "r": r, "s": n - s},
                           (lambda P=P, z=z, r=r, s=s: chk_toy_recover(P, z + 1, r, n - s)))
            yield PropCase("toy_noncanonical", {"curve": P, "q": Q, "z": z, "r": r, "s": s},
                           (lambda P=P, Q=Q, z=z, r=r, s=s: chk_toy_noncanonical(P, Q, z, r, s)))


# ------------------------------------------------------------------------------------------------
# production curves: one worker process per arithmetic configuration
_WORK = {}


def _der(r, s):
    def enc_int(v):
        b = v.to_bytes((v.bit_length() + 8) // 8 or 1, "big")
        return b"\x02" + bytes([len(b)]) + b
    body = enc_int(r) + enc_int(s)
    return b"\x30" + bytes([len(body)]) + body


def prod_case_list(tier):
    """deterministic (own PRNG stream) list of production-curve operations with what each must return"""
    seed = int(os.environ.get("VERIF_SEED", "0") or 0)
    rng = rng_for(seed, PROP, "prod")
    thorough = tier == "thorough"
    cases = []

    def add(op, expect, **kw):
        kw["op"] = op
        cases.append((kw, expect))

    for name, c in PROD.items():
        n, p = c.n, c.p
        for i in range(60 if thorough else 7):
            d = rng.choice([rng.randrange(1, n), rng.randrange(1, n), 1, n - 1, rng.randrange(1, 2 ** 64)])
            z = rng.choice([rng.getrandbits(256) or 1, rng.getrandbits(256) or 1, n, n - 1, n + 1, 2 ** 256 - 1, 1, rng.getrandbits(64) or 1])
            k = E.rfc6979_k(n, d, _z_octets(z))
            sig = c.sig_from_nonce(d, z, k)
            Q = c.mul(d, c.g)
            add("gen_k", canon(k), n=n, d=d, z=z)
            add("sign", canon(sig), curve=name, d=d, z=z)
            add("sign_plain", canon(sig[:2]), curve=name, d=d, z=z)
            add("pub", canon(Q), curve=name, d=d)
            r, s, recid = sig
            add("verify", "T", curve=name, q=Q, z=z, r=r, s=s)
            add("verify", "T", curve=name, q=Q, z=z, r=r, s=n - s)
            Q2 = c.mul(rng.randrange(1, n), c.g)
            for (Q1, z1, r1, s1) in [(Q2, z, r, s), (c.neg(Q), z, r, s), (Q, z ^ 1 or 2, r, s), (Q, z, r, (s + 1) % n), (Q, z, (r + 1) % n, s)]:
                add("verify", canon(c.verify(Q1, z1, r1, s1)), curve=name, q=Q1, z=z1, r=r1, s=s1)
            if i < (10 if thorough else 2):
                add("verify", canon(c.verify(None, z, r, s)), curve=name, q=None, z=z, r=r, s=s)
                if z % n:
                    add("verify", "F", curve=name, q=_infinity_Q(c, z, r), z=z, r=r, s=s)
                add("verify", "!E_NOPOINT", curve=name, q=(Q[0], (Q[1] + 1) % p), z=z, r=r, s=s)
            # recovery: every key returned verifies (checked against the reference predicate by the harness), signer included
            exp = []
            ir = pow(r, -1, n)
            for R in c.points_with_x(r):
                exp.append(c.add(c.mul(s * ir, R), c.mul(-z * ir, c.g)))
            add("recover", canon(exp), curve=name, z=z, r=r, s=s)
            add("recover", canon([Q]) if recid < 2 else None, curve=name, z=z, r=r, s=s, yp=recid)
            if name == "secp256k1":
                h = _z_octets(z)
                der = _der(r, s)
                add("keysign", canon(der), d=d, h=h.hex())
                add("keyverify", "T", d=d, h=h.hex(), sig=der.hex())
                add("keyverify", "T", q=Q, h=h.hex(), sig=_der(r, n - s).hex())
                add("keyverify", "F", q=Q2, h=h.hex(), sig=der.hex())
                add("keyverify", "F", q=Q, h=_z_octets(z ^ 1 or 2).hex(), sig=der.hex())
                add("keyverify", "F", q=Q, h=h.hex(), sig=der[:-1].hex())
                add("keyverify", "F", q=Q, h=h.hex(), sig=(der + b"\x00").hex())
                add("keyverify", "F", q=Q, h=h.hex(), sig=_der(r, s + n).hex())
                add("keyverify", "F", q=Q, h=h.hex(), sig=_der(0, s).hex())
                add("keyverify", "F", q=Q, h=h.hex(), sig=bytes(rng.getrandbits(8) for _ in range(rng.randrange(0, 12))).hex())
        # malformed stream
        d = rng.randrange(1, n)
        Q = c.mul(d, c.g)
        vals = [0, n - 1, n, n + 1, p, 2 ** 256 - 1]
        for r in vals:
            for s in vals:
                for z in ([n, 2 ** 256 - 1, rng.getrandbits(256) or 1] if thorough else [rng.choice([n, 2 ** 256 - 1, rng.getrandbits(256) or 1])]):
                    add("verify", canon(c.verify(Q, z, r, s)), curve=name, q=Q, z=z, r=r, s=s)
                    inr = 1 <= r < n and 1 <= s < n
                    add("recover", None if inr else "[]", curve=name, z=z, r=r, s=s)
        for z in (0,):
            add("verify", "F", curve=name, q=Q, z=0, r=rng.randrange(1, n), s=rng.randrange(1, n))
            add("sign", "!E_VALUE", curve=name, d=d, z=0)
    return cases


def _start_workers(tier):
    if _WORK:
        return
    cl = prod_case_list(tier)
    _WORK["cases"] = cl
    payload = _json.dumps([c for c, _ in cl]).encode()
    for nat in ("openssl", "none"):
        env = dict(os.environ)
        env["PYCOIN_NATIVE"] = nat
        env["PYTHONPATH"] = REPO + ":" + os.path.join(VERIF, "harness")
        pr = _subprocess.Popen([PY, "-W", "ignore", os.path.join(VERIF, "harness", "c01_worker.py")], stdin=_subprocess.PIPE,
                               stdout=_subprocess.PIPE, stderr=_subprocess.PIPE, env=env)
        pr.stdin.write(payload)
        pr.stdin.close()
        _WORK[nat] = pr


def _collect_workers():
    if "res" in _WORK:
        return _WORK["res"]
    res = {}
    for nat in ("openssl", "none"):
        pr = _WORK[nat]
        out = pr.stdout.read()
        err = pr.stderr.read().decode("utf8", "replace")
        pr.wait(timeout=3600)
        try:
            res[nat] = _json.loads(out)
        except Exception:
            res[nat] = {"backend": {"error": err[-400:]}, "results": []}
    _WORK["res"] = res
    return res


def chk_prod(i):
    res = _collect_workers()
    case, expect = _WORK["cases"][i]
    ro = res["openssl"]["results"]
    rn = res["none"]["results"]
    if i >= len(ro) or i >= len(rn):
        return {"kind": "worker-died", "backend": {k: res[k]["backend"] for k in res}}
    a, b = ro[i], rn[i]
    if a != b:
        return {"kind": "configurations-disagree", "openssl": a, "none": b}
    if expect is not None and a != expect:
        return {"kind": "differs-from-reference", "impl": a, "reference": expect}
    if case["op"] == "recover" and expect is None and a.startswith("["):
        # keys returned for an in-range signature: each must verify under the reference predicate
        c = PROD[case["curve"]]
        for tok in re.findall(r"\((i[0-9a-f]+) (i[0-9a-f]+)\)", a):
            Q = (int(tok[0][1:], 16), int(tok[1][1:], 16))
            if not c.verify(Q, case["z"], case["r"], case["s"]):
                return {"kind": "recovered-key-does-not-verify", "key": Q}
    return None


def chk_backends():
    res = _collect_workers()
    bo, bn = res["openssl"]["backend"], res["none"]["backend"]
    if "error" in bo or "error" in bn:
        return {"kind": "worker-died", "backend": [bo, bn]}
    if not bo.get("libcrypto_loaded"):
        return None  # nothing to compare against; recorded in the evidence through the histogram
    if "OpenSSL" not in bo["multiply_from"] and "Optimizations" not in bo["multiply_from"]:
        return {"kind": "openssl-configuration-not-active", "backend": bo}
    if bn["multiply_from"] != "Curve.multiply" or bn["inverse_mod_from"] != "Curve.inverse_mod":
        return {"kind": "pure-python-configuration-not-pure", "backend": bn}
    return None


def prop_cases(rng, tier):
    _start_workers(tier)
    for pc in toy_prop_cases(rng, tier):
        yield pc
    yield PropCase("backends", {}, chk_backends)
    for i, (case, expect) in enumerate(_WORK["cases"]):
        yield PropCase("prod_" + case["op"], {"index": i, "case": case, "expect": expect}, (lambda i=i: chk_prod(i)))


# ------------------------------------------------------------------------------------------------
def classify(pc, r):
    return None          # no open finding for C01


_W = (7, 0, 3, 1, 2, 13)
KNOWN_REPLAYS = {}


def _replay_prod(case, expect):
    """re-run one production-curve operation in both configurations"""
    outs = {}
    for nat in ("openssl", "none"):
        env = dict(os.environ)
        env["PYCOIN_NATIVE"] = nat
        env["PYTHONPATH"] = REPO + ":" + os.path.join(VERIF, "harness")
        pr = _subprocess.run([PY, "-W", "ignore", os.path.join(VERIF, "harness", "c01_worker.py")], input=_json.dumps([case]).encode(),
                             stdout=_subprocess.PIPE, stderr=_subprocess.PIPE, env=env, timeout=600)
        try:
            outs[nat] = _json.loads(pr.stdout)["results"][0]
        except Exception:
            return {"kind": "worker-died", "stderr": pr.stderr.decode("utf8", "replace")[-300:]}
    if outs["openssl"] != outs["none"]:
        return {"kind": "configurations-disagree", **outs}
    if expect is not None and outs["none"] != expect:
        return {"kind": "differs-from-reference", "impl": outs["none"], "reference": expect}
    return None


def replay_input(check, inp):
    if check == "toy_sign":
        return chk_toy_sign(inp["curve"], inp["d"], inp["z"])
    if check == "toy_verify":
        return chk_toy_verify(inp["curve"], inp["q"], inp["z"], inp["r"], inp["s"])
    if check == "toy_recover":
        return chk_toy_recover(inp["curve"], inp["z"], inp["r"], inp["s"])
    if check == "toy_noncanonical":
        return chk_toy_noncanonical(inp["curve"], inp["q"], inp["z"], inp["r"], inp["s"])
    if check and check.startswith("prod_"):
        return _replay_prod(inp["case"], inp.get("expect"))
    if check == "backends":
        _start_workers("quick")
        return chk_backends()
    return {"kind": "unknown-check"}


def _hx(tok):
    if tok == "N":
        return None
    return -int(tok[2:], 16) if tok.startswith("i-") else int(tok[1:], 16)


def search(rng, tier, disagreements, known_ids):
    """after a proof/correspondence break: look for an input on which the property itself fails"""
    cands = []
    for dis in disagreements[:60]:
        t = dis["case"].split(" ")
        fn = t[0]
        try:
            if fn == "sign":
                P = tuple(_hx(x) for x in t[3:9])
                d, z = _hx(t[9]), _hx(t[10])
                for dd, dz in ((0, 0), (0, 1), (1, 0), (0, P[5])):
                    if 1 <= d + dd < P[5] and z + dz > 0:
                        cands.append(PropCase("toy_sign", {"curve": P, "d": d + dd, "z": z + dz},
                                              (lambda P=P, a=d + dd, b=z + dz: chk_toy_sign(P, a, b))))
            elif fn == "sign_k":
                P = tuple(_hx(x) for x in t[2:8])
                d, z, k = _hx(t[8]), _hx(t[9]), _hx(t[10])
                if 1 <= d < P[5] and z > 0:
                    cands.append(PropCase("toy_sign", {"curve": P, "d": d, "z": z}, (lambda P=P, d=d, z=z: chk_toy_sign(P, d, z))))
                    sig = ref_of(P).sig_from_nonce(d, z, k) if k % P[5] else None
                    if sig:
                        Q = ref_of(P).mul(d, ref_of(P).g)
                        cands.append(PropCase("toy_verify", {"curve": P, "q": Q, "z": z, "r": sig[0], "s": sig[1]},
                                              (lambda P=P, Q=Q, z=z, sig=sig: chk_toy_verify(P, Q, z, sig[0], sig[1]))))
            elif fn == "verify":
                P = tuple(_hx(x) for x in t[1:7])
                Q = None if t[7] == "N" else (_hx(t[7]), _hx(t[8]))
                z, r, s = _hx(t[9]), _hx(t[10]), _hx(t[11])
                if z != 0 and ref_of(P).on_curve(Q):
                    cands.append(PropCase("toy_verify", {"curve": P, "q": Q, "z": z, "r": r, "s": s},
                                          (lambda P=P, Q=Q, z=z, r=r, s=s: chk_toy_verify(P, Q, z, r, s))))
            elif fn == "recover":
                P = tuple(_hx(x) for x in t[1:7])
                z, r, s = _hx(t[7]), _hx(t[8]), _hx(t[9])
                cands.append(PropCase("toy_recover", {"curve": P, "z": z, "r": r, "s": s}, (lambda P=P, z=z, r=r, s=s: chk_toy_recover(P, z, r, s))))
            elif fn in ("gen_k", "spec_k"):
                n, d = _hx(t[2]), _hx(t[3])
                # a toy curve of that order, else any curve: the nonce rule shows up in toy_sign
                for c in SMALL + BIG:
                    if c.n == n and 1 <= d < n:
                        z = _hx(t[4]) if fn == "gen_k" else int(t[4][1:], 16)
                        if 0 < z:
                            cands.append(PropCase("toy_sign", {"curve": c.params(), "d": d, "z": z},
                                                  (lambda P=c.params(), d=d, z=z: chk_toy_sign(P, d, z))))
        except Exception:
            continue
    cands += list(prop_cases(rng, tier))
    for pc in cands:
        try:
            r = pc.thunk()
        except Exception as e:
            r = {"kind": "raises", "detail": "%s: %s" % (type(e).__name__, e)}
        if r is not None and classify(pc, r) not in known_ids:
            return {"check": pc.name, "input": pc.inp, "failure": r}
    return None
