"""C13 — transaction construction conserves value to the satoshi; fee; input pairing; validate_unspents;
BTC/mBTC conversions.

Correspondence: extracted Model/TxBuild.v + Model/DecimalConv.v against pycoin.coins.tx_utils,
pycoin.coins.bitcoin.Tx (BTC network object), pycoin.convention and Python's decimal module.
Direct checks: the property itself on the implementation (conservation, boundary of the ValueError,
pairing, fee definition, validate_unspents soundness for every discrepancy kind, decimal round trips incl.
the str() forms)."""
from common import *
import io, decimal, itertools
from fractions import Fraction
from pycoin.symbols.btc import network
from pycoin.coins import tx_utils
from pycoin.convention import tx_fee
import pycoin.convention as conv

Tx = network.tx
TxIn, TxOut, Spendable = Tx.TxIn, Tx.TxOut, Tx.Spendable

PROP = "C13"
DRIVER = "C13"
EXTRA_PROPS = ["C13compose"]   # C13 x C07: fee="standard" without a byte-count oracle (see DESIGN.md section 0.3a)
RULE = ("correspondence: one driver line per call of split_with_remainder / distribute_from_split_pool / create_tx "
        "(BTC network object) / total_in / total_out / fee / is_coinbase / validate_unspents / the four conversions / "
        "Decimal mul, div, quantize, int / distribute_st (result and object state afterwards, also after a raise) / history (a sequence "
        "of observer and mutator calls on one object: every result and the final state); distinct = distinct line; "
        "non-trivial = model returns a value (not an exception)")
PARTIAL = ["Decimal <-> str (decimal.Decimal(str), str(Decimal)) is Python's: only direct checks "
           "(btc_to_satoshi(str(satoshi_to_btc(s))) == s, str form against an independent formatter)",
           "fee='standard': Model/TxBuild.v takes len(tx.stream()) as an argument; Model/TxBuildWire.v closes it with C07's stream model "
           "(create_tx_wire / distribute_wire / recommended_fee_for_tx, Props/C13compose.v) and both forms are run against the implementation",
           "address -> script (network.contract.for_address) is outside the model: payables carry the script"]
TRUSTED = ["hand model of decimal.Decimal (mul, truediv, _fix, quantize, _rescale, __int__ at prec 28, ROUND_HALF_EVEN, "
           "exponent limits not modelled), tied by correspondence against Python's decimal on random operands",
           "tx_db.get is a pure lookup (same answer each time it is asked for a hash)",
           "previous_index/tx_out_index are Python ints (negative values index from the end, as list indexing does)"]
ASSUMPTIONS = ["Decimal exponents stay far inside Emin/Emax (+-999999)"]

MAX = 21 * 10 ** 14
ZERO32 = b"\0" * 32
FFFF = 0xFFFFFFFF


# ---- canonical forms / driver tokens ---------------------------------------------------------------
def call13(f, *a):
    try:
        return canon(f(*a))
    except ZeroDivisionError as e:
        if isinstance(e, decimal.DecimalException):
            return "!E_OTHER"
        return "!E_OTHER"
    except decimal.DecimalException:
        return "!E_OTHER"
    except Exception as e:  # noqa
        return "!" + exn_tag(e)


def alist(xs):
    return "[" + ",".join(xs) + "]"


def a_out(o):
    return "%s:%s" % (canon(o[0]), canon(o[1]))


def a_unspent(u):
    return "N" if u is None else a_out(u)


def a_in(i):
    return "%s:%s:%s:%s" % (canon(i[0]), canon(i[1]), canon(i[2]), canon(i[3]))


def a_tx(t):
    return "%s %s %s %s %s" % (canon(t["version"]), alist(a_in(i) for i in t["ins"]), alist(a_out(o) for o in t["outs"]),
                               canon(t["lock_time"]), alist(a_unspent(u) for u in t["unspents"]))


def a_fee(f):
    return "S" if f == "standard" else canon(f)


def a_dec(d):
    return "%s:%s:%s" % (canon(bool(d[0])), canon(d[1]), canon(d[2]))


def mk_tx(t):
    tx = Tx(t["version"], [TxIn(h, i, s, q) for (h, i, s, q) in t["ins"]], [TxOut(v, s) for (v, s) in t["outs"]], t["lock_time"])
    tx.unspents = [None if u is None else TxOut(u[0], u[1]) for u in t["unspents"]]
    return tx


def c_tx(tx):
    return (tx.version, [(i.previous_hash, i.previous_index, i.script, i.sequence) for i in tx.txs_in],
            [(o.coin_value, o.script) for o in tx.txs_out], tx.lock_time,
            [None if u is None else (u.coin_value, u.script) for u in tx.unspents])


def byte_count(tx):
    s = io.BytesIO()
    tx.stream(s)
    return len(s.getvalue())


def mk_dec(d):
    return decimal.Decimal((1 if d[0] else 0, tuple(int(c) for c in str(d[1])), d[2]))


def c_dec(x):
    if not isinstance(x, decimal.Decimal):
        raise TypeError("not a Decimal: %r" % (x,))
    s, digits, e = x.as_tuple()
    return (bool(s), int("".join(map(str, digits)) or "0"), e)


# JSON-able <-> internal (bytes as hex)
def jtx(t):
    return {"version": t["version"], "lock_time": t["lock_time"],
            "ins": [[h.hex(), i, s.hex(), q] for (h, i, s, q) in t["ins"]],
            "outs": [[v, s.hex()] for (v, s) in t["outs"]],
            "unspents": [None if u is None else [u[0], u[1].hex()] for u in t["unspents"]]}


def untx(j):
    return {"version": j["version"], "lock_time": j["lock_time"],
            "ins": [(bytes.fromhex(h), i, bytes.fromhex(s), q) for (h, i, s, q) in j["ins"]],
            "outs": [(v, bytes.fromhex(s)) for (v, s) in j["outs"]],
            "unspents": [None if u is None else (u[0], bytes.fromhex(u[1])) for u in j["unspents"]]}


# ---- generators ----------------------------------------------------------------------------------
def r_value(rng):
    k = rng.random()
    if k < 0.25:
        return rng.randint(1, 20)
    if k < 0.5:
        return rng.randint(1, 10 ** rng.randint(2, 15))
    if k < 0.7:
        return rng.choice([MAX, MAX - 1, 10 ** 8, 10 ** 8 - 1, 546, 1, 2 ** 32, 2 ** 32 - 1, 2 ** 63 - 1, 2 ** 64 - 1])
    if k < 0.9:
        return rng.getrandbits(64) or 1
    return rng.randint(1, MAX)


def r_script(rng):
    return bytes(rng.getrandbits(8) for _ in range(rng.choice([0, 1, 1, 2, 3, 5, 23, 25])))


def r_hash(rng):
    return bytes(rng.getrandbits(8) for _ in range(32))


def split_pairs(rng, tier):
    T, K = (120, 8) if tier == "quick" else (400, 12)
    for t in range(0, T + 1):
        for k in range(0, K + 1):
            yield t, k
    for t in range(-25, 0):
        for k in range(-3, K + 1):
            yield t, k
    for t in range(0, 12):
        for k in range(-4, 0):
            yield t, k
    for _ in range(1500 if tier == "quick" else 40000):
        k = rng.choice([1, 2, 3, 5, 7, 8, 12, 16, 31, 64, rng.randint(1, 40)])
        t = rng.choice([rng.getrandbits(64), rng.randint(0, MAX), rng.getrandbits(70), -rng.getrandbits(40)])
        yield t, k
        m = rng.getrandbits(rng.choice([8, 32, 50, 62]))
        for d in (-1, 0, 1):
            yield m * k + d, k


def gen_tx_spec(rng, unspent_quirks=True):
    n_in = rng.choice([0, 1, 1, 2, 2, 3, 4])
    ins = [(r_hash(rng), rng.choice([0, 1, 2, 7, rng.getrandbits(16)]), b"", FFFF) for _ in range(n_in)]
    unspents = [(r_value(rng), r_script(rng)) for _ in range(n_in)]
    n_out = rng.choice([0, 1, 2, 2, 3, 3, 4, 5, 6, 8])
    outs = []
    for _ in range(n_out):
        k = rng.random()
        if k < 0.5:
            v = 0
        elif k < 0.9:
            v = r_value(rng) // rng.choice([1, 3, 10, 1000])
        else:
            v = rng.randint(1, 100)
        outs.append((v, r_script(rng)))
    if unspent_quirks and rng.random() < 0.12:
        q = rng.random()
        if q < 0.4 and unspents:
            unspents[rng.randrange(len(unspents))] = None
        elif q < 0.7:
            unspents.append((r_value(rng), r_script(rng)))
        elif unspents:
            unspents.pop()
    return {"version": rng.choice([1, 1, 2, rng.getrandbits(31)]), "ins": ins, "outs": outs,
            "lock_time": rng.choice([0, 0, 500000, rng.getrandbits(32)]), "unspents": unspents}


def boundary_fees(rng, total_in, fixed, k):
    """fees that put remaining = total_in - fixed - fee at the decision boundaries"""
    rems = [-1, 0, 1, k - 1, k, k + 1, 2 * k - 1, 2 * k, 2 * k + 1, rng.randint(0, 3 * k + 3)]
    return [total_in - fixed - r for r in rems]


def distribute_specs(rng, tier):
    n = 1000 if tier == "quick" else 15000
    for _ in range(n):
        t = gen_tx_spec(rng)
        tot = sum(u[0] for u in t["unspents"] if u is not None)
        fixed = sum(v for v, _ in t["outs"])
        k = sum(1 for v, _ in t["outs"] if v == 0)
        fees = [rng.choice([0, 0, 1, 10000, rng.randint(0, 10 ** 6)])]
        if rng.random() < 0.7:
            fees += rng.sample(boundary_fees(rng, tot, fixed, k), 3)
        if rng.random() < 0.1:
            fees.append(-rng.randint(1, 1000))
        if rng.random() < 0.3:
            fees.append("standard")
        for f in fees:
            yield t, f
    # negative fixed outputs / negative unspents: nothing in the code checks a sign
    for _ in range(60 if tier == "quick" else 1000):
        t = gen_tx_spec(rng, False)
        if t["outs"]:
            i = rng.randrange(len(t["outs"]))
            t["outs"][i] = (-rng.randint(1, 1000), t["outs"][i][1])
        yield t, rng.randint(0, 100)


ADDRS = None


def addresses():
    global ADDRS
    if ADDRS is None:
        r = random.Random("C13/addresses")
        ADDRS = []
        for i in range(24):
            h = bytes(r.getrandbits(8) for _ in range(20))
            a = network.address.for_p2pkh(h) if i % 3 else network.address.for_p2sh(h)
            ADDRS.append((a, network.contract.for_address(a)))
        a = network.address.for_p2pkh_wit(bytes(r.getrandbits(8) for _ in range(20)))
        ADDRS.append((a, network.contract.for_address(a)))
    return ADDRS


def gen_create_spec(rng):
    """JSON-able: spendables [[value, script hex, hash hex, index, form]], payables [[addr idx, value or None]]"""
    n_in = rng.choice([0, 1, 1, 2, 3, 4, 5])
    sps = [[r_value(rng) if rng.random() < 0.8 else rng.randint(1, MAX), r_script(rng).hex(), r_hash(rng).hex(),
            rng.choice([0, 1, 2, 5, rng.getrandbits(10), FFFF]), rng.choice(["obj", "obj", "text", "dict"])] for _ in range(n_in)]
    n_out = rng.choice([0, 1, 1, 2, 2, 3, 4, 5, 6, 7])
    A = addresses()
    pays = []
    for _ in range(n_out):
        k = rng.random()
        ai = rng.randrange(len(A))
        if k < 0.45:
            pays.append([ai, None])
        elif k < 0.55:
            pays.append([ai, 0])
        else:
            pays.append([ai, max(1, r_value(rng) // rng.choice([2, 5, 10, 100, 10 ** 6]))])
    return {"spendables": sps, "payables": pays, "lock_time": rng.choice([0, 0, 1, rng.getrandbits(32)]),
            "version": rng.choice([1, 1, 2])}


def create_fees(rng, spec):
    tot = sum(s[0] for s in spec["spendables"])
    fixed = sum(p[1] or 0 for p in spec["payables"])
    k = sum(1 for p in spec["payables"] if not p[1])
    fees = [f for f in boundary_fees(rng, tot, fixed, k)]
    rng.shuffle(fees)
    out = [f for f in fees[:4] if f >= 0]
    out.append(rng.choice([0, 0, 1, 1000, 10000]))
    if rng.random() < 0.25:
        out.append("standard")
    if rng.random() < 0.15:
        out.append(fees[4])  # possibly negative
    return out


def mk_spendable(s):
    sp = Spendable(s[0], bytes.fromhex(s[1]), bytes.fromhex(s[2]), s[3])
    form = s[4] if len(s) > 4 else "obj"
    if form == "text":
        return sp.as_text()
    if form == "dict":
        return sp.as_dict()
    return sp


def mk_payables(spec):
    A = addresses()
    return [A[ai][0] if v is None else (A[ai][0], v) for ai, v in spec["payables"]]


def create_line(spec, fee):
    A = addresses()
    sps = alist("%s:%s:%s:%s" % (canon(s[0]), canon(bytes.fromhex(s[1])), canon(bytes.fromhex(s[2])), canon(s[3])) for s in spec["spendables"])
    pays = alist(("A:%s" % canon(A[ai][1])) if v is None else ("P:%s:%s" % (canon(A[ai][1]), canon(v))) for ai, v in spec["payables"])
    # byte count of the transaction as distribute_from_split_pool sees it (all pool outputs still 0)
    bc = 0
    if fee == "standard":
        t0 = Tx(spec["version"], [Spendable(s[0], bytes.fromhex(s[1]), bytes.fromhex(s[2]), s[3]).tx_in() for s in spec["spendables"]],
                [TxOut(v or 0, A[ai][1]) for ai, v in spec["payables"]], spec["lock_time"])
        bc = byte_count(t0)
    return "create_tx %s %s %s %s %s %s" % (sps, pays, a_fee(fee), canon(spec["lock_time"]), canon(spec["version"]), canon(bc))


def impl_create(spec, fee):
    tx = network.tx_utils.create_tx([mk_spendable(s) for s in spec["spendables"]], mk_payables(spec), fee=fee,
                                    lock_time=spec["lock_time"], version=spec["version"])
    return c_tx(tx)


def impl_distribute(t, fee):
    tx = mk_tx(t)
    zc = tx_utils.distribute_from_split_pool(tx, fee)
    return (c_tx(tx), zc)


# ---- C13 x C07: fee="standard" with the byte count computed by the model (Model/TxBuildWire.v) ---------------
def create_wire_line(spec, fee):
    A = addresses()
    sps = alist("%s:%s:%s:%s" % (canon(s[0]), canon(bytes.fromhex(s[1])), canon(bytes.fromhex(s[2])), canon(s[3])) for s in spec["spendables"])
    pays = alist(("A:%s" % canon(A[ai][1])) if v is None else ("P:%s:%s" % (canon(A[ai][1]), canon(v))) for ai, v in spec["payables"])
    return "create_tx_wire %s %s %s %s %s" % (sps, pays, a_fee(fee), canon(spec["lock_time"]), canon(spec["version"]))


def gen_wire_spec(rng):
    """create_tx specs aimed at the serialised size and at what struct.pack refuses: counts and script lengths around the
    CompactSize thresholds, amounts / version / lock time / indices at and beyond their wire widths, odd hash lengths"""
    A = addresses()
    k = rng.random()
    n_in = rng.choice([1, 1, 2, 3]) if k < 0.8 else rng.choice([252, 253, 254])
    def script():
        q = rng.random()
        if q < 0.7:
            return r_script(rng)
        return bytes(rng.getrandbits(8) for _ in range(rng.choice([0, 1, 75, 76, 251, 252, 253, 254, 255, 256, 300])))
    def hsh():
        q = rng.random()
        if q < 0.9:
            return r_hash(rng)
        return bytes(rng.getrandbits(8) for _ in range(rng.choice([0, 1, 31, 33, 40])))
    def idx():
        return rng.choice([0, 1, 7, FFFF, FFFF, FFFF + 1, -1, 2 ** 32 + 5, rng.getrandbits(32)])
    sps = [[rng.choice([r_value(rng), rng.randint(1, MAX), 2 ** 64 - 1, 2 ** 64, 2 ** 64 + rng.randint(1, 10 ** 6)]) if rng.random() < 0.15 else r_value(rng),
            script().hex(), hsh().hex(), idx() if rng.random() < 0.2 else rng.choice([0, 1, 2]), "obj"] for _ in range(n_in)]
    n_out = rng.choice([1, 2, 2, 3, 4]) if rng.random() < 0.85 else rng.choice([252, 253, 254])
    pays = []
    for _ in range(n_out):
        ai = rng.randrange(len(A))
        q = rng.random()
        if q < 0.45:
            pays.append([ai, None])
        elif q < 0.8:
            pays.append([ai, max(1, r_value(rng) // rng.choice([2, 10, 1000, 10 ** 6]))])
        elif q < 0.9:
            pays.append([ai, rng.choice([-1, -rng.randint(1, 10 ** 6), 2 ** 64 - 1, 2 ** 64, 2 ** 64 + 1, 2 ** 63])])
        else:
            pays.append([ai, 0])
    ver = rng.choice([1, 1, 2, 0, -1, 2 ** 32 - 1, 2 ** 32, 2 ** 31]) if rng.random() < 0.3 else rng.choice([1, 2])
    lt = rng.choice([0, 1, 2 ** 32 - 1, 2 ** 32, -1, 500000000]) if rng.random() < 0.3 else 0
    return {"spendables": sps, "payables": pays, "lock_time": lt, "version": ver}


def impl_distribute_wire(t, fee):
    return impl_distribute(t, fee)


def impl_recommended_fee_for_tx(t):
    return tx_fee.recommended_fee_for_tx(mk_tx(t))


def impl_stream_len(t):
    return byte_count(mk_tx(t))


def wire_tx_specs(rng, tier):
    """transactions for distribute_wire / recommended_fee_for_tx / stream_len: ordinary ones plus field-width and size-threshold ones"""
    for _ in range(250 if tier == "quick" else 4000):
        t = gen_tx_spec(rng, rng.random() < 0.5)
        q = rng.random()
        if q < 0.12 and t["outs"]:
            i = rng.randrange(len(t["outs"]))
            t["outs"][i] = (rng.choice([-1, 2 ** 64, 2 ** 64 - 1, -rng.randint(1, 1000), 2 ** 64 + 7]), t["outs"][i][1])
        elif q < 0.2:
            t["version"] = rng.choice([-1, 2 ** 32, 2 ** 32 - 1, 2 ** 40])
        elif q < 0.28:
            t["lock_time"] = rng.choice([-1, 2 ** 32, 2 ** 32 - 1])
        elif q < 0.36 and t["ins"]:
            i = rng.randrange(len(t["ins"]))
            h, x, sc, sq = t["ins"][i]
            t["ins"][i] = rng.choice([(h, 2 ** 32, sc, sq), (h, -1, sc, sq), (h, x, sc, 2 ** 32), (h[:rng.choice([0, 5, 31])], x, sc, sq),
                                      (h + b"\x07\x08", x, sc, sq)])
        elif q < 0.5:
            n = rng.choice([0, 75, 76, 252, 253, 254, 255, 256, 65535, 65536])
            sc = bytes(rng.getrandbits(8) for _ in range(min(n, 300))) + b"\0" * max(0, n - 300)
            if t["outs"] and rng.random() < 0.6:
                i = rng.randrange(len(t["outs"]))
                t["outs"][i] = (t["outs"][i][0], sc)
            elif t["ins"]:
                i = rng.randrange(len(t["ins"]))
                h, x, _, sq = t["ins"][i]
                t["ins"][i] = (h, x, sc, sq)
        elif q < 0.56:
            m = rng.choice([252, 253, 254])
            t["outs"] = [(rng.choice([0, 0, 5, 1000]), b"\x51") for _ in range(m)]
        yield t


# ---- validate_unspents scenarios -------------------------------------------------------------------
KINDS = ["none", "missing-key", "wrong-tx-under-key", "value+1", "value-1", "value-zero", "script-changed", "script-truncated",
         "script-extended", "index-eq-len", "index-gt-len", "index-huge", "unspents-short", "unspents-long", "unspent-none",
         "coinbase-input-extra-none", "coinbase-input-extra-some", "zero-hash-other-index", "tx-coinbase", "tx-coinbase-no-outs",
         "swap-unspents", "source-has-no-outs", "index-neg-match", "index-neg-mismatch", "index-neg-out-of-range",
         "other-output-of-source", "no-inputs", "db-empty"]


def gen_validate(rng, kind):
    """returns JSON-able scenario {tx: jtx, db: [[key hex, src index]], srcs: [[outs...]]} — the sources are real Tx objects
    rebuilt from `srcs` (one dummy input each, distinguished by their outputs and lock_time)"""
    n_src = rng.randint(1, 3)
    srcs = []
    for j in range(n_src):
        srcs.append({"lock_time": j, "outs": [[r_value(rng), r_script(rng).hex()] for _ in range(rng.randint(1, 4))]})
    n_in = rng.randint(1, 4)
    refs = [(rng.randrange(n_src), None) for _ in range(n_in)]
    refs = [(j, rng.randrange(len(srcs[j]["outs"]))) for j, _ in refs]
    return {"kind": kind, "srcs": srcs, "refs": [list(r) for r in refs], "pick": rng.randrange(n_in), "salt": rng.getrandbits(30),
            "outs": [[r_value(rng) // 7, r_script(rng).hex()] for _ in range(rng.randint(1, 3))]}


def src_tx(s):
    return Tx(1, [TxIn(b"\x07" * 32, s["lock_time"], b"\x51")], [TxOut(v, bytes.fromhex(sc)) for v, sc in s["outs"]], s["lock_time"])


def build_validate(sc):
    """-> (spec of the tx under test, db as list of (key, src Tx))"""
    kind = sc["kind"]
    srcs = [src_tx(s) for s in sc["srcs"]]
    hashes = [t.hash() for t in srcs]
    refs = [tuple(r) for r in sc["refs"]]
    p = sc["pick"] % len(refs)
    salt = sc["salt"]
    ins = [(hashes[j], i, b"", FFFF) for j, i in refs]
    unspents = [tuple([sc["srcs"][j]["outs"][i][0], bytes.fromhex(sc["srcs"][j]["outs"][i][1])]) for j, i in refs]
    db = [(hashes[j], srcs[j]) for j in range(len(srcs))]
    outs = [(v, bytes.fromhex(s)) for v, s in sc["outs"]]
    j, i = refs[p]
    nouts = len(sc["srcs"][j]["outs"])
    if kind == "missing-key":
        db = [(k, t) for k, t in db if k != hashes[j]]
    elif kind == "wrong-tx-under-key":
        other = Tx(1, [TxIn(b"\x09" * 32, salt, b"")], [TxOut(v, bytes.fromhex(s)) for v, s in sc["srcs"][j]["outs"]], 77)
        db = [(k, other if k == hashes[j] else t) for k, t in db]
    elif kind == "value+1":
        unspents[p] = (unspents[p][0] + 1, unspents[p][1])
    elif kind == "value-1":
        unspents[p] = (unspents[p][0] - 1, unspents[p][1])
    elif kind == "value-zero":
        unspents[p] = (0, unspents[p][1])
    elif kind == "script-changed":
        s = bytearray(unspents[p][1] or b"\x00")
        s[salt % len(s)] ^= 1 << (salt % 8)
        unspents[p] = (unspents[p][0], bytes(s) if unspents[p][1] else b"\x00")
    elif kind == "script-truncated":
        unspents[p] = (unspents[p][0], unspents[p][1][:-1] if unspents[p][1] else b"\x51")
    elif kind == "script-extended":
        unspents[p] = (unspents[p][0], unspents[p][1] + b"\x00")
    elif kind == "index-eq-len":
        ins[p] = (ins[p][0], nouts, b"", FFFF)
    elif kind == "index-gt-len":
        ins[p] = (ins[p][0], nouts + 1 + salt % 3, b"", FFFF)
    elif kind == "index-huge":
        ins[p] = (ins[p][0], FFFF - salt % 2, b"", FFFF)
    elif kind == "unspents-short":
        unspents = unspents[:-1]
    elif kind == "unspents-long":
        unspents = unspents + [(5, b"\x51")]
    elif kind == "unspent-none":
        unspents[p] = None
    elif kind == "coinbase-input-extra-none":
        ins.insert(p, (ZERO32, FFFF, b"\x01\x02", 0))
        unspents.insert(p, None)
    elif kind == "coinbase-input-extra-some":
        ins.insert(p, (ZERO32, FFFF, b"\x01\x02", 0))
        unspents.insert(p, (50, b"\x51"))
    elif kind == "zero-hash-other-index":
        ins[p] = (ZERO32, salt % 5, b"", FFFF)
    elif kind == "tx-coinbase":
        ins = [(ZERO32, FFFF, b"\x03abc", FFFF)]
        unspents = [] if salt % 2 else [None]
    elif kind == "tx-coinbase-no-outs":
        ins = [(ZERO32, FFFF, b"\x03abc", FFFF)]
        unspents = []
        outs = []
    elif kind == "swap-unspents":
        q = (p + 1) % len(unspents)
        unspents[p], unspents[q] = unspents[q], unspents[p]
    elif kind == "source-has-no-outs":
        empty = Tx(1, [TxIn(b"\x0a" * 32, salt, b"")], [], 5)
        db.append((empty.hash(), empty))
        ins[p] = (empty.hash(), salt % 2, b"", FFFF)
    elif kind == "index-neg-match":
        ins[p] = (ins[p][0], i - nouts, b"", FFFF)
    elif kind == "index-neg-mismatch":
        ins[p] = (ins[p][0], -1 - ((i + 1) % nouts) if nouts > 1 else -1, b"", FFFF)
        if nouts == 1:
            unspents[p] = (unspents[p][0] + 1, unspents[p][1])
    elif kind == "index-neg-out-of-range":
        ins[p] = (ins[p][0], -nouts - 1 - salt % 2, b"", FFFF)
    elif kind == "other-output-of-source":
        ins[p] = (ins[p][0], (i + 1) % nouts, b"", FFFF)
    elif kind == "no-inputs":
        ins, unspents = [], []
    elif kind == "db-empty":
        db = []
    spec = {"version": 1, "ins": ins, "outs": outs, "lock_time": 0, "unspents": unspents}
    return spec, db


def validate_line(spec, db):
    ents = []
    for k, t in db:
        o = ";".join("%s/%s" % (canon(x.coin_value), canon(x.script)) for x in t.txs_out) or "-"
        ents.append("%s:%s:%s" % (canon(k), canon(t.hash()), o))
    return "validate_unspents %s %s" % (a_tx(spec), alist(ents))


def impl_validate(spec, db):
    return mk_tx(spec).validate_unspents(dict(db))


def validate_scenarios(rng, tier):
    reps = 40 if tier == "quick" else 400
    for kind in KINDS:
        for _ in range(reps):
            yield gen_validate(rng, kind)


# ---- decimals --------------------------------------------------------------------------------------
def satoshi_values(rng, tier):
    for s in range(0, 2001 if tier == "quick" else 100001):
        yield s
    for e in range(0, 16):
        for m in (1, 2, 5, 9, 21):
            for d in (-1, 0, 1):
                yield m * 10 ** e + d
    for s in (MAX - 1, MAX, MAX + 1, 10 ** 5, 10 ** 8, 10 ** 27, 10 ** 28 - 1, 10 ** 28, 10 ** 28 + 1, 10 ** 33 - 1, 10 ** 33, 10 ** 36 - 1,
              10 ** 36, 10 ** 36 + 5, 5 * 10 ** 35, 123456789 * 10 ** 30, -1, -5, -MAX, -10 ** 5, -150000, -10 ** 36):
        yield s
    for _ in range(1500 if tier == "quick" else 40000):
        yield rng.randint(0, MAX)
        yield rng.getrandbits(rng.choice([8, 17, 33, 51, 64, 90, 93, 96, 120, 130]))
        yield rng.randint(0, 10 ** rng.randint(1, 40)) * 10 ** rng.randint(0, 8)


def r_dec(rng):
    k = rng.random()
    if k < 0.15:
        c = rng.choice([0, 1, 5, 10, 25, 100000, 10 ** 8])
    elif k < 0.4:
        c = rng.randint(0, 10 ** rng.randint(1, 12))
    elif k < 0.6:
        c = rng.randint(10 ** 27, 10 ** 29)
    elif k < 0.75:
        c = rng.choice([10 ** 28 - 1, 10 ** 28, 10 ** 28 + 1, 5 * 10 ** 28, 10 ** 29 - 5, 10 ** 29 - 4, 10 ** 29 - 6, 25 * 10 ** 27 + 5,
                        10 ** 28 + 5, 10 ** 28 + 15, 3 * 10 ** 28 + 5, 3 * 10 ** 28 + 15]) * 10 ** rng.randint(0, 3)
    else:
        c = rng.randint(0, 10 ** rng.randint(1, 60))
    return (rng.random() < 0.2, c, rng.choice([0, -8, -5, -1, 1, 3, -9, -12, rng.randint(-30, 30)]))


def btc_decs(rng, tier):
    """Decimal arguments for btc_to_satoshi / mbtc_to_satoshi"""
    for s in itertools.chain(range(0, 300), [MAX, MAX - 1, 10 ** 8, 10 ** 5, 150000, 10 ** 20 - 1, 10 ** 20, 10 ** 21 + 5]):
        for e in (-8, -5, -9, -6, 0, 2, -13):
            yield (False, s, e)
    for _ in range(1500 if tier == "quick" else 40000):
        yield r_dec(rng)
        yield (rng.random() < 0.1, rng.randint(0, MAX), rng.choice([-8, -5]))


def impl_quantize(a, e):
    return c_dec(mk_dec(a).quantize(decimal.Decimal((0, (1,), e))))


def _base_model_cases(rng, tier):
    for t, k in split_pairs(rng, tier):
        yield Case("split %s %s" % (canon(t), canon(k)), (lambda t=t, k=k: call13(lambda: list(tx_utils.split_with_remainder(t, k)))))
    for n in itertools.chain(range(0, 3100, 1 if tier == "thorough" else 7), [999, 1000, 1001, 1999, 2000, 2001, 99999, 100000, 100001, 10 ** 6 + 1],
                             (rng.getrandbits(24) for _ in range(200))):
        class _T:
            def __init__(self, n):
                self.n = n

            def stream(self, f):
                f.write(b"\0" * self.n)
        yield Case("recommended_fee %s" % canon(n), (lambda n=n, T=_T: call13(tx_fee.recommended_fee_for_tx, T(n))))
    for t, f in distribute_specs(rng, tier):
        bc = 0
        if f == "standard":
            try:
                bc = byte_count(mk_tx(t))
            except Exception:
                continue
        yield Case("distribute %s %s %s" % (a_tx(t), a_fee(f), canon(bc)), (lambda t=t, f=f: call13(impl_distribute, t, f)))
        yield Case("distribute_st %s %s %s" % (a_tx(t), a_fee(f), canon(bc)), (lambda t=t, f=f: impl_distribute_st(t, f)),
                   meta={"tx": jtx(t), "fee": f})
        yield Case("total_out " + a_tx(t), (lambda t=t: call13(lambda: mk_tx(t).total_out())))
        yield Case("total_in " + a_tx(t), (lambda t=t: call13(lambda: mk_tx(t).total_in())))
        yield Case("fee " + a_tx(t), (lambda t=t: call13(lambda: mk_tx(t).fee())))
    for _ in range(800 if tier == "quick" else 12000):
        spec = gen_create_spec(rng)
        for f in create_fees(rng, spec):
            yield Case(create_line(spec, f), (lambda spec=spec, f=f: call13(impl_create, spec, f)), meta={"spec": spec, "fee": f})
    # C13 x C07 (Props/C13compose.v): no byte-count argument — the model streams the transaction itself
    for _ in range(500 if tier == "quick" else 8000):
        spec = gen_create_spec(rng) if rng.random() < 0.5 else gen_wire_spec(rng)
        fs = ["standard"] + ([rng.choice(create_fees(rng, spec))] if rng.random() < 0.3 else [])
        for f in fs:
            yield Case(create_wire_line(spec, f), (lambda spec=spec, f=f: call13(impl_create, spec, f)), meta={"spec": spec, "fee": f, "wire": True})
    for t in wire_tx_specs(rng, tier):
        yield Case("distribute_wire %s S" % a_tx(t), (lambda t=t: call13(impl_distribute_wire, t, "standard")))
        yield Case("recommended_fee_for_tx " + a_tx(t), (lambda t=t: call13(impl_recommended_fee_for_tx, t)))
        yield Case("stream_len " + a_tx(t), (lambda t=t: call13(impl_stream_len, t)))
    # coinbase predicates: every combination of hash zero / almost zero / other and index 0xffffffff / neighbours
    for h in (ZERO32, b"\0" * 31 + b"\1", b"\1" + b"\0" * 31, b"\0" * 31, b"\0" * 33, b"", r_hash(rng)):
        for i in (FFFF, FFFF - 1, FFFF + 1, 0, 1, -1):
            yield Case("txin_is_coinbase " + a_in((h, i, b"", 0)), (lambda h=h, i=i: call13(lambda: TxIn(h, i).is_coinbase())))
            for extra in (0, 1):
                t = {"version": 1, "ins": [(h, i, b"\x01", 5)] + [(r_hash(rng), 0, b"", FFFF)] * extra, "outs": [(7, b"\x51"), (9, b"")],
                     "lock_time": 0, "unspents": [(20, b"\x51")] * (1 + extra)}
                yield Case("is_coinbase " + a_tx(t), (lambda t=t: call13(lambda: mk_tx(t).is_coinbase())))
                yield Case("fee " + a_tx(t), (lambda t=t: call13(lambda: mk_tx(t).fee())))
    for sc in validate_scenarios(rng, tier):
        spec, db = build_validate(sc)
        yield Case(validate_line(spec, db), (lambda spec=spec, db=db: call13(impl_validate, spec, db)), meta={"scenario": sc})
    # conversions
    for s in satoshi_values(rng, tier):
        yield Case("satoshi_to_btc " + canon(s), (lambda s=s: call13(lambda: c_dec(conv.satoshi_to_btc(s)))))
        yield Case("satoshi_to_mbtc " + canon(s), (lambda s=s: call13(lambda: c_dec(conv.satoshi_to_mbtc(s)))))
    for d in btc_decs(rng, tier):
        yield Case("btc_to_satoshi " + a_dec(d), (lambda d=d: call13(lambda: conv.btc_to_satoshi(mk_dec(d)))))
        yield Case("mbtc_to_satoshi " + a_dec(d), (lambda d=d: call13(lambda: conv.mbtc_to_satoshi(mk_dec(d)))))
    # the Decimal model itself against Python's decimal
    for _ in range(2500 if tier == "quick" else 60000):
        a, b = r_dec(rng), r_dec(rng)
        yield Case("dec_mul %s %s" % (a_dec(a), a_dec(b)), (lambda a=a, b=b: call13(lambda: c_dec(mk_dec(a) * mk_dec(b)))))
        yield Case("dec_div %s %s" % (a_dec(a), a_dec(b)), (lambda a=a, b=b: call13(lambda: c_dec(mk_dec(a) / mk_dec(b)))))
        e = rng.choice([-8, -5, 0, 2, -20, a[2], a[2] + rng.randint(-31, 31)])
        yield Case("dec_quantize %s %s" % (a_dec(a), canon(e)), (lambda a=a, e=e: call13(impl_quantize, a, e)))
        yield Case("dec_to_int " + a_dec(a), (lambda a=a: call13(lambda: int(mk_dec(a)))))
        if a[1] != 0:   # unary plus also turns -0 into +0, which is __pos__'s doing, not _fix's
            yield Case("dec_fix " + a_dec(a), (lambda a=a: call13(lambda: c_dec(+mk_dec(a)))))
    for k in range(0, 62):
        for c in (10 ** k - 1, 10 ** k, 10 ** k + 1):
            if c >= 0:
                yield Case("ndigits " + canon(c), (lambda c=c: canon(len(str(c)))))


# ---- direct property checks --------------------------------------------------------------------------
def chk_split(total, k):
    if k <= 0:
        return None
    l = list(tx_utils.split_with_remainder(total, k))
    if sum(l) != total:
        return {"kind": "split-sum", "got": l[:20]}
    if len(l) != k:
        return {"kind": "split-length", "got": len(l)}
    if any(a < b for a, b in zip(l, l[1:])):
        return {"kind": "split-not-larger-first", "got": l[:20]}
    if max(l) - min(l) > 1:
        return {"kind": "split-spread", "got": l[:20]}
    return None


def chk_create(spec, fee):
    """conservation, pool shares, ValueError boundary, pairing, fee — on the real create_tx"""
    sps = [mk_spendable(s) for s in spec["spendables"]]
    pays = mk_payables(spec)
    tot = sum(s[0] for s in spec["spendables"])
    fixed = sum(p[1] or 0 for p in spec["payables"])
    pool = [idx for idx, p in enumerate(spec["payables"]) if not p[1]]
    k = len(pool)
    remaining = tot - fixed - fee
    must_raise = k > 0 and remaining < k
    snap = lambda: ([x.as_text() if isinstance(x, Spendable) else repr(x) for x in sps], repr(pays))
    before = snap()
    try:
        tx = network.tx_utils.create_tx(sps, pays, fee=fee, lock_time=spec["lock_time"], version=spec["version"])
    except ValueError as e:
        if snap() != before:
            return {"kind": "refused-create_tx-changed-its-arguments"}
        if must_raise:
            return None
        return {"kind": "create-raises-with-sufficient-funds", "remaining": remaining, "pool": k, "detail": str(e)}
    except Exception as e:
        return {"kind": "create-raises-other", "detail": "%s: %s" % (type(e).__name__, e)}
    if must_raise:
        return {"kind": "create-returns-with-insufficient-funds", "remaining": remaining, "pool": k,
                "outs": [o.coin_value for o in tx.txs_out]}
    if snap() != before:
        return {"kind": "create_tx-changed-its-arguments"}
    outs = [o.coin_value for o in tx.txs_out]
    A = addresses()
    if len(outs) != len(spec["payables"]) or any(o.script != A[p[0]][1] for o, p in zip(tx.txs_out, spec["payables"])):
        return {"kind": "create-outputs-scripts", "outs": outs}
    if k > 0 and sum(outs) + fee != tot:
        return {"kind": "conservation", "in": tot, "out": sum(outs), "fee": fee}
    for idx, p in enumerate(spec["payables"]):
        if p[1] and outs[idx] != p[1]:
            return {"kind": "fixed-output-changed", "index": idx, "got": outs[idx]}
    shares = [outs[idx] for idx in pool]
    if any(s < 1 for s in shares):
        return {"kind": "pool-share-not-positive", "shares": shares}
    if shares and (max(shares) - min(shares) > 1 or any(a < b for a, b in zip(shares, shares[1:]))):
        return {"kind": "pool-shares-uneven", "shares": shares}
    if len(tx.txs_in) != len(sps) or len(tx.unspents) != len(sps):
        return {"kind": "pairing-length"}
    for idx, s in enumerate(spec["spendables"]):
        ti, u = tx.txs_in[idx], tx.unspents[idx]
        if ti.previous_hash != bytes.fromhex(s[2]) or ti.previous_index != s[3] or u.coin_value != s[0] or u.script != bytes.fromhex(s[1]):
            return {"kind": "pairing", "index": idx}
    if tx.version != spec["version"] or tx.lock_time != spec["lock_time"]:
        return {"kind": "version-locktime"}
    if not tx.is_coinbase() and sps:
        if tx.total_in() != tot or tx.total_out() != sum(outs) or tx.fee() != tot - sum(outs):
            return {"kind": "fee-definition", "fee()": tx.fee()}
        if k > 0 and tx.fee() != fee:
            return {"kind": "fee-not-requested", "fee()": tx.fee(), "requested": fee}
    return None


def chk_fee(jt):
    t = untx(jt)
    tx = mk_tx(t)
    if tx.total_out() != sum(v for v, _ in t["outs"]):
        return {"kind": "total_out"}
    complete = len(t["unspents"]) == len(t["ins"]) and all(u is not None for u in t["unspents"])
    if tx.is_coinbase():
        return None
    try:
        ti = tx.total_in()
        f = tx.fee()
    except ValueError:
        return None if not complete else {"kind": "total_in-raises-with-complete-unspents"}
    if not complete:
        return {"kind": "total_in-returns-with-missing-unspents", "got": ti}
    if ti != sum(u[0] for u in t["unspents"]) or f != ti - tx.total_out():
        return {"kind": "fee-definition", "total_in": ti, "fee": f}
    return None


def chk_validate(sc):
    """normal return => every non-coinbase input's recorded amount and script equal the source output (checked
    independently against the database), and the returned fee is inputs - outputs"""
    spec, dbl = build_validate(sc)
    db = dict(dbl)
    tx = mk_tx(spec)
    before = c_tx(tx)
    try:
        f = tx.validate_unspents(db)
    except Exception as e:
        if c_tx(tx) != before:
            return {"kind": "refused-validate_unspents-changed-the-transaction"}
        if sc["kind"] == "none":
            return {"kind": "valid-rejected", "detail": "%s: %s" % (type(e).__name__, e)}
        return None
    for idx, (h, i, _, _) in enumerate(spec["ins"]):
        if h == ZERO32 and i == FFFF:
            continue
        src = db.get(h)
        if src is None or src.hash() != h:
            return {"kind": "accepted-unauthenticated-source", "input": idx}
        n = len(src.txs_out)
        if not (-n <= i < n):
            return {"kind": "accepted-index-out-of-range", "input": idx, "index": i}
        o = src.txs_out[i]
        u = spec["unspents"][idx] if idx < len(spec["unspents"]) else None
        if u is None:
            return {"kind": "accepted-missing-unspent", "input": idx}
        if u[0] != o.coin_value:
            return {"kind": "accepted-amount-mismatch", "input": idx, "recorded": u[0], "source": o.coin_value}
        if u[1] != o.script:
            return {"kind": "accepted-script-mismatch", "input": idx}
    if not tx.is_coinbase():
        exp = sum(u[0] for u in spec["unspents"]) - sum(v for v, _ in spec["outs"])
        if f != exp:
            return {"kind": "validate-fee", "got": f, "expected": exp}
    return None


def fmt_fixed(s, places):
    neg = s < 0
    a = abs(s)
    txt = "%d.%0*d" % (a // 10 ** places, places, a % 10 ** places)
    return ("-" if neg else "") + txt


def chk_decimal(s):
    for name, to_d, from_d, places in (("btc", conv.satoshi_to_btc, conv.btc_to_satoshi, 8),
                                       ("mbtc", conv.satoshi_to_mbtc, conv.mbtc_to_satoshi, 5)):
        d = to_d(s)
        if Fraction(d) != Fraction(s, 10 ** places):
            return {"kind": "satoshi_to_%s-inexact" % name, "got": str(d)}
        if s != 0 and d.as_tuple().exponent != -places:
            return {"kind": "satoshi_to_%s-exponent" % name, "got": str(d)}
        txt = str(d)
        # str() switches to scientific notation for small values ('1E-8'): Python's choice; the fixed-point
        # rendering must be the exact digits, and str() must parse back to the same Decimal
        if s != 0 and format(d, "f") != fmt_fixed(s, places):
            return {"kind": "fixed-form-%s" % name, "got": format(d, "f"), "expected": fmt_fixed(s, places)}
        if decimal.Decimal(txt) != d or decimal.Decimal(txt).as_tuple() != d.as_tuple():
            return {"kind": "str-reparse-%s" % name, "got": txt}
        for arg_ in (d, txt, fmt_fixed(s, places), decimal.Decimal(fmt_fixed(s, places))):
            back = from_d(arg_)
            if back != s or type(back) is not int:
                return {"kind": "%s-roundtrip" % name, "via": repr(arg_), "got": back}
        # other direction: decimal -> satoshi -> decimal keeps the value
        d2 = to_d(from_d(txt))
        if d2 != d:
            return {"kind": "%s-decimal-roundtrip" % name, "got": str(d2)}
    return None


def prop_satoshis(rng, tier):
    for s in range(0, 1500 if tier == "quick" else 50000):
        yield s
    for e in range(0, 16):
        for m in (1, 2, 5, 9, 21):
            for d in (-1, 0, 1):
                if 0 <= m * 10 ** e + d <= MAX:
                    yield m * 10 ** e + d
    yield MAX
    yield MAX - 1
    for _ in range(1500 if tier == "quick" else 50000):
        yield rng.randint(0, MAX)
        yield rng.randint(0, 10 ** rng.randint(1, 15))
    for _ in range(100):
        yield -rng.randint(1, MAX)


def _base_run_check(name, inp):
    if name == "split":
        return chk_split(int(inp["total"]), int(inp["k"]))
    if name == "create_tx":
        return chk_create(inp["spec"], inp["fee"])
    if name == "fee":
        return chk_fee(inp["tx"])
    if name == "validate_unspents":
        return chk_validate(inp)
    if name == "decimal":
        return chk_decimal(int(inp["s"]))
    return {"kind": "unknown-check"}


def _base_prop_cases(rng, tier):
    for t, k in split_pairs(rng, tier):
        if k > 0:
            yield PropCase("split", {"total": t, "k": k}, (lambda t=t, k=k: chk_split(t, k)))
    for _ in range(700 if tier == "quick" else 20000):
        spec = gen_create_spec(rng)
        for f in create_fees(rng, spec):
            if f == "standard" or f < 0:
                continue
            inp = {"spec": spec, "fee": f}
            yield PropCase("create_tx", inp, (lambda inp=inp: run_check("create_tx", inp)))
    for _ in range(400 if tier == "quick" else 8000):
        jt = jtx(gen_tx_spec(rng))
        yield PropCase("fee", {"tx": jt}, (lambda jt=jt: chk_fee(jt)))
    for sc in validate_scenarios(rng, tier):
        if sc["kind"].startswith("index-neg"):
            continue
        yield PropCase("validate_unspents", sc, (lambda sc=sc: chk_validate(sc)))
    for s in prop_satoshis(rng, tier):
        yield PropCase("decimal", {"s": s}, (lambda s=s: chk_decimal(s)))


def replay_input(check, inp):
    return run_check(check, inp)


def classify(pc, r):
    return None


KNOWN_REPLAYS = {}


def _z(tok):
    return -int(tok[2:], 16) if tok.startswith("i-") else int(tok[1:], 16)


def _base_search(rng, tier, disagreements, known_ids):
    """after a proof/correspondence break: look for an input on which the property itself fails"""
    cands = []
    for d in disagreements[:60]:
        toks = d["case"].split(" ")
        fn = toks[0]
        meta = d.get("meta") or {}
        if fn == "split":
            t, k = _z(toks[1]), _z(toks[2])
            for dt in (-1, 0, 1):
                for dk in (-1, 0, 1):
                    if k + dk > 0:
                        cands.append(PropCase("split", {"total": t + dt, "k": k + dk}, (lambda a=t + dt, b=k + dk: chk_split(a, b))))
        elif fn == "create_tx" and "spec" in meta and meta["fee"] != "standard":
            for df in (-2, -1, 0, 1, 2):
                inp = {"spec": meta["spec"], "fee": meta["fee"] + df}
                if inp["fee"] >= 0:
                    cands.append(PropCase("create_tx", inp, (lambda inp=inp: run_check("create_tx", inp))))
        elif fn == "validate_unspents" and "scenario" in meta and not meta["scenario"]["kind"].startswith("index-neg"):
            sc = meta["scenario"]
            cands.append(PropCase("validate_unspents", sc, (lambda sc=sc: chk_validate(sc))))
        elif fn in ("satoshi_to_btc", "satoshi_to_mbtc"):
            s = _z(toks[1])
            for ds in (-1, 0, 1):
                if 0 <= s + ds <= MAX:
                    cands.append(PropCase("decimal", {"s": s + ds}, (lambda s=s + ds: chk_decimal(s))))
        elif fn in ("btc_to_satoshi", "mbtc_to_satoshi"):
            f = toks[1].split(":")
            c, e = _z(f[1]), _z(f[2])
            for places in (8, 5):
                if e >= -places and 0 <= c * 10 ** (e + places) <= MAX:
                    s = c * 10 ** (e + places)
                    cands.append(PropCase("decimal", {"s": s}, (lambda s=s: chk_decimal(s))))
    cands += list(prop_cases(rng, tier))  # the extended generator (defined below)
    for pc in cands:
        try:
            r = pc.thunk()
        except Exception as e:
            r = {"kind": "raises", "detail": "%s: %s" % (type(e).__name__, e)}
        if r is not None and classify(pc, r) not in known_ids:
            return {"check": pc.name, "input": pc.inp, "failure": r}
    return None


# ====================================================================================================
# Round c: (A) "a refused call changes nothing" and (B) value histories of one Tx object.
# The transaction is a mutable object: observers (fee, total_in, total_out, is_coinbase, validate_unspents) and
# mutators by every route (set_unspents, unspents_from_db, direct assignment of unspents / txs_out / txs_in,
# in-place edits, append, clear, distribute_from_split_pool) are executed as a history on ONE object; the model
# (Model/TxBuild.v step/run) predicts every result and the final state; the direct check compares the object with a
# transaction freshly built from its current fields after every step, and the state before/after every refused call.
# ====================================================================================================
def impl_distribute_st(t, fee):
    tx = mk_tx(t)
    r = call13(tx_utils.distribute_from_split_pool, tx, fee)
    return "(%s %s)" % (r, canon(c_tx(tx)))


class FreshDb:
    """a transaction database that deserializes on every get (as a disk- or network-backed tx_db does), so that the
    objects it hands out are never shared with the transaction under test"""

    def __init__(self, pairs):
        self.blobs = {k: t.as_bin() for k, t in pairs}

    def get(self, h, default=None):
        b = self.blobs.get(h)
        return default if b is None else Tx.from_bin(b)


OBSERVERS = [["OTI"], ["OTO"], ["OFEE"], ["OCB"], ["OVAL", 0], ["OVAL", 1]]


def j_unspent(u):
    return None if u is None else [u[0], u[1].hex()]


def apply_op(tx, dbs, op):
    k = op[0]
    if k == "OTI":
        return tx.total_in()
    if k == "OTO":
        return tx.total_out()
    if k == "OFEE":
        return tx.fee()
    if k == "OCB":
        return int(bool(tx.is_coinbase()))
    if k == "OVAL":
        return tx.validate_unspents(dbs[op[1]])
    mk_u = lambda u: None if u is None else TxOut(u[0], bytes.fromhex(u[1]))
    if k == "SU":
        r = tx.set_unspents([mk_u(u) for u in op[1]])
    elif k == "FD":
        r = tx.unspents_from_db(dbs[op[1]], ignore_missing=op[2])
    elif k == "AU":
        tx.unspents = [mk_u(u) for u in op[1]]
        r = None
    elif k == "EU":
        tx.unspents[op[1]].coin_value = op[2]
        r = None
    elif k == "PU":
        r = tx.unspents.append(mk_u(op[1]))
    elif k == "CU":
        r = tx.unspents.clear()
    elif k == "AO":
        tx.txs_out = [TxOut(v, bytes.fromhex(sc)) for v, sc in op[1]]
        r = None
    elif k == "EO":
        tx.txs_out[op[1]].coin_value = op[2]
        r = None
    elif k == "PO":
        r = tx.txs_out.append(TxOut(op[1][0], bytes.fromhex(op[1][1])))
    elif k == "AI":
        tx.txs_in = [TxIn(bytes.fromhex(h), i, bytes.fromhex(sc), q) for h, i, sc, q in op[1]]
        r = None
    elif k == "DI":
        return tx_utils.distribute_from_split_pool(tx, op[1])
    else:
        raise RuntimeError("unknown op %r" % (op,))
    if r is not None:
        raise TypeError("mutator returned %r" % (r,))
    return 0


def a_op(op):
    k = op[0]
    sub_u = lambda us: ";".join("N" if u is None else "%s/%s" % (canon(u[0]), canon(bytes.fromhex(u[1]))) for u in us) or "-"
    sub_o = lambda os_: ";".join("%s/%s" % (canon(v), canon(bytes.fromhex(sc))) for v, sc in os_) or "-"
    if k in ("OTI", "OTO", "OFEE", "OCB", "CU"):
        return k
    if k == "OVAL":
        return "OVAL:%s" % canon(op[1])
    if k in ("SU", "AU"):
        return "%s:%s" % (k, sub_u(op[1]))
    if k == "FD":
        return "FD:%s:%s" % (canon(op[1]), canon(bool(op[2])))
    if k in ("EU", "EO"):
        return "%s:%s:%s" % (k, canon(op[1]), canon(op[2]))
    if k == "PU":
        return "PU:%s" % sub_u([op[1]])
    if k == "AO":
        return "AO:%s" % sub_o(op[1])
    if k == "PO":
        return "PO:%s" % sub_o([op[1]])
    if k == "AI":
        return "AI:%s" % (";".join("%s/%s/%s/%s" % (canon(bytes.fromhex(h)), canon(i), canon(bytes.fromhex(sc)), canon(q))
                                   for h, i, sc, q in op[1]) or "-")
    if k == "DI":
        return "DI:%s" % a_fee(op[1])
    raise RuntimeError("unknown op %r" % (op,))


def history_setup(hs):
    """hs = {"sc": validate scenario, "ops": [...]} -> (spec of the tx, [db0 pairs, db1 pairs])
    db 0 is the scenario's (possibly defective) database, db 1 the honest one holding every source"""
    sc = hs["sc"]
    spec, db0 = build_validate(sc)
    srcs = [src_tx(x) for x in sc["srcs"]]
    db1 = [(t.hash(), t) for t in srcs]
    return spec, [db0, db1]


def history_line(hs):
    spec, dbl = history_setup(hs)
    ents = []
    for k, db in enumerate(dbl):
        for key, t in db:
            o = ";".join("%s/%s" % (canon(x.coin_value), canon(x.script)) for x in t.txs_out) or "-"
            ents.append("%s:%s:%s:%s" % (canon(k), canon(key), canon(t.hash()), o))
    return "history %s %s %s" % (a_tx(spec), alist(ents), alist(a_op(o) for o in hs["ops"]))


def impl_history(hs):
    spec, dbl = history_setup(hs)
    dbs = [FreshDb(d) for d in dbl]
    tx = mk_tx(spec)
    res = [call13(apply_op, tx, dbs, op) for op in hs["ops"]]
    return "([%s] %s)" % (" ".join(res), canon(c_tx(tx)))


def spec_of(tx):
    v, ins, outs, lt, us = c_tx(tx)
    return {"version": v, "ins": ins, "outs": outs, "lock_time": lt, "unspents": us}


def chk_history(hs):
    """independent reference = a transaction freshly built from the object's current fields"""
    spec, dbl = history_setup(hs)
    dbs = [FreshDb(d) for d in dbl]
    tx = mk_tx(spec)
    for n, op in enumerate(hs["ops"]):
        before = c_tx(tx)
        r = call13(apply_op, tx, dbs, op)
        after = c_tx(tx)
        if r.startswith("!") and after != before:
            return {"kind": "refused-call-changed-the-object", "step": n, "op": op, "result": r,
                    "outs_before": [o[0] for o in before[2]], "outs_after": [o[0] for o in after[2]],
                    "unspents_before": [u and u[0] for u in before[4]], "unspents_after": [u and u[0] for u in after[4]]}
        if op[0].startswith("O") and after != before:
            return {"kind": "observer-changed-the-object", "step": n, "op": op}
        fresh = mk_tx(spec_of(tx))
        for ob in OBSERVERS:
            a = call13(apply_op, tx, dbs, ob)
            b = call13(apply_op, fresh, dbs, ob)
            if a != b:
                return {"kind": "stale-observation", "after_step": n, "after_op": op, "observer": ob, "object_says": a,
                        "freshly_built_equal_transaction_says": b, "unspents": [u and u[0] for u in after[4]],
                        "outs": [o[0] for o in after[2]]}
        if c_tx(tx) != after:
            return {"kind": "observer-changed-the-object", "step": n, "op": "observers"}
    return None


def _r_unspents(rng, n, base):
    """a list of n recorded unspents: the authentic ones with some amounts misreported, or random ones"""
    us = []
    for j in range(n):
        if base and j < len(base) and base[j] is not None and rng.random() < 0.7:
            v, sc = base[j]
            us.append([v + rng.choice([0, 0, 1, -1, 30000, rng.randint(1, 10 ** 6)]), sc.hex()])
        elif rng.random() < 0.1:
            us.append(None)
        else:
            us.append([r_value(rng), r_script(rng).hex()])
    return us


def _r_outs(rng, n):
    return [[0 if rng.random() < 0.45 else rng.randint(1, 10 ** rng.randint(1, 8)), r_script(rng).hex()] for _ in range(n)]


def gen_mutator(rng, kind, st):
    """st: tracked view of the object {"n_in", "ins", "base" (authentic unspents), "us", "outs"} (us/outs None = unknown)"""
    n = st["n_in"]
    if kind == "SU":
        m = n if rng.random() < 0.8 else max(0, n + rng.choice([-1, 1]))
        us = _r_unspents(rng, m, st["base"])
        if m == n:
            st["us"] = us
        return ["SU", us]
    if kind == "FD":
        st["us"] = None
        return ["FD", rng.choice([0, 1, 1]), rng.random() < 0.3]
    if kind == "AU":
        us = _r_unspents(rng, rng.choice([n, n, n, 0, n + 1, max(0, n - 1)]), st["base"])
        st["us"] = us
        return ["AU", us]
    if kind == "EU":
        i = rng.randint(0, n + 1)
        v = rng.choice([0, 1, r_value(rng)])
        if st["us"] is not None and i < len(st["us"]) and st["us"][i] is not None:
            st["us"][i] = [v, st["us"][i][1]]
        return ["EU", i, v]
    if kind == "PU":
        u = None if rng.random() < 0.2 else [r_value(rng), r_script(rng).hex()]
        if st["us"] is not None:
            st["us"] = st["us"] + [u]
        return ["PU", u]
    if kind == "CU":
        st["us"] = []
        return ["CU"]
    if kind == "AO":
        outs = _r_outs(rng, rng.choice([0, 1, 2, 3, 4]))
        st["outs"] = outs
        return ["AO", outs]
    if kind == "EO":
        i = rng.randint(0, 4)
        v = rng.choice([0, 0, 1, rng.randint(1, 10 ** 6)])
        if st["outs"] is not None and i < len(st["outs"]):
            st["outs"][i] = [v, st["outs"][i][1]]
        return ["EO", i, v]
    if kind == "PO":
        o = [rng.choice([0, 0, rng.randint(1, 1000)]), r_script(rng).hex()]
        if st["outs"] is not None:
            st["outs"] = st["outs"] + [o]
        return ["PO", o]
    if kind == "AI":
        q = rng.random()
        if q < 0.3:
            ins = [[ZERO32.hex(), FFFF, "0102", 0]]
        elif q < 0.4:
            ins = []
        else:
            ins = [list(x) for x in st["ins"]]
            rng.shuffle(ins)
            ins = ins[:rng.randint(1, len(ins))] if ins else ins
        st["n_in"] = len(ins)
        st["ins"] = ins
        st["base"] = None
        return ["AI", ins]
    if kind == "DI":
        fee = rng.choice([0, 1, 10, 10000])
        if st["us"] is not None and st["outs"] is not None and all(u is not None for u in st["us"]):
            tot = sum(u[0] for u in st["us"])
            fixed = sum(o[0] for o in st["outs"])
            k = sum(1 for o in st["outs"] if o[0] == 0)
            fee = tot - fixed - rng.choice([-1, 0, 1, k - 1, k, k + 1, 2 * k + 1, max(1, k - 2), rng.randint(0, 3 * k + 2)])
        st["outs"] = None
        return ["DI", fee]
    raise RuntimeError(kind)


MUTATORS = ["SU", "FD", "AU", "EU", "PU", "CU", "AO", "EO", "PO", "AI", "DI"]


def _track(sc):
    spec, _ = build_validate(sc)
    return {"n_in": len(spec["ins"]), "ins": [[h.hex(), i, s.hex(), q] for h, i, s, q in spec["ins"]],
            "base": list(spec["unspents"]), "us": [j_unspent(u) for u in spec["unspents"]],
            "outs": [[v, s.hex()] for v, s in spec["outs"]]}


def history_scenarios(rng, tier):
    # every observer x every mutator: observe, mutate, observe again (with and without misreported amounts first)
    reps = 1 if tier == "quick" else 12
    for _ in range(reps):
        for kind in ("none", "value+1"):
            for ob in OBSERVERS:
                for m in MUTATORS:
                    sc = gen_validate(rng, kind)
                    st = _track(sc)
                    ops = []
                    if rng.random() < 0.5:
                        ops.append(gen_mutator(rng, "SU", st))
                    if m == "DI":
                        ops.append(gen_mutator(rng, "AO", st))
                    ops += [ob, gen_mutator(rng, m, st), ob]
                    if m in ("AO", "EO", "PO") and rng.random() < 0.7:
                        ops += [gen_mutator(rng, "DI", st), ob]
                    yield {"sc": sc, "ops": ops}
    # the documented workflow: reported amounts, ask the fee / validate (refused), load authentic amounts, ask again
    for _ in range(40 if tier == "quick" else 1500):
        sc = gen_validate(rng, rng.choice(["none", "value+1", "value-1", "script-changed", "missing-key"]))
        st = _track(sc)
        ops = [gen_mutator(rng, "SU", st), rng.choice(OBSERVERS), ["OVAL", rng.choice([0, 1])], ["FD", 1, False],
               ["OFEE"], ["OTI"], ["OVAL", 1], gen_mutator(rng, "SU", st), ["OFEE"]]
        yield {"sc": sc, "ops": ops}
    # refused distribution, then a second try on the same object
    for _ in range(60 if tier == "quick" else 2000):
        sc = gen_validate(rng, "none")
        st = _track(sc)
        ops = [gen_mutator(rng, "AO", st), gen_mutator(rng, "DI", st), ["OTO"], ["DI", rng.choice([0, 1, 2])], ["OFEE"], ["OTO"]]
        yield {"sc": sc, "ops": ops}
    # random histories
    for _ in range(250 if tier == "quick" else 12000):
        sc = gen_validate(rng, rng.choice(KINDS[:12] + ["none", "none", "unspent-none", "tx-coinbase", "coinbase-input-extra-none"]))
        st = _track(sc)
        ops = []
        for _ in range(rng.randint(3, 12)):
            if rng.random() < 0.45:
                ops.append(rng.choice(OBSERVERS))
            else:
                ops.append(gen_mutator(rng, rng.choice(MUTATORS), st))
        ops.append(rng.choice(OBSERVERS))
        yield {"sc": sc, "ops": ops}


# ---- refused distribution: the ValueError (and the AttributeError) must leave the transaction as it was ------------
def refused_specs(rng, tier):
    """(tx spec, refused fee, affordable fee): k >= 1 pool outputs, remaining in {k-1 .. 1, 0, -1, far below}"""
    n = 150 if tier == "quick" else 5000
    for _ in range(n):
        k = rng.choice([1, 2, 2, 3, 3, 4, 5, 8])
        n_fixed = rng.choice([0, 0, 1, 2])
        outs = [(0, r_script(rng)) for _ in range(k)] + [(rng.randint(1, 10 ** rng.randint(1, 7)), r_script(rng)) for _ in range(n_fixed)]
        rng.shuffle(outs)
        n_in = rng.randint(1, 3)
        fixed = sum(v for v, _ in outs)
        unspents = [(r_value(rng) + fixed, r_script(rng)) for _ in range(n_in)]
        t = {"version": 1, "ins": [(r_hash(rng), j, b"", FFFF) for j in range(n_in)], "outs": outs, "lock_time": 0, "unspents": unspents}
        tot = sum(u[0] for u in unspents)
        rems = list(range(1, k)) + [0, -1, -rng.randint(2, 10 ** 6)]
        for rem in (rems if tier == "thorough" or k <= 3 else rng.sample(rems, 3)):
            hi = tot - fixed - rem
            lo = rng.choice([0, 1, hi - rng.randint(k, 3 * k + 5) + rem if hi > 3 * k + 5 else 0])
            if tot - fixed - lo >= k:
                yield t, hi, max(lo, 0) if tot - fixed - max(lo, 0) >= k else 0
    # AttributeError path: a None among the unspents
    for _ in range(20 if tier == "quick" else 300):
        t = gen_tx_spec(rng, False)
        if t["unspents"] and any(v == 0 for v, _ in t["outs"]):
            t["unspents"][rng.randrange(len(t["unspents"]))] = None
            yield t, rng.randint(0, 100), None


def chk_refused(jt, hi, lo):
    t = untx(jt)
    tx = mk_tx(t)
    before = c_tx(tx)
    try:
        tx_utils.distribute_from_split_pool(tx, hi)
        raised = None
    except Exception as e:
        raised = e
    complete = all(u is not None for u in t["unspents"])
    k = sum(1 for v, _ in t["outs"] if v == 0)
    if complete and k > 0:
        rem = sum(u[0] for u in t["unspents"]) - sum(v for v, _ in t["outs"]) - hi
        if rem < k and not isinstance(raised, ValueError):
            return {"kind": "distribute-did-not-refuse", "remaining": rem, "pool": k, "raised": repr(raised)}
    if raised is None:
        return None
    after = c_tx(tx)
    if after != before:
        return {"kind": "refused-distribution-changed-the-transaction", "raised": type(raised).__name__,
                "outs_before": [o[0] for o in before[2]], "outs_after": [o[0] for o in after[2]]}
    if lo is None or not complete:
        return None
    # the caller lowers the fee and tries again on the same object: must equal a first attempt on a fresh one
    ref = mk_tx(t)
    exp = call13(lambda: (tx_utils.distribute_from_split_pool(ref, lo), c_tx(ref)))
    got = call13(lambda: (tx_utils.distribute_from_split_pool(tx, lo), c_tx(tx)))
    if exp != got:
        return {"kind": "retry-after-refusal-differs-from-first-attempt", "outs_retry": [o.coin_value for o in tx.txs_out],
                "outs_fresh": [o.coin_value for o in ref.txs_out]}
    shares = [o.coin_value for o, (v, _) in zip(tx.txs_out, t["outs"]) if v == 0]
    tot = sum(u[0] for u in t["unspents"])
    if not got.startswith("!"):
        if sum(o.coin_value for o in tx.txs_out) + lo != tot or tx.fee() != lo:
            return {"kind": "retry-conservation", "outs": [o.coin_value for o in tx.txs_out], "fee": lo, "in": tot}
        if min(shares) < 1 or max(shares) - min(shares) > 1 or shares != sorted(shares, reverse=True):
            return {"kind": "retry-pool-shares-uneven", "shares": shares}
    return None


# ---- presentations and configurations --------------------------------------------------------------------------------
class _MyInt(int):
    pass


def chk_presentation(inp):
    """int subclasses (bool, user subclass) as amounts / fees / satoshi counts give what the plain int gives"""
    s = inp["s"]
    for wrap in (_MyInt,):
        for f in (conv.satoshi_to_btc, conv.satoshi_to_mbtc):
            if call13(lambda: c_dec(f(wrap(s)))) != call13(lambda: c_dec(f(s))):
                return {"kind": "int-subclass-presentation", "function": f.__name__}
        k = 1 + s % 7
        if call13(lambda: [int(x) for x in tx_utils.split_with_remainder(wrap(s), wrap(k))]) != call13(lambda: list(tx_utils.split_with_remainder(s, k))):
            return {"kind": "int-subclass-presentation", "function": "split_with_remainder"}
    if conv.satoshi_to_btc(True) != conv.satoshi_to_btc(1) or conv.satoshi_to_btc(False) != conv.satoshi_to_btc(0):
        return {"kind": "bool-presentation"}
    # fee and amounts as int subclass in distribute
    t = {"version": 1, "ins": [(b"\x01" * 32, 0, b"", FFFF)], "outs": [(0, b"\x51"), (0, b"\x52"), (3, b"\x53")], "lock_time": 0,
         "unspents": [(s + 10, b"\x51")]}
    a = mk_tx(t)
    a.unspents[0].coin_value = _MyInt(s + 10)
    b = mk_tx(t)
    ra = call13(lambda: (tx_utils.distribute_from_split_pool(a, _MyInt(2)), [int(o.coin_value) for o in a.txs_out], int(a.fee())))
    rb = call13(lambda: (tx_utils.distribute_from_split_pool(b, 2), [o.coin_value for o in b.txs_out], b.fee()))
    if ra != rb:
        return {"kind": "int-subclass-presentation", "function": "distribute_from_split_pool", "got": ra, "expected": rb}
    return None


OTHER_NET = None


def other_network():
    global OTHER_NET
    if OTHER_NET is None:
        try:
            from pycoin.symbols.ltc import network as n2
        except Exception:
            from pycoin.symbols.xtn import network as n2
        OTHER_NET = n2
    return OTHER_NET


def chk_two_networks(inp):
    """the same value data built on BTC, on another network, and on BTC again: same amounts every time (no state
    carried between networks or calls)"""
    spec, fee = inp["spec"], inp["fee"]
    n2 = other_network()

    def build(net):
        T = net.tx
        sps = [T.Spendable(s[0], bytes.fromhex(s[1]), bytes.fromhex(s[2]), s[3]) for s in spec["spendables"]]
        pays = []
        for ai, v in spec["payables"]:
            a = net.address.for_p2pkh(bytes([ai + 1]) * 20)
            pays.append(a if v is None else (a, v))
        return call13(lambda: (lambda tx: ([o.coin_value for o in tx.txs_out], tx.total_in(), tx.total_out(), tx.fee()))(
            net.tx_utils.create_tx(sps, pays, fee=fee, lock_time=spec["lock_time"], version=spec["version"])))
    r1, r2, r3, r4 = build(network), build(n2), build(network), build(n2)
    if not (r1 == r2 == r3 == r4):
        return {"kind": "network-or-call-order-dependence", "btc": r1, "other": r2, "btc_again": r3, "other_again": r4}
    return None


# ---- extended entry points ---------------------------------------------------------------------------------------------
def model_cases(rng, tier):
    for c in _base_model_cases(rng, tier):
        yield c
    for t, hi, lo in refused_specs(rng, tier):
        yield Case("distribute_st %s %s %s" % (a_tx(t), a_fee(hi), canon(0)), (lambda t=t, hi=hi: impl_distribute_st(t, hi)),
                   meta={"tx": jtx(t), "fee": hi, "lo": lo})
    for hs in history_scenarios(rng, tier):
        yield Case(history_line(hs), (lambda hs=hs: impl_history(hs)), meta={"history": hs})


def chk_caller_lists(inp):
    """create_tx(list of Spendable objects, list of payables): what the caller does with ITS lists afterwards (reverse, pop,
    append, overwrite a slot, clear) changes nothing on the transaction it was given — pairing, total_in, fee stay
    (seed C13-e1 stored the caller's list as tx.unspents)"""
    spec, fee, edits = inp["spec"], inp["fee"], inp["edits"]
    sps = [Spendable(s[0], bytes.fromhex(s[1]), bytes.fromhex(s[2]), s[3]) for s in spec["spendables"]]
    pays = mk_payables(spec)
    try:
        tx = network.tx_utils.create_tx(sps, pays, fee=fee, lock_time=spec["lock_time"], version=spec["version"])
    except Exception:
        return None
    snap = lambda: (c_tx(tx), call13(tx.total_in), call13(tx.fee), call13(tx.total_out))
    before = snap()
    for e in edits:
        for l in (sps, pays):
            try:
                if e == "reverse":
                    l.reverse()
                elif e == "pop" and l:
                    l.pop()
                elif e == "pop0" and l:
                    l.pop(0)
                elif e == "append":
                    l.append(Spendable(12345, b"\x51", b"\x22" * 32, 9) if l is sps else addresses()[0][0])
                elif e == "slot" and l:
                    l[0] = Spendable(777, b"\x52", b"\x33" * 32, 1) if l is sps else (addresses()[1][0], 5)
                elif e == "clear":
                    l.clear()
            except Exception:
                pass
        after = snap()
        if after != before:
            return {"kind": "transaction-changes-when-the-caller-edits-its-own-list", "edit": e, "before": before[1:], "after": after[1:]}
    return None


def prop_cases(rng, tier):
    for pc in _base_prop_cases(rng, tier):
        yield pc
    for _ in range(40 if tier == "quick" else 1500):
        spec = gen_create_spec(rng)
        if not spec["spendables"]:
            continue
        tot = sum(s_[0] for s_ in spec["spendables"])
        fixed = sum(p_[1] or 0 for p_ in spec["payables"])
        inp = {"spec": spec, "fee": max(0, min(1000, tot - fixed - 10)), "edits": rng.sample(["reverse", "pop", "pop0", "append", "slot", "clear"], 3)}
        yield PropCase("caller_lists", inp, (lambda inp=inp: chk_caller_lists(inp)))
    for t, hi, lo in refused_specs(rng, tier):
        inp = {"tx": jtx(t), "hi": hi, "lo": lo}
        yield PropCase("refused_distribute", inp, (lambda inp=inp: run_check("refused_distribute", inp)))
    for hs in history_scenarios(rng, tier):
        yield PropCase("history", hs, (lambda hs=hs: chk_history(hs)))
    for _ in range(60 if tier == "quick" else 2000):
        inp = {"s": rng.choice([0, 1, 2, rng.randint(0, MAX), rng.getrandbits(64)])}
        yield PropCase("presentation", inp, (lambda inp=inp: chk_presentation(inp)))
    for _ in range(40 if tier == "quick" else 1500):
        spec = gen_create_spec(rng)
        for s in spec["spendables"]:
            s[4] = "obj"
        fees = [f for f in create_fees(rng, spec) if f != "standard" and f >= 0][:2]
        for f in fees:
            inp = {"spec": spec, "fee": f}
            yield PropCase("two_networks", inp, (lambda inp=inp: chk_two_networks(inp)))


def run_check(name, inp):
    if name == "refused_distribute":
        return chk_refused(inp["tx"], inp["hi"], inp["lo"])
    if name == "history":
        return chk_history(inp)
    if name == "presentation":
        return chk_presentation(inp)
    if name == "two_networks":
        return chk_two_networks(inp)
    if name == "caller_lists":
        return chk_caller_lists(inp)
    return _base_run_check(name, inp)


def replay_input(check, inp):
    return run_check(check, inp)


def search(rng, tier, disagreements, known_ids):
    cands = []
    for d in disagreements[:80]:
        fn = d["case"].split(" ", 1)[0]
        meta = d.get("meta") or {}
        if fn == "distribute_st" and "tx" in meta and meta["fee"] != "standard":
            jt = meta["tx"]
            t = untx(jt)
            complete = all(u is not None for u in t["unspents"])
            tot = sum(u[0] for u in t["unspents"] if u is not None)
            fixed = sum(v for v, _ in t["outs"])
            k = sum(1 for v, _ in t["outs"] if v == 0)
            los = [meta.get("lo")] if meta.get("lo") is not None else []
            if complete and tot - fixed >= k:
                los += [0, max(0, tot - fixed - k), max(0, tot - fixed - 2 * k - 1)]
            for df in (0, -1, 1):
                for lo in los or [None]:
                    inp = {"tx": jt, "hi": meta["fee"] + df, "lo": lo}
                    cands.append(PropCase("refused_distribute", inp, (lambda inp=inp: run_check("refused_distribute", inp))))
        elif fn == "history" and "history" in meta:
            hs = meta["history"]
            cands.append(PropCase("history", hs, (lambda hs=hs: chk_history(hs))))
            # every prefix followed by every observer is examined by chk_history itself; also try the history doubled
            hs2 = {"sc": hs["sc"], "ops": hs["ops"] + hs["ops"]}
            cands.append(PropCase("history", hs2, (lambda hs2=hs2: chk_history(hs2))))
    for pc in cands:
        try:
            r = pc.thunk()
        except Exception as e:
            r = {"kind": "raises", "detail": "%s: %s" % (type(e).__name__, e)}
        if r is not None and classify(pc, r) not in known_ids:
            return {"check": pc.name, "input": pc.inp, "failure": r}
    return _base_search(rng, tier, disagreements, known_ids)
