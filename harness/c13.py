"""C13 — transaction construction conserves value to the satoshi; fee; input pairing; validate_unspents;
BTC/mBTC conversions.

Correspondence: extracted Model/TxBuild.v + Model/DecimalConv.v against pycoin.coins.tx_utils,
pycoin.coins.bitcoin.Tx (BTC network object), pycoin.convention and Python's decimal module.
Direct checks: the property itself on the implementation (conservation, boundary of the ValueError,
pairing, fee definition, validate_unspents soundness for every discrepancy kind, decimal round trips incl.
the str() forms)."""
from common import *
import io, decimal, itertools
from fractions import Fraction
from pycoin.symbols.btc import network
from pycoin.coins import tx_utils
from pycoin.convention import tx_fee
import pycoin.convention as conv

Tx = network.tx
TxIn, TxOut, Spendable = Tx.TxIn, Tx.TxOut, Tx.Spendable

PROP = "C13"
DRIVER = "C13"
RULE = ("correspondence: one driver line per call of split_with_remainder / distribute_from_split_pool / create_tx "
        "(BTC network object) / total_in / total_out / fee / is_coinbase / validate_unspents / the four conversions / "
        "Decimal mul, div, quantize, int; distinct = distinct line; non-trivial = model returns a value (not an exception)")
PARTIAL = ["Decimal <-> str (decimal.Decimal(str), str(Decimal)) is Python's: only direct checks "
           "(btc_to_satoshi(str(satoshi_to_btc(s))) == s, str form against an independent formatter)",
           "fee='standard' needs len(tx.stream()): the byte count is an argument of the model (wire format is C07)",
           "address -> script (network.contract.for_address) is outside the model: payables carry the script"]
TRUSTED = ["hand model of decimal.Decimal (mul, truediv, _fix, quantize, _rescale, __int__ at prec 28, ROUND_HALF_EVEN, "
           "exponent limits not modelled), tied by correspondence against Python's decimal on random operands",
           "tx_db.get is a pure lookup (same answer each time it is asked for a hash)",
           "previous_index/tx_out_index are Python ints (negative values index from the end, as list indexing does)"]
ASSUMPTIONS = ["Decimal exponents stay far inside Emin/Emax (+-999999)"]

MAX = 21 * 10 ** 14
ZERO32 = b"\0" * 32
FFFF = 0xFFFFFFFF


# ---- canonical forms / driver tokens ---------------------------------------------------------------
def call13(f, *a):
    try:
        return canon(f(*a))
    except ZeroDivisionError as e:
        if isinstance(e, decimal.DecimalException):
            return "!E_OTHER"
        return "!E_OTHER"
    except decimal.DecimalException:
        return "!E_OTHER"
    except Exception as e:  # noqa
        return "!" + exn_tag(e)


def alist(xs):
    return "[" + ",".join(xs) + "]"


def a_out(o):
    return "%s:%s" % (canon(o[0]), canon(o[1]))


def a_unspent(u):
    return "N" if u is None else a_out(u)


def a_in(i):
    return "%s:%s:%s:%s" % (canon(i[0]), canon(i[1]), canon(i[2]), canon(i[3]))


def a_tx(t):
    return "%s %s %s %s %s" % (canon(t["version"]), alist(a_in(i) for i in t["ins"]), alist(a_out(o) for o in t["outs"]),
                               canon(t["lock_time"]), alist(a_unspent(u) for u in t["unspents"]))


def a_fee(f):
    return "S" if f == "standard" else canon(f)


def a_dec(d):
    return "%s:%s:%s" % (canon(bool(d[0])), canon(d[1]), canon(d[2]))


def mk_tx(t):
    tx = Tx(t["version"], [TxIn(h, i, s, q) for (h, i, s, q) in t["ins"]], [TxOut(v, s) for (v, s) in t["outs"]], t["lock_time"])
    tx.unspents = [None if u is None else TxOut(u[0], u[1]) for u in t["unspents"]]
    return tx


def c_tx(tx):
    return (tx.version, [(i.previous_hash, i.previous_index, i.script, i.sequence) for i in tx.txs_in],
            [(o.coin_value, o.script) for o in tx.txs_out], tx.lock_time,
            [None if u is None else (u.coin_value, u.script) for u in tx.unspents])


def byte_count(tx):
    s = io.BytesIO()
    tx.stream(s)
    return len(s.getvalue())


def mk_dec(d):
    return decimal.Decimal((1 if d[0] else 0, tuple(int(c) for c in str(d[1])), d[2]))


def c_dec(x):
    if not isinstance(x, decimal.Decimal):
        raise TypeError("not a Decimal: %r" % (x,))
    s, digits, e = x.as_tuple()
    return (bool(s), int("".join(map(str, digits)) or "0"), e)


# JSON-able <-> internal (bytes as hex)
def jtx(t):
    return {"version": t["version"], "lock_time": t["lock_time"],
            "ins": [[h.hex(), i, s.hex(), q] for (h, i, s, q) in t["ins"]],
            "outs": [[v, s.hex()] for (v, s) in t["outs"]],
            "unspents": [None if u is None else [u[0], u[1].hex()] for u in t["unspents"]]}


def untx(j):
    return {"version": j["version"], "lock_time": j["lock_time"],
            "ins": [(bytes.fromhex(h), i, bytes.fromhex(s), q) for (h, i, s, q) in j["ins"]],
            "outs": [(v, bytes.fromhex(s)) for (v, s) in j["outs"]],
            "unspents": [None if u is None else (u[0], bytes.fromhex(u[1])) for u in j["unspents"]]}


# ---- generators ----------------------------------------------------------------------------------
def r_value(rng):
    k = rng.random()
    if k < 0.25:
        return rng.randint(1, 20)
    if k < 0.5:
        return rng.randint(1, 10 ** rng.randint(2, 15))
    if k < 0.7:
        return rng.choice([MAX, MAX - 1, 10 ** 8, 10 ** 8 - 1, 546, 1, 2 ** 32, 2 ** 32 - 1, 2 ** 63 - 1, 2 ** 64 - 1])
    if k < 0.9:
        return rng.getrandbits(64) or 1
    return rng.randint(1, MAX)


def r_script(rng):
    return bytes(rng.getrandbits(8) for _ in range(rng.choice([0, 1, 1, 2, 3, 5, 23, 25])))


def r_hash(rng):
    return bytes(rng.getrandbits(8) for _ in range(32))


def split_pairs(rng, tier):
    T, K = (120, 8) if tier == "quick" else (400, 12)
    for t in range(0, T + 1):
        for k in range(0, K + 1):
            yield t, k
    for t in range(-25, 0):
        for k in range(-3, K + 1):
            yield t, k
    for t in range(0, 12):
        for k in range(-4, 0):
            yield t, k
    for _ in range(1500 if tier == "quick" else 40000):
        k = rng.choice([1, 2, 3, 5, 7, 8, 12, 16, 31, 64, rng.randint(1, 40)])
        t = rng.choice([rng.getrandbits(64), rng.randint(0, MAX), rng.getrandbits(70), -rng.getrandbits(40)])
        yield t, k
        m = rng.getrandbits(rng.choice([8, 32, 50, 62]))
        for d in (-1, 0, 1):
            yield m * k + d, k


def gen_tx_spec(rng, unspent_quirks=True):
    n_in = rng.choice([0, 1, 1, 2, 2, 3, 4])
    ins = [(r_hash(rng), rng.choice([0, 1, 2, 7, rng.getrandbits(16)]), b"", FFFF) for _ in range(n_in)]
    unspents = [(r_value(rng), r_script(rng)) for _ in range(n_in)]
    n_out = rng.choice([0, 1, 2, 2, 3, 3, 4, 5, 6, 8])
    outs = []
    for _ in range(n_out):
        k = rng.random()
        if k < 0.5:
            v = 0
        elif k < 0.9:
            v = r_value(rng) // rng.choice([1, 3, 10, 1000])
        else:
            v = rng.randint(1, 100)
        outs.append((v, r_script(rng)))
    if unspent_quirks and rng.random() < 0.12:
        q = rng.random()
        if q < 0.4 and unspents:
            unspents[rng.randrange(len(unspents))] = None
        elif q < 0.7:
            unspents.append((r_value(rng), r_script(rng)))
        elif unspents:
            unspents.pop()
    return {"version": rng.choice([1, 1, 2, rng.getrandbits(31)]), "ins": ins, "outs": outs,
            "lock_time": rng.choice([0, 0, 500000, rng.getrandbits(32)]), "unspents": unspents}


def boundary_fees(rng, total_in, fixed, k):
    """fees that put remaining = total_in - fixed - fee at the decision boundaries"""
    rems = [-1, 0, 1, k - 1, k, k + 1, 2 * k - 1, 2 * k, 2 * k + 1, rng.randint(0, 3 * k + 3)]
    return [total_in - fixed - r for r in rems]


def distribute_specs(rng, tier):
    n = 1000 if tier == "quick" else 15000
    for _ in range(n):
        t = gen_tx_spec(rng)
        tot = sum(u[0] for u in t["unspents"] if u is not None)
        fixed = sum(v for v, _ in t["outs"])
        k = sum(1 for v, _ in t["outs"] if v == 0)
        fees = [rng.choice([0, 0, 1, 10000, rng.randint(0, 10 ** 6)])]
        if rng.random() < 0.7:
            fees += rng.sample(boundary_fees(rng, tot, fixed, k), 3)
        if rng.random() < 0.1:
            fees.append(-rng.randint(1, 1000))
        if rng.random() < 0.3:
            fees.append("standard")
        for f in fees:
            yield t, f
    # negative fixed outputs / negative unspents: nothing in the code checks a sign
    for _ in range(60 if tier == "quick" else 1000):
        t = gen_tx_spec(rng, False)
        if t["outs"]:
            i = rng.randrange(len(t["outs"]))
            t["outs"][i] = (-rng.randint(1, 1000), t["outs"][i][1])
        yield t, rng.randint(0, 100)


ADDRS = None


def addresses():
    global ADDRS
    if ADDRS is None:
        r = random.Random("C13/addresses")
        ADDRS = []
        for i in range(24):
            h = bytes(r.getrandbits(8) for _ in range(20))
            a = network.address.for_p2pkh(h) if i % 3 else network.address.for_p2sh(h)
            ADDRS.append((a, network.contract.for_address(a)))
        a = network.address.for_p2pkh_wit(bytes(r.getrandbits(8) for _ in range(20)))
        ADDRS.append((a, network.contract.for_address(a)))
    return ADDRS


def gen_create_spec(rng):
    """JSON-able: spendables [[value, script hex, hash hex, index, form]], payables [[addr idx, value or None]]"""
    n_in = rng.choice([0, 1, 1, 2, 3, 4, 5])
    sps = [[r_value(rng) if rng.random() < 0.8 else rng.randint(1, MAX), r_script(rng).hex(), r_hash(rng).hex(),
            rng.choice([0, 1, 2, 5, rng.getrandbits(10), FFFF]), rng.choice(["obj", "obj", "text", "dict"])] for _ in range(n_in)]
    n_out = rng.choice([0, 1, 1, 2, 2, 3, 4, 5, 6, 7])
    A = addresses()
    pays = []
    for _ in range(n_out):
        k = rng.random()
        ai = rng.randrange(len(A))
        if k < 0.45:
            pays.append([ai, None])
        elif k < 0.55:
            pays.append([ai, 0])
        else:
            pays.append([ai, max(1, r_value(rng) // rng.choice([2, 5, 10, 100, 10 ** 6]))])
    return {"spendables": sps, "payables": pays, "lock_time": rng.choice([0, 0, 1, rng.getrandbits(32)]),
            "version": rng.choice([1, 1, 2])}


def create_fees(rng, spec):
    tot = sum(s[0] for s in spec["spendables"])
    fixed = sum(p[1] or 0 for p in spec["payables"])
    k = sum(1 for p in spec["payables"] if not p[1])
    fees = [f for f in boundary_fees(rng, tot, fixed, k)]
    rng.shuffle(fees)
    out = [f for f in fees[:4] if f >= 0]
    out.append(rng.choice([0, 0, 1, 1000, 10000]))
    if rng.random() < 0.25:
        out.append("standard")
    if rng.random() < 0.15:
        out.append(fees[4])  # possibly negative
    return out


def mk_spendable(s):
    sp = Spendable(s[0], bytes.fromhex(s[1]), bytes.fromhex(s[2]), s[3])
    form = s[4] if len(s) > 4 else "obj"
    if form == "text":
        return sp.as_text()
    if form == "dict":
        return sp.as_dict()
    return sp


def mk_payables(spec):
    A = addresses()
    return [A[ai][0] if v is None else (A[ai][0], v) for ai, v in spec["payables"]]


def create_line(spec, fee):
    A = addresses()
    sps = alist("%s:%s:%s:%s" % (canon(s[0]), canon(bytes.fromhex(s[1])), canon(bytes.fromhex(s[2])), canon(s[3])) for s in spec["spendables"])
    pays = alist(("A:%s" % canon(A[ai][1])) if v is None else ("P:%s:%s" % (canon(A[ai][1]), canon(v))) for ai, v in spec["payables"])
    # byte count of the transaction as distribute_from_split_pool sees it (all pool outputs still 0)
    bc = 0
    if fee == "standard":
        t0 = Tx(spec["version"], [Spendable(s[0], bytes.fromhex(s[1]), bytes.fromhex(s[2]), s[3]).tx_in() for s in spec["spendables"]],
                [TxOut(v or 0, A[ai][1]) for ai, v in spec["payables"]], spec["lock_time"])
        bc = byte_count(t0)
    return "create_tx %s %s %s %s %s %s" % (sps, pays, a_fee(fee), canon(spec["lock_time"]), canon(spec["version"]), canon(bc))


def impl_create(spec, fee):
    tx = network.tx_utils.create_tx([mk_spendable(s) for s in spec["spendables"]], mk_payables(spec), fee=fee,
                                    lock_time=spec["lock_time"], version=spec["version"])
    return c_tx(tx)


def impl_distribute(t, fee):
    tx = mk_tx(t)
    zc = tx_utils.distribute_from_split_pool(tx, fee)
    return (c_tx(tx), zc)


# ---- validate_unspents scenarios -------------------------------------------------------------------
KINDS = ["none", "missing-key", "wrong-tx-under-key", "value+1", "value-1", "value-zero", "script-changed", "script-truncated",
         "script-extended", "index-eq-len", "index-gt-len", "index-huge", "unspents-short", "unspents-long", "unspent-none",
         "coinbase-input-extra-none", "coinbase-input-extra-some", "zero-hash-other-index", "tx-coinbase", "tx-coinbase-no-outs",
         "swap-unspents", "source-has-no-outs", "index-neg-match", "index-neg-mismatch", "index-neg-out-of-range",
         "other-output-of-source", "no-inputs", "db-empty"]


def gen_validate(rng, kind):
    """returns JSON-able scenario {tx: jtx, db: [[key hex, src index]], srcs: [[outs...]]} — the sources are real Tx objects
    rebuilt from `srcs` (one dummy input each, distinguished by their outputs and lock_time)"""
    n_src = rng.randint(1, 3)
    srcs = []
    for j in range(n_src):
        srcs.append({"lock_time": j, "outs": [[r_value(rng), r_script(rng).hex()] for _ in range(rng.randint(1, 4))]})
    n_in = rng.randint(1, 4)
    refs = [(rng.randrange(n_src), None) for _ in range(n_in)]
    refs = [(j, rng.randrange(len(srcs[j]["outs"]))) for j, _ in refs]
    return {"kind": kind, "srcs": srcs, "refs": [list(r) for r in refs], "pick": rng.randrange(n_in), "salt": rng.getrandbits(30),
            "outs": [[r_value(rng) // 7, r_script(rng).hex()] for _ in range(rng.randint(1, 3))]}


def src_tx(s):
    return Tx(1, [TxIn(b"\x07" * 32, s["lock_time"], b"\x51")], [TxOut(v, bytes.fromhex(sc)) for v, sc in s["outs"]], s["lock_time"])


def build_validate(sc):
    """-> (spec of the tx under test, db as list of (key, src Tx))"""
    kind = sc["kind"]
    srcs = [src_tx(s) for s in sc["srcs"]]
    hashes = [t.hash() for t in srcs]
    refs = [tuple(r) for r in sc["refs"]]
    p = sc["pick"] % len(refs)
    salt = sc["salt"]
    ins = [(hashes[j], i, b"", FFFF) for j, i in refs]
    unspents = [tuple([sc["srcs"][j]["outs"][i][0], bytes.fromhex(sc["srcs"][j]["outs"][i][1])]) for j, i in refs]
    db = [(hashes[j], srcs[j]) for j in range(len(srcs))]
    outs = [(v, bytes.fromhex(s)) for v, s in sc["outs"]]
    j, i = refs[p]
    nouts = len(sc["srcs"][j]["outs"])
    if kind == "missing-key":
        db = [(k, t) for k, t in db if k != hashes[j]]
    elif kind == "wrong-tx-under-key":
        other = Tx(1, [TxIn(b"\x09" * 32, salt, b"")], [TxOut(v, bytes.fromhex(s)) for v, s in sc["srcs"][j]["outs"]], 77)
        db = [(k, other if k == hashes[j] else t) for k, t in db]
    elif kind == "value+1":
        unspents[p] = (unspents[p][0] + 1, unspents[p][1])
    elif kind == "value-1":
        unspents[p] = (unspents[p][0] - 1, unspents[p][1])
    elif kind == "value-zero":
        unspents[p] = (0, unspents[p][1])
    elif kind == "script-changed":
        s = bytearray(unspents[p][1] or b"\x00")
        s[salt % len(s)] ^= 1 << (salt % 8)
        unspents[p] = (unspents[p][0], bytes(s) if unspents[p][1] else b"\x00")
    elif kind == "script-truncated":
        unspents[p] = (unspents[p][0], unspents[p][1][:-1] if unspents[p][1] else b"\x51")
    elif kind == "script-extended":
        unspents[p] = (unspents[p][0], unspents[p][1] + b"\x00")
    elif kind == "index-eq-len":
        ins[p] = (ins[p][0], nouts, b"", FFFF)
    elif kind == "index-gt-len":
        ins[p] = (ins[p][0], nouts + 1 + salt % 3, b"", FFFF)
    elif kind == "index-huge":
        ins[p] = (ins[p][0], FFFF - salt % 2, b"", FFFF)
    elif kind == "unspents-short":
        unspents = unspents[:-1]
    elif kind == "unspents-long":
        unspents = unspents + [(5, b"\x51")]
    elif kind == "unspent-none":
        unspents[p] = None
    elif kind == "coinbase-input-extra-none":
        ins.insert(p, (ZERO32, FFFF, b"\x01\x02", 0))
        unspents.insert(p, None)
    elif kind == "coinbase-input-extra-some":
        ins.insert(p, (ZERO32, FFFF, b"\x01\x02", 0))
        unspents.insert(p, (50, b"\x51"))
    elif kind == "zero-hash-other-index":
        ins[p] = (ZERO32, salt % 5, b"", FFFF)
    elif kind == "tx-coinbase":
        ins = [(ZERO32, FFFF, b"\x03abc", FFFF)]
        unspents = [] if salt % 2 else [None]
    elif kind == "tx-coinbase-no-outs":
        ins = [(ZERO32, FFFF, b"\x03abc", FFFF)]
        unspents = []
        outs = []
    elif kind == "swap-unspents":
        q = (p + 1) % len(unspents)
        unspents[p], unspents[q] = unspents[q], unspents[p]
    elif kind == "source-has-no-outs":
        empty = Tx(1, [TxIn(b"\x0a" * 32, salt, b"")], [], 5)
        db.append((empty.hash(), empty))
        ins[p] = (empty.hash(), salt % 2, b"", FFFF)
    elif kind == "index-neg-match":
        ins[p] = (ins[p][0], i - nouts, b"", FFFF)
    elif kind == "index-neg-mismatch":
        ins[p] = (ins[p][0], -1 - ((i + 1) % nouts) if nouts > 1 else -1, b"", FFFF)
        if nouts == 1:
            unspents[p] = (unspents[p][0] + 1, unspents[p][1])
    elif kind == "index-neg-out-of-range":
        ins[p] = (ins[p][0], -nouts - 1 - salt % 2, b"", FFFF)
    elif kind == "other-output-of-source":
        ins[p] = (ins[p][0], (i + 1) % nouts, b"", FFFF)
    elif kind == "no-inputs":
        ins, unspents = [], []
    elif kind == "db-empty":
        db = []
    spec = {"version": 1, "ins": ins, "outs": outs, "lock_time": 0, "unspents": unspents}
    return spec, db


def validate_line(spec, db):
    ents = []
    for k, t in db:
        o = ";".join("%s/%s" % (canon(x.coin_value), canon(x.script)) for x in t.txs_out) or "-"
        ents.append("%s:%s:%s" % (canon(k), canon(t.hash()), o))
    return "validate_unspents %s %s" % (a_tx(spec), alist(ents))


def impl_validate(spec, db):
    return mk_tx(spec).validate_unspents(dict(db))


def validate_scenarios(rng, tier):
    reps = 40 if tier == "quick" else 400
    for kind in KINDS:
        for _ in range(reps):
            yield gen_validate(rng, kind)


# ---- decimals --------------------------------------------------------------------------------------
def satoshi_values(rng, tier):
    for s in range(0, 2001 if tier == "quick" else 100001):
        yield s
    for e in range(0, 16):
        for m in (1, 2, 5, 9, 21):
            for d in (-1, 0, 1):
                yield m * 10 ** e + d
    for s in (MAX - 1, MAX, MAX + 1, 10 ** 5, 10 ** 8, 10 ** 27, 10 ** 28 - 1, 10 ** 28, 10 ** 28 + 1, 10 ** 33 - 1, 10 ** 33, 10 ** 36 - 1,
              10 ** 36, 10 ** 36 + 5, 5 * 10 ** 35, 123456789 * 10 ** 30, -1, -5, -MAX, -10 ** 5, -150000, -10 ** 36):
        yield s
    for _ in range(1500 if tier == "quick" else 40000):
        yield rng.randint(0, MAX)
        yield rng.getrandbits(rng.choice([8, 17, 33, 51, 64, 90, 93, 96, 120, 130]))
        yield rng.randint(0, 10 ** rng.randint(1, 40)) * 10 ** rng.randint(0, 8)


def r_dec(rng):
    k = rng.random()
    if k < 0.15:
        c = rng.choice([0, 1, 5, 10, 25, 100000, 10 ** 8])
    elif k < 0.4:
        c = rng.randint(0, 10 ** rng.randint(1, 12))
    elif k < 0.6:
        c = rng.randint(10 ** 27, 10 ** 29)
    elif k < 0.75:
        c = rng.choice([10 ** 28 - 1, 10 ** 28, 10 ** 28 + 1, 5 * 10 ** 28, 10 ** 29 - 5, 10 ** 29 - 4, 10 ** 29 - 6, 25 * 10 ** 27 + 5,
                        10 ** 28 + 5, 10 ** 28 + 15, 3 * 10 ** 28 + 5, 3 * 10 ** 28 + 15]) * 10 ** rng.randint(0, 3)
    else:
        c = rng.randint(0, 10 ** rng.randint(1, 60))
    return (rng.random() < 0.2, c, rng.choice([0, -8, -5, -1, 1, 3, -9, -12, rng.randint(-30, 30)]))


def btc_decs(rng, tier):
    """Decimal arguments for btc_to_satoshi / mbtc_to_satoshi"""
    for s in itertools.chain(range(0, 300), [MAX, MAX - 1, 10 ** 8, 10 ** 5, 150000, 10 ** 20 - 1, 10 ** 20, 10 ** 21 + 5]):
        for e in (-8, -5, -9, -6, 0, 2, -13):
            yield (False, s, e)
    for _ in range(1500 if tier == "quick" else 40000):
        yield r_dec(rng)
        yield (rng.random() < 0.1, rng.randint(0, MAX), rng.choice([-8, -5]))


def impl_quantize(a, e):
    return c_dec(mk_dec(a).quantize(decimal.Decimal((0, (1,), e))))


def model_cases(rng, tier):
    for t, k in split_pairs(rng, tier):
        yield Case("split %s %s" % (canon(t), canon(k)), (lambda t=t, k=k: call13(lambda: list(tx_utils.split_with_remainder(t, k)))))
    for n in itertools.chain(range(0, 3100, 1 if tier == "thorough" else 7), [999, 1000, 1001, 1999, 2000, 2001, 99999, 100000, 100001, 10 ** 6 + 1],
                             (rng.getrandbits(24) for _ in range(200))):
        class _T:
            def __init__(self, n):
                self.n = n

            def stream(self, f):
                f.write(b"\0" * self.n)
        yield Case("recommended_fee %s" % canon(n), (lambda n=n, T=_T: call13(tx_fee.recommended_fee_for_tx, T(n))))
    for t, f in distribute_specs(rng, tier):
        bc = 0
        if f == "standard":
            try:
                bc = byte_count(mk_tx(t))
            except Exception:
                continue
        yield Case("distribute %s %s %s" % (a_tx(t), a_fee(f), canon(bc)), (lambda t=t, f=f: call13(impl_distribute, t, f)))
        yield Case("total_out " + a_tx(t), (lambda t=t: call13(lambda: mk_tx(t).total_out())))
        yield Case("total_in " + a_tx(t), (lambda t=t: call13(lambda: mk_tx(t).total_in())))
        yield Case("fee " + a_tx(t), (lambda t=t: call13(lambda: mk_tx(t).fee())))
    for _ in range(800 if tier == "quick" else 12000):
        spec = gen_create_spec(rng)
        for f in create_fees(rng, spec):
            yield Case(create_line(spec, f), (lambda spec=spec, f=f: call13(impl_create, spec, f)), meta={"spec": spec, "fee": f})
    # coinbase predicates: every combination of hash zero / almost zero / other and index 0xffffffff / neighbours
    for h in (ZERO32, b"\0" * 31 + b"\1", b"\1" + b"\0" * 31, b"\0" * 31, b"\0" * 33, b"", r_hash(rng)):
        for i in (FFFF, FFFF - 1, FFFF + 1, 0, 1, -1):
            yield Case("txin_is_coinbase " + a_in((h, i, b"", 0)), (lambda h=h, i=i: call13(lambda: TxIn(h, i).is_coinbase())))
            for extra in (0, 1):
                t = {"version": 1, "ins": [(h, i, b"\x01", 5)] + [(r_hash(rng), 0, b"", FFFF)] * extra, "outs": [(7, b"\x51"), (9, b"")],
                     "lock_time": 0, "unspents": [(20, b"\x51")] * (1 + extra)}
                yield Case("is_coinbase " + a_tx(t), (lambda t=t: call13(lambda: mk_tx(t).is_coinbase())))
                yield Case("fee " + a_tx(t), (lambda t=t: call13(lambda: mk_tx(t).fee())))
    for sc in validate_scenarios(rng, tier):
        spec, db = build_validate(sc)
        yield Case(validate_line(spec, db), (lambda spec=spec, db=db: call13(impl_validate, spec, db)), meta={"scenario": sc})
    # conversions
    for s in satoshi_values(rng, tier):
        yield Case("satoshi_to_btc " + canon(s), (lambda s=s: call13(lambda: c_dec(conv.satoshi_to_btc(s)))))
        yield Case("satoshi_to_mbtc " + canon(s), (lambda s=s: call13(lambda: c_dec(conv.satoshi_to_mbtc(s)))))
    for d in btc_decs(rng, tier):
        yield Case("btc_to_satoshi " + a_dec(d), (lambda d=d: call13(lambda: conv.btc_to_satoshi(mk_dec(d)))))
        yield Case("mbtc_to_satoshi " + a_dec(d), (lambda d=d: call13(lambda: conv.mbtc_to_satoshi(mk_dec(d)))))
    # the Decimal model itself against Python's decimal
    for _ in range(2500 if tier == "quick" else 60000):
        a, b = r_dec(rng), r_dec(rng)
        yield Case("dec_mul %s %s" % (a_dec(a), a_dec(b)), (lambda a=a, b=b: call13(lambda: c_dec(mk_dec(a) * mk_dec(b)))))
        yield Case("dec_div %s %s" % (a_dec(a), a_dec(b)), (lambda a=a, b=b: call13(lambda: c_dec(mk_dec(a) / mk_dec(b)))))
        e = rng.choice([-8, -5, 0, 2, -20, a[2], a[2] + rng.randint(-31, 31)])
        yield Case("dec_quantize %s %s" % (a_dec(a), canon(e)), (lambda a=a, e=e: call13(impl_quantize, a, e)))
        yield Case("dec_to_int " + a_dec(a), (lambda a=a: call13(lambda: int(mk_dec(a)))))
        if a[1] != 0:   # unary plus also turns -0 into +0, which is __pos__'s doing, not _fix's
            yield Case("dec_fix " + a_dec(a), (lambda a=a: call13(lambda: c_dec(+mk_dec(a)))))
    for k in range(0, 62):
        for c in (10 ** k - 1, 10 ** k, 10 ** k + 1):
            if c >= 0:
                yield Case("ndigits " + canon(c), (lambda c=c: canon(len(str(c)))))


# ---- direct property checks --------------------------------------------------------------------------
def chk_split(total, k):
    if k <= 0:
        return None
    l = list(tx_utils.split_with_remainder(total, k))
    if sum(l) != total:
        return {"kind": "split-sum", "got": l[:20]}
    if len(l) != k:
        return {"kind": "split-length", "got": len(l)}
    if any(a < b for a, b in zip(l, l[1:])):
        return {"kind": "split-not-larger-first", "got": l[:20]}
    if max(l) - min(l) > 1:
        return {"kind": "split-spread", "got": l[:20]}
    return None


def chk_create(spec, fee):
    """conservation, pool shares, ValueError boundary, pairing, fee — on the real create_tx"""
    sps = [mk_spendable(s) for s in spec["spendables"]]
    pays = mk_payables(spec)
    tot = sum(s[0] for s in spec["spendables"])
    fixed = sum(p[1] or 0 for p in spec["payables"])
    pool = [idx for idx, p in enumerate(spec["payables"]) if not p[1]]
    k = len(pool)
    remaining = tot - fixed - fee
    must_raise = k > 0 and remaining < k
    try:
        tx = network.tx_utils.create_tx(sps, pays, fee=fee, lock_time=spec["lock_time"], version=spec["version"])
    except ValueError as e:
        if must_raise:
            return None
        return {"kind": "create-raises-with-sufficient-funds", "remaining": remaining, "pool": k, "detail": str(e)}
    except Exception as e:
        return {"kind": "create-raises-other", "detail": "%s: %s" % (type(e).__name__, e)}
    if must_raise:
        return {"kind": "create-returns-with-insufficient-funds", "remaining": remaining, "pool": k,
                "outs": [o.coin_value for o in tx.txs_out]}
    outs = [o.coin_value for o in tx.txs_out]
    A = addresses()
    if len(outs) != len(spec["payables"]) or any(o.script != A[p[0]][1] for o, p in zip(tx.txs_out, spec["payables"])):
        return {"kind": "create-outputs-scripts", "outs": outs}
    if k > 0 and sum(outs) + fee != tot:
        return {"kind": "conservation", "in": tot, "out": sum(outs), "fee": fee}
    for idx, p in enumerate(spec["payables"]):
        if p[1] and outs[idx] != p[1]:
            return {"kind": "fixed-output-changed", "index": idx, "got": outs[idx]}
    shares = [outs[idx] for idx in pool]
    if any(s < 1 for s in shares):
        return {"kind": "pool-share-not-positive", "shares": shares}
    if shares and (max(shares) - min(shares) > 1 or any(a < b for a, b in zip(shares, shares[1:]))):
        return {"kind": "pool-shares-uneven", "shares": shares}
    if len(tx.txs_in) != len(sps) or len(tx.unspents) != len(sps):
        return {"kind": "pairing-length"}
    for idx, s in enumerate(spec["spendables"]):
        ti, u = tx.txs_in[idx], tx.unspents[idx]
        if ti.previous_hash != bytes.fromhex(s[2]) or ti.previous_index != s[3] or u.coin_value != s[0] or u.script != bytes.fromhex(s[1]):
            return {"kind": "pairing", "index": idx}
    if tx.version != spec["version"] or tx.lock_time != spec["lock_time"]:
        return {"kind": "version-locktime"}
    if not tx.is_coinbase() and sps:
        if tx.total_in() != tot or tx.total_out() != sum(outs) or tx.fee() != tot - sum(outs):
            return {"kind": "fee-definition", "fee()": tx.fee()}
        if k > 0 and tx.fee() != fee:
            return {"kind": "fee-not-requested", "fee()": tx.fee(), "requested": fee}
    return None


def chk_fee(jt):
    t = untx(jt)
    tx = mk_tx(t)
    if tx.total_out() != sum(v for v, _ in t["outs"]):
        return {"kind": "total_out"}
    complete = len(t["unspents"]) == len(t["ins"]) and all(u is not None for u in t["unspents"])
    if tx.is_coinbase():
        return None
    try:
        ti = tx.total_in()
        f = tx.fee()
    except ValueError:
        return None if not complete else {"kind": "total_in-raises-with-complete-unspents"}
    if not complete:
        return {"kind": "total_in-returns-with-missing-unspents", "got": ti}
    if ti != sum(u[0] for u in t["unspents"]) or f != ti - tx.total_out():
        return {"kind": "fee-definition", "total_in": ti, "fee": f}
    return None


def chk_validate(sc):
    """normal return => every non-coinbase input's recorded amount and script equal the source output (checked
    independently against the database), and the returned fee is inputs - outputs"""
    spec, dbl = build_validate(sc)
    db = dict(dbl)
    tx = mk_tx(spec)
    try:
        f = tx.validate_unspents(db)
    except Exception as e:
        if sc["kind"] == "none":
            return {"kind": "valid-rejected", "detail": "%s: %s" % (type(e).__name__, e)}
        return None
    for idx, (h, i, _, _) in enumerate(spec["ins"]):
        if h == ZERO32 and i == FFFF:
            continue
        src = db.get(h)
        if src is None or src.hash() != h:
            return {"kind": "accepted-unauthenticated-source", "input": idx}
        n = len(src.txs_out)
        if not (-n <= i < n):
            return {"kind": "accepted-index-out-of-range", "input": idx, "index": i}
        o = src.txs_out[i]
        u = spec["unspents"][idx] if idx < len(spec["unspents"]) else None
        if u is None:
            return {"kind": "accepted-missing-unspent", "input": idx}
        if u[0] != o.coin_value:
            return {"kind": "accepted-amount-mismatch", "input": idx, "recorded": u[0], "source": o.coin_value}
        if u[1] != o.script:
            return {"kind": "accepted-script-mismatch", "input": idx}
    if not tx.is_coinbase():
        exp = sum(u[0] for u in spec["unspents"]) - sum(v for v, _ in spec["outs"])
        if f != exp:
            return {"kind": "validate-fee", "got": f, "expected": exp}
    return None


def fmt_fixed(s, places):
    neg = s < 0
    a = abs(s)
    txt = "%d.%0*d" % (a // 10 ** places, places, a % 10 ** places)
    return ("-" if neg else "") + txt


def chk_decimal(s):
    for name, to_d, from_d, places in (("btc", conv.satoshi_to_btc, conv.btc_to_satoshi, 8),
                                       ("mbtc", conv.satoshi_to_mbtc, conv.mbtc_to_satoshi, 5)):
        d = to_d(s)
        if Fraction(d) != Fraction(s, 10 ** places):
            return {"kind": "satoshi_to_%s-inexact" % name, "got": str(d)}
        if s != 0 and d.as_tuple().exponent != -places:
            return {"kind": "satoshi_to_%s-exponent" % name, "got": str(d)}
        txt = str(d)
        # str() switches to scientific notation for small values ('1E-8'): Python's choice; the fixed-point
        # rendering must be the exact digits, and str() must parse back to the same Decimal
        if s != 0 and format(d, "f") != fmt_fixed(s, places):
            return {"kind": "fixed-form-%s" % name, "got": format(d, "f"), "expected": fmt_fixed(s, places)}
        if decimal.Decimal(txt) != d or decimal.Decimal(txt).as_tuple() != d.as_tuple():
            return {"kind": "str-reparse-%s" % name, "got": txt}
        for arg_ in (d, txt, fmt_fixed(s, places), decimal.Decimal(fmt_fixed(s, places))):
            back = from_d(arg_)
            if back != s or type(back) is not int:
                return {"kind": "%s-roundtrip" % name, "via": repr(arg_), "got": back}
        # other direction: decimal -> satoshi -> decimal keeps the value
        d2 = to_d(from_d(txt))
        if d2 != d:
            return {"kind": "%s-decimal-roundtrip" % name, "got": str(d2)}
    return None


def prop_satoshis(rng, tier):
    for s in range(0, 1500 if tier == "quick" else 50000):
        yield s
    for e in range(0, 16):
        for m in (1, 2, 5, 9, 21):
            for d in (-1, 0, 1):
                if 0 <= m * 10 ** e + d <= MAX:
                    yield m * 10 ** e + d
    yield MAX
    yield MAX - 1
    for _ in range(1500 if tier == "quick" else 50000):
        yield rng.randint(0, MAX)
        yield rng.randint(0, 10 ** rng.randint(1, 15))
    for _ in range(100):
        yield -rng.randint(1, MAX)


def run_check(name, inp):
    if name == "split":
        return chk_split(int(inp["total"]), int(inp["k"]))
    if name == "create_tx":
        return chk_create(inp["spec"], inp["fee"])
    if name == "fee":
        return chk_fee(inp["tx"])
    if name == "validate_unspents":
        return chk_validate(inp)
    if name == "decimal":
        return chk_decimal(int(inp["s"]))
    return {"kind": "unknown-check"}


def prop_cases(rng, tier):
    for t, k in split_pairs(rng, tier):
        if k > 0:
            yield PropCase("split", {"total": t, "k": k}, (lambda t=t, k=k: chk_split(t, k)))
    for _ in range(700 if tier == "quick" else 20000):
        spec = gen_create_spec(rng)
        for f in create_fees(rng, spec):
            if f == "standard" or f < 0:
                continue
            inp = {"spec": spec, "fee": f}
            yield PropCase("create_tx", inp, (lambda inp=inp: run_check("create_tx", inp)))
    for _ in range(400 if tier == "quick" else 8000):
        jt = jtx(gen_tx_spec(rng))
        yield PropCase("fee", {"tx": jt}, (lambda jt=jt: chk_fee(jt)))
    for sc in validate_scenarios(rng, tier):
        if sc["kind"].startswith("index-neg"):
            continue
        yield PropCase("validate_unspents", sc, (lambda sc=sc: chk_validate(sc)))
    for s in prop_satoshis(rng, tier):
        yield PropCase("decimal", {"s": s}, (lambda s=s: chk_decimal(s)))


def replay_input(check, inp):
    return run_check(check, inp)


def classify(pc, r):
    return None


KNOWN_REPLAYS = {}


def _z(tok):
    return -int(tok[2:], 16) if tok.startswith("i-") else int(tok[1:], 16)


def search(rng, tier, disagreements, known_ids):
    """after a proof/correspondence break: look for an input on which the property itself fails"""
    cands = []
    for d in disagreements[:60]:
        toks = d["case"].split(" ")
        fn = toks[0]
        meta = d.get("meta") or {}
        if fn == "split":
            t, k = _z(toks[1]), _z(toks[2])
            for dt in (-1, 0, 1):
                for dk in (-1, 0, 1):
                    if k + dk > 0:
                        cands.append(PropCase("split", {"total": t + dt, "k": k + dk}, (lambda a=t + dt, b=k + dk: chk_split(a, b))))
        elif fn == "create_tx" and "spec" in meta and meta["fee"] != "standard":
            for df in (-2, -1, 0, 1, 2):
                inp = {"spec": meta["spec"], "fee": meta["fee"] + df}
                if inp["fee"] >= 0:
                    cands.append(PropCase("create_tx", inp, (lambda inp=inp: run_check("create_tx", inp))))
        elif fn == "validate_unspents" and "scenario" in meta and not meta["scenario"]["kind"].startswith("index-neg"):
            sc = meta["scenario"]
            cands.append(PropCase("validate_unspents", sc, (lambda sc=sc: chk_validate(sc))))
        elif fn in ("satoshi_to_btc", "satoshi_to_mbtc"):
            s = _z(toks[1])
            for ds in (-1, 0, 1):
                if 0 <= s + ds <= MAX:
                    cands.append(PropCase("decimal", {"s": s + ds}, (lambda s=s + ds: chk_decimal(s))))
        elif fn in ("btc_to_satoshi", "mbtc_to_satoshi"):
            f = toks[1].split(":")
            c, e = _z(f[1]), _z(f[2])
            for places in (8, 5):
                if e >= -places and 0 <= c * 10 ** (e + places) <= MAX:
                    s = c * 10 ** (e + places)
                    cands.append(PropCase("decimal", {"s": s}, (lambda s=s: chk_decimal(s))))
    cands += list(prop_cases(rng, tier))
    for pc in cands:
        try:
            r = pc.thunk()
        except Exception as e:
            r = {"kind": "raises", "detail": "%s: %s" % (type(e).__name__, e)}
        if r is not None and classify(pc, r) not in known_ids:
            return {"check": pc.name, "input": pc.inp, "failure": r}
    return None
