"""C18 — text parsing is total, faithful and keeps kinds apart (ParseAPI, every entry point, every network)."""
from common import *
import re as _re, io as _io, contextlib as _ctx, hmac as _hmac, hashlib as _hashlib, importlib.util as _ilu, os as _os

from pycoin.encoding.b58 import b2a_hashed_base58 as _b58enc, a2b_hashed_base58 as _b58dec
from pycoin.contrib import bech32m as _bm
from pycoin.networks import parseable_str as _ps
from pycoin.key.electrum import initial_key_to_master_key as _stretch

PROP = "C18"
EXTRA_PROPS = ["C18compose"]   # composition theorems (see DESIGN.md section 0)
DRIVER = "C18"
INTERACTIVE = True
RULE = ("correspondence: one driver line per (entry point, network, text) or (serialiser, network, text); distinct = "
        "distinct line; non-trivial = the model returns an object (not None, not an exception)")
PARTIAL = [
    "Base58Check/Bech32 decoding, Python int(), the script compiler, HMAC-SHA512, electrum key stretching, k*G and the "
    "modular square root are parameters of the model (theorems hold for all of them; C11/C10/C02 cover the real ones)",
    "re-serialisation of keys returned by public_pair ('x/even', 'x,y') and of script/segwit contracts at text level is "
    "checked on the implementation only (direct checks), not proved",
    "bip32_seed / electrum_seed raise when the derived key number is 0 or >= n (probability 2^-127, no input known): "
    "excluded from the totality theorems by seed_exponent_bad / electrum_seed_bad, not reproducible",
]
TRUSTED = [
    "oracles answered with pycoin's own parse_b58_hashed / parse_bech32 / script compiler / generator and CPython's int(), hmac",
    "Python str modelled as list of code points; str.split / `in` / == hand-modelled; binascii.unhexlify(ascii) hand-modelled",
]

# ---------------------------------------------------------------------------------------------------------------
# networks: exactly the list (and order) of the generated table
_spec = _ilu.spec_from_file_location("gens_parse_c18_for_harness",
                                     _os.path.join(_os.path.dirname(_os.path.abspath(__file__)), "gens", "parse_c18.py"))
_gen = _ilu.module_from_spec(_spec)
_spec.loader.exec_module(_gen)
NETS = _gen.load_networks()            # [(symbol_lower, network)]
NET_INDEX = {nm: i for i, (nm, _) in enumerate(NETS)}
GEN0 = NETS[0][1].generator
P_ = GEN0._p
N_ = GEN0.order()

ENTRIES = ["bip32_seed", "hd_seed", "bip32_prv", "bip32_pub", "bip32", "bip49_prv", "bip49_pub", "bip49",
           "bip84_prv", "bip84_pub", "bip84", "electrum_seed", "electrum_prv", "electrum_pub", "p2pkh", "p2sh",
           "p2pkh_segwit", "p2sh_segwit", "p2tr", "script", "wif", "secret_exponent", "public_pair", "sec",
           "address", "payable", "hierarchical_key", "private_key", "secret", "public_key", "input", "__call__"]
ENTRY_NO = {e: i for i, e in enumerate(ENTRIES)}
UNSUPPORTED = ["input", "tx", "spendable", "script_preimage"]
B58_KIND_ENTRIES = ["p2pkh", "p2sh", "wif", "bip32_prv", "bip32_pub", "bip49_prv", "bip49_pub", "bip84_prv", "bip84_pub"]
PREFIX_ATTR = {"p2pkh": "_address_prefix", "p2sh": "_pay_to_script_prefix", "wif": "_wif_prefix",
               "bip32_prv": "_bip32_prv_prefix", "bip32_pub": "_bip32_pub_prefix", "bip49_prv": "_bip49_prv_prefix",
               "bip49_pub": "_bip49_pub_prefix", "bip84_prv": "_bip84_prv_prefix", "bip84_pub": "_bip84_pub_prefix"}


def is_disabled(net):
    return "address" in vars(net.parse)


def u32(s: str) -> bytes:
    return s.encode("utf-32-be", "surrogatepass")


def un32(b: bytes) -> str:
    return b.decode("utf-32-be", "surrogatepass")


def quiet(f, *a, **kw):
    """Groestlcoin symbols print a hint on every hash attempt"""
    with _ctx.redirect_stdout(_io.StringIO()):
        return f(*a, **kw)


# ---------------------------------------------------------------------------------------------------------------
# oracles (wire format: Extract/ExtractC18.v)
def _opt(b):
    return b"\x00" if b is None else b"\x01" + bytes(b)


def _raw_b58(net):
    """the UNCACHED checksum decoder behind net.parse.parse_b58_hashed (the cache is part of the model)"""
    if type(net.parse).__name__ == "GRSParseAPI":
        from pycoin.coins.groestlcoin import parse as _gp
        return _gp.b58_groestl
    return _ps.b58_double_sha256


def _o_b58(data):
    net = NETS[data[0]][1]
    try:
        return _opt(quiet(_raw_b58(net), _ps.parseable_str(un32(data[1:]))))
    except Exception:
        return b"\x02"


def _o_bech32(data):
    try:
        r = _ps.parse_bech32_or_32m(_ps.parseable_str(un32(data[1:])))
    except Exception:
        return b"\x02"
    if r is None:
        return b"\x00"
    hrp, version, decoded, spec = r
    if not (0 <= version < 256) or len(hrp) > 255:
        raise ValueError("bech32 oracle: unexpected tuple")
    return b"\x01" + bytes([len(hrp)]) + u32(hrp) + bytes([version, 1 if spec == _bm.Encoding.BECH32M else 0]) + bytes(decoded)


def _o_pyint(data):
    s = un32(data[1:])
    try:
        v = int(s) if data[0] == 10 else int(s, 16)
    except ValueError:
        return b"\x00"
    m = abs(v)
    return b"\x01" + (b"\x01" if v < 0 else b"\x00") + m.to_bytes((m.bit_length() + 7) // 8, "big")


def _o_compile(data):
    net = NETS[data[0]][1]
    try:
        return _opt(net.script.compile(un32(data[1:])))
    except Exception:
        return b"\x00"


_STRETCH = {}


def _o_stretch(blob):
    if blob not in _STRETCH:
        _STRETCH[blob] = _stretch(blob.hex()).to_bytes(32, "big")
    return _STRETCH[blob]


def _o_mulG(data):
    x, y = int.from_bytes(data, "big") * GEN0
    return x.to_bytes(32, "big") + y.to_bytes(32, "big")


ORACLES = {
    "b58": _o_b58, "bech32": _o_bech32, "pyint": _o_pyint, "compile": _o_compile,
    "hmac512": lambda m: _hmac.new(b"Bitcoin seed", m, _hashlib.sha512).digest(),
    "stretch": _o_stretch, "mulG": _o_mulG,
    "modsqrt": lambda a: GEN0.modular_sqrt(int.from_bytes(a, "big")).to_bytes(32, "big"),
}


# ---------------------------------------------------------------------------------------------------------------
# canonical form of what a parser returns (= show_result in ml_src/driver_c18.ml)
def _mro(o):
    return [c.__name__ for c in type(o).__mro__]


def kind_of(o):
    if o is None:
        return None
    m = _mro(o)
    if "Contract" in m:
        return "C"
    if "BIP84Node" in m:
        return "H84"
    if "BIP49Node" in m:
        return "H49"
    if "BIP32Node" in m:
        return "H32"
    if "ElectrumWallet" in m:
        return "E"
    if "Key" in m:
        return "K"
    return "?" + type(o).__name__


def _keymat(o):
    se = o._secret_exponent
    x, y = o._public_pair
    return "%s (%s %s)" % (canon(se), canon(x), canon(y))


def canon_obj(o):
    k = kind_of(o)
    if k is None:
        return "N"
    if k == "C":
        return "(C %s)" % canon(o.script())
    if k == "K":
        return "(K %s %s)" % (_keymat(o), canon(bool(o._is_compressed)))
    if k.startswith("H"):
        return "(H %s %s %s %s %s %s)" % (canon(int(k[1:])), canon(o._depth), canon(o._parent_fingerprint),
                                          canon(o._child_index), canon(o._chain_code), _keymat(o))
    if k == "E":
        ik = o._initial_key
        return "(E %s %s)" % ("N" if ik is None else canon(bytes.fromhex(ik)), _keymat(o))
    return "?" + k


def parse_call(net, entry, s):
    f = getattr(net.parse, entry)
    if type(net.parse).__name__ != "ParseAPI":      # Groestlcoin symbols print a hint on every hash attempt
        return quiet(f, s)
    return f(s)


def impl_entry(net, entry, s):
    try:
        return canon_obj(parse_call(net, entry, s))
    except Exception as e:
        return "!" + exn_tag(e)


def serialise(net, o):
    """the natural text form of a returned object (None when it has none)"""
    k = kind_of(o)
    if k == "C":
        try:
            a = quiet(o.address)
        except ImportError:       # Groestlcoin symbols without the groestlcoin_hash package cannot produce Base58 text
            a = None
        if a is None or a == "???" or a.startswith("(nulldata"):
            return o.disassemble()
        return a
    if k == "K":
        return o.wif() if o.secret_exponent() is not None else o.as_text()
    if k in ("H32", "H49", "H84"):
        return o.hwif(as_private=o.is_private())
    if k == "E":
        return o.as_text()
    return None


def impl_payload(net, entry, s):
    """decoded Base58Check payload of the re-serialised object (address / wif / hwif)"""
    try:
        o = parse_call(net, entry, s)
        if o is None:
            return "N"
        t = serialise(net, o)
        return canon(_b58dec(t))
    except Exception as e:
        return "!" + exn_tag(e)


def impl_astext(net, entry, s):
    """as_text() of a returned public key / electrum wallet, as utf-32-be bytes"""
    try:
        o = parse_call(net, entry, s)
        if o is None:
            return "N"
        k = kind_of(o)
        if (k == "K" and o.secret_exponent() is None) or k == "E":
            return canon(u32(o.as_text()))
        return "!E_OTHER"
    except Exception as e:
        return "!" + exn_tag(e)


def mk_astext_case(ni, entry, s):
    net = NETS[ni][1]
    line = "astext %s %s %s" % (arg(ENTRY_NO[entry]), arg(ni), "x" + u32(s).hex())
    return Case(line, (lambda net=net, entry=entry, s=s: impl_astext(net, entry, s)),
                {"net": NETS[ni][0], "entry": entry, "text": u32(s).hex(), "astext": True})


# ---- histories: ONE parseable_str object offered to several networks / entry points ---------------------------
class _StrSub(str):
    """a str subclass (a legal presentation of text)"""


def owner_symbol(o):
    n = getattr(o, "_network", None)
    return None if n is None else getattr(n, "symbol", "?")


def describe(net, o):
    """everything observable that must not depend on the history: the object, the network it belongs to, its text"""
    if o is None:
        return "N"
    try:
        t = quiet(serialise, net, o)
    except ImportError:
        t = "<no-hash-package>"
    except Exception as e:
        t = "!" + type(e).__name__
    extra = ""
    if kind_of(o) in ("K", "H32", "H49", "H84", "E"):
        try:
            extra = quiet(o.address)
        except ImportError:
            extra = "<no-hash-package>"
        except Exception as e:
            extra = "!" + type(e).__name__
    return "%s owner=%s text=%s addr=%s" % (canon_obj(o), owner_symbol(o), t, extra)


def call_described(net, entry, s):
    try:
        return describe(net, parse_call(net, entry, s))
    except Exception as e:
        return "!" + exn_tag(e) + ":" + type(e).__name__


def impl_seq(text, calls):
    """canonical answers of the calls [(net index, entry)] made one after the other on ONE parseable_str"""
    ps = _ps.parseable_str(text)
    out = []
    for ni, entry in calls:
        out.append(impl_entry(NETS[ni][1], entry, ps))
    return "[" + " ".join(out) + "]"


def mk_seq_case(text, calls):
    line = "seq x%s [%s]" % (u32(text).hex(), ",".join("%s:%s" % (arg(ENTRY_NO[e]), arg(ni)) for ni, e in calls))
    return Case(line, (lambda text=text, calls=calls: impl_seq(text, calls)),
                {"seq": [[NETS[ni][0], e] for ni, e in calls], "text": u32(text).hex()})


def chk_history(text, calls, presentation="parseable_str"):
    """calls = [(network symbol, entry)]: every answer on the shared object equals the answer for a fresh plain str on
    that network (object, owning network, text form, address), the owner is the network that was asked, nothing raises"""
    if presentation == "parseable_str":
        shared = _ps.parseable_str(text)
    elif presentation == "str_subclass":
        shared = _StrSub(text)
    elif presentation == "parseable_of_subclass":
        shared = _ps.parseable_str(_StrSub(text))
    else:
        shared = NETS[NET_INDEX[calls[0][0]]][1].parseable_str_type(text)
    for i, (nm, entry) in enumerate(calls):
        net = NETS[NET_INDEX[nm]][1]
        want = call_described(net, entry, str(text))
        got = call_described(net, entry, shared)
        if got != want:
            return {"kind": "answer-depends-on-history", "position": i, "net": nm, "entry": entry,
                    "fresh": want[:300], "shared": got[:300], "before": [list(c) for c in calls[:i]]}
        if want.startswith("!"):
            return {"kind": "raises", "position": i, "net": nm, "entry": entry, "exc": want}
        if want != "N" and " owner=%s " % net.symbol not in want:
            return {"kind": "object-of-another-network", "net": nm, "entry": entry, "got": want[:200]}
    return None


def prefix_groups():
    """networks that share a prefix of some kind (an object parsed for one could be mistaken for the other's)"""
    groups = {}
    for nm, net in NETS:
        for attr in ("_bip32_prv_prefix", "_wif_prefix", "_address_prefix", "_pay_to_script_prefix", "_bech32_hrp",
                     "_bip49_prv_prefix", "_bip84_prv_prefix"):
            v = getattr(net.parse, attr)
            if v is not None:
                groups.setdefault((attr, v), []).append(nm)
    return {k: v for k, v in groups.items() if len(v) > 1}


HIST_ENTRIES = ["bip32", "bip32_prv", "bip32_pub", "bip49", "bip84", "hierarchical_key", "wif", "private_key", "secret",
                "p2pkh", "p2sh", "address", "payable", "p2pkh_segwit", "p2sh_segwit", "p2tr", "__call__", "public_key",
                "sec", "script", "secret_exponent", "electrum_prv", "bip32_seed"]


def history_inputs(rng, tier):
    """(text, [(network symbol, entry)], presentation)"""
    thorough = tier == "thorough"
    groups = prefix_groups()
    keys = sorted(groups, key=lambda k: (k[0], str(k[1])))
    for key in keys:
        members = [m for m in groups[key] if not is_disabled(NETS[NET_INDEX[m]][1])]
        if len(members) < 2:
            continue
        for _ in range(1 if not thorough else 6):
            nets = rng.sample(members, min(len(members), rng.choice([2, 3, 4])))
            src = NETS[NET_INDEX[nets[0]]][1]
            texts = valid_texts(rng, src, lean=not thorough)
            # texts of the kind the shared prefix belongs to first
            for text in texts:
                es = [rng.choice(HIST_ENTRIES) for _ in range(2)] + ["__call__"]
                fam = {"_bip32_prv_prefix": ["bip32", "bip32_prv", "bip32_pub", "hierarchical_key", "secret"],
                       "_wif_prefix": ["wif", "private_key", "secret"], "_address_prefix": ["p2pkh", "address", "payable"],
                       "_pay_to_script_prefix": ["p2sh", "address", "payable"],
                       "_bech32_hrp": ["p2pkh_segwit", "p2sh_segwit", "p2tr", "address"],
                       "_bip49_prv_prefix": ["bip49", "hierarchical_key"], "_bip84_prv_prefix": ["bip84", "hierarchical_key"]}[key[0]]
                for order in (nets, nets[::-1]):
                    calls = [(nm, e) for nm in order for e in (fam[:2] if not thorough else fam) + es[:1]]
                    yield text, calls, rng.choice(["parseable_str", "parseable_str", "network_type", "parseable_of_subclass"])
    # one network, every ordered pair of entry points (memoisation between entry points of the same network)
    for nm in (["btc", "polis"] if not thorough else ["btc", "polis", "xtn", "ltc", "dcr", "mzc", "pivx"]):
        net = NETS[NET_INDEX[nm]][1]
        texts = valid_texts(rng, net, lean=True)[:5] + ["1/even", "02" + "%064x" % 1, "E:" + "00" * 31 + "01", "H:00", "12345", "OP_DUP"]
        for text in texts:
            es = [e for e in ENTRIES if e != "electrum_seed"]
            rng.shuffle(es)
            yield text, [(nm, e) for e in es] + [(nm, e) for e in es[::-1]], "parseable_str"
            yield text, [(nm, e) for e in es[:6]], "str_subclass"
    # random walks over all networks
    for _ in range(30 if not thorough else 600):
        nm0 = rng.choice([nm for nm, n in NETS if not is_disabled(n)])
        text = rng.choice(valid_texts(rng, NETS[NET_INDEX[nm0]][1], lean=True))
        calls = [(rng.choice(NETS)[0], rng.choice(HIST_ENTRIES)) for _ in range(rng.randint(2, 8))]
        yield text, calls, "parseable_str"


def run_line(ni, entry, s):
    return "run %s %s %s" % (arg(ENTRY_NO[entry]), arg(ni), "x" + u32(s).hex())


def mk_case(ni, entry, s):
    net = NETS[ni][1]
    meth = entry
    return Case(run_line(ni, entry, s), (lambda net=net, meth=meth, s=s: impl_entry(net, meth, s)),
                {"net": NETS[ni][0], "entry": entry, "text": u32(s).hex()})


PAYLOAD_WHICH = {"p2pkh": 0, "p2sh": 1, "wif": 2}


def mk_payload_case(ni, entry, s):
    net = NETS[ni][1]
    which = PAYLOAD_WHICH.get(entry, 3)
    line = "payload %s %s %s %s" % (arg(ENTRY_NO[entry]), arg(ni), arg(which), "x" + u32(s).hex())
    return Case(line, (lambda net=net, entry=entry, s=s: impl_payload(net, entry, s)),
                {"net": NETS[ni][0], "entry": entry, "text": u32(s).hex(), "payload": True})


def nontrivial(line, r):
    return r.startswith("(") or r.startswith("x")


# ---------------------------------------------------------------------------------------------------------------
# text generators
def net_prefixes(net):
    """{entry: prefix bytes} for the checksummed kinds the network defines"""
    return {e: getattr(net.parse, a) for e, a in PREFIX_ATTR.items() if getattr(net.parse, a) is not None}


def contents(rng, n):
    yield "zeros", bytes(n)
    yield "ones", b"\x01" * n
    if n >= 32:
        yield "n", N_.to_bytes(32, "big") + b"\x01" * (n - 32)
        yield "n-1", (N_ - 1).to_bytes(32, "big") + b"\x01" * (n - 32)
    else:
        yield "ff", b"\xff" * n
    yield "random", bytes(rng.getrandbits(8) for _ in range(n))


FULL_SWEEP = ["btc", "polis"]          # quick tier: all payload lengths 0..80 on these; thorough: on every network
EDGE_LENGTHS = [0, 19, 20, 21, 32, 33, 34, 73, 74, 75]


def hd_blob(rng, private, depth=None, se=None, sec=None):
    """74 bytes after the prefix"""
    depth = rng.randrange(256) if depth is None else depth
    head = bytes([depth]) + bytes(rng.getrandbits(8) for _ in range(4)) + rng.getrandbits(32).to_bytes(4, "big") \
        + bytes(rng.getrandbits(8) for _ in range(32))
    if private:
        se = rng.randrange(1, N_) if se is None else se
        return head + b"\x00" + se.to_bytes(32, "big")
    if sec is None:
        x, y = rng.randrange(1, N_) * GEN0
        sec = bytes([2 + (y & 1)]) + x.to_bytes(32, "big")
    return head + sec


def checksummed_strings(rng, net, nm, tier):
    """(text, description) — every prefix of the network x payload lengths x contents, plus well-formed bodies"""
    pres = net_prefixes(net)
    full = tier == "thorough" or nm in FULL_SWEEP
    lengths = range(0, 81) if full else EDGE_LENGTHS
    seen = set()
    for pre in sorted(set(pres.values())):
        for n in lengths:
            for what, c in contents(rng, n):
                if not full and what in ("ones", "n", "n-1", "ff"):
                    continue
                d = pre + c
                if d not in seen:
                    seen.add(d)
                    yield _b58enc(d), "pre=%s len=%d %s" % (pre.hex(), n, what)
        # well-formed and nearly well-formed bodies under EVERY prefix (kind confusion needs valid contents)
        bodies = [rng.getrandbits(160).to_bytes(20, "big"),
                  rng.randrange(1, N_).to_bytes(32, "big"), rng.randrange(1, N_).to_bytes(32, "big") + b"\x01",
                  rng.randrange(1, N_).to_bytes(32, "big") + b"\x00", rng.randrange(1, N_).to_bytes(32, "big") + b"\x07",
                  (0).to_bytes(32, "big"), N_.to_bytes(32, "big") + b"\x01", (N_ - 1).to_bytes(32, "big") + b"\x01",
                  b"\x01" + (1).to_bytes(32, "big")]
        for private in (True, False):
            bodies.append(hd_blob(rng, private))
        bodies.append(hd_blob(rng, True, se=0))
        bodies.append(hd_blob(rng, True, se=N_))
        bodies.append(hd_blob(rng, True, se=N_ - 1))
        bodies.append(hd_blob(rng, False, sec=b"\x02" + (P_ + 1).to_bytes(32, "big")))
        bodies.append(hd_blob(rng, False, sec=b"\x02" + (5).to_bytes(32, "big")))
        bodies.append(hd_blob(rng, False, sec=b"\x04" + (1).to_bytes(32, "big")))
        bodies.append(hd_blob(rng, False, sec=b"\x01" + (1).to_bytes(32, "big")))
        bodies.append(hd_blob(rng, True)[:-1])
        bodies.append(hd_blob(rng, True) + b"\x00")
        for b in bodies:
            # bodies are meant for 4-byte prefixes when they are extended keys; keep total = 78 for those
            d = pre + (b[len(pre) - 4:] if len(b) == 74 and len(pre) > 4 else b)
            if len(b) == 74 and len(pre) < 4:
                d = pre + bytes(4 - len(pre)) + b
            if d not in seen:
                seen.add(d)
                yield _b58enc(d), "pre=%s body=%d" % (pre.hex(), len(b))


def valid_texts(rng, net, lean=False):
    """texts of real objects on this network (addresses, WIFs, extended keys, segwit)"""
    out = []
    A = net.address
    h20 = rng.getrandbits(160).to_bytes(20, "big")
    h32 = rng.getrandbits(256).to_bytes(32, "big")
    for f, h in ((A.for_p2pkh, h20), (A.for_p2sh, h20), (A.for_p2pkh_wit, h20), (A.for_p2sh_wit, h32), (A.for_p2tr, h32)):
        try:
            t = quiet(f, h)
        except ImportError:      # Groestlcoin symbols without the groestlcoin_hash package cannot produce Base58 text
            t = None
        if t:
            out.append(t)
    if is_disabled(net):
        return out
    for se, c in (((N_ - 1, True), (rng.randrange(1, N_), False)) if lean else
                  ((1, True), (1, False), (N_ - 1, True), (N_ - 1, False), (rng.randrange(1, N_), True), (rng.randrange(1, N_), False))):
        k = net.keys.private(se, is_compressed=c)
        if net.parse._wif_prefix is not None:
            out.append(k.wif())
    node = net.keys.bip32_seed(bytes(rng.getrandbits(8) for _ in range(16)))
    sub = node.subkey_for_path("0H/%d" % rng.randrange(1000))
    for nd in ((sub,) if lean else (node, sub)):
        if net.parse._bip32_prv_prefix is not None:
            out.append(nd.hwif(as_private=True))
            out.append(nd.hwif(as_private=False))
        blob_prv = nd.serialize(as_private=True)
        blob_pub = nd.serialize(as_private=False)
        for kind in ("bip49", "bip84"):
            if getattr(net.parse, "_%s_prv_prefix" % kind) is not None:
                out.append(getattr(net, kind + "_as_string")(blob_prv, True))
                out.append(getattr(net, kind + "_as_string")(blob_pub, False))
    return out


def mutate(rng, s):
    if not s:
        return "1"
    i = rng.randrange(len(s))
    r = rng.random()
    if r < 0.3:
        return s[:i] + rng.choice("123456789ABCDEFGHJKLMNPQRSTUVWXYZabcdefghijkmnopqrstuvwxyzqpzry0O Il") + s[i + 1:]
    if r < 0.5:
        return s[:i] + s[i + 1:]
    if r < 0.6:
        return s.upper()
    if r < 0.7:
        return s.swapcase()
    if r < 0.8:
        return s + rng.choice(["1", " ", "\n", "\x00", "q"])
    if r < 0.9:
        return " " + s
    return s[:i] + s[i].swapcase() + s[i + 1:]


def segwit_texts(rng, net):
    hrp = net.parse._bech32_hrp
    hrps = [hrp] if hrp else []
    hrps += ["bc", "tb"]
    out = []
    for h in hrps[:2]:
        for ver in (0, 1, 2, 16, 17):
            for n in (2, 19, 20, 21, 31, 32, 33, 40):
                prog = bytes(rng.getrandbits(8) for _ in range(n))
                data = [ver] + _bm.convertbits(prog, 8, 5)
                for spec in (_bm.Encoding.BECH32, _bm.Encoding.BECH32M):
                    out.append(_bm.bech32_encode(h, data, spec))
        out.append(_bm.bech32_encode(h, [], _bm.Encoding.BECH32))
        out.append(_bm.bech32_encode(h, [0], _bm.Encoding.BECH32))
        # non-zero padding
        out.append(_bm.bech32_encode(h, [0] + _bm.convertbits(b"\xff" * 20, 8, 5)[:-1] + [31], _bm.Encoding.BECH32))
    out += [t.upper() for t in out[:6]]
    return out


# Bech32 / Bech32m strings built here (BIP173/BIP350 checksum), NOT with the code under test: the degenerate ones
# (empty data part, only a version symbol, too-short programs) are exactly what an encoder refuses to produce
_B32 = "qpzry9x8gf2tvdw0s3jn54khce6mua7l"
_B32GEN = [0x3B6A57B2, 0x26508E6D, 0x1EA119FA, 0x3D4233DD, 0x2A1462B3]


def _polymod(values):
    c = 1
    for v in values:
        b = c >> 25
        c = ((c & 0x1FFFFFF) << 5) ^ v
        for i in range(5):
            if (b >> i) & 1:
                c ^= _B32GEN[i]
    return c


def own_bech32(hrp, data, m):
    """hrp + '1' + data symbols + 6 checksum symbols; m = Bech32m"""
    exp = [ord(x) >> 5 for x in hrp] + [0] + [ord(x) & 31 for x in hrp]
    pm = _polymod(exp + list(data) + [0] * 6) ^ (0x2BC830A3 if m else 1)
    return hrp + "1" + "".join(_B32[d] for d in list(data) + [(pm >> (5 * (5 - i))) & 31 for i in range(6)])


def degenerate_segwit_texts(rng, net, lean=False):
    """validly checksummed strings whose data part has 0, 1, 2.. symbols, for the network's hrp and two others"""
    hrp = net.parse._bech32_hrp
    hrps = ([hrp] if hrp else []) + ["bc", "tb", "x"]
    out = []
    if lean:
        h = hrps[0]
        for m in (False, True):
            for data in ([], [0], [1], [17], [0, rng.randrange(32)], [1] + [rng.randrange(32) for _ in range(3)]):
                out.append(own_bech32(h, data, m))
        return out
    for h in list(dict.fromkeys(hrps))[:3]:
        for m in (False, True):
            out.append(own_bech32(h, [], m))                                   # empty data part
            for v in (0, 1, 2, 16, 17, 31):
                out.append(own_bech32(h, [v], m))                              # only a version symbol
            for v in (0, 1):
                for k in (1, 2, 3, 4, 7, 8, 31, 33, 51, 52, 53):               # programs of 0..33 bytes, odd paddings
                    out.append(own_bech32(h, [v] + [rng.randrange(32) for _ in range(k)], m))
                out.append(own_bech32(h, [v] + [0] * 32, m))
                out.append(own_bech32(h, [v] + [31] * 52, m))
            out.append(own_bech32(h, [], m).upper())
    return out


def colon_texts(rng):
    hx = lambda n: bytes(rng.getrandbits(8) for _ in range(n)).hex()
    out = ["H:", "P:", "E:", ":", "::", "H::", "HP:abc", "PH:abc", ":abc", "X:00", "h:00", "p:abc", "e:" + hx(32),
           "H:00", "H:0", "H:zz", "H:0g", "H: 00", "H:00 ", "H:" + hx(16), "H:" + hx(16).upper(), "H:" + hx(64),
           "H:00:11", "P:correct horse battery staple", "P:\u00e9\u00e8", "P:\U0001f600", "P:\x00", "P:a:b:c",
           "P:\ud800", "P:abc\udfff", "P:\ud83d\ude00", "H:\ud800", "H:\u00e9\u00e9", "HP:\ud800", ":\udc00", "E:\ud800",
           "P:" + "x" * 5000, "H:" + "ab" * 3000,
           "E:" + hx(15), "E:" + hx(17), "E:" + hx(31), "E:" + hx(33), "E:" + hx(63), "E:" + hx(65), "E:zz", "E:0",
           "E:" + "00" * 32, "E:" + "ff" * 32, "E:" + "%064x" % N_, "E:" + "%064x" % (N_ - 1), "E:" + "%064x" % 1,
           "E:" + hx(32), "E:" + hx(32).upper(), "E:" + hx(64), "E:" + "00" * 64,
           "E:" + "%064x%064x" % (P_ + 1, GEN0.modular_sqrt(8)),                       # x = p+1 names the point x = 1
           "E:" + "%064x%064x" % (1, GEN0.modular_sqrt(8)), "E:" + "%064x%064x" % (1, P_ - GEN0.modular_sqrt(8)),
           "E:" + "%064x%064x" % (1, 2)]
    x, y = rng.randrange(1, N_) * GEN0
    out += ["E:%064x%064x" % (x, y), "E:%064x%064x" % (x, P_ - y), "E:%064x%064x" % (y, x)]
    return out


def electrum_seed_texts(rng, k):
    return ["E:" + bytes(rng.getrandbits(8) for _ in range(16)).hex() for _ in range(k)] + ["E:" + "00" * 16]


def numeric_texts(rng):
    big = rng.getrandbits(255)
    out = ["0", "00", "1", "2", "-1", "-0", "+5", "10", "010", "0x10", "0X1f", "x10", "ff", "FF", "0b11", "0o7", "1e5", "1E5",
           " 12 ", "\t7\n", "1_000", "_1", "1_", "1__0", "\u0661\u0662", "\uff11\uff12", "\u00b2", "1.0", "1,0", "", " ", "\x00", "1\x00",
           "abc", "g", str(N_), str(N_ - 1), str(N_ + 1), "%x" % N_, "%x" % (N_ - 1), "%x" % (N_ + 1), str(P_), str(2 ** 256),
           str(2 ** 256 - 1), "%x" % (2 ** 256), str(big), "%x" % big, "-" + str(big), "9" * 400, "f" * 400, "9" * 4301,
           "1" + "0" * 4300, "deadbeef", "DEADBEEF", "0xdeadbeef", "dead beef", "12ab", "ab12", "\ud800", "1\ud800"]
    return out


def pair_texts(rng):
    y8 = GEN0.modular_sqrt(8)
    x, y = rng.randrange(1, N_) * GEN0
    out = ["1/even", "1/odd", "1,even", "1,odd", "5/even", "5/odd", "0/even", "-1/even", "1/Even", "1/ even", "1/even ",
           "%d/even" % (P_ + 1), "%d/odd" % (P_ + 1), "%d/even" % (2 ** 256), "%d/even" % (2 ** 256 + P_ + 1), "%d/even" % (1 - P_),
           "%x/even" % x, "%d/even" % x, "%d/odd" % x, "%d,%d" % (x, y), "%d/%d" % (x, y), "%x,%x" % (x, y), "%d,%d" % (x, P_ - y),
           "%d,%d" % (x, y + P_), "%d,%d" % (x, -y), "%d,%d" % (x, y - P_), "%d,%d" % (x + P_, y), "%d,%d" % (x - P_, y),
           "%d,%d" % (x, y + 1), "%d,%d" % (y, x), "%d,0" % x, "0,%d" % y, "1,%d" % y8, "1,%d" % (P_ - y8), "%d,%d" % (P_ + 1, y8),
           "1,2/even", "1/2,even", "1/odd/even", "1,%d/even" % y8, "%d/even,%d" % (x, y), "/", ",", "/even", ",1", "1/", "1,",
           "even/1", "1/even/1", "%d,%d,%d" % (x, y, y), "1e3/even", " 1 / even", "1/\ud800", "\ud800/even",
           "9" * 300 + "/even", "f" * 300 + "/odd", "%d/even" % (P_ - 1), "%d/even" % P_, "2/even", "3/even", "4/odd"]
    return out


def huge_pair_texts(rng):
    """explicit pairs with a coordinate beyond CPython's int<->str digit limit (4300): off the curve, must be refused quietly
    whatever exception formatting the number raises on the way (seed C18-e1).  Direct checks only: the extracted model is
    needlessly slow on 14000-bit operands."""
    x, y = rng.randrange(1, N_) * GEN0
    return ["%s,7" % ("9" * 4301), "5,%s" % ("9" * 4400), "%s/%s" % ("1" + "0" * 4300, "3"), "%d,%s" % (x, "8" * 4302),
            "%s,%d" % ("f" * 3600, y), "%d/%s" % (x, "e" * 3700), "%s,%s" % ("9" * 4301, "9" * 4301), "%s/even" % ("9" * 4301),
            "%s/odd" % ("f" * 3600)]


def sec_texts(rng, net):
    y8 = GEN0.modular_sqrt(8)
    x, y = rng.randrange(1, N_) * GEN0
    c = "%02x%064x" % (2 + (y & 1), x)
    u = "04%064x%064x" % (x, y)
    pre = net.parse._sec_prefix
    out = [c, u, c.upper(), u.upper(), "%02x%064x" % (3 - (y & 1), x), "02%064x" % 1, "03%064x" % 1, "02%064x" % 5, "02%064x" % (P_ + 1),
           "02%064x" % P_, "02%064x" % 0, "04%064x%064x" % (1, y8), "04%064x%064x" % (1, 2), "04%064x%064x" % (P_ + 1, y8),
           "04%064x%064x" % (x, y + 1 if y + 1 < P_ else 1), "06%064x%064x" % (x, y), "07%064x%064x" % (x, y), "05%064x" % x, "00", "02", "04",
           c[:-2], c + "00", u[:-2], u + "00", c[:-1], "0x" + c, " " + c, c + " ", pre + c, pre + u, pre + ":" + c, pre.rstrip(":") + c,
           "80:" + c, ":" + c, "\ud800" + c, "\u00e9", ""]
    return out


def script_texts(rng):
    h = rng.getrandbits(160).to_bytes(20, "big").hex()
    return ["", " ", "OP_DUP", "op_dup", "DUP", "OP_DUP OP_HASH160 [%s] OP_EQUALVERIFY OP_CHECKSIG" % h,
            "OP_DUP OP_HASH160 %s OP_EQUALVERIFY OP_CHECKSIG" % h, "OP_HASH160 [%s] OP_EQUAL" % h, "OP_0 [%s]" % h,
            "OP_1 [%s]" % (h + h[:24]), "OP_RETURN [aabb]", "[zz]", "[", "]", "[]", "''", "'abc'", "'", "0x", "0xzz", "0x00ff",
            "1 2 OP_ADD", "-1", "17", "00", "OP_NOP" * 3, "OP_FOO", "\u00e9", "OP_DUP \ud800", "1" * 100, "[%s]" % ("ab" * 600),
            "OP_PUSHDATA1", "OP_1 OP_2 OP_CHECKMULTISIG", "2 [%s] [%s] 2 OP_CHECKMULTISIG" % ("02" + "11" * 32, "03" + "22" * 32)]


def unicode_texts(rng, k):
    pools = [(0, 0x7f), (0, 0xff), (0x100, 0x7ff), (0x800, 0xffff), (0xd800, 0xdfff), (0x10000, 0x10ffff), (0x30, 0x39), (0x20, 0x7e)]
    out = []
    for _ in range(k):
        n = rng.choice([0, 1, 1, 2, 3, 5, 8, 20, 50])
        lo, hi = rng.choice(pools)
        s = "".join(chr(rng.randint(lo, hi)) for _ in range(n))
        if rng.random() < 0.4 and n:
            i = rng.randrange(n)
            s = s[:i] + rng.choice([":", "/", ",", "1", "H:", "P:", "E:"]) + s[i:]
        out.append(s)
    out += ["x" * 20000, "1" * 3000, "\U0010ffff", "\x00" * 10, "bc1" + "q" * 100, "\n", "\r\n", "\u2028"]
    return out


FAMILY_ENTRIES = {
    "colon": ["bip32_seed", "hd_seed", "electrum_prv", "electrum_pub", "electrum_seed", "hierarchical_key", "secret", "__call__"],
    "numeric": ["secret_exponent", "private_key", "secret", "script", "__call__"],
    "pair": ["public_pair", "public_key"],
    "sec": ["sec", "public_key", "script"],
    "script": ["script", "payable", "__call__"],
    "unicode": ["__call__", "public_key"],
    "segwit": ["p2pkh_segwit", "p2sh_segwit", "p2tr", "address", "payable", "__call__"],
}


def generic_texts(rng, net, tier):
    """[(family, text)]"""
    k = 40 if tier == "quick" else 600
    return ([("colon", t) for t in colon_texts(rng)] + [("numeric", t) for t in numeric_texts(rng)]
            + [("pair", t) for t in pair_texts(rng)] + [("sec", t) for t in sec_texts(rng, net)]
            + [("script", t) for t in script_texts(rng)] + [("unicode", t) for t in unicode_texts(rng, k)]
            + [("segwit", t) for t in segwit_texts(rng, net)] + [("segwit", t) for t in degenerate_segwit_texts(rng, net)])


def entries_for_generic(rng, fam, all_entries, extra):
    if all_entries:
        return ENTRIES
    return list(dict.fromkeys(FAMILY_ENTRIES[fam] + rng.sample(ENTRIES, extra)))


# ---------------------------------------------------------------------------------------------------------------
# correspondence cases
SEGWIT_PATH = ["p2pkh_segwit", "p2sh_segwit", "p2tr", "address", "payable", "__call__"]
KIND_SUBSET = ["p2pkh", "p2sh", "wif", "bip32_prv", "bip32_pub", "bip32", "address", "private_key", "hierarchical_key", "__call__"]


def entries_for_checksummed(net, nm, full):
    es = list(KIND_SUBSET)
    if net.parse._bip49_prv_prefix is not None:
        es += ["bip49_prv", "bip49_pub", "bip49"]
    if net.parse._bip84_prv_prefix is not None:
        es += ["bip84_prv", "bip84_pub", "bip84"]
    return es


def pick_nets(rng, tier, k):
    names = [nm for nm, _ in NETS]
    base = ["btc", "polis", "xtn", "ltc", "dcr", "grs"]
    if tier == "thorough":
        return names
    rest = [n for n in names if n not in base]
    return [n for n in base if n in NET_INDEX] + rng.sample(rest, min(k, len(rest)))


def model_cases(rng, tier):
    # A. checksummed strings: every prefix of every network
    for nm, net in NETS:
        ni = NET_INDEX[nm]
        full = tier == "thorough" or nm in FULL_SWEEP
        es = entries_for_checksummed(net, nm, full)
        pres = net_prefixes(net)
        for s, _ in checksummed_strings(rng, net, nm, tier):
            # the kinds whose prefix the payload carries, some other entry points, and sometimes a catch-all parser
            d = _b58dec(s)
            use = [e for e, pre in pres.items() if d.startswith(pre)] + rng.sample(es, 3 if tier == "thorough" else 2 if full else 1)
            if rng.random() < (0.5 if tier == "thorough" else 0.3):
                use.append(rng.choice(["address", "private_key", "hierarchical_key", "secret", "__call__"]))
            for e in dict.fromkeys(use):
                yield mk_case(ni, e, s)
    # B. texts of real objects, their mutations, and the serialiser models
    for nm, net in NETS:
        ni = NET_INDEX[nm]
        vt = valid_texts(rng, net, lean=(tier == "quick" and nm not in ("btc", "polis", "xtn")))
        es_all = ENTRIES
        for s in vt:
            for e in (es_all if nm in ("btc", "polis") or tier == "thorough" else
                      ["p2pkh", "p2sh", "wif", "bip32", "address", "secret", "__call__"]
                      + rng.sample(["p2pkh_segwit", "p2sh_segwit", "p2tr", "bip49", "bip84", "bip32_prv", "bip32_pub", "payable",
                                    "private_key", "hierarchical_key", "public_key", "sec", "script"], 2)):
                if e == "electrum_seed":
                    continue
                yield mk_case(ni, e, s)
            for e in ("p2pkh", "p2sh", "wif", "bip32", "bip49", "bip84"):
                yield mk_payload_case(ni, e, s)
            for _ in range(1 if tier == "quick" else 10):
                m = mutate(rng, s)
                for e in ("address", "private_key", "hierarchical_key", "__call__"):
                    yield mk_case(ni, e, m)
        # another network's texts on this network
        other = NETS[rng.randrange(len(NETS))][1]
        for s in valid_texts(rng, other, lean=True)[:8]:
            for e in ("address", "wif", "bip32"):
                yield mk_case(ni, e, s)
    # C. everything else, every entry point
    base = ("btc", "polis", "xtn", "ltc", "dcr", "grs")
    for nm in pick_nets(rng, tier, 2):
        net = NETS[NET_INDEX[nm]][1]
        ni = NET_INDEX[nm]
        for fam, s in generic_texts(rng, net, tier):
            if tier == "thorough":
                es = ENTRIES if nm in base else entries_for_generic(rng, fam, False, 1)
            else:
                es = entries_for_generic(rng, fam, False, 3) if nm == "btc" else rng.sample(ENTRIES, 3)
            for e in es:
                yield mk_case(ni, e, s)
            if fam in ("pair", "sec", "colon"):
                for e in {"pair": ("public_pair", "public_key"), "sec": ("sec", "public_key"),
                          "colon": ("electrum_prv", "electrum_pub", "hierarchical_key")}[fam]:
                    yield mk_astext_case(ni, e, s)
    # C'. per network hrp: checksummed Bech32/Bech32m strings with 0, 1, 2.. data symbols (the decoder RAISES on the
    #     empty data part; parseable_str.cache has to swallow it)
    for nm, net in NETS:
        ni = NET_INDEX[nm]
        wide = tier == "thorough" or nm in ("btc", "xtn", "ltc")
        for s in degenerate_segwit_texts(rng, net, lean=not wide):
            for e in (SEGWIT_PATH if wide else rng.sample(SEGWIT_PATH, 3)):
                yield mk_case(ni, e, s)
    # C''. histories on one shared parseable_str (the model answers each call as for a fresh text)
    for text, calls, pres in history_inputs(rng, tier):
        yield mk_seq_case(text, [(NET_INDEX[nm], e) for nm, e in calls][:24])
    # D. electrum seeds (100000 SHA-256 rounds each: rationed)
    for s in electrum_seed_texts(rng, 3 if tier == "quick" else 25):
        for e in ("electrum_seed", "hierarchical_key", "secret", "__call__"):
            yield mk_case(NET_INDEX["btc"], e, s)
        yield mk_astext_case(NET_INDEX["btc"], "electrum_seed", s)
    # E. the separation predicate evaluated by the model for every table network
    for nm, net in NETS:
        yield Case("kinds_separated " + arg(NET_INDEX[nm]), (lambda net=net: canon(spec_kinds_separated(net))), {"net": nm})
    yield Case("table_size", (lambda: canon(len(NETS))), None)


# ---------------------------------------------------------------------------------------------------------------
# independent specification used by the direct checks (written from the property text, not from ParseAPI.py)
def spec_accepts(net, entry, d):
    """should the checksummed payload d (prefix included) be accepted by this kind's parser?  True / False"""
    pre = getattr(net.parse, PREFIX_ATTR[entry])
    if pre is None:
        return False
    if not d.startswith(pre):
        return False
    body = d[len(pre):]
    if entry in ("p2pkh", "p2sh"):
        return len(body) == 20
    if entry == "wif":
        if len(body) == 33 and body[32] != 1:
            return False
        if len(body) not in (32, 33):
            return False
        return 1 <= int.from_bytes(body[:32], "big") < N_
    # extended keys: 78 bytes in all
    if len(d) != 78:
        return False
    key = d[45:]
    if key[0] == 0:
        return 1 <= int.from_bytes(key[1:], "big") < N_
    if key[0] not in (2, 3):
        return False
    x = int.from_bytes(key[1:], "big")
    if x >= P_:
        return False
    a = (x * x * x + 7) % P_
    return a != 0 and pow(a, (P_ - 1) // 2, P_) == 1        # x is the abscissa of a curve point


def _comparable(a, b):
    return a.startswith(b) or b.startswith(a)


def _lengths(entry, pre):
    if entry in ("p2pkh", "p2sh"):
        return {len(pre) + 20}
    if entry == "wif":
        return {len(pre) + 32, len(pre) + 33}
    return {78}


def spec_kinds_separated(net):
    pres = net_prefixes(net)
    ks = sorted(pres)
    for i, a in enumerate(ks):
        for b in ks[i + 1:]:
            if _comparable(pres[a], pres[b]) and (_lengths(a, pres[a]) & _lengths(b, pres[b])):
                return False
    return True


# ---------------------------------------------------------------------------------------------------------------
# direct checks on the implementation
def _has_surrogate(s):
    return any(0xD800 <= ord(c) <= 0xDFFF for c in s)


def chk_total(net, entry, s):
    try:
        r = parse_call(net, entry, s)
    except Exception as e:
        return {"kind": "raises", "exc": type(e).__name__, "detail": str(e)[:120]}
    k = kind_of(r)
    if k is not None and k.startswith("?"):
        return {"kind": "unexpected-result-type", "type": k}
    if r is not None and getattr(r, "_network", None) is not net:
        return {"kind": "object-of-another-network", "owner": owner_symbol(r)}
    return None


def chk_shared_twice(net, entry, s):
    """one parseable_str object handed to the entry point twice (the decode cache is filled by the first call):
    neither call raises and both give the same answer"""
    ps = _ps.parseable_str(s)
    res = []
    for i in (0, 1):
        try:
            res.append(canon_obj(parse_call(net, entry, ps)))
        except Exception as e:
            return {"kind": "raises", "exc": type(e).__name__, "call": i + 1}
    if res[0] != res[1]:
        return {"kind": "second-call-differs", "first": res[0][:100], "second": res[1][:100]}
    return None


def _in_range(o):
    x, y = o._public_pair
    return 0 <= x < P_ and 0 <= y < P_


NATURAL_PARSER = {"C": "payable", "H32": "bip32", "H49": "bip49", "H84": "bip84", "E": "hierarchical_key"}
DISPATCHERS = ("address", "payable", "hierarchical_key", "private_key", "secret", "public_key", "__call__")


def chk_reserialize(net, entry, s):
    """what entry(s) returns re-serialises to text that parses to an equal object: with the parser of the object's
    kind (payable / private_key / public_key / bip32|49|84 / hierarchical_key) and, when entry is itself a catch-all
    parser, with entry again"""
    try:
        o = parse_call(net, entry, s)
    except Exception:
        return None          # chk_total's business
    if o is None:
        return None
    k = kind_of(o)
    info = {"object": k, "private": bool(getattr(o, "_secret_exponent", None) is not None) if k != "C" else None}
    if k != "C":
        info["in_range"] = _in_range(o)
    try:
        t = quiet(serialise, net, o)
    except ImportError:
        return None          # Groestlcoin symbols without the groestlcoin_hash package cannot produce Base58 text
    except Exception as e:
        return dict(info, kind="serialise-raises", exc=type(e).__name__)
    if t is None:
        return dict(info, kind="no-text-form")
    if k == "C":
        # a disassembly naming an unknown opcode ("???") or a bare push opcode (a truncated push) is not faithful
        info["script_text_lossy"] = bool(_re.search(r"\?\?\?|OP_PUSH(DATA)?[_0-9]", t))
    nat = NATURAL_PARSER.get(k) or ("private_key" if info["private"] else "public_key")
    if is_disabled(net):
        # hierarchical_key / private_key / public_key / address are switched off on this network object
        # (Groestlcoin without its hash package): re-parse with the entry point that produced the object
        if entry in ("hierarchical_key", "private_key", "public_key", "address", "bip32_seed", "electrum_seed",
                     "electrum_prv", "electrum_pub", "secret_exponent", "public_pair", "sec", "script", "payable",
                     "secret", "__call__"):
            return None
        nat = entry
    for e2 in dict.fromkeys([nat] + ([entry] if entry in DISPATCHERS else [])):
        try:
            o2 = parse_call(net, e2, t)
        except Exception as e:
            return dict(info, kind="reparse-raises", exc=type(e).__name__, text=t[:120], reparsed_with=e2)
        if o2 is None:
            return dict(info, kind="text-not-parsed", text=t[:120], reparsed_with=e2)
        if canon_obj(o2) != canon_obj(o):
            return dict(info, kind="reparsed-object-differs", text=t[:120], first=canon_obj(o)[:200], second=canon_obj(o2)[:200],
                        reparsed_with=e2)
    return None


def chk_refuse(net, d):
    """checksummed payload d: each kind parser accepts it exactly when the specification says so;
    at most one kind accepts it; what is accepted carries exactly the payload's contents"""
    s = _b58enc(d)
    acc = []
    for e in B58_KIND_ENTRIES:
        if getattr(net.parse, PREFIX_ATTR[e]) is None:
            want = False
        else:
            want = spec_accepts(net, e, d)
        try:
            o = parse_call(net, e, s)
        except Exception as ex:
            return {"kind": "raises", "entry": e, "exc": type(ex).__name__}
        if (o is not None) != want:
            return {"kind": "accepted-but-should-be-refused" if o is not None else "refused-but-well-formed", "entry": e,
                    "payload_len": len(d)}
        if o is not None:
            acc.append(e)
            k = kind_of(o)
            if e in ("p2pkh", "p2sh"):
                if k != "C" or o.hash160() != d[-20:] or o.info().get("type") != e:
                    return {"kind": "wrong-object", "entry": e}
            elif e == "wif":
                if k != "K" or o.secret_exponent() != int.from_bytes(d[len(net.parse._wif_prefix):][:32], "big") \
                        or o.is_compressed() != (len(d) - len(net.parse._wif_prefix) == 33):
                    return {"kind": "wrong-object", "entry": e}
            else:
                if k != "H" + e[3:5]:
                    return {"kind": "wrong-object", "entry": e, "got": k}
    if len(acc) > 1:
        return {"kind": "two-kinds-accept", "entries": acc}
    return None


def chk_hd_marker(net, entry, s):
    try:
        o = parse_call(net, entry, s)
    except Exception:
        return None
    if o is None:
        return None
    want_private = entry.endswith("_prv")
    if o.is_private() != want_private:
        return {"kind": "prefix-and-key-marker-disagree", "entry": entry, "private": o.is_private()}
    return None


def chk_pair_range(net, entry, s):
    try:
        o = parse_call(net, entry, s)
    except Exception:
        return None
    if o is None or kind_of(o) == "C":
        return None
    if not _in_range(o):
        x, y = o._public_pair
        return {"kind": "coordinates-out-of-range", "x_ok": 0 <= x < P_, "y_ok": 0 <= y < P_}
    return None


def chk_seed_prefix(net, s):
    try:
        o = parse_call(net, "bip32_seed", s)
    except Exception:
        return None
    if o is not None and not (s.startswith("H:") or s.startswith("P:")):
        return {"kind": "seed-without-H-or-P-prefix", "head": s.split(":", 1)[0][:10]}
    return None


def chk_produced_kinds(net, which, seed):
    """text PRODUCED for one kind of object is not parsed as a different checksummed kind"""
    rng = random.Random(seed)
    A = net.address
    if which == "p2pkh":
        t = A.for_p2pkh(rng.getrandbits(160).to_bytes(20, "big"))
    elif which == "p2sh":
        t = A.for_p2sh(rng.getrandbits(160).to_bytes(20, "big"))
    elif which == "wif":
        t = net.keys.private(rng.randrange(1, N_), is_compressed=rng.random() < 0.5).wif() if net.parse._wif_prefix else None
    else:
        kind, pp = which.split("_")
        if getattr(net.parse, "_%s_%s_prefix" % (kind, pp)) is None:
            return None
        node = net.keys.bip32_seed(rng.getrandbits(128).to_bytes(16, "big"))
        t = getattr(net, kind + "_as_string")(node.serialize(as_private=(pp == "prv")), pp == "prv")
    if t is None:
        return None
    acc = []
    for e in B58_KIND_ENTRIES:
        try:
            if parse_call(net, e, t) is not None:
                acc.append(e)
        except Exception as ex:
            return {"kind": "raises", "entry": e, "exc": type(ex).__name__}
    if acc != [which]:
        return {"kind": "produced-text-parsed-as", "produced": which, "accepted_by": acc, "text": t}
    return None


def _pc(name, nm, **kw):
    net = NETS[NET_INDEX[nm]][1]
    inp = dict(kw, net=nm)
    if name == "total":
        return PropCase(name, inp, lambda: chk_total(net, kw["entry"], un32(bytes.fromhex(kw["text"]))))
    if name == "history":
        return PropCase(name, inp, lambda: chk_history(un32(bytes.fromhex(kw["text"])), [tuple(c) for c in kw["calls"]],
                                                       kw.get("presentation", "parseable_str")))
    if name == "shared_twice":
        return PropCase(name, inp, lambda: chk_shared_twice(net, kw["entry"], un32(bytes.fromhex(kw["text"]))))
    if name == "reserialize":
        return PropCase(name, inp, lambda: chk_reserialize(net, kw["entry"], un32(bytes.fromhex(kw["text"]))))
    if name == "refuse":
        return PropCase(name, inp, lambda: chk_refuse(net, bytes.fromhex(kw["payload"])))
    if name == "hd_marker":
        return PropCase(name, inp, lambda: chk_hd_marker(net, kw["entry"], un32(bytes.fromhex(kw["text"]))))
    if name == "pair_range":
        return PropCase(name, inp, lambda: chk_pair_range(net, kw["entry"], un32(bytes.fromhex(kw["text"]))))
    if name == "seed_prefix":
        return PropCase(name, inp, lambda: chk_seed_prefix(net, un32(bytes.fromhex(kw["text"]))))
    if name == "produced":
        return PropCase(name, inp, lambda: chk_produced_kinds(net, kw["which"], kw["seed"]))
    raise KeyError(name)


def text_checks(nm, e, s):
    """the direct checks that apply to one (network, entry, text)"""
    h = u32(s).hex()
    yield _pc("total", nm, entry=e, text=h)
    yield _pc("reserialize", nm, entry=e, text=h)
    if e in ("bip32_prv", "bip32_pub", "bip49_prv", "bip49_pub", "bip84_prv", "bip84_pub"):
        yield _pc("hd_marker", nm, entry=e, text=h)
    if e in ("public_pair", "public_key", "electrum_pub", "sec", "hierarchical_key"):
        yield _pc("pair_range", nm, entry=e, text=h)
    if e == "bip32_seed":
        yield _pc("seed_prefix", nm, text=h)


def prop_cases(rng, tier):
    thorough = tier == "thorough"
    # payload sweep: every prefix of every network
    for nm, net in NETS:
        if is_disabled(net):
            continue
        seen = set()
        for s, _ in checksummed_strings(rng, net, nm, tier):
            d = _b58dec(s)
            if d in seen:
                continue
            seen.add(d)
            yield _pc("refuse", nm, payload=d.hex())
            if len(d) == 78:
                for e in B58_KIND_ENTRIES[3:]:
                    pre = getattr(net.parse, PREFIX_ATTR[e])
                    if pre is not None and d.startswith(pre):
                        yield from text_checks(nm, e, s)
            if rng.random() < (0.04 if not thorough else 0.1):
                for e in ("hierarchical_key", "private_key", "address", "secret", "__call__"):
                    yield from text_checks(nm, e, s)
        for which in B58_KIND_ENTRIES:
            for i in range(2 if not thorough else 20):
                yield _pc("produced", nm, which=which, seed=rng.getrandbits(32))
    # valid texts and mutations
    wide = set(FULL_SWEEP + ["xtn", "grs"]) | set(rng.sample([nm for nm, _ in NETS], 3))
    for nm, net in NETS:
        for s in valid_texts(rng, net, lean=not (thorough or nm in wide)) + segwit_texts(rng, net)[:6]:
            for e in (ENTRIES if thorough or nm in wide else
                      ["address", "payable", "private_key", "hierarchical_key", "secret", "__call__"] + rng.sample(ENTRIES, 3)):
                if e == "electrum_seed":
                    continue
                yield from text_checks(nm, e, s)
            for _ in range(1 if not thorough else 12):
                m = mutate(rng, s)
                for e in ("address", "secret", "__call__"):
                    yield from text_checks(nm, e, m)
    # everything else on every entry point
    for nm in pick_nets(rng, tier, 2):
        net = NETS[NET_INDEX[nm]][1]
        for fam, s in generic_texts(rng, net, tier):
            if thorough:
                es = ENTRIES + UNSUPPORTED[1:] if nm in ("btc", "polis", "xtn", "ltc", "dcr", "grs") else rng.sample(ENTRIES, 3)
            else:
                es = entries_for_generic(rng, fam, False, 4) if nm == "btc" else rng.sample(ENTRIES, 3)
            for e in es:
                yield from text_checks(nm, e, s)
    for s in electrum_seed_texts(rng, 2 if not thorough else 20):
        for e in ("electrum_seed", "hierarchical_key"):
            yield from text_checks("btc", e, s)
    for s in huge_pair_texts(rng):
        for e in ("public_pair", "public_key", "__call__", "secret"):
            yield from text_checks("btc", e, s)
    # per network hrp: checksummed Bech32/Bech32m strings with 0, 1, 2.. data symbols; also through one shared parseable_str
    for nm, net in NETS:
        wide = thorough or nm in ("btc", "xtn", "ltc")
        for s in degenerate_segwit_texts(rng, net, lean=not wide):
            h = u32(s).hex()
            for e in (SEGWIT_PATH if wide else SEGWIT_PATH[:3] + [rng.choice(SEGWIT_PATH[3:])]):
                yield _pc("total", nm, entry=e, text=h)
                yield _pc("shared_twice", nm, entry=e, text=h)
        for s in valid_texts(rng, net, lean=True)[:4] + ["", "1", "\ud800"]:
            for e in ("address", "__call__"):
                yield _pc("shared_twice", nm, entry=e, text=u32(s).hex())
    # histories: one text object offered to several networks and entry points, in several orders
    for text, calls, pres in history_inputs(rng, tier):
        yield _pc("history", calls[0][0], text=u32(text).hex(), calls=[list(c) for c in calls], presentation=pres)
    for nm in ("btc", "xtn", "polis", "ltc"):
        for name, kw in REGRESSIONS:
            kw2 = dict(kw)
            kw2["text"] = u32(kw2["text"]).hex()
            yield _pc(name, nm, **kw2)
    for nm, _ in NETS:
        for e in UNSUPPORTED:
            for s in ("", "abc", "P:\ud800", "1" * 50):
                yield _pc("total", nm, entry=e, text=u32(s).hex())


# ---------------------------------------------------------------------------------------------------------------
# known findings
def _text_of(pc):
    return un32(bytes.fromhex(pc.inp["text"])) if "text" in pc.inp else None


def classify(pc, r):
    """open findings only; everything else (including the six repaired ones, should they return) is a violation"""
    s = _text_of(pc)
    e = pc.inp.get("entry")
    if pc.name == "hd_marker":
        return "hd-prefix-vs-key-marker"
    if pc.name == "reserialize":
        if r.get("object") == "C" and r.get("kind") in ("text-not-parsed", "reparsed-object-differs") and r.get("script_text_lossy"):
            return "script-text-not-reparsed"
        return None
    return None


def _btc():
    return NETS[NET_INDEX["btc"]][1]


KNOWN_REPLAYS = {
    "hd-prefix-vs-key-marker": lambda: chk_hd_marker(
        _btc(), "bip32_pub", _b58enc(bytes.fromhex("0488b21e") + bytes(41) + b"\x00" + (1).to_bytes(32, "big"))),
    "script-text-not-reparsed": lambda: chk_reserialize(_btc(), "script", "0xdeadbeef"),
}

# the seven repaired findings, replayed on every run: any of them failing again is a violation (see prop_cases)
REGRESSIONS = [
    ("total", dict(entry="hd_seed", text="H:00")),
    ("total", dict(entry="__call__", text="P:\ud800")),
    ("total", dict(entry="bip32_seed", text="P:\ud800")),
    ("reserialize", dict(entry="public_key", text="02" + "00" * 31 + "01")),
    ("reserialize", dict(entry="sec", text="04" + "%064x%064x" % (1, GEN0.modular_sqrt(8)))),
    ("pair_range", dict(entry="public_pair", text="%d/even" % (P_ + 1))),
    ("total", dict(entry="public_pair", text="%d/even" % (P_ + 1))),
    ("total", dict(entry="public_key", text="%d/even" % (P_ + 1))),
    ("total", dict(entry="public_pair", text="%d/even" % (2 ** 256))),
    ("total", dict(entry="public_key", text="1,-%d" % GEN0.modular_sqrt(8))),
    ("pair_range", dict(entry="electrum_pub", text="E:%064x%064x" % (P_ + 1, GEN0.modular_sqrt(8)))),
    ("seed_prefix", dict(text=":")),
    ("seed_prefix", dict(text="HP:abc")),
    ("reserialize", dict(entry="electrum_prv", text="E:" + "00" * 31 + "01")),
    ("reserialize", dict(entry="electrum_pub", text="E:%064x%064x" % (1, GEN0.modular_sqrt(8)))),
    ("reserialize", dict(entry="hierarchical_key", text="E:" + "00" * 31 + "01")),
]


def replay_input(check, inp):
    try:
        pc = _pc(check, inp["net"], **{k: v for k, v in inp.items() if k != "net"})
    except Exception as e:
        return {"kind": "unknown-check", "detail": str(e)}
    return pc.thunk()


def search(rng, tier, disagreements, known_ids):
    """after a proof/correspondence break: look for an input on which the property itself fails"""
    cands = []
    for d in disagreements[:200]:
        m = d.get("meta") or {}
        if "seq" in m:
            # a disagreeing history: the same calls, its prefixes, its reversal, each presentation
            calls = [list(c) for c in m["seq"]]
            for cs in (calls, calls[::-1], calls[:2], calls[-2:]):
                for pres in ("parseable_str", "network_type", "parseable_of_subclass", "str_subclass"):
                    cands.append(_pc("history", cs[0][0], text=m["text"], calls=cs, presentation=pres))
            continue
        if "text" in m and "entry" in m:
            s = un32(bytes.fromhex(m["text"]))
            cands += list(text_checks(m["net"], m["entry"], s))
            net = NETS[NET_INDEX[m["net"]]][1]
            try:
                p = _b58dec(s)
                cands.append(_pc("refuse", m["net"], payload=p.hex()))
                # neighbourhood: the same contents one byte longer / shorter
                cands.append(_pc("refuse", m["net"], payload=(p + b"\x01").hex()))
                cands.append(_pc("refuse", m["net"], payload=p[:-1].hex()))
            except Exception:
                pass
            for e in ENTRIES:
                if e != "electrum_seed":
                    cands += list(text_checks(m["net"], e, s))
            # the same text as one shared object over networks with the same prefixes
            others = [nm for nm, n in NETS if nm != m["net"] and not is_disabled(n)
                      and n.parse._bip32_prv_prefix == net.parse._bip32_prv_prefix][:3]
            calls = [[nm, m["entry"]] for nm in [m["net"]] + others]
            for cs in (calls, calls[::-1]):
                cands.append(_pc("history", cs[0][0], text=m["text"], calls=cs))
    for pcs in (cands, prop_cases(rng, tier)):
        for pc in pcs:
            try:
                r = pc.thunk()
            except Exception as e:
                r = {"kind": "harness-exception", "detail": "%s: %s" % (type(e).__name__, e)}
            if r is not None and classify(pc, r) not in known_ids:
                return {"check": pc.name, "input": pc.inp, "failure": r}
    return None
