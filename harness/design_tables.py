#!/usr/bin/env python3
"""print the per-property status table for DESIGN.md section 0 from evidence/*.json, meta and known files"""
import json, os, glob, re
V = os.path.dirname(os.path.dirname(os.path.abspath(__file__)))
props = [json.loads(l) for l in open(os.path.join(V, "properties.jsonl"))]
known = {}
for fn in [os.path.join(V, "KNOWN_FINDINGS.txt")] + sorted(glob.glob(os.path.join(V, "known", "*.txt"))):
    for line in open(fn):
        m = re.match(r"(open|fixed):\s+property=(\S+)\s+(?:id=(\S+)\s*)?(.*)", line.strip())
        if m:
            known.setdefault(m.group(2), {"open": set(), "fixed": 0})
            if m.group(1) == "open":
                known[m.group(2)]["open"].add(m.group(3))
            else:
                known[m.group(2)]["fixed"] += 1
seeds = {}
for d in glob.glob(os.path.join(V, "seeded", "*")):
    try:
        r = json.load(open(os.path.join(d, "result.json")))
    except Exception:
        continue
    p = r["property"]
    seeds.setdefault(p, [0, 0, 0, 0])
    if r.get("benign"):
        seeds[p][2] += 1
        seeds[p][3] += 0 if r.get("false_alarm") else 1
    else:
        seeds[p][0] += 1
        seeds[p][1] += 1 if r.get("caught") else 0
print("| prop | theorems (closed) | quick: correspondence cases / direct checks / wall | open findings | fixed in /repo | seeded changes caught; benign edits quiet |")
print("|---|---|---|---|---|---|")
for p in props:
    pid = p["id"]
    try:
        e = json.load(open(os.path.join(V, "evidence", pid + ".json")))
        c = e["coverage"]
        closed = sum(1 for t in c.get("theorems", []) if "Closed under the global context" in t.get("print_assumptions", ""))
        th = "%d (%d)" % (c.get("obligations", 0), closed)
        run = "%s / %s / %ss" % (c.get("correspondence_cases"), c.get("direct_property_checks"), int(e.get("wall_s", 0)))
    except Exception:
        th, run = "-", "-"
    k = known.get(pid, {"open": set(), "fixed": 0})
    s = seeds.get(pid)
    print("| %s | %s | %s | %s | %d | %s |" % (pid, th, run, ", ".join(sorted(x for x in k["open"] if x)) or "-", k["fixed"], ("%d/%d; %d/%d" % (s[1], s[0], s[3], s[2])) if s else "-"))
