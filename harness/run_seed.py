#!/usr/bin/env python3
"""run_seed.py <seed_dir> [--tier quick] [--in-repo]

Confirm a seeded change (patch.diff + demo.py + meta.json) and run the property's check against it.
Default: the patch is applied to a scratch worktree of /repo (under /var/tmp) and the check runs with VERIF_REPO pointing
at it; with --in-repo it is applied to /repo itself (git -C /repo apply) and undone afterwards (git -C /repo checkout -- .).
Writes <seed_dir>/result.json: {suite_ok, demo_without, demo_with, check_exit, violation_line, caught}.
"""
import json, os, subprocess, sys, shutil, time

V = os.path.dirname(os.path.dirname(os.path.abspath(__file__)))


def sh(cmd, cwd=None, env=None, timeout=3600):
    p = subprocess.run(cmd, shell=True, cwd=cwd, env=env, stdout=subprocess.PIPE, stderr=subprocess.STDOUT, timeout=timeout)
    return p.returncode, p.stdout.decode("utf8", "replace")


def main():
    sd = os.path.abspath(sys.argv[1])
    tier = "quick"
    in_repo = "--in-repo" in sys.argv
    if "--tier" in sys.argv:
        tier = sys.argv[sys.argv.index("--tier") + 1]
    meta = json.load(open(os.path.join(sd, "meta.json")))
    prop = meta["property"]
    patch = os.path.join(sd, "patch.diff")
    demo = os.path.join(sd, "demo.py")
    benign = bool(meta.get("benign"))
    res = {"property": prop, "tier": tier, "time": time.strftime("%Y-%m-%d %H:%M:%S")}
    ev = os.path.join(V, "evidence", prop + ".json")
    ev_backup = open(ev).read() if os.path.exists(ev) else None
    wt = "/var/tmp/seedrun_%s_%d" % (prop, os.getpid())
    sh("git -C /repo worktree remove --force %s" % wt)
    rc, out = sh("git -C /repo worktree add --detach %s HEAD" % wt)
    if rc != 0:
        print(out)
        return 2
    try:
        env = dict(os.environ, PYTHONPATH=wt, PYTHONHASHSEED="0")
        if not benign:
            rc, out = sh("/venv/bin/python %s" % demo, cwd=wt, env=env, timeout=1200)
            res["demo_without"] = rc
        rc, out = sh("git apply %s" % patch, cwd=wt)
        if rc != 0:
            res["apply_error"] = out[-500:]
            print("patch does not apply:", out)
            json.dump(res, open(os.path.join(sd, "result.json"), "w"), indent=1)
            return 2
        if not benign:
            rc, out = sh("/venv/bin/python %s" % demo, cwd=wt, env=env, timeout=1200)
            res["demo_with"] = rc
            res["demo_output"] = out[-600:]
        rc, out = sh("python3 %s/harness/baseline.py %s" % (V, wt), timeout=2400)
        res["suite_ok"] = (rc == 0)
        res["suite_line"] = out.strip().splitlines()[0] if out.strip() else ""
        # run the check
        if in_repo:
            sh("git -C /repo apply %s" % patch)
            try:
                rc, out = sh("./check %s %s" % (prop, tier), cwd=V, timeout=7200)
            finally:
                sh("git -C /repo checkout -- .")
        else:
            rc, out = sh("VERIF_EVIDENCE_DIR=%s/seed_evidence VERIF_REPO=%s ./check %s %s" % (wt, wt, prop, tier), cwd=V, timeout=7200)
        res["check_exit"] = rc
        vl = [l for l in out.splitlines() if l.startswith("VIOLATION")]
        res["violation_line"] = vl[0] if vl else None
        res["check_tail"] = out[-1500:]
        replay = None
        if vl and "replay=" in vl[0]:
            rp = vl[0].split("replay=")[1].split()[0]
            try:
                d = json.load(open(rp))
                replay = {k: d.get(k) for k in ("kind", "check", "input", "failure", "broken_obligation")}
                replay["disagreements"] = d.get("disagreements", [])[:2]
            except Exception as e:
                replay = {"error": str(e)}
        res["replay"] = replay
        res["caught"] = bool(rc == 1 and vl)
        if benign:
            res["benign"] = True
            res["valid_seed"] = bool(res["suite_ok"])
            res["false_alarm"] = bool(rc != 0 or vl)
            res["known_finding_lines"] = [l for l in out.splitlines() if l.startswith("KNOWN-FINDING")]
        else:
            res["valid_seed"] = bool(res["demo_without"] == 0 and res["demo_with"] != 0 and res["suite_ok"])
    finally:
        sh("git -C /repo worktree remove --force %s" % wt)
        shutil.rmtree(wt, ignore_errors=True)
    json.dump(res, open(os.path.join(sd, "result.json"), "w"), indent=1, default=str)
    print(json.dumps({k: res.get(k) for k in ("property", "benign", "false_alarm", "valid_seed", "demo_without", "demo_with", "suite_ok", "check_exit", "violation_line", "caught")}, indent=1))
    # after a run against a scratch repo, restore generated tables from /repo for everyone else
    if not in_repo:
        sh("./check %s quick >/dev/null 2>&1" % prop, cwd=V, timeout=3600)
    # seeded runs write their evidence under the scratch worktree (VERIF_EVIDENCE_DIR); evidence/ only ever holds runs on /repo
    return 0


if __name__ == "__main__":
    sys.exit(main())
