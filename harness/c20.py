"""C20 — the context-free transaction check accepts exactly the well-formed transactions."""
from common import *
import io
from pycoin.coins.bitcoin.Tx import Tx
from pycoin.coins.bitcoin.TxIn import TxIn
from pycoin.coins.bitcoin.TxOut import TxOut
from pycoin.coins.bcash.Tx import Tx as BchTx
from pycoin.coins.bgold.Tx import Tx as BtgTx
from pycoin.coins.litecoin import LTCTx
from pycoin.coins.groestlcoin.Tx import Tx as GrsTx      # constructible without groestlcoin_hash (only the sighash needs it)
from pycoin.coins.exceptions import ValidationFailureError
from c07 import (mk_tx, a_tx, a_txin, spec_ser, cs, d2j, j2d, blob, tx_tuple, U32, U64, hist_impl, hist_line, op_token, apply_op,
                 fresh_like, g_mutators, ops2j, j2ops, exn_tag, mk_presented, PRESENTATIONS)

PROP = "C20"
DRIVER = "C20"
RULE = ("correspondence: one driver line per call of Tx.check or per HISTORY (check, mutate, check again on one object) (per coin class, or with explicit MAX_MONEY/MAX_TX_SIZE on a subclass), "
        "its four helpers, is_coinbase, bad_solution_count; distinct = distinct line; non-trivial = the model returns (check accepted "
        "or a value) rather than raising")
PARTIAL = ["frame condition (check does not modify the transaction): the Gallina model is a pure function, so in Coq the statement is "
           "the generated source scan `check_mutations = []`; the before/after comparison of every field, the unspents and the "
           "serialisation runs on the implementation (direct check `frame`)",
           "bad_solution_count: script validation (is_solution_ok) is a parameter of the model"]
TRUSTED = ["object identity of the TxIn objects in txs_in is passed to the model as a list of tags (first index of the same object)"]

COINS = {"BTC": Tx, "BCH": BchTx, "BTG": BtgTx, "LTC": LTCTx, "GRS": GrsTx}
# the property's own constants (NOT read from /repo): 21,000,000 coins, Groestlcoin 105,000,000; 1,000,000 bytes
EXPECTED_MAX_MONEY = {"BTC": 21000000 * 10**8, "BCH": 21000000 * 10**8, "BTG": 21000000 * 10**8, "LTC": 21000000 * 10**8,
                      "GRS": 105000000 * 10**8}
EXPECTED_MAX_TX_SIZE = 1000000
ZERO = bytes(32)
_limit_classes = {}


def limit_class(mm, ms):
    k = (mm, ms)
    if k not in _limit_classes:
        _limit_classes[k] = type("LimTx", (Tx,), {"MAX_MONEY": mm, "MAX_TX_SIZE": ms})
    return _limit_classes[k]


def build(d, cls, same):
    """same: list of (j, k) pairs: input k is THE SAME OBJECT as input j"""
    t = mk_tx(d, cls)
    for (j, k) in same:
        t.txs_in[k] = t.txs_in[j]
    return t


def ids_of(t):
    res = []
    for k, x in enumerate(t.txs_in):
        res.append(next(j for j, y in enumerate(t.txs_in) if y is x))
    return res


def eff(d, same):
    """the description after aliasing (what the model must be given)"""
    ins = list(d[1])
    for (j, k) in same:
        ins[k] = ins[j]
    return (d[0], ins, d[2], d[3])


# ------------------------------------------------------------------------------------------------
# independent statement of the defects
def defects(d, mm):
    ver, ins, outs, lock = d
    res = []
    if not ins:
        res.append("no-inputs")
    if not outs:
        res.append("no-outputs")
    if any(v < 0 or v > mm for v, _ in outs):
        res.append("bad-value")
    tot = 0
    for v, _ in outs:
        tot += v
        if tot > mm:
            res.append("bad-running-total")
            break
    ops = [(h, i) for (h, i, _, _, _) in ins]
    if len(set(ops)) < len(ops):
        res.append("duplicate-outpoint")
    null = [h == ZERO and i == 0xFFFFFFFF for (h, i) in ops]
    cb = len(ins) == 1 and null[0]
    if cb and not (2 <= len(ins[0][2]) <= 100):
        res.append("bad-coinbase-script")
    if not cb and any(null):
        res.append("null-prevout")
    return res


def serialisable(d):
    ver, ins, outs, lock = d
    return 0 <= ver <= U32 and 0 <= lock <= U32 and all(0 <= i <= U32 and 0 <= q <= U32 for (_, i, _, q, _) in ins) \
        and all(0 <= v <= U64 for v, _ in outs)


def snapshot(t):
    return (tx_tuple(t), [id(x) for x in t.txs_in], [id(x) for x in t.txs_out], [id(x) for x in t.unspents],
            [(u.coin_value, u.script) if u is not None else None for u in t.unspents], sorted(vars(t).keys()),
            [sorted(vars(x).items(), key=lambda kv: kv[0]).__repr__() for x in t.txs_in],
            [sorted(vars(x).items(), key=lambda kv: kv[0]).__repr__() for x in t.txs_out])


def chk_check(d, same, coin, mm=None, ms=None):
    cls = COINS[coin] if mm is None else limit_class(mm, ms)
    t = build(d, cls, same)
    t.unspents = [TxOut(5, b"\x51")] * len(t.txs_in)
    before = snapshot(t)
    try:
        t.check()
        res = "returns"
    except ValidationFailureError:
        res = "validation"
    except struct_error:
        res = "struct"
    except Exception as e:
        return {"kind": "check-raises-other", "detail": "%s: %s" % (type(e).__name__, e)}
    if snapshot(t) != before:
        return {"kind": "check-modified-transaction"}
    de = eff(d, same)
    max_money = EXPECTED_MAX_MONEY[coin] if mm is None else mm
    max_size = EXPECTED_MAX_TX_SIZE if ms is None else ms
    dfs = defects(de, max_money)
    if dfs:
        if res != "validation":
            return {"kind": "defect-not-rejected", "defects": dfs, "result": res}
        return None
    if not serialisable(de):
        return None if res == "struct" else {"kind": "unserialisable-not-struct-error", "result": res}
    if any(len(h) != 32 for (h, _, _, _, _) in de[1]):
        return None      # a hash of the wrong length is outside the property's domain (it is truncated or short on the wire)
    total = len(spec_ser(de))
    stripped = len(spec_ser(de, False))
    if total <= max_size and res != "returns":
        return {"kind": "well-formed-rejected", "result": res, "total_size": total}
    if stripped > max_size and res != "validation":
        return {"kind": "oversize-accepted", "stripped_size": stripped}
    return None


import struct as _struct
struct_error = _struct.error


def chk_coinbase_count(d):
    t = mk_tx(d)
    if not (len(d[1]) == 1 and d[1][0][0] == ZERO and d[1][0][1] == 0xFFFFFFFF):
        return None
    if not t.is_coinbase():
        return {"kind": "coinbase-not-detected"}
    for us in ([], [TxOut(1, b"\x51")], [None]):
        t.unspents = us
        if t.bad_solution_count() != 0:
            return {"kind": "coinbase-counted-as-unsigned", "count": t.bad_solution_count()}
    return None


# ------------------------------------------------------------------------------------------------
# generators
def txin(h, i, s=b"", q=U32, w=()):
    return (h, i, s, q, list(w))


def H(k):
    return bytes([k]) * 32


def base_cases(rng, tier):
    """(desc, same-object pairs) — the boundaries the property lists"""
    res = []
    ok_in = txin(H(1), 0, b"\x51")
    for mm in (2100000000000000, 10500000000000000):
        for v in (0, 1, mm - 1, mm, mm + 1, -1, U64, U64 + 1):
            res.append(((1, [ok_in], [(v, b"\x51")], 0), []))
        # cumulative overflow only at the last output / in the middle / exactly MAX
        res.append(((1, [ok_in], [(mm - 1, b""), (1, b"")], 0), []))
        res.append(((1, [ok_in], [(mm - 1, b""), (1, b""), (1, b"")], 0), []))
        res.append(((1, [ok_in], [(mm // 2, b""), (mm // 2, b""), (1, b"")], 0), []))
        res.append(((1, [ok_in], [(mm, b""), (0, b""), (0, b"")], 0), []))
        res.append(((1, [ok_in], [(mm, b""), (0, b""), (1, b"")], 0), []))
        res.append(((1, [ok_in], [(mm, b""), (1, b""), (-1, b"")], 0), []))
        res.append(((1, [ok_in], [(1, b""), (-1, b""), (mm, b"")], 0), []))
    # counts
    res.append(((1, [], [], 0), []))
    res.append(((1, [], [(1, b"")], 0), []))
    res.append(((1, [ok_in], [], 0), []))
    res.append(((1, [txin(ZERO, U32, b"\x51\x51")], [], 0), []))
    # duplicates at any two positions, equal values in distinct objects and the same object twice
    for n in (2, 3, 4, 6):
        ins = [txin(H(10 + k), k, bytes([0x51 + k])) for k in range(n)]
        res.append(((1, ins, [(1, b"")], 0), []))
        for j in range(n):
            for k in range(j + 1, n):
                dup = list(ins)
                dup[k] = txin(ins[j][0], ins[j][1], b"other", 7)            # same outpoint, different object and fields
                res.append(((1, dup, [(1, b"")], 0), []))
                res.append(((1, ins, [(1, b"")], 0), [(j, k)]))              # the same object twice
                near = list(ins)
                near[k] = txin(ins[j][0], ins[j][1] + 1000)                  # same hash, other index: fine
                res.append(((1, near, [(1, b"")], 0), []))
                near2 = list(ins)
                near2[k] = txin(H(99), ins[j][1])                            # other hash, same index: fine
                res.append(((1, near2, [(1, b"")], 0), []))
    # coinbase script lengths
    for L in (0, 1, 2, 3, 50, 99, 100, 101, 102, 253):
        res.append(((1, [txin(ZERO, U32, b"\x33" * L)], [(50 * 10**8, b"\x51")], 0), []))
        res.append(((1, [txin(ZERO, 0, b"\x33" * L)], [(50 * 10**8, b"\x51")], 0), []))          # (zero hash, other index): not a coinbase
        res.append(((1, [txin(ZERO, U32 - 1, b"\x33" * L)], [(1, b"")], 0), []))
        res.append(((1, [txin(H(0)[:31] + b"\x01", U32, b"\x33" * L)], [(1, b"")], 0), []))
    # null outpoint in a non-coinbase transaction, at every position; near misses
    for n in (2, 3):
        for pos in range(n):
            for (h, i) in [(ZERO, U32), (ZERO, 0), (ZERO, 5), (H(0)[:31] + b"\x80", U32), (H(255), U32), (bytes(31), U32), (bytes(33), U32)]:
                ins = [txin(H(20 + k), k) for k in range(n)]
                ins[pos] = txin(h, i, b"\x51\x51")
                res.append(((1, ins, [(1, b"")], 0), []))
    res.append(((1, [txin(ZERO, U32, b"ab"), txin(ZERO, U32, b"cd")], [(1, b"")], 0), []))        # two null inputs
    res.append(((1, [txin(ZERO, U32, b"ab")] * 2, [(1, b"")], 0), [(0, 1)]))
    # outpoints that differ but collide under Python's hash() (the `refs` set must compare by equality): ints congruent modulo
    # 2^61-1, and -1 / -2; they do not fit the wire width, so after the input check the size test raises struct.error
    M = (1 << 61) - 1
    for (a, b) in [(-1, -2), (1, 1 + M), (0, M), (5, 5 + 2 * M)]:
        res.append(((1, [txin(H(1), a), txin(H(1), b)], [(1, b"")], 0), []))
        res.append(((1, [txin(H(1), a), txin(H(2), b), txin(H(1), a)], [(1, b"")], 0), []))
    # unserialisable fields with and without a defect
    for bad in [(-1, [ok_in], [(1, b"")], 0), (1, [ok_in], [(1, b"")], U32 + 1), (1, [txin(H(1), -1)], [(1, b"")], 0),
                (1, [txin(H(1), 1, b"", U32 + 1)], [(1, b"")], 0), (U32 + 1, [ok_in], [], 0), (1, [txin(H(1), -1), txin(H(1), -1)], [(1, b"")], 0),
                (1, [txin(H(1)[:31], 0)], [(1, b"")], 0), (1, [txin(H(1) + b"x", 0), txin(H(1), 0)], [(1, b"")], 0)]:
        res.append((bad, []))
    return res


def g_random(rng):
    n_in = rng.choice([0, 1, 1, 2, 3, 5])
    n_out = rng.choice([0, 1, 2, 3, 4])
    mm = 2100000000000000
    ins = []
    for k in range(n_in):
        h = rng.choice([H(rng.randrange(1, 4)), H(rng.randrange(1, 4)), ZERO, blob(rng, 32)])
        i = rng.choice([0, 0, 1, U32, rng.randrange(3)])
        w = rng.choice([[], [], [b"w"], [b"", b"\x30" * 71]])
        ins.append(txin(h, i, blob(rng, rng.choice([0, 1, 2, 3, 99, 100, 101, 107])), rng.choice([0, U32]), w))
    outs = [(rng.choice([0, 1, mm, mm + 1, mm - 1, mm // 2, mm // 2 + 1, -1, rng.getrandbits(50), rng.getrandbits(20)]), blob(rng, rng.choice([0, 25, 34])))
            for _ in range(n_out)]
    same = []
    if n_in >= 2 and rng.random() < 0.2:
        j = rng.randrange(n_in - 1)
        same.append((j, rng.randrange(j + 1, n_in)))
    return ((rng.choice([1, 2, U32]), ins, outs, rng.choice([0, U32])), same)


def size_cases():
    """transactions at the exact size limit (1,000,000) — few, they are big"""
    res = []
    base = (1, [txin(H(1), 0, b"")], [(1, b"")], 0)
    n0 = len(spec_ser(base))                 # with an empty script; the script's length field grows to 5 bytes (0xfe + 4)
    for target in (999999, 1000000, 1000001):
        L = target - n0 - 4                  # compact size of L takes 5 bytes instead of 1
        d = (1, [txin(H(1), 0, b"\x6a" * L)], [(1, b"")], 0)
        assert len(spec_ser(d)) == target
        res.append((d, []))
    # stripped size within the limit, total above it (witness data tips it over)
    L = 1000000 - n0 - 4 - 10
    d = (1, [txin(H(1), 0, b"\x6a" * L, U32, [b"\x30" * 72])], [(1, b"")], 0)
    assert len(spec_ser(d, False)) <= 1000000 < len(spec_ser(d))
    res.append((d, []))
    d = (1, [txin(H(1), 0, b"\x6a" * 1000, U32, [b"\x30" * 999000])], [(1, b"")], 0)
    res.append((d, []))
    return res


def small_limit_cases(rng, n):
    """size boundary exercised cheaply on subclasses with a small MAX_TX_SIZE: limit = size-1, size, size+1 (total and stripped)"""
    res = []
    for _ in range(n):
        d, same = g_random(rng)
        de = eff(d, same)
        if not serialisable(de) or any(len(h) != 32 for (h, _, _, _, _) in de[1]):
            continue
        tot, strip = len(spec_ser(de)), len(spec_ser(de, False))
        for ms in {tot - 1, tot, tot + 1, strip - 1, strip, strip + 1}:
            res.append((d, same, rng.choice([2100000000000000, 10**6, 2**50]), ms))
    return res


# ------------------------------------------------------------------------------------------------
# ------------------------------------------------------------------------------------------------
# histories of one object: check, mutate, check again (Model/TxObject.v)
def verdict(t):
    try:
        t.check()
        return "returns"
    except ValidationFailureError:
        return "validation"
    except struct_error:
        return "struct"
    except Exception as e:
        return "other:" + type(e).__name__


def expected_verdicts(de, max_money, max_size):
    """the set of verdicts the property allows for a transaction with these CURRENT fields"""
    if defects(de, max_money):
        return {"validation"}
    if not serialisable(de):
        return {"struct"}
    if any(len(h) != 32 for (h, _, _, _, _) in de[1]):
        return {"returns", "validation"}
    total, stripped = len(spec_ser(de)), len(spec_ser(de, False))
    if total <= max_size:
        return {"returns"}
    if stripped > max_size:
        return {"validation"}
    return {"returns", "validation"}


def chk_check_history(d, us, ops, coin, mm=None, ms=None):
    """one object: after construction and after every operation, check() on the long-lived object must (a) agree with check()
    on a freshly built object with the same current fields, (b) be the verdict the property gives for the current fields,
    (c) leave the object unchanged; also as_bin / is_coinbase are compared with the fresh object"""
    cls = COINS[coin] if mm is None else limit_class(mm, ms)
    max_money = EXPECTED_MAX_MONEY[coin] if mm is None else mm
    max_size = EXPECTED_MAX_TX_SIZE if ms is None else ms
    t = mk_tx(d, cls)
    t.unspents = [None if u is None else cls.TxOut(u[0], u[1]) for u in us]
    for n, op in enumerate([None] + list(ops)):
        if op is not None:
            try:
                apply_op(t, op)
            except Exception:
                pass
        before = snapshot(t)
        v = verdict(t)
        if snapshot(t) != before:
            return {"kind": "check-modified-transaction", "after_op": n}
        fresh = fresh_like(t)
        vf = verdict(fresh)
        lab = None if op is None else op_token(op)[:80]
        if v != vf:
            return {"kind": "history-dependent-check", "after_op": n, "op": lab, "live": v, "fresh": vf, "size": len(spec_ser(tx_tuple(t))) if serialisable(tx_tuple(t)) else None}
        exp = expected_verdicts(tx_tuple(t), max_money, max_size)
        if v not in exp:
            return {"kind": "check-verdict-not-of-current-fields", "after_op": n, "op": lab, "verdict": v, "expected": sorted(exp)}
        for ob in (("ob", (False, False, True)), ("oc",), ("on",)):
            a, b = _obs2(t, ob), _obs2(fresh, ob)
            if a != b:
                return {"kind": "history-dependent-observation", "after_op": n, "op": lab, "observer": op_token(ob)}
    return None


def chk_presentation_check(d, kind, coin="BTC"):
    """the verdict does not depend on how the field values are presented (bytearray / memoryview / int subclass / bool / tuple ...);
    the only other outcome allowed is a refusal with TypeError / AssertionError (e.g. an unhashable bytearray outpoint hash)"""
    cls = COINS[coin]
    ref = verdict(mk_tx(d, cls))
    try:
        t = mk_presented(d, kind, cls)
    except (AssertionError, TypeError):
        return None
    v = verdict(t)
    if v == ref or v in ("other:TypeError", "other:AssertionError"):
        return None
    return {"kind": "presentation-dependent-verdict", "presentation": kind, "plain": ref, "presented": v}


def chk_bool_index_duplicate():
    """True == 1: an input spending (h, True) and one spending (h, 1) spend the same outpoint"""
    t = Tx(1, [TxIn(H(1), True), TxIn(H(1), 1)], [TxOut(1, b"")])
    v = verdict(t)
    return None if v == "validation" else {"kind": "duplicate-outpoint-accepted", "presentation": "bool index", "verdict": v}


def _obs2(t, op):
    try:
        return ("ok", apply_op(t, op))
    except Exception as e:
        return ("raise", exn_tag(e))


def size_histories(rng, tier):
    """(d, us, ops, mm, ms): histories that cross MAX_TX_SIZE (a small one on a subclass) in both directions, and the other rules"""
    res = []
    mm = 2100000000000000
    for wit in ([], [b"\x30" * 20]):
        d = (1, [(H(1), 0, b"", U32, list(wit)), (H(2), 1, b"\x51", U32, [])], [(5000, b"\x51")], 0)
        tot, strip = len(spec_ser(d)), len(spec_ser(d, False))
        for ms in sorted({tot, tot + 1, tot + 10, strip + 10, tot + 60}):
            grow = ms - tot + 1
            ops_list = [
                [("ck", mm, ms), ("as", 0, b"\x00" * max(grow, 1)), ("ck", mm, ms), ("as", 0, b""), ("ck", mm, ms)],
                [("as", 0, b"\x00" * max(grow, 1)), ("ck", mm, ms), ("as", 0, b"\x00" * max(grow - 1, 0)), ("ck", mm, ms)],
                [("ck", mm, ms), ("ck", mm, ms), ("po", (1, b"\x51" * max(grow, 1))), ("ck", mm, ms), ("xo",), ("ck", mm, ms)],
                [("ck", mm, ms), ("pi", (H(3), 2, b"\x00" * max(grow, 1), 0, [])), ("ck", mm, ms), ("xi",), ("ck", mm, ms)],
                [("ck", mm, ms), ("aw", 1, [b"\x01" * max(grow, 1)]), ("ck", mm, ms), ("mw", 1, []), ("ck", mm, ms)],
                [("ob", (False, False, True)), ("ck", mm, ms), ("os", 0, b"\x51" * (max(grow, 1) + 1)), ("ob", (False, False, True)), ("ck", mm, ms)],
            ]
            for ops in ops_list:
                res.append((d, [], ops, mm, ms))
    # the other rules, entered and left by mutation after a first check
    d = (1, [(H(1), 0, b"", U32, []), (H(2), 1, b"\x51", U32, [])], [(5000, b"\x51"), (7, b"")], 0)
    big = 10**6
    for ops in [
        [("ck", mm, big), ("ov", 0, mm + 1), ("ck", mm, big), ("ov", 0, mm), ("ck", mm, big), ("ov", 1, 1), ("ck", mm, big), ("ov", 1, 0), ("ck", mm, big)],
        [("ck", mm, big), ("ov", 1, -1), ("ck", mm, big), ("ov", 1, 0), ("ck", mm, big)],
        [("ck", mm, big), ("ah", 1, H(1)), ("ck", mm, big), ("ai", 1, 0), ("ck", mm, big), ("ai", 1, 1), ("ck", mm, big)],
        [("ck", mm, big), ("ah", 0, ZERO), ("ai", 0, U32), ("ck", mm, big), ("xi",), ("ck", mm, big), ("as", 0, b"\x51"), ("ck", mm, big),
         ("as", 0, b"\x51" * 2), ("ck", mm, big), ("as", 0, b"\x51" * 101), ("ck", mm, big), ("as", 0, b"\x51" * 100), ("ck", mm, big)],
        [("ck", mm, big), ("co",), ("ck", mm, big), ("po", (1, b"")), ("ck", mm, big), ("ci",), ("ck", mm, big), ("pi", (H(5), 0, b"", 0, [])), ("ck", mm, big)],
        [("ck", mm, big), ("av", -1), ("ck", mm, big), ("av", 2), ("ck", mm, big), ("al", U32 + 1), ("ck", mm, big), ("al", 0), ("ck", mm, big)],
        [("oc",), ("ck", mm, big), ("xi",), ("ah", 0, ZERO), ("ai", 0, U32), ("oc",), ("ck", mm, big), ("pi", (ZERO, U32, b"", 0, [])), ("oc",), ("ck", mm, big)],
    ]:
        res.append((d, [], ops, mm, big))
    # random histories with checks in between
    for _ in range(120 if tier == "quick" else 5000):
        dd, same = g_random(rng)
        dd = eff(dd, same)
        if not serialisable(dd) or any(len(h) != 32 for (h, _, _, _, _) in dd[1]):
            continue
        tot = len(spec_ser(dd))
        ms = rng.choice([tot - 1, tot, tot + 1, tot + 30, 10**6])
        lim = rng.choice([mm, 10**6])
        ops = [("ck", lim, ms)]
        for _ in range(rng.randint(1, 5)):
            ops.append(rng.choice(g_mutators(rng, dd)))
            if rng.random() < 0.7:
                ops.append(("ck", lim, ms))
        ops.append(("ck", lim, ms))
        res.append((dd, [], ops, lim, ms))
    return res


def real_size_histories():
    """the real classes at the real limit: few (each serialisation is 1 MB)"""
    base = (1, [(H(1), 0, b"", U32, []), (H(2), 1, b"", U32, [])], [(5000, b"\x51")], 0)
    n0 = len(spec_ser(base))
    fit = 1000000 - n0 - 4
    assert len(spec_ser((1, [(H(1), 0, b"\x00" * fit, U32, []), base[1][1]], base[2], 0))) == 1000000
    return [
        (base, [], [("ck", None, None), ("as", 0, b"\x00" * (fit + 1)), ("ck", None, None), ("as", 0, b"\x00" * fit), ("ck", None, None)], "BTC"),
        (base, [], [("as", 0, b"\x00" * (fit + 1)), ("ck", None, None), ("as", 0, b""), ("ck", None, None), ("po", (1, b"\x51" * 1000000)), ("ck", None, None)], "GRS"),
    ]


def _hj(d, us, ops, coin, mm, ms):
    return {"tx": d2j(d), "us": [None if u is None else [u[0], u[1].hex()] for u in us], "ops": ops2j(ops), "coin": coin, "mm": mm, "ms": ms}


def _check_impl(d, same, cls):
    return build(d, cls, same).check()


def model_cases(rng, tier):
    cases = base_cases(rng, tier)
    cases += [g_random(rng) for _ in range(2500 if tier == "quick" else 60000)]
    for k, (d, same) in enumerate(cases):
        de = eff(d, same)
        a = a_tx(de)
        ids = ids_of(build(d, Tx, same))
        coins = ["BTC", "GRS"] if k % 4 else list(COINS)
        for coin in coins:
            yield Case("check %s %s %s" % (arg(coin.encode()), arg(ids), a), (lambda d=d, same=same, coin=coin: call(_check_impl, d, same, COINS[coin])))
        if same:
            # the identity pre-check is what differs: also run the model with all-distinct tags against distinct-but-equal objects
            yield Case("check %s %s %s" % (arg(b"BTC"), arg(list(range(len(de[1])))), a), (lambda de=de: call(_check_impl, de, [], Tx)))
        yield Case("check_tx_inout_count %s" % a, (lambda d=d, same=same: call(lambda: build(d, Tx, same)._check_tx_inout_count())))
        yield Case("check_txs_in %s %s" % (arg(ids), a), (lambda d=d, same=same: call(lambda: build(d, Tx, same)._check_txs_in())))
        for coin in ("BTC", "GRS"):
            yield Case("check_txs_out %s %s" % (arg(int(COINS[coin].MAX_MONEY)), a), (lambda d=d, same=same, coin=coin: call(lambda: build(d, COINS[coin], same)._check_txs_out())))
        yield Case("check_size_limit %s %s" % (arg(1000000), a), (lambda d=d, same=same: call(lambda: build(d, Tx, same)._check_size_limit())))
        yield Case("is_coinbase %s" % a, (lambda d=d, same=same: call(lambda: build(d, Tx, same).is_coinbase())))
        for i in de[1][:2]:
            yield Case("txin_is_coinbase %s" % a_txin(i), (lambda i=i: call(lambda: TxIn(i[0], i[1], i[2], i[3]).is_coinbase())))
        # bad_solution_count: unspents with a trivially true (OP_1) or false (OP_0) puzzle script, or missing
        if k % 3 == 0 and len(de[1]) <= 6 and all(len(i[0]) == 32 and 0 <= i[1] <= U32 and 0 <= i[3] <= U32 for i in de[1]) and serialisable(de):
            us = [rng.choice([None, (1, b"\x51"), (1, b"\x00"), (1, b"\x51")]) for _ in de[1]]

            def mk(d=d, same=same, us=us):
                t = build(d, Tx, same)
                t.unspents = [None if u is None else TxOut(u[0], u[1]) for u in us]
                return t
            try:
                t = mk()
                bits = [t.is_solution_ok(i) for i in range(len(t.txs_in))]
            except Exception:
                continue
            yield Case("bad_solution_count %s %s" % (arg(bits), a), (lambda mk=mk: call(lambda: mk().bad_solution_count())))
    for coin in list(COINS) + ["XXX"]:
        yield Case("limits %s" % arg(coin.encode()),
                   (lambda coin=coin: call(lambda: (int(COINS[coin].MAX_MONEY), COINS[coin].MAX_TX_SIZE) if coin in COINS else None)))
    for (d, same, mm, ms) in small_limit_cases(rng, 300 if tier == "quick" else 6000):
        de = eff(d, same)
        ids = ids_of(build(d, Tx, same))
        yield Case("check_limits %s %s %s %s" % (arg(mm), arg(ms), arg(ids), a_tx(de)),
                   (lambda d=d, same=same, mm=mm, ms=ms: call(_check_impl, d, same, limit_class(mm, ms))))
    for (d, same) in size_cases():
        yield Case("check %s %s %s" % (arg(b"BTC"), arg([0]), a_tx(d)), (lambda d=d: call(_check_impl, d, [], Tx)))
    # histories: check, mutate, check again on one object (ck ops carry the limits of the subclass the object is built from)
    for (d, us, ops, mm, ms) in size_histories(rng, tier):
        yield Case(hist_line("dsha256", d, us, ops), (lambda d=d, us=us, ops=ops, mm=mm, ms=ms: hist_impl(d, us, ops, limit_class(mm, ms))))


def _pj(d, same, coin, mm=None, ms=None):
    return {"tx": d2j(d), "same": [list(p) for p in same], "coin": coin, "mm": mm, "ms": ms}


def prop_cases(rng, tier):
    cases = base_cases(rng, tier) + [g_random(rng) for _ in range(2500 if tier == "quick" else 60000)]
    for k, (d, same) in enumerate(cases):
        for coin in (("BTC", "GRS") if k % 5 else tuple(COINS)):
            yield PropCase("check", _pj(d, same, coin), (lambda d=d, same=same, coin=coin: chk_check(d, same, coin)))
        if len(d[1]) == 1:
            yield PropCase("coinbase_count", d2j(d), (lambda d=d: chk_coinbase_count(d)))
    for (d, same, mm, ms) in small_limit_cases(rng, 300 if tier == "quick" else 6000):
        yield PropCase("check", _pj(d, same, "LIM", mm, ms), (lambda d=d, same=same, mm=mm, ms=ms: chk_check(d, same, "LIM", mm, ms)))
    for (d, same) in size_cases():
        yield PropCase("check", _pj(d, same, "BTC"), (lambda d=d: chk_check(d, [], "BTC")))
    for (d, us, ops, mm, ms) in size_histories(rng, tier):
        yield PropCase("check_history", _hj(d, us, ops, "LIM", mm, ms), (lambda d=d, us=us, ops=ops, mm=mm, ms=ms: chk_check_history(d, us, ops, "LIM", mm, ms)))
    for (d, us, ops, coin) in real_size_histories():
        ops = [o if o[0] != "ck" else ("ck", EXPECTED_MAX_MONEY[coin], EXPECTED_MAX_TX_SIZE) for o in ops]
        yield PropCase("check_history", _hj(d, us, ops, coin, None, None), (lambda d=d, us=us, ops=ops, coin=coin: chk_check_history(d, us, ops, coin)))
    pres = base_cases(rng, tier)[::7]
    for k, (d, same) in enumerate(pres):
        de = eff(d, same)
        if not serialisable(de):
            continue
        for kind in (PRESENTATIONS if k % 6 == 0 else [PRESENTATIONS[k % len(PRESENTATIONS)]]):
            coin = list(COINS)[k % len(COINS)]
            yield PropCase("presentation", {"tx": d2j(de), "kind": kind, "coin": coin}, (lambda de=de, kind=kind, coin=coin: chk_presentation_check(de, kind, coin)))
    yield PropCase("bool_index", {}, chk_bool_index_duplicate)
    # every mutator once, on every coin class, with a check before and after
    for k, coin in enumerate(COINS):
        d = (1, [(H(1), 0, b"", U32, []), (H(2), 1, b"\x51", U32, [b"w"])], [(5000, b"\x51"), (EXPECTED_MAX_MONEY[coin] - 5000, b"")], 0)
        for m in g_mutators(rng, d):
            yield PropCase("check_history", _hj(d, [], [m], coin, None, None), (lambda d=d, m=m, coin=coin: chk_check_history(d, [], [m], coin)))


def replay_input(check, inp):
    if check == "check":
        return chk_check(j2d(inp["tx"]), [tuple(p) for p in inp["same"]], inp["coin"], inp.get("mm"), inp.get("ms"))
    if check == "coinbase_count":
        return chk_coinbase_count(j2d(inp))
    if check == "presentation":
        return chk_presentation_check(j2d(inp["tx"]), inp["kind"], inp.get("coin", "BTC"))
    if check == "bool_index":
        return chk_bool_index_duplicate()
    if check == "check_history":
        us = [None if u is None else (u[0], bytes.fromhex(u[1])) for u in inp.get("us", [])]
        return chk_check_history(j2d(inp["tx"]), us, j2ops(inp["ops"]), inp["coin"], inp.get("mm"), inp.get("ms"))
    return {"kind": "unknown-check"}


def classify(pc, r):
    return None


KNOWN_REPLAYS = {}


def search(rng, tier, disagreements, known_ids):
    from c07 import _tx_from_case
    cands = []
    for dis in disagreements[:80]:
        toks = dis["case"].split(" ")
        try:
            d = _tx_from_case(toks[2:6]) if toks[0] == "history" else _tx_from_case(toks[-4:])
        except Exception:
            continue
        if serialisable(d) and all(len(i[0]) == 32 for i in d[1]):
            tot = len(spec_ser(d))
            for ms in (tot, tot + 5):
                for m in g_mutators(rng, d)[:10]:
                    ops = [m]
                    cands.append(PropCase("check_history", _hj(d, [], ops, "LIM", 2100000000000000, ms),
                                          (lambda d=d, ops=ops, ms=ms: chk_check_history(d, [], ops, "LIM", 2100000000000000, ms))))
        for coin in ("BTC", "GRS"):
            cands.append(PropCase("check", _pj(d, [], coin), (lambda d=d, coin=coin: chk_check(d, [], coin))))
        if toks[0] == "check_limits":
            z = lambda t: -int(t[2:], 16) if t.startswith("i-") else int(t[1:], 16)
            mm, ms = z(toks[1]), z(toks[2])
            cands.append(PropCase("check", _pj(d, [], "LIM", mm, ms), (lambda d=d, mm=mm, ms=ms: chk_check(d, [], "LIM", mm, ms))))
        if len(d[1]) == 1:
            cands.append(PropCase("coinbase_count", d2j(d), (lambda d=d: chk_coinbase_count(d))))
            # neighbourhood: coinbase script lengths around the case's
            i = d[1][0]
            for L in {0, 1, 2, 3, 99, 100, 101, 102, len(i[2]) + 1, max(0, len(i[2]) - 1)}:
                d2 = (d[0], [(ZERO, U32, b"\x33" * L, i[3], i[4])], d[2] or [(1, b"")], d[3])
                cands.append(PropCase("check", _pj(d2, [], "BTC"), (lambda d2=d2: chk_check(d2, [], "BTC"))))
    cands += list(prop_cases(rng, "quick"))
    for pc in cands:
        try:
            r = pc.thunk()
        except Exception as e:
            r = {"kind": "raises", "detail": "%s: %s" % (type(e).__name__, e)}
        if r is not None and classify(pc, r) not in known_ids:
            return {"check": pc.name, "input": pc.inp, "failure": r}
    return None
