"""setup: regenerate tables, full Coq build (all .vo), all drivers."""
import os, sys, glob, re
import common


def main():
    env = dict(os.environ)
    rc, out = common.sh([common.PY, os.path.join(common.VERIF, "harness", "gen_tables.py")], env=env)
    print(out)
    if rc != 0:
        return 1
    gate = common.grep_gate()
    if gate:
        print("grep gate:", gate)
        return 1
    common.ensure_makefile()
    rc, out = common.sh("timeout 3400 make -j16", cwd=common.COQ, timeout=3500)
    print(out[-3000:])
    if rc != 0:
        return 1
    for f in sorted(glob.glob(os.path.join(common.COQ, "Extract", "Extract*.v"))):
        name = re.match(r"Extract(.*)\.v", os.path.basename(f)).group(1)
        rc, out = common.build_driver(name)
        print("driver", name, rc, out[-500:])
        if rc != 0:
            return 1
    print("setup ok")
    return 0
