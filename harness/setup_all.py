"""setup: regenerate tables, build the Coq files and drivers of every claimed property (MANIFEST.json)."""
import os, sys, glob, re, json, importlib
import common


def main():
    env = dict(os.environ)
    rc, out = common.sh([common.PY, os.path.join(common.VERIF, "harness", "gen_tables.py")], env=env)
    print(out)
    if rc != 0:
        return 1
    gate = common.grep_gate()
    if gate:
        print("grep gate:", gate)
        return 1
    common.ensure_makefile()
    man = json.load(open(os.path.join(common.VERIF, "MANIFEST.json")))
    props = [c["property_id"] for c in man.get("checks", [])]
    targets, drivers = [], []
    for p in props:
        targets.append("Props/%s.vo" % p)
        try:
            mod = importlib.import_module(p.lower())
        except Exception as e:
            print("cannot import harness module for", p, e)
            return 1
        names = [getattr(mod, "DRIVER", None)] + list(getattr(mod, "EXTRA_DRIVERS", []))
        for d in names:
            if d:
                drivers.append(d)
                targets.append("Extract/Extract%s.vo" % d)
        targets += list(getattr(mod, "EXTRA_TARGETS", ()))
        targets += ["Props/%s.vo" % e for e in getattr(mod, "EXTRA_PROPS", ())]
    os.makedirs(common.ML, exist_ok=True)
    rc, out = common.sh("timeout 3400 make -j16 %s" % " ".join(sorted(set(targets))), cwd=common.COQ, timeout=3500)
    print(out[-3000:])
    if rc != 0:
        return 1
    for d in sorted(set(drivers)):
        rc, out = common.build_driver(d)
        print("driver", d, rc, out[-500:])
        if rc != 0:
            return 1
    print("setup ok: %d properties, %d drivers" % (len(props), len(set(drivers))))
    return 0
