"""C16 — peer-to-peer messages round-trip through pack and parse for every message type; bytes = wire encoding.

Correspondence: extracted Model/Streamer.v vs the real network.message.pack/parse, Streamer.pack_struct /
parse_struct, PeerAddress / InvItem constructors.  Tx, Block and header codecs of the model are opaque: the driver
asks this module (oracles txparse / blkparse / hdrparse) which run the REAL Tx.parse / Block.parse /
Block.parse_as_header; post_unpack_merkleblock (C14's) is the oracle mbpost.
Direct checks: pack = an independent hand-written wire encoder (WIRE below, written from the Bitcoin protocol
documentation, not from the layout table), parse(pack(v)) = v field by field, nothing left unread.
"""
from common import *
import io, struct, signal
from pycoin.symbols.btc import network
from pycoin.message.InvItem import InvItem
from pycoin.message.PeerAddress import PeerAddress
from pycoin.message import make_parser_and_packer as MPP
from pycoin.merkle import merkle
from pycoin.encoding.hash import double_sha256
from pycoin.coins.Tx import Tx as BaseTx
from pycoin.block import Block as BaseBlock

PROP = "C16"
EXTRA_PROPS = ["C16compose"]   # composition with the C07 transaction and C14 block/header models
DRIVER = "C16"
INTERACTIVE = True
RULE = ("correspondence: one driver line per call of pack_struct / unpack_struct (Streamer), network.message.pack / parse, "
        "PeerAddress() / InvItem(); distinct = distinct line; non-trivial = the model returns a value (not an exception)")
PARTIAL = ["Tx / Block / header codecs are parameters of the theorems (frame round-trip hypothesis, owned by C07/C14); in the "
           "correspondence run they are answered by the real Tx.parse/Block.parse through oracle callbacks",
           "merkleblock: post_unpack_merkleblock is a parameter (C14); pack / wire bytes / field-level parse are unconditional, "
           "network.message.parse is stated for field values on which the post-processing succeeds (honest proofs)"]
TRUSTED = ["struct.pack/unpack '<B' '<H' '<L' '<Q' '!H' 'B' '?' modelled as fixed-width unsigned little/big-endian (tied by correspondence)",
           "harness/gens/messages_c16.py (layout table, registered characters, post_unpack names, IP4_HEADER; live value + AST cross-check)",
           "Python str is modelled as list byte (ASCII); dict as association list (field names checked duplicate-free by table_ok)"]

Tx = network.tx
Block = network.block
M = network.message


def _closure_objects(fn, depth=4):
    """objects reachable from the closure cells of fn (nested functions, dict values, list items), by whatever name"""
    seen, out = set(), []

    def visit(o, d):
        if id(o) in seen or d < 0:
            return
        seen.add(id(o))
        out.append(o)
        try:
            if callable(o) and getattr(o, "__closure__", None):
                for c in o.__closure__:
                    try:
                        visit(c.cell_contents, d - 1)
                    except ValueError:
                        pass
            elif isinstance(o, dict):
                for v in o.values():
                    visit(v, d - 1)
            elif isinstance(o, (list, tuple)):
                for v in o:
                    visit(v, d - 1)
        except Exception:
            pass
    for c in (getattr(fn, "__closure__", None) or ()):
        try:
            visit(c.cell_contents, depth)
        except ValueError:
            pass
    return out


def _find_streamer(M_, Block_, Tx_):
    """the Streamer behind a network's message API: located by type in the closures of pack/parse (no local-variable
    names); fallback: built through the same public constructors networks/bitcoinish.py uses"""
    try:
        from pycoin.serialize.streamer import Streamer as _SB
        for fn in (M_.pack, M_.parse):
            for o in _closure_objects(fn):
                if isinstance(o, _SB) and "A" in getattr(o, "parse_lookup", {}):
                    return o
    except Exception:
        pass
    return MPP.standard_streamer(MPP.standard_parsing_functions(Block_, Tx_))


def _find_layouts(M_):
    """message name -> layout string: the public standard_messages(), else the table held by pack/parse"""
    try:
        d = MPP.standard_messages()
        if isinstance(d, dict) and all(isinstance(k, str) and isinstance(v, str) for k, v in d.items()):
            return d
    except Exception:
        pass
    for fn in (M_.pack, M_.parse):
        for o in _closure_objects(fn):
            if isinstance(o, dict) and o and all(isinstance(k, str) and isinstance(v, str) for k, v in o.items()):
                return o
    return dict(getattr(MPP, "STANDARD_P2P_MESSAGES", {}))


class NetCtx:
    """one network object with a message API: its Tx / Block classes, packer / parser, streamer"""

    def __init__(self, sym, net):
        self.sym = sym.upper()
        self.network = net
        self.Tx = net.tx
        self.Block = net.block
        self.M = net.message
        self.S = _find_streamer(self.M, self.Block, self.Tx)
        self.LAYOUTS = _find_layouts(self.M)
        self.suffix = "" if self.sym == "BTC" else "@" + self.sym
        self._objs = None

    def objs(self, rng):
        if self._objs is None:
            self._objs = Objs(rng, self)
        return self._objs

    def class_key(self):
        return (tuple(c.__module__ + "." + c.__name__ for c in self.Block.__mro__[1:2]),
                tuple(c.__module__ + "." + c.__name__ for c in self.Tx.__mro__[:1]))


BTC = NetCtx("btc", network)
S = BTC.S
LAYOUTS = BTC.LAYOUTS
_ALL_NETS = None


def all_nets():
    """every pycoin.symbols network that has a message API (a network that cannot be imported here is skipped)"""
    global _ALL_NETS
    if _ALL_NETS is None:
        import pkgutil, importlib, pycoin.symbols as _sy
        nets = {"BTC": BTC}
        for m in sorted(pkgutil.iter_modules(_sy.__path__), key=lambda m: m.name):
            if m.name == "btc":
                continue
            try:
                net = importlib.import_module("pycoin.symbols." + m.name).network
                if getattr(net, "message", None) is None or getattr(net, "tx", None) is None or getattr(net, "block", None) is None:
                    continue
                nets[m.name.upper()] = NetCtx(m.name, net)
            except Exception:
                continue
        _ALL_NETS = nets
    return _ALL_NETS


def representative_nets():
    """BTC plus one network per distinct (Block base class, Tx class): the codecs T / B / z differ between them"""
    seen, out = {BTC.class_key()}, []
    prefer = ["BTG", "BCH", "LTC", "GRS"]
    nets = all_nets()
    for sym in prefer + sorted(nets):
        c = nets.get(sym)
        if c is None or c is BTC or c.class_key() in seen:
            continue
        seen.add(c.class_key())
        out.append(c)
    return out


def ctx_of(sym):
    if not sym or sym.upper() == "BTC":
        return BTC
    return all_nets().get(sym.upper().lstrip("@")) or BTC


def split_layout(lay):
    pairs = [t.split(":") for t in lay.split()]
    return [p[0] for p in pairs], "".join(p[1] for p in pairs)


def parse_fields(name, f, ctx=None):
    """the field-level parser of a message (no post-processing), leaving the rest of f unread"""
    ctx = ctx or BTC
    names, types = split_layout(ctx.LAYOUTS[name])
    return ctx.S.parse_as_dict(names, types, f)


def hdr_bytes(b):
    f = io.BytesIO()
    b.stream_header(f)
    return f.getvalue()


EXN_NAMES = ["E_SCRIPT", "E_VALUE", "E_ENCODING", "E_STRUCT", "E_INDEX", "E_TYPE", "E_ASSERT", "E_ATTR", "E_KEY",
             "E_VALIDATION", "E_BADMERKLE", "E_BADSPEND", "E_NOPOINT", "E_SECRET", "E_PUBPAIR", "E_DER", "E_OVERFLOW", "E_OTHER"]


def _exn_code(e):
    t = exn_tag(e)
    return bytes([1 + (EXN_NAMES.index(t) if t in EXN_NAMES else EXN_NAMES.index("E_OTHER"))])


# ---- oracles ------------------------------------------------------------------------------------
def _o_parse(parse_f, canon_f):
    def o(b):
        f = io.BytesIO(b)
        try:
            obj = guarded(lambda: parse_f(f))
            c = canon_f(obj)
        except (Exception, ImplTimeout) as e:
            return _exn_code(e)
        return b"\0" + f.tell().to_bytes(4, "big") + c
    return o


def _o_mbpost(ctx):
    def o(b):
        f = io.BytesIO(b)
        try:
            d = guarded(lambda: parse_fields("merkleblock", f, ctx))
            d = guarded(lambda: MPP.post_unpack_merkleblock(d, f))
        except (Exception, ImplTimeout) as e:
            return _exn_code(e)
        return b"\0" + b"".join(d["tx_hashes"])
    return o


def _o_hdrof(ctx):
    def o(b):
        try:
            return hdr_bytes(ctx.Block.parse(io.BytesIO(b), check_merkle_hash=False))
        except Exception:
            return b[:80]
    return o


def _oracles_for(ctx):
    sfx = ctx.suffix
    return {"txparse" + sfx: _o_parse(ctx.Tx.parse, lambda t: t.as_bin()),
            "blkparse" + sfx: _o_parse(ctx.Block.parse, lambda b: b.as_bin()),
            "hdrparse" + sfx: _o_parse(ctx.Block.parse_as_header, lambda b: b.as_bin()),
            "mbpost" + sfx: _o_mbpost(ctx), "hdrof" + sfx: _o_hdrof(ctx)}


# oracle name -> callback; names carry the network: txparse (BTC), txparse@BTG, ...
ORACLES = dict(_oracles_for(BTC))
try:
    for _c in representative_nets():
        ORACLES.update(_oracles_for(_c))
except Exception:
    pass


# ---- canonical forms (= show_pv in ml_src/driver_c16.ml) and argument tokens -----------------------
def cv(v):
    if v is None:
        return "N"
    if v is True:
        return "T"
    if v is False:
        return "F"
    if isinstance(v, int):
        return "i" + ("-" if v < 0 else "") + format(abs(v), "x")
    if isinstance(v, (bytes, bytearray)):
        return "x" + bytes(v).hex()
    if isinstance(v, (tuple, list)):
        return "(" + " ".join(cv(x) for x in v) + ")"
    if isinstance(v, PeerAddress):
        return "A(%s %s %s)" % (cv(v.services), cv(v.ip_bin), cv(v.port))
    if isinstance(v, InvItem):
        return "V(%s %s)" % (cv(v.item_type), cv(v.data))
    if isinstance(v, BaseTx):
        return "t" + v.as_bin().hex()
    if isinstance(v, BaseBlock):
        return "k" + v.as_bin().hex()
    if isinstance(v, dict):
        return "{" + " ".join("%s=%s" % (k, cv(x)) for k, x in v.items()) + "}"
    raise TypeError("cv: %r" % (v,))


def tok(v):
    """argument token understood by parse_val in the driver"""
    if v is None:
        return "N"
    if v is True:
        return "T"
    if v is False:
        return "F"
    if isinstance(v, int):
        return "i" + ("-" if v < 0 else "") + format(abs(v), "x")
    if isinstance(v, (bytes, bytearray, memoryview)):
        return "x" + bytes(v).hex()
    if isinstance(v, (tuple, list)):
        return "(" + ",".join(tok(x) for x in v) + ")"
    if isinstance(v, PeerAddress):      # constructor arguments as given (the model applies its own constructor)
        a = getattr(v, "_c16_args", None)
        sv, ip, port = (int(a[0]), a[1], a[2]) if a is not None else pa_raw(v)
        return "A(%s,%s,%s)" % (tok(sv), tok(ip), tok(port))
    if isinstance(v, InvItem):
        return "V(%s,%s)" % (tok(v.item_type), tok(v.data))
    if isinstance(v, BaseTx):
        return "t" + v.as_bin().hex()
    if isinstance(v, BaseBlock):
        return ("k" if v.txs else "z") + v.as_bin().hex()
    raise TypeError("tok: %r" % (v,))


def untok(t, ctx=None):
    """inverse of tok (lists come back as tuples)"""
    ctx = ctx or BTC
    Tx, Block = ctx.Tx, ctx.Block
    pos = [0]

    def hexrun():
        st = pos[0]
        while pos[0] < len(t) and t[pos[0]] in "0123456789abcdef":
            pos[0] += 1
        return t[st:pos[0]]

    def expect(c):
        if t[pos[0]] != c:
            raise ValueError("untok %r at %d" % (t, pos[0]))
        pos[0] += 1

    def value():
        c = t[pos[0]]
        if c in "NTF":
            pos[0] += 1
            return {"N": None, "T": True, "F": False}[c]
        if c == "i":
            pos[0] += 1
            neg = t[pos[0]] == "-"
            if neg:
                pos[0] += 1
            v = int(hexrun(), 16)
            return -v if neg else v
        if c == "x":
            pos[0] += 1
            return bytes.fromhex(hexrun())
        if c == "t":
            pos[0] += 1
            return Tx.from_bin(bytes.fromhex(hexrun()))
        if c == "k":
            pos[0] += 1
            return Block.from_bin(bytes.fromhex(hexrun()))
        if c == "z":
            pos[0] += 1
            return Block.parse_as_header(io.BytesIO(bytes.fromhex(hexrun())))
        if c == "(":
            pos[0] += 1
            items = []
            if t[pos[0]] == ")":
                pos[0] += 1
                return ()
            items.append(value())
            while t[pos[0]] == ",":
                pos[0] += 1
                items.append(value())
            expect(")")
            return tuple(items)
        if c == "A":
            pos[0] += 1
            expect("(")
            s = value()
            expect(",")
            ip = value()
            expect(",")
            p = value()
            expect(")")
            return mkpa(s, ip, p)
        if c == "V":
            pos[0] += 1
            expect("(")
            ty = value()
            expect(",")
            d = value()
            expect(")")
            return InvItem(ty, d, dont_check=True)
        raise ValueError("untok %r at %d" % (t, pos[0]))
    v = value()
    if pos[0] != len(t):
        raise ValueError("untok trailing %r" % t)
    return v


def kwtok(kw):
    return ";".join("%s=%s" % (k, tok(v)) for k, v in kw.items()) or "-"


def unkwtok(t, ctx=None):
    if t == "-":
        return {}
    return dict((it.split("=", 1)[0], untok(it.split("=", 1)[1], ctx)) for it in t.split(";"))


# ---- implementation thunks ------------------------------------------------------------------------
N_TIMEOUTS = [0]


class ImplTimeout(BaseException):     # not an Exception: the code under test must not swallow it
    pass


def _on_alarm(signum, frame):
    N_TIMEOUTS[0] += 1
    raise ImplTimeout("implementation call did not return within the time limit")


def guarded(f, secs=1.0):
    """run f() under a wall-clock limit: a changed implementation may loop on an attacker-chosen array count.
    Unchanged code answers every generated case in a few ms; once calls start to time out the limit shrinks so
    that a looping implementation cannot stall the run (the verdict is a violation by then anyway)."""
    if N_TIMEOUTS[0] >= 40:
        secs = min(secs, 0.03)
    elif N_TIMEOUTS[0] >= 8:
        secs = min(secs, 0.15)
    old = signal.signal(signal.SIGALRM, _on_alarm)
    signal.setitimer(signal.ITIMER_REAL, secs)
    try:
        return f()
    finally:
        signal.setitimer(signal.ITIMER_REAL, 0)
        signal.signal(signal.SIGALRM, old)


def ccall(f, *a, **kw):
    try:
        return guarded(lambda: f(*a, **kw))
    except ImplTimeout:
        return "!TIMEOUT"
    except Exception as e:
        return "!" + exn_tag(e)


def i_pack_struct(fmt, vals):
    return ccall(lambda: cv(S.pack_struct(fmt, *vals)))


def i_unpack_struct(fmt, data):
    def go():
        f = io.BytesIO(data)
        items = S.parse_struct(fmt, f)
        return cv(tuple(items)) + " " + cv(f.read())
    return ccall(go)


def i_pack(name, kw, ctx=None):
    return ccall(lambda: cv((ctx or BTC).M.pack(name, **kw)))


def i_parse(name, data, ctx=None):
    return ccall(lambda: cv((ctx or BTC).M.parse(name, data)))


ZERO_WIDTH = set("#@O")     # codecs that return a value from an exhausted stream


def hang_guard(fmt, data, ctx=None):
    """True when Streamer.parse_struct(fmt, data) could iterate an attacker-chosen count of zero-width elements
    (the Python loop runs `count` times: e.g. `[#]` with count 2^32 on an empty stream never comes back).  Such
    cases are not sent to either side."""
    S = (ctx or BTC).S
    f = io.BytesIO(data)
    i = 0
    try:
        while i < len(fmt):
            c = fmt[i]
            if c == "[":
                end = fmt.find("]", i)
                if end < 0:
                    return False
                sub = fmt[i + 1:end]
                count = S.array_count_parse_f(f)
                left = len(data) - f.tell()
                if count > left + 300 and all(ch in ZERO_WIDTH for ch in sub):
                    return True
                for _ in range(min(count, left + 301)):
                    S.parse_struct(sub, f)
                i = end
            else:
                S.parse_lookup[c](f)
            i += 1
    except Exception:
        return False
    return False


# ---- objects ------------------------------------------------------------------------------------------
def _mk_txs(rng, Tx):
    TxIn, TxOut = Tx.TxIn, Tx.TxOut
    txs = []
    txs.append(Tx(1, [TxIn(b"\1" * 32, 0, b"\x51", 0xffffffff)], [TxOut(5000, b"\x51")], 0))
    t = Tx(2, [TxIn(b"\1" * 32, 0, b"\x51", 0xffffffff), TxIn(b"\2" * 32, 1, b"", 5)], [TxOut(5000, b"\x51"), TxOut(0, b"")], 7)
    t.txs_in[0].witness = [b"abc", b""]
    txs.append(t)
    txs.append(Tx(1, [TxIn(b"\0" * 32, 0xffffffff, b"\x03\x01\x02\x03", 0)], [TxOut(50 * 10 ** 8, b"\x76\xa9\x14" + b"\x11" * 20 + b"\x88\xac")], 0))
    txs.append(Tx(0xffffffff, [TxIn(bytes(rng.getrandbits(8) for _ in range(32)), i, bytes([0x20 + i]) * (i * 40), i) for i in range(8)],
                  [TxOut(2 ** 63 - 1 if i == 0 else i, b"\x6a" * (i * 37)) for i in range(7)], 0xffffffff))
    t = Tx(2, [TxIn(bytes(rng.getrandbits(8) for _ in range(32)), 3, b"", 0xfffffffe)], [TxOut(1, b"\x00\x14" + b"\x22" * 20)], 500000)
    t.txs_in[0].witness = [bytes(rng.getrandbits(8) for _ in range(72)), bytes(rng.getrandbits(8) for _ in range(33))]
    txs.append(t)
    for k in range(6):
        ins = [TxIn(bytes(rng.getrandbits(8) for _ in range(32)), rng.getrandbits(rng.choice([1, 8, 32])),
                    bytes(rng.getrandbits(8) for _ in range(rng.choice([0, 1, 75, 107, 253, 300]))), rng.getrandbits(32))
               for _ in range(rng.randint(1, 4))]
        outs = [TxOut(rng.getrandbits(rng.choice([1, 16, 40, 62])), bytes(rng.getrandbits(8) for _ in range(rng.choice([0, 22, 25, 34, 252, 253]))))
                for _ in range(rng.randint(1, 4))]
        t = Tx(rng.choice([1, 2]), ins, outs, rng.getrandbits(32))
        if k % 2:
            for ti in t.txs_in:
                ti.witness = [bytes(rng.getrandbits(8) for _ in range(rng.choice([0, 1, 33, 72]))) for _ in range(rng.randint(0, 3))]
            if not any(ti.witness for ti in t.txs_in):
                t.txs_in[0].witness = [b"\x01"]
        txs.append(t)
    # only transactions whose own round trip is exact are used as field values (the Tx codec is C07's)
    ok = []
    for t in txs:
        b = t.as_bin()
        f = io.BytesIO(b + b"\xee")
        try:
            if Tx.parse(f).as_bin() == b and f.tell() == len(b):
                ok.append(t)
        except Exception:
            pass
    return ok


def _mk_header(Block, rng, merkle_root, extreme=None):
    """a header-only Block of the network's class; Bitcoin Gold style constructors (32-byte nonce, height, Equihash
    solution) are recognised by their parameter names"""
    import inspect
    params = list(inspect.signature(Block.__init__).parameters)
    if extreme == 0:
        ver, prev, ts, diff, nonce = 0, b"\0" * 32, 0, 0, 0
    elif extreme == 1:
        ver, prev, ts, diff, nonce = 0xffffffff, b"\xff" * 32, 0xffffffff, 0xffffffff, 0xffffffff
    else:
        ver, prev, ts, diff, nonce = rng.choice([1, 2, 0x20000000]), rb(rng, 32), rng.getrandbits(32), 0x1d00ffff, rng.getrandbits(32)
    if "solution" in params:
        sol_len = {0: 0, 1: 1344}.get(extreme, rng.choice([0, 1, 36, 100, 252, 253, 400, 1344]))
        height = {0: 0, 1: 0xffffffff}.get(extreme, rng.choice([0, 1, 491406, 491407, 500000, 2 ** 31]))
        return Block(ver, prev, merkle_root, ts, diff, rb(rng, 32), height, rb(rng, sol_len))
    return Block(ver, prev, merkle_root, ts, diff, nonce)


def _mk_block(txs, rng, Block):
    mr = merkle([t.hash() for t in txs], double_sha256)
    b = _mk_header(Block, rng, mr)
    b.set_txs(list(txs))
    return b


class Objs:
    def __init__(self, rng, ctx=None):
        ctx = ctx or BTC
        Block = ctx.Block
        self.ctx = ctx
        self.txs = _mk_txs(rng, ctx.Tx)
        self.blocks, self.headers = [], []
        self.notes = []
        for sel in (slice(0, 1), slice(0, 2), slice(2, 5), slice(0, None)):
            try:
                b = _mk_block(self.txs[sel], rng, Block)
                bb = b.as_bin()
                f = io.BytesIO(bb + b"\xee")
                if Block.parse(f).as_bin() == bb and f.tell() == len(bb):   # the Block codec is C14's: exact ones only
                    self.blocks.append(b)
            except Exception as e:
                self.notes.append("block: %s: %s" % (type(e).__name__, e))
        for b in self.blocks:
            self.headers.append(Block.parse_as_header(io.BytesIO(b.as_bin())))
        for ex in (0, 1, None, None):
            try:
                h = _mk_header(Block, rng, b"\0" * 32 if ex == 0 else (b"\xff" * 32 if ex == 1 else rb(rng, 32)), ex)
                hb = hdr_bytes(h)
                f = io.BytesIO(hb + b"\xee")
                if hdr_bytes(Block.parse_as_header(f)) == hb and f.tell() == len(hb):
                    self.headers.append(h)
            except Exception as e:
                self.notes.append("header: %s: %s" % (type(e).__name__, e))
        if ctx is BTC:
            assert len(self.txs) >= 8 and len(self.blocks) == 4 and len(self.headers) >= 6


# ---- the independent wire description (hand-written from the protocol documentation / BIP 37, 130, 133, 152) ----
# scalar wire types: u8 u16be u32 u48 u64 compact varstr hash32 ip16 bool optbool netaddr inv tx block header
WIRE = {
    "version": [("version", "u32"), ("services", "u64"), ("timestamp", "u64"), ("remote_address", "netaddr"),
                ("local_address", "netaddr"), ("nonce", "u64"), ("subversion", "varstr"), ("last_block_index", "u32"),
                ("relay", "optbool")],
    "verack": [], "sendheaders": [], "getaddr": [], "mempool": [], "sendaddrv2": [], "filterclear": [],
    "addr": [("date_address_tuples", ["u32", "netaddr"])],
    "inv": [("items", ["inv"])], "getdata": [("items", ["inv"])], "notfound": [("items", ["inv"])],
    "reject": [("message", "varstr"), ("code", "u8"), ("reason", "varstr"), ("data", "hash32")],
    "getblocks": [("version", "u32"), ("hashes", ["hash32"]), ("hash_stop", "hash32")],
    "getheaders": [("version", "u32"), ("hashes", ["hash32"]), ("hash_stop", "hash32")],
    "tx": [("tx", "tx")], "block": [("block", "block")],
    "headers": [("headers", ["header", "compact"])],
    "feefilter": [("fee_filter_value", "u64")],
    "sendcmpct": [("enabled", "bool"), ("version", "u64")],
    # pycoin's own layout: BIP152 sends the 80-byte header here, pycoin declares a 32-byte hash (see meta note)
    "cmpctblock": [("header_hash", "hash32"), ("nonce", "u64"), ("short_ids", ["u48"]), ("prefilled_txs", ["compact", "tx"])],
    "getblocktxn": [("header_hash", "hash32"), ("indices", ["compact"])],
    "blocktxn": [("header_hash", "hash32"), ("txs", ["tx"])],
    "ping": [("nonce", "u64")], "pong": [("nonce", "u64")],
    "filterload": [("filter", ["u8"]), ("hash_function_count", "u32"), ("tweak", "u32"), ("flags", "bool")],
    "filteradd": [("data", ["u8"])],
    "merkleblock": [("header", "header"), ("total_transactions", "u32"), ("hashes", ["hash32"]), ("flags", ["u8"])],
    "alert": [("payload", "varstr"), ("signature", "varstr")],
}
ALERT_WIRE = [("version", "u32"), ("relayUntil", "u64"), ("expiration", "u64"), ("id", "u32"), ("cancel", "u32"),
              ("setCancel", ["u32"]), ("minVer", "u32"), ("maxVer", "u32"), ("setSubVer", ["varstr"]), ("priority", "u32"),
              ("comment", "varstr"), ("statusBar", "varstr"), ("reserved", "varstr")]
CODEC_OF_WIRE = {"u8": "1", "u16be": "h", "u32": "L", "u48": "6", "u64": "Q", "compact": "I", "varstr": "S", "hash32": "#",
                 "ip16": "@", "bool": "b", "optbool": "O", "netaddr": "A", "inv": "v", "tx": "T", "block": "B", "header": "z"}


IP4_MAPPED_PREFIX = bytes.fromhex("00000000000000000000ffff")     # RFC 4291 IPv4-mapped prefix (independent of pycoin)


def mkpa(services, ip, port):
    """PeerAddress from raw arguments; remembers what the 16 wire bytes must be (4 bytes -> IPv4-mapped, 16 kept)"""
    pa = PeerAddress(services, ip, port)
    pa._c16_raw = (int(services), IP4_MAPPED_PREFIX + ip if len(ip) == 4 else ip, port)
    pa._c16_args = (services, ip, port)
    return pa


def pa_raw(v):
    return getattr(v, "_c16_raw", None) or (v.services, v.ip_bin, v.port)


def cvw(v):
    """canonical form of a WANTED value: PeerAddress by its raw constructor arguments"""
    if isinstance(v, PeerAddress):
        sv, ip, port = pa_raw(v)
        return "A(%s %s %s)" % (cv(sv), cv(ip), cv(port))
    if isinstance(v, (tuple, list)):
        return "(" + " ".join(cvw(x) for x in v) + ")"
    return cv(v)


def special_ips(rng):
    """IPv6 addresses with 0..16 leading zero bytes, ::, ::1, ::ffff:a.b.c.d, ::fffe:..., ::1:2:3, and 4-byte IPv4"""
    out = [b"\0" * 16, b"\0" * 15 + b"\1", b"\0" * 10 + b"\xff\xff" + bytes([1, 2, 3, 4]), b"\0" * 10 + b"\xff\xfe" + bytes([1, 2, 3, 4]),
           b"\0" * 10 + b"\xfe\xff" + bytes([1, 2, 3, 4]), b"\0" * 10 + bytes([0, 1, 0, 2, 0, 3]), b"\0" * 12 + bytes([1, 2, 3, 4]),
           b"\0" * 9 + b"\1" + b"\xff\xff" + bytes([1, 2, 3, 4]), b"\xff" * 16, bytes([1, 2, 3, 4]), b"\0" * 4, b"\xff" * 4, bytes([127, 0, 0, 1])]
    for k in range(0, 17):
        out.append(b"\0" * k + bytes(rng.randint(1, 255) for _ in range(16 - k)))
    return out


def compact(n):
    if n < 0xfd:
        return bytes([n])
    if n <= 0xffff:
        return b"\xfd" + n.to_bytes(2, "little")
    if n <= 0xffffffff:
        return b"\xfe" + n.to_bytes(4, "little")
    return b"\xff" + n.to_bytes(8, "little")


def wire1(wt, v):
    if wt == "u8":
        return v.to_bytes(1, "little")
    if wt == "u16be":
        return v.to_bytes(2, "big")
    if wt == "u32":
        return v.to_bytes(4, "little")
    if wt == "u48":
        return v.to_bytes(6, "little")
    if wt == "u64":
        return v.to_bytes(8, "little")
    if wt == "compact":
        return compact(v)
    if wt == "varstr":
        return compact(len(v)) + v
    if wt == "hash32":
        assert len(v) == 32
        return v
    if wt == "ip16":
        assert len(v) == 16
        return v
    if wt == "bool":
        return b"\1" if v else b"\0"
    if wt == "optbool":
        return b"" if v is None else (b"\1" if v else b"\0")
    if wt == "netaddr":
        sv, ip, port = pa_raw(v)
        assert len(ip) == 16
        return sv.to_bytes(8, "little") + ip + port.to_bytes(2, "big")
    if wt == "inv":
        return v.item_type.to_bytes(4, "little") + v.data
    if wt == "tx":
        return v.as_bin()
    if wt == "block":
        return v.as_bin()
    if wt == "header":
        return hdr_bytes(v)
    raise ValueError(wt)


def wire_fields(spec, kw):
    out = b""
    for name, wt in spec:
        v = kw[name]
        if isinstance(wt, list):
            out += compact(len(v))
            for e in v:
                if len(wt) == 1:
                    out += wire1(wt[0], e)
                else:
                    out += b"".join(wire1(w, x) for w, x in zip(wt, e))
        else:
            out += wire1(wt, v)
    return out


# ---- value generators ----------------------------------------------------------------------------------
def rb(rng, n):
    return bytes(rng.getrandbits(8) for _ in range(n))


GOOD = {
    "u8": [0, 1, 127, 128, 255], "u16be": [0, 1, 255, 256, 8333, 65535],
    "u32": [0, 1, 255, 256, 70015, 2 ** 31 - 1, 2 ** 31, 2 ** 32 - 1],
    "u48": [0, 1, 2 ** 32, 2 ** 47, 2 ** 48 - 1],
    "u64": [0, 1, 2 ** 32 - 1, 2 ** 32, 2 ** 63 - 1, 2 ** 63, 2 ** 64 - 1],
    "compact": [0, 1, 252, 253, 254, 255, 256, 65535, 65536, 2 ** 32 - 1, 2 ** 32, 2 ** 64 - 1],
    "bool": [True, False], "optbool": [None, True, False],
}
BAD = {   # outside the declared type: both sides must raise (or silently accept) the same way
    "u8": [-1, 256, None, b"\1"], "u16be": [-1, 65536, None], "u32": [-1, 2 ** 32, None, b"abcd", (1,)],
    "u48": [-1, 2 ** 48, 2 ** 48 + 5, 2 ** 64 - 1, 2 ** 64, None], "u64": [-1, 2 ** 64, None, b""],
    "compact": [-1, 2 ** 64, None, b"", True], "bool": [0, 1, 2, -1, None, b"", b"\0", (), (0,)],
    "optbool": [0, 1, 2, 255, 256, -1, b""],
    "varstr": [None, 5, (1, 2), True], "hash32": [b"", b"\1" * 31, b"\2" * 33, b"\3" * 64, None, 7, ()],
    "ip16": [b"", b"\1" * 4, b"\1" * 15, b"\1" * 17, None, 7],
    "netaddr": [None, 5, b"", ()], "inv": [None, 5, b""], "tx": [None, 5, b"", ()], "block": [None, 5, b""], "header": [None, 5, b""],
}


def good_values(wt, rng, O, n_random=2):
    if wt in GOOD:
        vals = list(GOOD[wt])
        if wt in ("u32", "u48", "u64", "compact"):
            bits = {"u32": 32, "u48": 48, "u64": 64, "compact": 64}[wt]
            vals += [rng.getrandbits(rng.randint(1, bits)) for _ in range(n_random)]
        return vals
    if wt == "varstr":
        return [b"", b"a", b"/Satoshi:0.7.2/", rb(rng, 252), rb(rng, 253), rb(rng, 254), rb(rng, 300), b"\xab" * 65535, b"\xcd" * 65536]
    if wt == "hash32":
        return [b"\0" * 32, b"\xff" * 32, rb(rng, 32), rb(rng, 32)]
    if wt == "ip16":
        return [b"\0" * 16, rb(rng, 16), IP4_MAPPED_PREFIX + b"\1\2\3\4"]
    if wt == "netaddr":
        vals = [mkpa(0, b"\0\0\0\0", 0), mkpa(1, bytes([10, 0, 0, 1]), 8333), mkpa(2 ** 64 - 1, b"\xff" * 16, 65535),
                mkpa(1033, rb(rng, 16), rng.getrandbits(16)), mkpa(rng.getrandbits(64), rb(rng, 4), rng.getrandbits(16)),
                mkpa(5, b"\0" * 10 + b"\xff\xff" + b"\x7f\0\0\1", 18333), mkpa(1, b"\0" * 15 + b"\1", 8333), mkpa(0, b"\0" * 16, 1)]
        ips = special_ips(rng)
        vals += [mkpa(rng.getrandbits(rng.choice([1, 10, 64])), ips[rng.randrange(len(ips))], rng.getrandbits(16)) for _ in range(max(2, n_random))]
        return vals
    if wt == "inv":
        return [InvItem(1, rb(rng, 32)), InvItem(2, b"\0" * 32), InvItem(3, b"\xff" * 32), InvItem(0, rb(rng, 32), dont_check=True),
                InvItem(4, rb(rng, 32), dont_check=True), InvItem((1 << 30) + 1, rb(rng, 32), dont_check=True),
                InvItem(2 ** 32 - 1, rb(rng, 32), dont_check=True)]
    if wt == "tx":
        return list(O.txs)
    if wt == "block":
        return list(O.blocks)
    if wt == "header":
        return list(O.headers)
    raise ValueError(wt)


def typical(wt, rng, O):
    vs = good_values(wt, rng, O, 1)
    return rng.choice(vs[:8])


def array_lengths(wt, tier):
    cheap = all(w in ("u8", "u32", "u48", "compact", "hash32") for w in wt)
    ls = [0, 1, 2, 3]
    if cheap:
        ls += [252, 253, 254, 300]
        if wt == ["u8"]:
            ls += [65535, 65536]
            if tier == "thorough":
                ls += [70000, 200000]
    elif tier == "thorough":
        ls += [7, 20]
    return ls


def gen_elem(wt, rng, O, boundary_i=None):
    if len(wt) == 1:
        vs = good_values(wt[0], rng, O, 1)
        return vs[boundary_i % len(vs)] if boundary_i is not None else rng.choice(vs)
    return tuple((lambda vs: vs[boundary_i % len(vs)] if boundary_i is not None else rng.choice(vs))(good_values(w, rng, O, 1)) for w in wt)


def gen_array(wt, n, rng, O):
    if wt == ["u8"] and n > 400:
        return tuple(rng.getrandbits(8) for _ in range(n))
    return tuple(gen_elem(wt, rng, O, i if i < 12 else None) for i in range(n))


def gen_field(wt, rng, O):
    if isinstance(wt, list):
        return gen_array(wt, rng.choice([0, 1, 2, 3, 5]), rng, O)
    return typical(wt, rng, O)


def gen_alert_payload(rng, O):
    kw = {}
    for name, wt in ALERT_WIRE:
        if isinstance(wt, list):
            kw[name] = tuple(rng.choice(good_values(wt[0], rng, O, 1)[:7]) for _ in range(rng.choice([0, 1, 3])))
        else:
            kw[name] = rng.choice(good_values(wt, rng, O, 1)[:7])
    return wire_fields(ALERT_WIRE, kw), kw


# honest merkleblock fields (BIP 37 partial merkle tree) for a list of distinct tx hashes
def partial_merkle(tx_hashes, matched):
    n = len(tx_hashes)
    height = 0
    while (n + (1 << height) - 1) >> height > 1:
        height += 1

    def width(h):
        return (n + (1 << h) - 1) >> h

    def node(h, pos):
        if h == 0:
            return tx_hashes[pos]
        left = node(h - 1, pos * 2)
        right = node(h - 1, pos * 2 + 1) if pos * 2 + 1 < width(h - 1) else left
        return double_sha256(left + right)
    bits, hashes = [], []

    def build(h, pos):
        parent = any(matched[i] for i in range(pos << h, min((pos + 1) << h, n)))
        bits.append(1 if parent else 0)
        if h == 0 or not parent:
            hashes.append(node(h, pos))
        else:
            build(h - 1, pos * 2)
            if pos * 2 + 1 < width(h - 1):
                build(h - 1, pos * 2 + 1)
    build(height, 0)
    flags = [0] * ((len(bits) + 7) // 8)
    for i, b in enumerate(bits):
        flags[i // 8] |= b << (i % 8)
    return node(height, 0), hashes, flags


def gen_merkleblock(rng, n=None, ctx=None):
    n = n or rng.choice([1, 2, 3, 4, 5, 7, 8, 9, 16, 17, 33])
    txh = [double_sha256(b"tx%d-%d" % (i, rng.getrandbits(32))) for i in range(n)]
    matched = [rng.random() < 0.3 for _ in range(n)]
    root, hashes, flags = partial_merkle(txh, matched)
    hdr = _mk_header((ctx or BTC).Block, rng, root)
    return {"header": hdr, "total_transactions": n, "hashes": tuple(hashes), "flags": tuple(flags)}


def gen_kwargs(name, rng, O):
    if name == "merkleblock":
        return gen_merkleblock(rng, None, getattr(O, "ctx", None))
    kw = {}
    for fname, wt in WIRE[name]:
        kw[fname] = gen_field(wt, rng, O)
    if name == "alert":
        kw["payload"] = gen_alert_payload(rng, O)[0]
    return kw


def message_values(name, rng, O, tier):
    """well-typed keyword arguments: every field through its boundary values (others typical), every array through
    its boundary lengths, then random"""
    spec = WIRE[name]
    out = []
    base = gen_kwargs(name, rng, O)
    out.append(base)
    if name != "merkleblock":
        for fname, wt in spec:
            if name == "alert" and fname == "payload":
                for _ in range(6):
                    out.append(dict(base, payload=gen_alert_payload(rng, O)[0]))
                continue
            if isinstance(wt, list):
                for n in array_lengths(wt, tier):
                    out.append(dict(base, **{fname: gen_array(wt, n, rng, O)}))
            else:
                for v in good_values(wt, rng, O):
                    out.append(dict(base, **{fname: v}))
    else:
        for n in list(range(1, 12)) + [16, 17, 31, 32, 33, 64, 100]:
            out.append(gen_merkleblock(rng, n, getattr(O, "ctx", None)))
    for _ in range(40 if tier == "quick" else 600):
        out.append(gen_kwargs(name, rng, O))
    return out


def bad_kwargs(name, rng, O):
    """keyword arguments outside the declared types / calling convention: both sides must agree on what happens"""
    spec = WIRE[name]
    base = gen_kwargs(name, rng, O)
    out = []
    if spec:
        out.append(dict(list(base.items())[1:]))                       # a missing keyword
        out.append(dict(base, zzz_extra=5))                             # an extra keyword
        out.append(dict(reversed(list(base.items()))))                  # another order
    else:
        out.append({"zzz_extra": 5})
    for fname, wt in spec:
        if isinstance(wt, list):
            for bad in (None, 5, b"\1\2\xff", b"", [], [()], ((),), True):
                out.append(dict(base, **{fname: bad}))
            el = gen_elem(wt, rng, O)
            if len(wt) > 1:
                out.append(dict(base, **{fname: (el[:1],)}))           # short tuple: zip truncates silently
                out.append(dict(base, **{fname: (el + (5,),)}))        # long tuple: extra ignored
                out.append(dict(base, **{fname: [list(el), el]}))      # lists instead of tuples
                out.append(dict(base, **{fname: (el[0],)}))            # bare value where a tuple is expected
            else:
                out.append(dict(base, **{fname: ((el,), [el])}))       # 1-tuples / 1-lists around single values
                out.append(dict(base, **{fname: [el, el]}))            # a list instead of a tuple
                out.append(dict(base, **{fname: ((el, el),)}))
            for w_i, w in enumerate(wt):
                for bad in BAD.get(w, [])[:5]:
                    e = gen_elem(wt, rng, O)
                    e2 = bad if len(wt) == 1 else tuple(bad if j == w_i else x for j, x in enumerate(e))
                    if len(wt) == 1 and isinstance(bad, (tuple, list)):
                        continue                                         # would be spread as arguments: covered above
                    out.append(dict(base, **{fname: (e2,)}))
        else:
            for bad in BAD.get(wt, []):
                out.append(dict(base, **{fname: bad}))
    # objects in the wrong slots (duck typing of .stream, isinstance asserts)
    objs = [O.txs[0], O.blocks[0], O.headers[0], PeerAddress(1, b"\1\2\3\4", 5), InvItem(1, b"\7" * 32)]
    for fname, wt in spec:
        if not isinstance(wt, list):
            for o in objs:
                out.append(dict(base, **{fname: o}))
    return out


def mutate_stream(b, rng):
    """malformed / truncated / extended variants of a packed message"""
    outs = []
    n = len(b)
    cuts = set(range(0, min(n, 12))) | {n - 1, n - 2, n // 2, n - 32, n - 33} | {rng.randrange(n + 1) for _ in range(3)}
    for c in sorted(x for x in cuts if 0 <= x < n):
        outs.append(b[:c])
    outs.append(b + b"\0")
    outs.append(b + rb(rng, 5))
    for _ in range(3):
        if n:
            i = rng.randrange(n)
            outs.append(b[:i] + bytes([rng.choice([0, 1, 0xfc, 0xfd, 0xfe, 0xff, b[i] ^ 1])]) + b[i + 1:])
    if n:
        i = rng.randrange(n)
        outs.append(b[:i] + b[i + 1:])
        outs.append(b[:i] + rb(rng, 1) + b[i:])
    return outs


FORMATS_EXTRA = ["", "[", "]", "[L", "L]", "[]", "[[L]]", "[L][Q]", "LX", "X", "[X]", "[L]X", "[LQ]", "[S]", "[#]", "[@]", "[O]", "[b]",
                 "[h1]", "[6]", "[1]", "[v]", "[A]", "[LA]", "[IT]", "[zI]", "[T]", "[B]", "[z]", "O", "OL", "OO", "LO", "#@", "@#",
                 "L##LLL", "Q@h", "L#", "IS", "SI", "b1", "hLQ16", "[I]I", "I[I]", "[[", "[]]", "a"]


# ---- correspondence cases ----------------------------------------------------------------------------------
def model_cases(rng, tier):
    O = Objs(rng)
    cases = []

    def add_pack_struct(fmt, vals):
        cases.append(Case("pack_struct s%s %s" % (fmt, tok(tuple(vals))), (lambda fmt=fmt, vals=vals: i_pack_struct(fmt, vals))))

    def add_unpack_struct(fmt, data):
        if hang_guard(fmt, data):
            return
        cases.append(Case("unpack_struct s%s %s" % (fmt, tok(data)), (lambda fmt=fmt, data=data: i_unpack_struct(fmt, data))))

    def add_pack(name, kw, ctx=None, line_kw=None):
        pre = (ctx.suffix + " ") if ctx is not None and ctx.suffix else ""
        cases.append(Case("pack %ss%s %s" % (pre, name, kwtok(line_kw if line_kw is not None else kw)),
                          (lambda name=name, kw=kw, ctx=ctx: i_pack(name, kw, ctx))))

    def add_parse(name, data, ctx=None):
        lay = (ctx or BTC).LAYOUTS.get(name)
        if lay is not None and hang_guard("".join(t.split(":")[1] for t in lay.split()), data, ctx):
            return
        pre = (ctx.suffix + " ") if ctx is not None and ctx.suffix else ""
        cases.append(Case("parse %ss%s %s" % (pre, name, tok(data)), (lambda name=name, data=data, ctx=ctx: i_parse(name, data, ctx))))

    # 0a. other networks (their own Tx / Block / header codecs behind the oracles): the messages that carry objects
    for ctx in representative_nets():
        if "txparse" + ctx.suffix not in ORACLES:
            continue
        try:
            On = ctx.objs(rng)
        except Exception:
            continue
        for name in OBJECT_MESSAGES + ["version", "addr"]:
            if not usable(name, On):
                continue
            for i, kw in enumerate(message_values(name, rng, On, "quick")[:(40 if tier == "thorough" else 10)]):
                add_pack(name, kw, ctx)
                try:
                    b = ctx.M.pack(name, **kw)
                except Exception:
                    continue
                add_parse(name, b, ctx)
                if len(b) < 3000 and i < 4:
                    for m in mutate_stream(b, rng):
                        add_parse(name, m, ctx)
    # 0b. accepted presentations of field values: the implementation gets the re-presented value, the model the
    #     declared-type one (presentation independence)
    for name in WIRE:
        kw = gen_merkleblock(rng, 3) if name == "merkleblock" else gen_kwargs(name, rng, O)
        for fname, wt in WIRE[name]:
            if isinstance(wt, list) and name != "merkleblock":
                kw[fname] = gen_array(wt, 2, rng, O)
            elif wt == "netaddr":
                kw[fname] = mkpa(1, IP4_MAPPED_PREFIX + bytes([10, 1, 2, 3]), 8333)
        for fname, kind, kw2 in presentation_variants(name, kw):
            if kind in ("services-str",):
                canon_line = dict(kw2, **{fname: kw[fname]})
            else:
                canon_line = kw2
            try:
                kwtok(canon_line)
            except TypeError:
                canon_line = kw
            add_pack(name, kw2, None, canon_line)

    # 1. every codec: declared-type values, values outside the type, objects in wrong slots; then parse what was written
    all_vals = [None, True, False, 0, 1, 2, -1, 255, 256, 2 ** 48, 2 ** 64, b"", b"\0", b"ab", b"\5" * 32, b"\6" * 16, (), (1,), (1, 2),
                O.txs[0], O.blocks[0], O.headers[0], PeerAddress(1, b"\1\2\3\4", 5), InvItem(1, b"\7" * 32)]
    for wt, c in CODEC_OF_WIRE.items():
        vals = good_values(wt, rng, O, 60 if tier == "quick" else 1500) + BAD.get(wt, []) + all_vals
        for v in vals:
            add_pack_struct(c, [v])
            try:
                b = S.pack_struct(c, v)
            except Exception:
                continue
            add_unpack_struct(c, b)
            add_unpack_struct(c, b + b"\x99")
            for cut in sorted({0, 1, 2, 3, len(b) - 1, len(b) // 2} & set(range(len(b)))):
                add_unpack_struct(c, b[:cut])
    for c in "XHx[]":
        add_pack_struct(c, [5])
    # zip semantics of stream_struct
    add_pack_struct("LQ", [1])
    add_pack_struct("LQ", [1, 2, 3])
    add_pack_struct("LQ", [])
    add_pack_struct("", [1])
    add_pack_struct("LXQ", [1])
    add_pack_struct("LXQ", [1, 2, 3])
    add_pack_struct("L[Q]", [1, 2, 3, 4])
    add_pack_struct("Q@h", [1, b"\1" * 16, 8333])
    add_pack_struct("L##LLL", [1, b"\1" * 32, b"\2" * 32, 2, 3, 4])
    # 2. parse_struct on every registered character, array forms, malformed format texts x assorted streams
    streams = [b"", b"\0", b"\1", b"\2", b"\xfc", b"\xfd", b"\xfd\1", b"\xfd\1\0", b"\xfe\1\0\0", b"\xfe\1\0\0\0", b"\xff" + b"\1" + b"\0" * 6,
               b"\xff" + b"\1" + b"\0" * 7, b"\3abc", b"\3ab", b"\5" * 40, b"\1" + b"\7" * 80, b"\2" + b"\7" * 33, b"\2" + b"\7" * 64, b"\2" + b"\7" * 65,
               b"\3\1\2\3", b"\3\1\2", b"\2" + O.txs[0].as_bin() * 2, b"\1" + O.blocks[0].as_bin(), b"\2" + O.headers[0].as_bin() + b"\0" + O.headers[1].as_bin() + b"\5",
               O.txs[1].as_bin(), O.blocks[1].as_bin(), O.blocks[1].as_bin()[:80], O.blocks[1].as_bin()[:81], O.txs[1].as_bin()[:-1],
               b"\1" + bytes(range(36)), b"\1" + bytes(range(30)), b"\1" + b"\1\0\0\0" + b"\0" * 26, b"\1" + b"\1\0\0\0" + b"\0" * 25]
    streams += [rb(rng, rng.randint(0, 90)) for _ in range(60 if tier == "quick" else 1500)]
    fmts = list(CODEC_OF_WIRE.values()) + FORMATS_EXTRA
    for fmt in fmts:
        for s in streams:
            add_unpack_struct(fmt, s)
    # 3. constructors
    lens = list(range(0, 41))
    for n in lens:
        for sv, p in ((1, 8333), (-1, 70000)) if n in (4, 16) else ((1, 8333),):
            ipb = rb(rng, n)
            cases.append(Case("mkaddr %s %s %s" % (arg(sv), arg(ipb), arg(p)),
                              (lambda sv=sv, ipb=ipb, p=p: ccall(lambda: cv(PeerAddress(sv, ipb, p))))))
    for ipb in special_ips(rng):
        cases.append(Case("mkaddr %s %s %s" % (arg(1), arg(ipb), arg(8333)), (lambda ipb=ipb: ccall(lambda: cv(PeerAddress(1, ipb, 8333))))))
    for n in lens:
        for ty in (0, 1, 2, 3, 4, 2 ** 32):
            for dc in (False, True):
                d = rb(rng, n)
                cases.append(Case("mkinv %s %s %s" % (arg(ty), arg(d), arg(dc)),
                                  (lambda ty=ty, d=d, dc=dc: ccall(lambda: cv(InvItem(ty, d, dont_check=dc))))))
    # 4. every message: pack well-typed values, parse the result and its malformed variants; pack ill-typed values
    names = list(WIRE) + ["nosuchmessage", ""]
    for name in names:
        if name not in WIRE:
            add_pack(name, {})
            add_parse(name, b"")
            continue
        vals = message_values(name, rng, O, tier)
        for i, kw in enumerate(vals):
            add_pack(name, kw)
            try:
                b = M.pack(name, **kw)
            except Exception:
                continue
            add_parse(name, b)
            if len(b) < 3000 and (i < 40 or tier == "thorough"):
                for m in mutate_stream(b, rng):
                    add_parse(name, m)
        for kw in bad_kwargs(name, rng, O):
            try:
                line_kw = kwtok(kw)
            except TypeError:
                continue
            add_pack(name, kw)
            try:
                b = M.pack(name, **kw)
            except Exception:
                continue
            add_parse(name, b)
        for _ in range(60 if tier == "quick" else 1500):
            add_parse(name, rb(rng, rng.choice([0, 1, 2, 5, 9, 33, 37, 60, 90, 200])))
        if name == "alert":   # payloads that are not serialized alerts (known finding) + truncated serialized alerts
            for p in (b"", b"abc", rb(rng, 40)):
                add_parse(name, M.pack(name, payload=p, signature=b"sig"))
            ap, _ = gen_alert_payload(rng, O)
            for cut in range(0, len(ap), max(1, len(ap) // 25)):
                add_parse(name, M.pack(name, payload=ap[:cut], signature=b""))
        if name == "merkleblock":   # dishonest proofs: post_unpack raises (oracle)
            kw = gen_merkleblock(rng, 5)
            for mut in (dict(kw, total_transactions=4), dict(kw, hashes=kw["hashes"][:-1]), dict(kw, flags=kw["flags"] + (0,)),
                        dict(kw, flags=(255,) * len(kw["flags"])), dict(kw, hashes=kw["hashes"] + (b"\1" * 32,)), dict(kw, total_transactions=0),
                        dict(kw, flags=()), dict(kw, hashes=())):
                add_parse(name, M.pack(name, **mut))
    return cases


# ---- direct property checks --------------------------------------------------------------------------------
def canon_value(v):
    """what parse returns for a packed well-typed value: arrays are tuples"""
    if isinstance(v, list):
        return tuple(canon_value(x) for x in v)
    if isinstance(v, tuple):
        return tuple(canon_value(x) for x in v)
    return v


class MyInt(int):
    """an int subclass (IntEnum-like): a legal presentation of an integer field"""


class MyBytes(bytes):
    """a bytes subclass (like pycoin's own bytes_as_revhex)"""


INT_WTS = ("u8", "u16be", "u32", "u48", "u64", "compact")
BYTES_WTS = ("varstr", "hash32", "ip16")


def canon_presentation(v, wt):
    """the declared-type value an accepted presentation stands for (what parse is expected to give back)"""
    if wt is None:
        return v
    if isinstance(wt, list):
        if isinstance(v, (bytes, bytearray)) and wt == ["u8"]:
            return tuple(bytes(v))
        out = []
        for e in v:
            if len(wt) == 1:
                if isinstance(e, (tuple, list)) and len(e) == 1:
                    e = e[0]
                out.append(canon_presentation(e, wt[0]))
            else:
                out.append(tuple(canon_presentation(x, w) for x, w in zip(e, wt)))
        return tuple(out)
    if wt in INT_WTS and isinstance(v, int):
        return int(v)
    if wt == "bool" and isinstance(v, int):
        return bool(v)
    if wt == "optbool" and v is not None and isinstance(v, int) and v in (0, 1):
        return bool(v)
    if wt in BYTES_WTS and isinstance(v, (bytes, bytearray, memoryview)):
        return bytes(v)
    return v


PRESENTATIONS = ["bytearray", "memoryview", "bytes-subclass", "int-subclass", "bool-as-int", "int-as-bool", "list", "list-of-lists",
                 "one-tuples", "bytes-array", "bytearray-array", "ipv4-short-form", "services-str", "services-bool"]


def apply_presentation(kind, wt, v):
    """another accepted Python presentation of the declared-type value v of wire type wt, or None when not applicable"""
    if isinstance(wt, list):
        if kind == "list":
            return list(v)
        if kind == "list-of-lists" and len(wt) > 1:
            return [list(e) for e in v]
        if kind == "one-tuples" and len(wt) == 1:
            return tuple((e,) for e in v) if v and not isinstance(v[0], (tuple, list)) else None
        if kind == "bytes-array" and wt == ["u8"]:
            return bytes(v)
        if kind == "bytearray-array" and wt == ["u8"]:
            return bytearray(v)
        if len(wt) == 1 and v:
            alt = apply_presentation(kind, wt[0], v[0])
            return None if alt is None else (alt,) + tuple(v[1:])
        if len(wt) > 1 and v:
            for j, w in enumerate(wt):
                alt = apply_presentation(kind, w, v[0][j])
                if alt is not None:
                    return (tuple(alt if i == j else x for i, x in enumerate(v[0])),) + tuple(v[1:])
        return None
    if wt in BYTES_WTS:
        if kind == "bytearray":
            return bytearray(v)
        if kind == "memoryview":
            return memoryview(v)
        if kind == "bytes-subclass":
            return MyBytes(v)
        return None
    if wt in INT_WTS:
        if kind == "int-subclass":
            return MyInt(v)
        if kind == "bool-as-int" and v in (0, 1):
            return bool(v)
        return None
    if wt in ("bool", "optbool"):
        if kind == "int-as-bool" and v is not None:
            return int(v)
        return None
    if wt == "netaddr":
        sv, ip, port = getattr(v, "_c16_args", None) or pa_raw(v)
        if kind == "ipv4-short-form" and len(ip) == 16 and ip[:12] == IP4_MAPPED_PREFIX:
            return mkpa(sv, ip[12:], port)
        if kind == "services-str":
            return mkpa(str(int(sv)), ip, port)
        if kind == "services-bool" and sv in (0, 1):
            return mkpa(bool(sv), ip, port)
        if kind == "int-subclass":
            return mkpa(MyInt(sv), ip, MyInt(port))
        return None
    if wt == "inv":
        if kind == "bytes-subclass":
            return InvItem(v.item_type, MyBytes(v.data), dont_check=True)
        if kind == "int-subclass":
            return InvItem(MyInt(v.item_type), v.data, dont_check=True)
        return None
    return None


def presentation_variants(name, kw):
    """(field, kind, keyword arguments with that field re-presented) for every applicable presentation"""
    for fname, wt in WIRE[name]:
        for kind in PRESENTATIONS:
            try:
                alt = apply_presentation(kind, wt, kw[fname])
            except Exception:
                alt = None
            if alt is not None:
                yield fname, kind, dict(kw, **{fname: alt})


def chk_presentation(name, kwt, fname, kind, ctx=None):
    kw = unkwtok(kwt, ctx)
    alt = apply_presentation(kind, dict(WIRE[name])[fname], kw[fname])
    if alt is None:
        return None
    return chk_roundtrip(name, dict(kw, **{fname: alt}), ctx)


def chk_history(seq, ctx=None):
    """the packer / parser keep no state: every message of a sequence packs to its own wire bytes and parses back,
    whatever was packed or parsed before (long before short, repeated, interleaved with parses, both orders)"""
    ctx = ctx or BTC
    items = [(n, unkwtok(t, ctx)) for n, t in seq]
    for order in (items, list(reversed(items)), items + items):
        for n, kw in order:
            try:
                b = ctx.M.pack(n, **kw)
            except Exception as e:
                return {"kind": "history-pack-raises", "message": n, "detail": "%s: %s" % (type(e).__name__, e)}
            exp = wire_fields(WIRE[n], kw)
            if b != exp:
                return {"kind": "history-dependent-pack", "message": n, "got": b[:120].hex(), "expected": exp[:120].hex(),
                        "len_got": len(b), "len_expected": len(exp)}
            try:
                d = ctx.M.parse(n, b)
            except Exception as e:
                return {"kind": "history-parse-raises", "message": n, "detail": "%s: %s" % (type(e).__name__, e)}
            for fname, _ in WIRE[n]:
                if cv(d.get(fname)) != cvw(canon_value(kw[fname])):
                    return {"kind": "history-dependent-parse", "message": n, "field": fname}
    return None


def chk_mutation(which, a1, a2, ctx=None):
    """helper objects are not memoised: after changing the attributes of a PeerAddress / InvItem (direct assignment)
    the next pack writes the CURRENT fields, and an object rebuilt from those fields packs the same"""
    ctx = ctx or BTC
    S = ctx.S
    if which == "netaddr":
        o = PeerAddress(*a1)
        c = "A"
        first = S.pack_struct(c, o)
        repr(o), o.host(), o == o, o < PeerAddress(*a2)        # every observer once before the mutation
        o.services, o.ip_bin, o.port = a2[0], (IP4_MAPPED_PREFIX + a2[1] if len(a2[1]) == 4 else a2[1]), a2[2]
        fresh = PeerAddress(*a2)
        exp = int(a2[0]).to_bytes(8, "little") + (IP4_MAPPED_PREFIX + a2[1] if len(a2[1]) == 4 else a2[1]) + a2[2].to_bytes(2, "big")
    else:
        o = InvItem(a1[0], a1[1], dont_check=True)
        c = "v"
        first = S.pack_struct(c, o)
        repr(o), hash(o), o == o
        o.item_type, o.data = a2
        fresh = InvItem(a2[0], a2[1], dont_check=True)
        exp = a2[0].to_bytes(4, "little") + a2[1]
    second = S.pack_struct(c, o)
    if second != exp or S.pack_struct(c, fresh) != exp:
        return {"kind": "stale-object-state", "got": second.hex(), "fresh": S.pack_struct(c, fresh).hex(), "expected": exp.hex()}
    if not (o == fresh) or (which == "inv" and hash(o) != hash(fresh)):
        return {"kind": "mutated-object-not-equal-to-fresh"}
    (back,) = S.parse_struct(c, io.BytesIO(second))
    if not (back == fresh):
        return {"kind": "mutated-object-parse-differs"}
    return None


def py_equal(got, want):
    """equality of a parsed-back field value with the value that was packed, as a caller would test it: the objects'
    own __eq__ / __ne__ in both directions (PeerAddress, InvItem), serialisation for Tx / Block, == otherwise"""
    if isinstance(want, (tuple, list)):
        return isinstance(got, (tuple, list)) and len(got) == len(want) and all(py_equal(g, w) for g, w in zip(got, want))
    if isinstance(want, (BaseTx, BaseBlock)):
        return type(got) is type(want) and got.as_bin() == want.as_bin() and hdr_bytes_or_none(got) == hdr_bytes_or_none(want)
    if isinstance(want, (PeerAddress, InvItem)):
        return bool(got == want) and bool(want == got) and not (got != want) and not (want != got)
    if isinstance(want, (bytearray, memoryview)):
        return bytes(want) == got
    return got == want


def hdr_bytes_or_none(b):
    return hdr_bytes(b) if isinstance(b, BaseBlock) else None


def twin_check(v):
    """a PeerAddress built from the 4-byte IPv4 form must equal the one built from its 16-byte IPv4-mapped twin"""
    if isinstance(v, (tuple, list)):
        for x in v:
            r = twin_check(x)
            if r:
                return r
        return None
    if isinstance(v, PeerAddress) and getattr(v, "_c16_args", None) is not None:
        sv, ip, port = v._c16_args
        if len(ip) == 4:
            t = PeerAddress(sv, IP4_MAPPED_PREFIX + ip, port)
            if not (v == t and t == v) or (v != t):
                return {"kind": "ipv4-form-not-equal-to-mapped-twin", "ip": ip.hex()}
    return None


def chk_roundtrip(name, kw, ctx=None):
    ctx = ctx or BTC
    M = ctx.M
    spec = WIRE.get(name)
    wts = dict(spec)
    canon_kw = dict((k, canon_presentation(v, wts.get(k))) for k, v in kw.items())
    try:
        b = M.pack(name, **kw)
    except Exception as e:
        return {"kind": "pack-raises", "detail": "%s: %s" % (type(e).__name__, e)}
    exp = wire_fields(spec, canon_kw)
    if b != exp:
        return {"kind": "wire-mismatch", "got": b[:120].hex(), "expected": exp[:120].hex(), "len_got": len(b), "len_expected": len(exp)}
    try:
        d = M.parse(name, b)
    except Exception as e:
        return {"kind": "parse-raises", "detail": "%s: %s" % (type(e).__name__, e)}
    if name == "alert":
        # alert_info: the parsed sub-message when the payload is a serialized alert, else None
        try:
            want_info = ctx.S.parse_as_dict([n for n, _ in ALERT_WIRE], "".join(_wire_fmt(w) for _, w in ALERT_WIRE), io.BytesIO(bytes(kw["payload"])))
        except Exception:
            want_info = None
        if "alert_info" not in d or cv(d["alert_info"]) != cv(want_info):
            return {"kind": "alert-info-differs", "got": cv(d.get("alert_info"))[:200], "want": cv(want_info)[:200]}
    for fname, _ in spec:
        if fname not in d:
            return {"kind": "field-missing", "field": fname}
        want = canon_value(canon_kw[fname])
        got = d[fname]
        if cv(got) != cvw(want):
            return {"kind": "field-differs", "field": fname, "got": cv(got)[:200], "want": cvw(want)[:200]}
        if not py_equal(got, want):
            return {"kind": "field-not-equal", "field": fname, "got": cv(got)[:200], "want": cvw(want)[:200],
                    "detail": "parsed value != packed value under the objects' own equality"}
        r = twin_check(kw[fname])
        if r:
            return r
    # nothing left unread
    f = io.BytesIO(b)
    parse_fields(name, f, ctx)
    rest = f.read()
    if rest:
        return {"kind": "bytes-left", "left": len(rest)}
    return None


def _wire_fmt(w):
    return "[" + "".join(CODEC_OF_WIRE[x] for x in w) + "]" if isinstance(w, list) else CODEC_OF_WIRE[w]


def chk_layout_is_protocol(name):
    """the layout text of the message, character by character, against the hand-written protocol table"""
    lay = LAYOUTS.get(name)
    if lay is None:
        return {"kind": "message-missing", "name": name}
    got = [tuple(t.split(":")) for t in lay.split()]
    want = [(n, _wire_fmt(w)) for n, w in WIRE[name]]
    if got != want:
        return {"kind": "layout-differs", "got": got, "want": want}
    return None


def chk_codec(wt, v, ctx=None):
    S = (ctx or BTC).S
    c = CODEC_OF_WIRE[wt]
    try:
        b = S.pack_struct(c, v)
    except Exception as e:
        return {"kind": "codec-pack-raises", "detail": "%s: %s" % (type(e).__name__, e)}
    if b != wire1(wt, v):
        return {"kind": "codec-wire-mismatch", "got": b[:80].hex(), "expected": wire1(wt, v)[:80].hex()}
    for rest in (b"", b"\xa5\x5a") if not (wt == "optbool" and v is None) else (b"",):
        f = io.BytesIO(b + rest)
        try:
            (w,) = S.parse_struct(c, f)
        except Exception as e:
            return {"kind": "codec-parse-raises", "detail": "%s: %s" % (type(e).__name__, e)}
        if cv(w) != cvw(v) or f.read() != rest:
            return {"kind": "codec-roundtrip", "got": cv(w)[:200], "want": cvw(v)[:200]}
        if not py_equal(w, v):
            return {"kind": "codec-not-equal", "got": cv(w)[:200], "want": cvw(v)[:200],
                    "detail": "parsed value != packed value under the objects' own equality"}
    return twin_check(v)


def _inp(name, kw, ctx=None):
    t = kwtok(kw)
    d = {"name": name, "kwargs": t if len(t) < 20000 else None, "kwargs_long": None if len(t) < 20000 else t}
    if ctx is not None and ctx is not BTC:
        d["net"] = ctx.sym
    return d


def addr_form_cases(rng, O):
    """IPv4 / IPv6 forms of PeerAddress in version and addr messages and in the bare codec, checked against the RAW
    constructor arguments (wire bytes and the ip_bin that comes back), not against PeerAddress equality"""
    for ipb in special_ips(rng):
        for sv, port in ((1, 8333), (2 ** 64 - 1, 65535), (0, 0)):
            a = mkpa(sv, ipb, port)
            yield PropCase("codec", {"wt": "netaddr", "v": tok(a)}, (lambda a=a: chk_codec("netaddr", a)))
            base = gen_kwargs("version", rng, O)
            for fld in ("remote_address", "local_address"):
                kw = dict(base, **{fld: a})
                yield PropCase("roundtrip", _inp("version", kw), (lambda kw=kw: chk_roundtrip("version", kw)))
            kw = {"date_address_tuples": ((rng.getrandbits(32), a), (0, mkpa(1, b"\1\2\3\4", 1)), (2 ** 32 - 1, a))}
            yield PropCase("roundtrip", _inp("addr", kw), (lambda kw=kw: chk_roundtrip("addr", kw)))


OBJECT_MESSAGES = ["headers", "merkleblock", "tx", "block", "cmpctblock", "blocktxn"]


def usable(name, O):
    """can values of this message be generated for the network (its Tx / Block objects could be built here)?"""
    need = set()
    for _, wt in WIRE[name]:
        need |= set(wt if isinstance(wt, list) else [wt])
    if name == "merkleblock":
        need.add("header")
    return not (("tx" in need and not O.txs) or ("block" in need and not O.blocks) or ("header" in need and not O.headers))


def net_prop_cases(rng, tier):
    """every network object that has a message API, not only BTC: the T / B / z codecs are the network's own Tx and
    Block classes (Bitcoin Gold headers are 140 bytes + solution, Litecoin / BCash / Groestlcoin have their own Tx)"""
    reps = representative_nets()
    for ctx in all_nets().values():
        if ctx is BTC:
            continue
        try:
            O = ctx.objs(rng)
        except Exception:
            continue
        full = ctx in reps
        names = OBJECT_MESSAGES + ["version", "addr", "inv", "ping", "getblocks", "alert"] if full else ["headers", "merkleblock", "tx", "block", "addr"]
        for name in names:
            if not usable(name, O):
                continue
            vals = message_values(name, rng, O, "quick")[:(30 if tier == "thorough" else 12)] if full else \
                [gen_kwargs(name, rng, O) for _ in range(3 if tier == "thorough" else 2)]
            for kw in vals:
                yield PropCase("roundtrip", _inp(name, kw, ctx), (lambda name=name, kw=kw, ctx=ctx: chk_roundtrip(name, kw, ctx)))
        if full:
            for wt in ("tx", "block", "header"):
                for v in good_values(wt, rng, O):
                    yield PropCase("codec", {"wt": wt, "v": tok(v), "net": ctx.sym}, (lambda wt=wt, v=v, ctx=ctx: chk_codec(wt, v, ctx)))


def presentation_prop_cases(rng, tier, O):
    """accepted presentations of the field values (bytearray / memoryview / bytes subclass, int subclass, bool for int,
    int for bool, list / 1-tuples / bytes for arrays, 4-byte IPv4 form, services as str / bool): same wire bytes, and
    the parsed-back value equals the declared-type value"""
    for name in WIRE:
        if name == "merkleblock":
            bases = [gen_merkleblock(rng, 3)]
        else:
            bases = [gen_kwargs(name, rng, O) for _ in range(2 if tier == "quick" else 12)]
            for fname, wt in WIRE[name]:      # make sure arrays are non-empty and an IPv4-mapped address is present
                if isinstance(wt, list):
                    bases[0][fname] = gen_array(wt, 2, rng, O)
                    if "netaddr" in wt:
                        j = wt.index("netaddr")
                        e = list(bases[0][fname][0])
                        e[j] = mkpa(1, IP4_MAPPED_PREFIX + bytes([192, 168, 1, 7]), 8333)
                        bases[0][fname] = (tuple(e),) + tuple(bases[0][fname][1:])
                elif wt == "netaddr":
                    bases[0][fname] = mkpa(1, IP4_MAPPED_PREFIX + bytes([10, 1, 2, 3]), 8333)
                elif wt in INT_WTS:
                    bases[0][fname] = 1
        for kw in bases:
            t = kwtok(kw)
            for fname, kind, kw2 in presentation_variants(name, kw):
                yield PropCase("presentation", {"name": name, "kwargs": t, "field": fname, "kind": kind},
                               (lambda name=name, t=t, fname=fname, kind=kind: chk_presentation(name, t, fname, kind)))


def history_prop_cases(rng, tier, O, ctx=None):
    names = [n for n in WIRE if WIRE[n] and usable(n, O)]
    seqs = []
    long_kw = {"filter": tuple(rng.getrandbits(8) for _ in range(3000)), "hash_function_count": 1, "tweak": 2, "flags": True}
    for n in names:
        seqs.append([("filterload", long_kw), (n, gen_kwargs(n, rng, O))])
    for _ in range(10 if tier == "quick" else 200):
        seqs.append([(n, gen_kwargs(n, rng, O)) for n in (rng.choice(names) for _ in range(rng.randint(2, 5)))])
    for seq in seqs:
        st = [(n, kwtok(kw)) for n, kw in seq]
        inp = {"seq": st}
        if ctx is not None and ctx is not BTC:
            inp["net"] = ctx.sym
        yield PropCase("history", inp, (lambda st=st, ctx=ctx: chk_history(st, ctx)))


def mutation_prop_cases(rng, tier):
    ips = special_ips(rng)
    for _ in range(20 if tier == "quick" else 400):
        a1 = (rng.getrandbits(64), rng.choice(ips), rng.getrandbits(16))
        a2 = (rng.getrandbits(64), rng.choice(ips), rng.getrandbits(16))
        yield PropCase("mutation", {"which": "netaddr", "a1": [a1[0], a1[1].hex(), a1[2]], "a2": [a2[0], a2[1].hex(), a2[2]]},
                       (lambda a1=a1, a2=a2: chk_mutation("netaddr", a1, a2)))
        i1 = (rng.choice([1, 2, 3, 0, 2 ** 32 - 1]), rb(rng, 32))
        i2 = (rng.choice([1, 2, 3, 4, (1 << 30) + 1]), rb(rng, 32))
        yield PropCase("mutation", {"which": "inv", "a1": [i1[0], i1[1].hex()], "a2": [i2[0], i2[1].hex()]},
                       (lambda i1=i1, i2=i2: chk_mutation("inv", i1, i2)))


def prop_cases(rng, tier):
    O = Objs(rng)
    for pc in addr_form_cases(rng, O):
        yield pc
    for pc in presentation_prop_cases(rng, tier, O):
        yield pc
    for pc in history_prop_cases(rng, tier, O):
        yield pc
    for pc in mutation_prop_cases(rng, tier):
        yield pc
    for pc in net_prop_cases(rng, tier):
        yield pc
    for name in WIRE:
        yield PropCase("layout", {"name": name}, (lambda name=name: chk_layout_is_protocol(name)))
    if sorted(LAYOUTS) != sorted(WIRE):
        yield PropCase("layout", {"name": "*"}, (lambda: {"kind": "message-set-differs", "got": sorted(LAYOUTS), "want": sorted(WIRE)}))
    for wt in CODEC_OF_WIRE:
        for v in good_values(wt, rng, O, 50 if tier == "quick" else 2000):
            yield PropCase("codec", {"wt": wt, "v": tok(v)}, (lambda wt=wt, v=v: chk_codec(wt, v)))
    for name in WIRE:
        for i, kw in enumerate(message_values(name, rng, O, tier)):
            yield PropCase("roundtrip", _inp(name, kw), (lambda name=name, kw=kw: chk_roundtrip(name, kw)))
            if i < 3 and len(kw) > 1:      # keyword arguments are unordered: the call-site order must not matter
                kw2 = dict(reversed(list(kw.items())))
                yield PropCase("roundtrip", _inp(name, kw2), (lambda name=name, kw2=kw2: chk_roundtrip(name, kw2)))
    # alert with payloads that are arbitrary byte strings (declared type S; formerly a finding, repaired in /repo)
    for p in [b"", b"abc", b"\0" * 10] + [rb(rng, rng.randint(1, 80)) for _ in range(20)]:
        kw = {"payload": p, "signature": b"sig"}
        yield PropCase("roundtrip", _inp("alert", kw), (lambda kw=kw: chk_roundtrip("alert", kw)))


def _guard_chk(f):
    def g(*a, **kw):
        try:
            return guarded(lambda: f(*a, **kw), 3.0)
        except ImplTimeout as e:
            return {"kind": "implementation-hangs", "detail": str(e)}
    g.__name__ = f.__name__
    return g


chk_roundtrip = _guard_chk(chk_roundtrip)
chk_codec = _guard_chk(chk_codec)
chk_history = _guard_chk(chk_history)
chk_mutation = _guard_chk(chk_mutation)


def replay_input(check, inp):
    ctx = ctx_of(inp.get("net")) if isinstance(inp, dict) else BTC
    if check == "layout":
        return chk_layout_is_protocol(inp["name"])
    if check == "codec":
        return chk_codec(inp["wt"], untok(inp["v"], ctx), ctx)
    if check == "roundtrip":
        return chk_roundtrip(inp["name"], unkwtok(inp.get("kwargs") or inp.get("kwargs_long"), ctx), ctx)
    if check == "presentation":
        return chk_presentation(inp["name"], inp["kwargs"], inp["field"], inp["kind"], ctx)
    if check == "history":
        return chk_history([tuple(x) for x in inp["seq"]], ctx)
    if check == "mutation":
        conv = (lambda a: (a[0], bytes.fromhex(a[1]), a[2])) if inp["which"] == "netaddr" else (lambda a: (a[0], bytes.fromhex(a[1])))
        return chk_mutation(inp["which"], conv(inp["a1"]), conv(inp["a2"]))
    return {"kind": "unknown-check"}


def classify(pc, r):
    return None      # no open finding for C16 (the "6", "O" and alert findings are fixed in /repo)


KNOWN_REPLAYS = {}


def search(rng, tier, disagreements, known_ids):
    """after a proof/correspondence break: look for an input on which the property itself fails"""
    cands = []
    O = Objs(rng)

    def parts(d):
        toks = d["case"].split(" ")
        ctx = BTC
        if len(toks) > 1 and toks[1].startswith("@"):
            ctx = ctx_of(toks[1])
            toks = [toks[0]] + toks[2:]
        return toks, ctx
    heads = [parts(d) for d in disagreements[:200]]
    if any(t[0] == "mkaddr" or (len(t) > 1 and ("A" in t[1] or t[1] in ("sversion", "saddr"))) for t, _ in heads):
        cands += list(addr_form_cases(rng, O))
        cands += [pc for pc in presentation_prop_cases(rng, "quick", O) if pc.inp["kind"] in ("ipv4-short-form", "services-str", "services-bool")]
        cands += list(mutation_prop_cases(rng, "quick"))
    if any(t[0] == "mkinv" or (len(t) > 1 and "v" in t[1][1:] and t[0].endswith("struct")) for t, _ in heads):
        cands += list(mutation_prop_cases(rng, "quick"))
    # other networks named by a disagreeing line, and every network when an object codec is involved
    nets = []
    for t, ctx in heads:
        if ctx is not BTC and ctx not in nets:
            nets.append(ctx)
    if nets or any(len(t) > 1 and (t[1][1:] in OBJECT_MESSAGES or (t[0].endswith("struct") and set("TBz") & set(t[1][1:]))) for t, _ in heads):
        cands += list(net_prop_cases(rng, "quick"))
    for toks, ctx in heads[:60]:
        try:
            Oc = ctx.objs(rng) if ctx is not BTC else O
            if toks[0] == "pack":
                name = toks[1][1:]
                if name in WIRE:
                    kw = unkwtok(toks[2], ctx)
                    try:        # only keyword arguments of the declared types are inputs of the property
                        wire_fields(WIRE[name], kw)
                    except Exception:
                        continue
                    if set(kw) != set(n for n, _ in WIRE[name]):
                        continue
                    cands.append(PropCase("roundtrip", _inp(name, kw, ctx), (lambda name=name, kw=kw, ctx=ctx: chk_roundtrip(name, kw, ctx))))
                    t = kwtok(kw)
                    for fname, kind, _ in presentation_variants(name, kw):
                        cands.append(PropCase("presentation", {"name": name, "kwargs": t, "field": fname, "kind": kind, "net": ctx.sym},
                                              (lambda name=name, t=t, fname=fname, kind=kind, ctx=ctx: chk_presentation(name, t, fname, kind, ctx))))
            elif toks[0] == "parse":
                name = toks[1][1:]
                if name in WIRE and usable(name, Oc):
                    for _ in range(10):
                        kw = gen_kwargs(name, rng, Oc)
                        cands.append(PropCase("roundtrip", _inp(name, kw, ctx), (lambda name=name, kw=kw, ctx=ctx: chk_roundtrip(name, kw, ctx))))
            elif toks[0] in ("pack_struct", "unpack_struct"):
                fmt = toks[1][1:]
                for wt, c in CODEC_OF_WIRE.items():
                    if c in fmt:
                        for v in good_values(wt, rng, Oc, 5):
                            cands.append(PropCase("codec", {"wt": wt, "v": tok(v), "net": ctx.sym}, (lambda wt=wt, v=v, ctx=ctx: chk_codec(wt, v, ctx))))
        except Exception:
            continue
    cands += list(history_prop_cases(rng, "quick", O))
    cands += list(prop_cases(rng, "quick"))
    for pc in cands:
        try:
            r = pc.thunk()
        except Exception as e:
            r = {"kind": "raises", "detail": str(e)}
        if r is not None and classify(pc, r) not in known_ids:
            return {"check": pc.name, "input": pc.inp, "failure": r}
    return None
