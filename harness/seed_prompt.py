#!/usr/bin/env python3
"""print the prompt for a seeding sub-agent: property text + its own scratch worktree, nothing from /verif"""
import json, sys, subprocess, os
pid = sys.argv[1]; tag = sys.argv[2] if len(sys.argv) > 2 else "a"
wt = "/tmp/seed_%s_%s" % (pid, tag)
if not os.path.exists(wt):
    subprocess.run(["git", "-C", "/repo", "worktree", "add", "--detach", wt, "HEAD"], check=True, stdout=subprocess.DEVNULL, stderr=subprocess.DEVNULL)
p = [json.loads(l) for l in open("/verif/properties.jsonl") if json.loads(l)["id"] == pid][0]
print("""You are testing how well a semantic property of the Python library pycoin (richardkiss/pycoin) is protected against regressions.
You have your own scratch git worktree of the repository at %(wt)s (work ONLY there; never touch /repo or /verif, do not read
anything under /verif).  Run Python as `cd %(wt)s && PYTHONPATH=%(wt)s PYTHONHASHSEED=0 /venv/bin/python ...` (a conda WARNING on stderr is
harmless).  The existing test suite is run with
`cd %(wt)s && PYTHONPATH=%(wt)s /venv/bin/python -m pytest -q -p no:cacheprovider --timeout=900 -x -q` (about 30 s; a few network/cmdline tests
fail already on the unchanged tree — compare against a run on the unchanged worktree first).  No network.

THE PROPERTY (id %(id)s): %(title)s
Statement: %(statement)s
Quantified over: %(quant)s
Why the existing tests cannot settle it: %(why)s
Code it is anchored in: %(anchors)s

TASK: produce THREE different, realistic changes to pycoin's source (each a separate small patch, as a developer might introduce by
mistake or an over-eager refactoring: an off-by-one, a wrong constant or mask, a dropped check, a swapped argument, a caching shortcut, two
cooperating edits that each look fine alone...) such that each change
 (1) BREAKS the property above,
 (2) still imports/compiles and leaves every currently-passing test of the existing test suite passing (verify by running the suite
     with the change applied and comparing with the unchanged run),
 (3) needs something SPECIFIC to manifest — a particular unusual input, boundary value, multi-step sequence of operations, configuration
     or two cooperating sites — not something that ordinary use or a trivial smoke test would expose at once.  Prefer changes in different
     functions/mechanisms of the anchored code, and of different subtlety.
For each change k = 1..3 write, inside the worktree, the directory %(wt)s/seed_out/k/ containing:
  patch.diff   — `git diff` of the change against the unchanged worktree (only source files under pycoin/, not tests),
  demo.py      — a small standalone program (run with the command line above, cwd = worktree) that exits 0 and prints PASS on the unchanged
                 code and exits 1 printing what went wrong with the change applied — it demonstrates the property violation,
  meta.json    — {"property": "%(id)s", "summary": one sentence, "needs": what specific input/sequence is needed for it to manifest,
                  "files": [...], "ran": the commands you ran and their outcome (suite pass counts with and without the change, demo results)}.
After writing each seed_out/k, RESTORE the worktree source (`git -C %(wt)s checkout -- pycoin`) before starting the next change, and leave the
worktree source unmodified at the end (only seed_out/ added).  Final answer: a short list of the three changes (one line each) and confirmation
that for each: suite unchanged, demo passes without / fails with the change.""" % dict(
    wt=wt, id=pid, title=p["title"], statement=p["statement"], quant=p["quantifier"]["text"], why=p["why_tests_cant"],
    anchors=json.dumps(p["anchors"]["mechanism"])))
