(* Spec/RipemdSpec.v — RIPEMD-160 as published (Dobbertin, Bosselaers, Preneel, "RIPEMD-160: a
   strengthened version of RIPEMD", 1996, pseudo-code of appendix A; ISO/IEC 10118-3).
   Written by hand from the paper, NOT from pycoin: arithmetic on 32-bit words (integers in [0,2^32),
   every sum reduced mod 2^32), rotation defined arithmetically, selection of f/K by the range of the
   step number j, tables r, r', s, s' typed in from the paper and cross-checked below against the
   paper's generating permutations rho and pi.  Validated on the Bosselaers test vectors at the end.
   No proofs about pycoin here. *)
From PV Require Import Base.Bytes.
Local Open Scope Z_scope.

(* ---- 32-bit words --------------------------------------------------------------------------- *)
Definition W : Z := 4294967296.                       (* 2^32 *)
Definition wadd (a b : Z) : Z := (a + b) mod W.       (* addition mod 2^32 *)
Definition wmul (a b : Z) : Z := (a * b) mod W.
Definition wnot (x : Z) : Z := W - 1 - x.             (* bitwise complement of a 32-bit word *)
(* rol_s(x): cyclic left shift of a 32-bit word over s positions, 0 <= s <= 32 *)
Definition rotl (s x : Z) : Z := (x * 2 ^ s) mod W + x / 2 ^ (32 - s).

(* ---- the five boolean functions, selected by the step number -------------------------------- *)
Definition f (j : nat) (x y z : Z) : Z :=
  if (j <? 16)%nat then Z.lxor (Z.lxor x y) z
  else if (j <? 32)%nat then Z.lor (Z.land x y) (Z.land (wnot x) z)
  else if (j <? 48)%nat then Z.lxor (Z.lor x (wnot y)) z
  else if (j <? 64)%nat then Z.lor (Z.land x z) (Z.land y (wnot z))
  else Z.lxor x (Z.lor y (wnot z)).

(* added constants *)
Definition K (j : nat) : Z :=
  if (j <? 16)%nat then 0x00000000
  else if (j <? 32)%nat then 0x5A827999
  else if (j <? 48)%nat then 0x6ED9EBA1
  else if (j <? 64)%nat then 0x8F1BBCDC
  else 0xA953FD4E.
Definition K' (j : nat) : Z :=
  if (j <? 16)%nat then 0x50A28BE6
  else if (j <? 32)%nat then 0x5C4DD124
  else if (j <? 48)%nat then 0x6D703EF3
  else if (j <? 64)%nat then 0x7A6D76E9
  else 0x00000000.

(* selection of message word *)
Definition r : list nat :=
  [ 0; 1; 2; 3; 4; 5; 6; 7; 8; 9; 10; 11; 12; 13; 14; 15;
    7; 4; 13; 1; 10; 6; 15; 3; 12; 0; 9; 5; 2; 14; 11; 8;
    3; 10; 14; 4; 9; 15; 8; 1; 2; 7; 0; 6; 13; 11; 5; 12;
    1; 9; 11; 10; 0; 8; 12; 4; 13; 3; 7; 15; 14; 5; 6; 2;
    4; 0; 5; 9; 7; 12; 2; 10; 14; 1; 3; 8; 11; 6; 15; 13 ]%nat.
Definition r' : list nat :=
  [ 5; 14; 7; 0; 9; 2; 11; 4; 13; 6; 15; 8; 1; 10; 3; 12;
    6; 11; 3; 7; 0; 13; 5; 10; 14; 15; 8; 12; 4; 9; 1; 2;
    15; 5; 1; 3; 7; 14; 6; 9; 11; 8; 12; 2; 10; 0; 4; 13;
    8; 6; 4; 1; 3; 11; 15; 0; 5; 12; 2; 13; 9; 7; 10; 14;
    12; 15; 10; 4; 1; 5; 8; 7; 6; 2; 13; 14; 0; 3; 9; 11 ]%nat.

(* amount for rotate left *)
Definition s : list Z :=
  [ 11; 14; 15; 12; 5; 8; 7; 9; 11; 13; 14; 15; 6; 7; 9; 8;
    7; 6; 8; 13; 11; 9; 7; 15; 7; 12; 15; 9; 11; 7; 13; 12;
    11; 13; 6; 7; 14; 9; 13; 15; 14; 8; 13; 6; 5; 12; 7; 5;
    11; 12; 14; 15; 14; 15; 9; 8; 9; 14; 5; 6; 8; 6; 5; 12;
    9; 15; 5; 11; 6; 8; 13; 12; 5; 12; 13; 14; 11; 8; 5; 6 ].
Definition s' : list Z :=
  [ 8; 9; 9; 11; 13; 15; 15; 5; 7; 7; 8; 11; 14; 14; 12; 6;
    9; 13; 15; 7; 12; 8; 9; 11; 7; 7; 12; 7; 6; 15; 13; 11;
    9; 7; 15; 11; 8; 6; 6; 14; 12; 13; 5; 14; 13; 13; 7; 5;
    15; 5; 8; 11; 14; 14; 6; 14; 6; 9; 12; 9; 12; 5; 15; 8;
    8; 5; 12; 9; 12; 5; 14; 6; 8; 13; 6; 5; 15; 13; 11; 11 ].

(* the paper generates r and r' from two permutations: rho, and pi(i) = 9i+5 mod 16;
   rows of r: id, rho, rho^2, rho^3, rho^4;  rows of r': pi, rho pi, rho^2 pi, rho^3 pi, rho^4 pi *)
Definition rho : list nat := [7; 4; 13; 1; 10; 6; 15; 3; 12; 0; 9; 5; 2; 14; 11; 8]%nat.
Definition ap (p : list nat) (i : nat) : nat := nth i p 0%nat.
Definition pi_ (i : nat) : nat := ((9 * i + 5) mod 16)%nat.
Fixpoint rho_pow (k : nat) (i : nat) : nat := match k with O => i | S k' => ap rho (rho_pow k' i) end.
Example r_from_rho : r = flat_map (fun k => map (rho_pow k) (seq 0 16)) (seq 0 5).
Proof. reflexivity. Qed.
Example r'_from_rho_pi : r' = flat_map (fun k => map (fun i => rho_pow k (pi_ i)) (seq 0 16)) (seq 0 5).
Proof. reflexivity. Qed.

(* initial value *)
Definition IV : Z * Z * Z * Z * Z := (0x67452301, 0xEFCDAB89, 0x98BADCFE, 0x10325476, 0xC3D2E1F0).

(* ---- compression function ------------------------------------------------------------------- *)
Definition state := (Z * Z * Z * Z * Z)%type.

(* one step of one line:
   T := rol_s(A + f(B,C,D) + X[r] + K) + E;  A := E; E := D; D := rol_10(C); C := B; B := T *)
Definition line_step (fj : nat) (rj : nat) (sj : Z) (Kj : Z) (X : list Z) (st : state) : state :=
  let '(A, B, C, D, E) := st in
  let T := wadd (rotl sj (wadd (wadd (wadd A (f fj B C D)) (nth rj X 0)) Kj)) E in
  (E, T, B, rotl 10 C, D).

Definition step (X : list Z) (lr : state * state) (j : nat) : state * state :=
  let (L, R) := lr in
  (line_step j (nth j r 0%nat) (nth j s 0) (K j) X L,
   line_step (79 - j) (nth j r' 0%nat) (nth j s' 0) (K' j) X R).

Definition compress (h : state) (X : list Z) : state :=
  let '(h0, h1, h2, h3, h4) := h in
  let '((A, B, C, D, E), (A', B', C', D', E')) := fold_left (step X) (seq 0 80) (h, h) in
  (wadd (wadd h1 C) D', wadd (wadd h2 D) E', wadd (wadd h3 E) A', wadd (wadd h4 A) B', wadd (wadd h0 B) C').

(* ---- message padding and block decomposition ------------------------------------------------ *)
(* little-endian 32-bit words of a byte string (a trailing group of fewer than 4 bytes is dropped) *)
Fixpoint words (bs : bytes) : list Z :=
  match bs with
  | b0 :: b1 :: b2 :: b3 :: rest =>
      (b2z b0 + 256 * b2z b1 + 65536 * b2z b2 + 16777216 * b2z b3) :: words rest
  | _ => []
  end.

(* number of zero bytes after the 0x80 byte: least k >= 0 with len + 1 + k + 8 = 0 (mod 64) *)
Definition zero_pad (len : nat) : nat := ((64 - (len + 9) mod 64) mod 64)%nat.

(* message ++ 80 ++ 00..00 ++ bit length as 64-bit little-endian (taken mod 2^64) *)
Definition pad (msg : bytes) : bytes :=
  msg ++ [x80] ++ repeat x00 (zero_pad (length msg))
      ++ le_encode 8 ((8 * N.of_nat (length msg)) mod 2 ^ 64)%N.

Fixpoint blocks_of (n : nat) (bs : bytes) : list bytes :=
  match n with
  | O => []
  | S n' => firstn 64 bs :: blocks_of n' (skipn 64 bs)
  end.

Definition word_bytes (w : Z) : bytes := le_encode 4 (Z.to_N w).

Definition ripemd160 (msg : bytes) : bytes :=
  let p := pad msg in
  let '(h0, h1, h2, h3, h4) :=
    fold_left (fun h blk => compress h (words blk)) (blocks_of (length p / 64)%nat p) IV in
  word_bytes h0 ++ word_bytes h1 ++ word_bytes h2 ++ word_bytes h3 ++ word_bytes h4.

(* ---- validation of this specification on the published test vectors ------------------------ *)
(* https://homes.esat.kuleuven.be/~bosselae/ripemd160.html (also embedded in pycoin/contrib/ripemd160.py) *)
Definition ascii (l : list Z) : bytes := map z2b l.
Definition hexbytes (l : list Z) : bytes := map z2b l.

Definition tv_a : bytes := [x61].
Definition tv_abc : bytes := [x61; x62; x63].
Definition tv_md : bytes := ascii [109;101;115;115;97;103;101;32;100;105;103;101;115;116].  (* "message digest" *)
Definition tv_az : bytes := ascii (map (fun i => 97 + Z.of_nat i) (seq 0 26)).            (* a..z *)
(* "abcdbcdecdefdefgefghfghighijhijkijkljklmklmnlmnomnopnopq" *)
Definition tv_56 : bytes := ascii (flat_map (fun i => map (fun k => 97 + Z.of_nat (i + k)) (seq 0 4)) (seq 0 14)).
(* A..Za..z0..9 *)
Definition tv_62 : bytes := ascii (map (fun i => 65 + Z.of_nat i) (seq 0 26) ++ map (fun i => 97 + Z.of_nat i) (seq 0 26)
                                   ++ map (fun i => 48 + Z.of_nat i) (seq 0 10)).
(* 8 times "1234567890" *)
Definition tv_80 : bytes := ascii (flat_map (fun _ => [49;50;51;52;53;54;55;56;57;48]) (seq 0 8)).

Example tv0 : ripemd160 [] = hexbytes
  [0x9c;0x11;0x85;0xa5;0xc5;0xe9;0xfc;0x54;0x61;0x28;0x08;0x97;0x7e;0xe8;0xf5;0x48;0xb2;0x25;0x8d;0x31].
Proof. vm_compute. reflexivity. Qed.
Example tv1 : ripemd160 tv_a = hexbytes
  [0x0b;0xdc;0x9d;0x2d;0x25;0x6b;0x3e;0xe9;0xda;0xae;0x34;0x7b;0xe6;0xf4;0xdc;0x83;0x5a;0x46;0x7f;0xfe].
Proof. vm_compute. reflexivity. Qed.
Example tv2 : ripemd160 tv_abc = hexbytes
  [0x8e;0xb2;0x08;0xf7;0xe0;0x5d;0x98;0x7a;0x9b;0x04;0x4a;0x8e;0x98;0xc6;0xb0;0x87;0xf1;0x5a;0x0b;0xfc].
Proof. vm_compute. reflexivity. Qed.
Example tv3 : ripemd160 tv_md = hexbytes
  [0x5d;0x06;0x89;0xef;0x49;0xd2;0xfa;0xe5;0x72;0xb8;0x81;0xb1;0x23;0xa8;0x5f;0xfa;0x21;0x59;0x5f;0x36].
Proof. vm_compute. reflexivity. Qed.
Example tv4 : ripemd160 tv_az = hexbytes
  [0xf7;0x1c;0x27;0x10;0x9c;0x69;0x2c;0x1b;0x56;0xbb;0xdc;0xeb;0x5b;0x9d;0x28;0x65;0xb3;0x70;0x8d;0xbc].
Proof. vm_compute. reflexivity. Qed.
Example tv5 : ripemd160 tv_56 = hexbytes
  [0x12;0xa0;0x53;0x38;0x4a;0x9c;0x0c;0x88;0xe4;0x05;0xa0;0x6c;0x27;0xdc;0xf4;0x9a;0xda;0x62;0xeb;0x2b].
Proof. vm_compute. reflexivity. Qed.
Example tv6 : ripemd160 tv_62 = hexbytes
  [0xb0;0xe2;0x0b;0x6e;0x31;0x16;0x64;0x02;0x86;0xed;0x3a;0x87;0xa5;0x71;0x30;0x79;0xb2;0x1f;0x51;0x89].
Proof. vm_compute. reflexivity. Qed.
Example tv7 : ripemd160 tv_80 = hexbytes
  [0x9b;0x75;0x2e;0x45;0x57;0x3d;0x4b;0x39;0xf4;0xdb;0xd3;0x32;0x3c;0xab;0x82;0xbf;0x63;0x32;0x6b;0xfb].
Proof. vm_compute. reflexivity. Qed.
(* the padded message is a whole number of blocks, whatever the length (sanity of zero_pad) *)
Example pad_lengths_0_to_200 :
  forallb (fun n => (length (pad (repeat x00 n)) mod 64 =? 0)%nat
                    && (length (pad (repeat x00 n)) - n <=? 72)%nat && (9 <=? length (pad (repeat x00 n)) - n)%nat)
          (seq 0 200) = true.
Proof. vm_compute. reflexivity. Qed.
