(* Spec/EcdsaSpec.v — the textbook ECDSA equations (SEC 1 v2 section 4.1, FIPS 186-4 section 6) over an
   abstract group, and the laws the group operations are assumed to satisfy.  No pycoin code here. *)
From Coq Require Import ZArith List Znumtheory.
Import ListNotations.
Local Open Scope Z_scope.

Section EcdsaSpec.
  Variable pt : Type.
  Variable add : pt -> pt -> pt.
  Variable neg : pt -> pt.
  Variable O : pt.
  Variable smul : Z -> pt -> pt.
  Variable G : pt.
  Variable n : Z.
  Variable coords : pt -> option (Z * Z).
  Variable lift_x : Z -> option (pt * pt).
  Variable x_canon : Z -> Prop.      (* "x is a reduced field element" (0 <= x < p on a concrete curve) *)

  (* (pt, add, neg, O) is an abelian group; smul is its Z-action; every element is killed by n
     (a group of order n); coords gives affine coordinates, None exactly for O;
     negation keeps the abscissa. *)
  Record group_laws : Prop := {
    gl_assoc   : forall P Q R, add P (add Q R) = add (add P Q) R;
    gl_comm    : forall P Q, add P Q = add Q P;
    gl_O_l     : forall P, add O P = P;
    gl_neg_r   : forall P, add P (neg P) = O;
    gl_smul_1  : forall P, smul 1 P = P;
    gl_smul_add: forall a b P, smul (a + b) P = add (smul a P) (smul b P);
    gl_smul_mul: forall a b P, smul (a * b) P = smul a (smul b P);
    gl_order   : forall P, smul n P = O;
    gl_coords_O   : coords O = None;
    gl_coords_None: forall P, coords P = None -> P = O;
    gl_coords_pos : forall P x y, coords P = Some (x, y) -> 0 <= x /\ 0 <= y;
    gl_coords_neg : forall P x y, coords P = Some (x, y) -> exists y', coords (neg P) = Some (x, y')
  }.

  (* lift_x x = the two points of abscissa x, the one with even ordinate first (points_for_x).
     pycoin computes with x modulo p, so for an x that is not a reduced field element the points
     returned have abscissa x mod p, not x: soundness is only claimed for canonical x. *)
  Record lift_laws : Prop := {
    ll_sound    : forall x P0 P1, lift_x x = Some (P0, P1) -> x_canon x ->
                  (exists y0, coords P0 = Some (x, y0) /\ Z.odd y0 = false) /\
                  (exists y1, coords P1 = Some (x, y1) /\ Z.odd y1 = true);
    ll_range    : forall P x y, coords P = Some (x, y) -> x_canon x;
    ll_complete : forall P x y, coords P = Some (x, y) ->
                  exists P0 P1, lift_x x = Some (P0, P1) /\ P = (if Z.odd y then P1 else P0)
  }.

  (* w is an inverse of s modulo n *)
  Definition inv_mod_n (s w : Z) : Prop := (s * w) mod n = 1.

  (* (r, s) is a valid ECDSA signature of the hash value z under public key Q *)
  Definition ecdsa_valid (Q : pt) (z r s : Z) : Prop :=
    1 <= r < n /\ 1 <= s < n /\
    exists w x y, inv_mod_n s w /\
      coords (add (smul (z * w) G) (smul (r * w) Q)) = Some (x, y) /\ x mod n = r.

  (* (r, s) is the ECDSA signature of z under private key d made with nonce k *)
  Definition ecdsa_sig_with_nonce (d z k r s : Z) : Prop :=
    exists x y, coords (smul k G) = Some (x, y) /\ r = x mod n /\ r <> 0 /\
                0 <= s < n /\ s <> 0 /\ (s * k) mod n = (z + r * d) mod n.
End EcdsaSpec.
