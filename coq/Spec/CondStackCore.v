(* Spec/CondStackCore.v — Bitcoin Core's vfExec (vector<bool>), top of the stack = head of the list. *)
From Coq Require Import List Arith Bool.
From PV Require Import Model.CondStack.
Import ListNotations.

Definition vf_all_true (vf : list bool) : bool := forallb (fun x => x) vf.

(* OP_IF/OP_NOTIF: fValue = false; if (fExec) fValue = cond; vfExec.push_back(fValue)
   OP_ELSE: if empty -> error; vfExec.back() = !vfExec.back()
   OP_ENDIF: if empty -> error; vfExec.pop_back() *)
Definition vf_step (vf : list bool) (o : cop) : option (list bool) :=
  match o with
  | CIf b => Some ((if vf_all_true vf then b else false) :: vf)
  | CElse => match vf with [] => None | x :: r => Some (negb x :: r) end
  | CEndif => match vf with [] => None | _ :: r => Some r end
  end.

Definition vf_final_ok (vf : list bool) : bool := match vf with [] => true | _ => false end.

Fixpoint vf_run (vf : list bool) (ops : list cop) : option (list bool) :=
  match ops with
  | [] => Some vf
  | o :: r => match vf_step vf o with Some vf' => vf_run vf' r | None => None end
  end.
