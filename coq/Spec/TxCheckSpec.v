(* Spec/TxCheckSpec.v — the defects that the context-free transaction check must reject, written from the
   property text (Bitcoin Core's CheckTransaction), independently of pycoin's code: declarative (Prop-level)
   definitions over positions, sums of prefixes and the null outpoint.  Record types from Model/TxWire.v. *)
From PV Require Import Base.Bytes Model.TxWire.
Local Open Scope Z_scope.

Definition outpoint (i : txin) : bytes * Z := (ti_hash i, ti_index i).
(* the null outpoint: 32 zero bytes and index 0xffffffff *)
Definition null_outpoint (i : txin) : Prop := ti_hash i = repeat x00 32 /\ ti_index i = 4294967295.
(* a coinbase transaction: exactly one input, spending the null outpoint *)
Definition coinbase_tx (t : tx) : Prop := exists i, tx_ins t = [i] /\ null_outpoint i.

Definition total (outs : list txout) : Z := fold_right (fun o acc => to_value o + acc) 0 outs.

Section Defects.
Variable max_money : Z.

Definition no_inputs (t : tx) : Prop := tx_ins t = [].
Definition no_outputs (t : tx) : Prop := tx_outs t = [].
(* an output value outside 0..MAX_MONEY *)
Definition bad_value (t : tx) : Prop := exists o, In o (tx_outs t) /\ ~ (0 <= to_value o <= max_money).
(* a running total (sum of the first k outputs) above MAX_MONEY *)
Definition bad_running_total (t : tx) : Prop :=
  exists k, (k <= length (tx_outs t))%nat /\ total (firstn k (tx_outs t)) > max_money.
(* two inputs, at any two positions, spending the same outpoint *)
Definition duplicate_outpoint (t : tx) : Prop :=
  exists j k a b, (j < k)%nat /\ nth_error (tx_ins t) j = Some a /\ nth_error (tx_ins t) k = Some b
                  /\ outpoint a = outpoint b.
(* a coinbase whose script is shorter than 2 or longer than 100 bytes *)
Definition bad_coinbase_script (t : tx) : Prop :=
  exists i, tx_ins t = [i] /\ null_outpoint i /\ ~ (2 <= Z.of_nat (length (ti_script i)) <= 100).
(* a null outpoint in a non-coinbase transaction *)
Definition null_prevout (t : tx) : Prop := ~ coinbase_tx t /\ exists i, In i (tx_ins t) /\ null_outpoint i.

Definition defect (t : tx) : Prop :=
  no_inputs t \/ no_outputs t \/ bad_value t \/ bad_running_total t \/ duplicate_outpoint t
  \/ bad_coinbase_script t \/ null_prevout t.
End Defects.

(* the identity tags handed to the model are those of actual objects: same tag, same field values *)
Definition ids_consistent (ids : list N) (t : tx) : Prop :=
  length ids = length (tx_ins t) /\
  forall j k x, nth_error ids j = Some x -> nth_error ids k = Some x -> nth_error (tx_ins t) j = nth_error (tx_ins t) k.
