(* Spec/PartialMerkle.v — BIP37's partial merkle tree BUILDER (CPartialMerkleTree::TraverseAndBuild and the
   bit packing of its serialisation), written over sub-lists instead of (height, pos) coordinates.
   pycoin has only the verifier; this is the independent "honest prover" the C14 theorems quantify over. *)
From PV Require Import Base.Bytes Spec.MerkleSpec.

Definition any (m : list bool) : bool := existsb (fun b => b) m.

(* the transaction ids selected by the match flags, in block order *)
Definition matched (l : list bytes) (m : list bool) : list bytes := map fst (filter snd (combine l m)).

Section Build.
Variable H : bytes -> bytes.

(* TraverseAndBuild(height, pos): push the bit "this subtree contains a match"; at a leaf or below a 0 bit push
   the node hash, otherwise descend left and (if it exists) right.  l, m: the leaves / match flags below the node. *)
Fixpoint build_bits (h : nat) (l : list bytes) (m : list bool) : list bool :=
  match h with
  | O => [any m]
  | S h' =>
    if any m then
      true :: build_bits h' (firstn (2 ^ h') l) (firstn (2 ^ h') m) ++
      match skipn (2 ^ h') l with
      | [] => []
      | r => build_bits h' r (skipn (2 ^ h') m)
      end
    else [false]
  end.

Fixpoint build_hashes (h : nat) (l : list bytes) (m : list bool) : list bytes :=
  match h with
  | O => [sub H 0 l]
  | S h' =>
    if any m then
      build_hashes h' (firstn (2 ^ h') l) (firstn (2 ^ h') m) ++
      match skipn (2 ^ h') l with
      | [] => []
      | r => build_hashes h' r (skipn (2 ^ h') m)
      end
    else [sub H (S h') l]
  end.

(* serialisation of vBits: bit p goes to byte p/8, position p%8 (least significant first), (n+7)/8 bytes *)
Fixpoint bits_value (bs : list bool) : N :=
  match bs with
  | [] => 0
  | b :: r => 2 * bits_value r + N.b2n b
  end%N.
Definition pack_bits (bits : list bool) : bytes :=
  map (fun k => n2b (bits_value (firstn 8 (skipn (8 * k) bits)))) (seq 0 ((length bits + 7) / 8)).

(* a collision between two sibling nodes that the verifier actually computes (both below a 1 bit) *)
Fixpoint trav_collision (h : nat) (l : list bytes) (m : list bool) : bool :=
  match h with
  | O => false
  | S h' =>
    any m &&
    (trav_collision h' (firstn (2 ^ h') l) (firstn (2 ^ h') m) ||
     match skipn (2 ^ h') l with
     | [] => false
     | r => trav_collision h' r (skipn (2 ^ h') m) || bytes_eqb (sub H h' (firstn (2 ^ h') l)) (sub H h' r)
     end)
  end.

(* the BIP37 proof for a block with transaction ids `txids` and match flags `matches`:
   (total_transactions, hashes, flag bytes) *)
Definition partial_merkle_tree (txids : list bytes) (matches : list bool) : N * list bytes * bytes :=
  let h := Nat.log2_up (length txids) in
  (N.of_nat (length txids), build_hashes h txids matches, pack_bits (build_bits h txids matches)).

Definition hash_collision : Prop := exists x y : bytes, x <> y /\ H x = H y.
End Build.
