(* Spec/MerkleSpec.v — the Bitcoin merkle root written as a recursive tree (BIP37's CalcHash(height, pos)),
   structurally different from pycoin's level-by-level loop.  No reference to the model. *)
From PV Require Import Base.Bytes.

Section Spec.
Variable H : bytes -> bytes.

(* one level: hash pairs, pairing the last element with itself when it is alone *)
Fixpoint level (l : list bytes) : list bytes :=
  match l with
  | [] => []
  | [x] => [H (x ++ x)]
  | x :: y :: t => H (x ++ y) :: level t
  end.

(* hash of the node of height h whose leaves are l (0 < |l| <= 2^h):
   a leaf is its own hash; an inner node hashes left ++ right, where the right child is the left one
   again when there are no leaves for it *)
Fixpoint sub (h : nat) (l : list bytes) : bytes :=
  match h with
  | O => hd [] l
  | S h' =>
    let L := sub h' (firstn (2 ^ h') l) in
    let R := match skipn (2 ^ h') l with [] => L | r => sub h' r end in
    H (L ++ R)
  end.

(* h is the height of the tree over n leaves: the least h with n <= 2^h *)
Definition tree_height (h n : nat) : Prop := n <= 2 ^ h /\ (h = 0 \/ 2 ^ (h - 1) < n).

Definition merkle_root (l : list bytes) : bytes := sub (Nat.log2_up (length l)) l.

(* two sibling nodes with equal hashes somewhere in the tree of height h over l *)
Fixpoint sibling_collision (h : nat) (l : list bytes) : Prop :=
  match h with
  | O => False
  | S h' =>
    sibling_collision h' (firstn (2 ^ h') l) \/
    match skipn (2 ^ h') l with
    | [] => False
    | r => sibling_collision h' r \/ sub h' (firstn (2 ^ h') l) = sub h' r
    end
  end.
End Spec.
