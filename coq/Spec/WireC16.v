(* Spec/WireC16.v — property C16: what "the Bitcoin wire encoding of a field" and "a value of the declared type"
   mean, written independently of the code paths of Model/Streamer.v:
     - integers by explicit byte extraction  byte k of n = (n / 256^k) mod 256  (not the recursive le_encode),
     - compact sizes by their four ranges,
     - per format character: the declared type (`wt`) and the wire bytes (`wire`),
     - `protocol_layouts`: the field types of every peer-to-peer message, HAND-WRITTEN from the protocol
       documentation (version/addr/inv/.../BIP 37 filter*/merkleblock, BIP 130, BIP 133, BIP 152 messages)
       in pycoin's field order.  The regenerated layout table is compared with it in Props/C16.v.
   No code of the implementation is transcribed here. *)
From PV Require Import Base.Bytes Base.Outcome Base.Varint Gen.GenMessages Model.Streamer.
Local Open Scope N_scope.

(* ---- numbers on the wire ---------------------------------------------------------------------------- *)
Definition byte_at (n : N) (k : nat) : byte := n2b (n / 256 ^ N.of_nat k).
Definition le_bytes (w : nat) (n : N) : bytes := map (byte_at n) (seq 0 w).
Definition be_bytes (w : nat) (n : N) : bytes := map (fun k => byte_at n (w - 1 - k)) (seq 0 w).
Definition compact_size (n : N) : bytes :=
  if n <? 253 then [n2b n]
  else if n <? 2 ^ 16 then xfd :: le_bytes 2 n
  else if n <? 2 ^ 32 then xfe :: le_bytes 4 n
  else xff :: le_bytes 8 n.
Definition bool_byte (b : bool) : byte := if b then x01 else x00.

(* a field type: one format character, or an array of tuples of format characters *)
Inductive ftype := FOne (k : codec) | FArr (ks : list codec).
Definition chars_of_ftype (ft : ftype) : bytes :=
  match ft with
  | FOne k => [char_of k]
  | FArr ks => lbracket :: map char_of ks ++ [rbracket]
  end.

Section Wire.
Variables TxV BlockV HdrV : Type.
Variable stream_T : TxV -> bytes.
Variable stream_B : BlockV -> bytes.
Variable stream_z : HdrV -> bytes.
Notation pyv := (pyval TxV BlockV HdrV).

Definition zrange (z : Z) (bits : N) : Prop := (0 <= z < 2 ^ Z.of_N bits)%Z.

(* the declared type of each format character: which Python values, in which range *)
Definition wt (k : codec) (v : pyv) : Prop :=
  match k, v with
  | CI, VInt z => zrange z 64                                     (* compact size *)
  | CS, VBytes b => N.of_nat (length b) < 2 ^ 63                  (* byte string *)
  | Ch, VInt z => zrange z 16                                     (* network-order port *)
  | CL, VInt z => zrange z 32
  | CQ, VInt z => zrange z 64
  | CHash, VBytes b => length b = 32%nat                          (* 32-byte hash *)
  | CAt, VBytes b => length b = 16%nat                            (* 16-byte address *)
  | Cb, VBool _ => True
  | CA, VAddr s ip p => zrange s 64 /\ length ip = 16%nat /\ zrange p 16
  | Cv, VInv t d => zrange t 32 /\ length d = 32%nat
  | CT, VTx _ => True
  | CB, VBlock _ => True
  | Cz, VHdr _ => True
  | C1, VInt z => zrange z 8
  | C6, VInt z => zrange z 48                                     (* 6-byte short id *)
  | CO, VNone => True                                             (* optional boolean: absent *)
  | CO, VBool _ => True
  | _, _ => False
  end.

Definition wire (k : codec) (v : pyv) : bytes :=
  match k, v with
  | CI, VInt z => compact_size (Z.to_N z)
  | CS, VBytes b => compact_size (N.of_nat (length b)) ++ b
  | Ch, VInt z => be_bytes 2 (Z.to_N z)
  | CL, VInt z => le_bytes 4 (Z.to_N z)
  | CQ, VInt z => le_bytes 8 (Z.to_N z)
  | CHash, VBytes b => b
  | CAt, VBytes b => b
  | Cb, VBool b => [bool_byte b]
  | CA, VAddr s ip p => le_bytes 8 (Z.to_N s) ++ ip ++ be_bytes 2 (Z.to_N p)
  | Cv, VInv t d => le_bytes 4 (Z.to_N t) ++ d
  | CT, VTx t => stream_T t
  | CB, VBlock b => stream_B b
  | Cz, VHdr h => stream_z h
  | C1, VInt z => le_bytes 1 (Z.to_N z)
  | C6, VInt z => le_bytes 6 (Z.to_N z)
  | CO, VBool b => [bool_byte b]
  | _, _ => []
  end.

(* a tuple of fields *)
Fixpoint wire_tuple (ks : list codec) (vs : list pyv) : bytes :=
  match ks, vs with
  | k :: ks', v :: vs' => wire k v ++ wire_tuple ks' vs'
  | _, _ => []
  end.

(* array elements: a bare value when the element has one field, else a tuple *)
Definition wt_elem (ks : list codec) (e : pyv) : Prop :=
  match ks with
  | [k] => wt k e
  | _ => match e with VTuple vs => Forall2 wt ks vs | _ => False end
  end.
Definition wire_elem (ks : list codec) (e : pyv) : bytes :=
  match ks with
  | [k] => wire k e
  | _ => match e with VTuple vs => wire_tuple ks vs | _ => [] end
  end.

Definition wt_field (ft : ftype) (v : pyv) : Prop :=
  match ft with
  | FOne k => wt k v
  | FArr ks => match v with
               | VTuple es => N.of_nat (length es) < 2 ^ 64 /\ Forall (wt_elem ks) es
               | _ => False
               end
  end.
Definition wire_field (ft : ftype) (v : pyv) : bytes :=
  match ft with
  | FOne k => wire k v
  | FArr ks => match v with
               | VTuple es => compact_size (N.of_nat (length es)) ++ concat (map (wire_elem ks) es)
               | _ => []
               end
  end.

Fixpoint wire_message (fts : list ftype) (vals : list pyv) : bytes :=
  match fts, vals with
  | ft :: fts', v :: vals' => wire_field ft v ++ wire_message fts' vals'
  | _, _ => []
  end.
End Wire.

(* ---- reading a layout text as field types (checked, not trusted: the text must print back) ------------- *)
Fixpoint codecs_of_text (l : bytes) : option (list codec) :=
  match l with
  | [] => Some []
  | c :: r => match codec_of_char c, codecs_of_text r with
              | Some k, Some ks => Some (k :: ks)
              | _, _ => None
              end
  end.
Definition ftype_guess (ty : bytes) : option ftype :=
  match ty with
  | [] => None
  | [c] => option_map FOne (codec_of_char c)
  | c :: rest => if byte_eqb c lbracket then option_map FArr (codecs_of_text (removelast rest)) else None
  end.
Definition ftype_of_text (ty : bytes) : option ftype :=
  match ftype_guess ty with
  | Some ft => if bytes_eqb ty (chars_of_ftype ft) then Some ft else None
  | None => None
  end.
Fixpoint layout_ftypes (layout : list (bytes * bytes)) : option (list ftype) :=
  match layout with
  | [] => Some []
  | (_, ty) :: r => match ftype_of_text ty, layout_ftypes r with
                    | Some ft, Some fts => Some (ft :: fts)
                    | _, _ => None
                    end
  end.

Definition codec_eqb (a b : codec) : bool := byte_eqb (char_of a) (char_of b).
Definition is_opt (ft : ftype) : bool := match ft with FOne CO => true | _ => false end.
Definition arr_no_opt (ft : ftype) : bool :=
  match ft with FOne _ => true | FArr ks => negb (existsb (codec_eqb CO) ks) end.
(* the optional boolean may only be the last field of a message (an absent value has no bytes) *)
Fixpoint opt_only_last (fts : list ftype) : bool :=
  match fts with
  | [] => true
  | [_] => true
  | ft :: r => negb (is_opt ft) && opt_only_last r
  end.
Fixpoint nodupb (l : list bytes) : bool :=
  match l with
  | [] => true
  | x :: r => negb (existsb (bytes_eqb x) r) && nodupb r
  end.
(* names a post_unpack adds to the parsed dict *)
Definition reserved_names : list bytes := [str "alert_info"; str "tx_hashes"].
Definition layout_ok (layout : list (bytes * bytes)) : bool :=
  match layout_ftypes layout with
  | Some fts => nodupb (map fst layout ++ reserved_names) && opt_only_last fts && forallb arr_no_opt fts
  | None => false
  end.
Definition table_ok (msgs : list (bytes * list (bytes * bytes))) : bool :=
  nodupb (map fst msgs) && forallb (fun m => layout_ok (snd m)) msgs.

(* ---- the protocol's message layouts (hand-written; see the header comment) ------------------------------- *)
Definition protocol_layouts : list (bytes * list ftype) :=
  [ (str "version", [FOne CL; FOne CQ; FOne CQ; FOne CA; FOne CA; FOne CQ; FOne CS; FOne CL; FOne CO]);
    (str "verack", []);
    (str "addr", [FArr [CL; CA]]);
    (str "inv", [FArr [Cv]]);
    (str "getdata", [FArr [Cv]]);
    (str "notfound", [FArr [Cv]]);
    (str "reject", [FOne CS; FOne C1; FOne CS; FOne CHash]);
    (str "getblocks", [FOne CL; FArr [CHash]; FOne CHash]);
    (str "getheaders", [FOne CL; FArr [CHash]; FOne CHash]);
    (str "sendheaders", []);
    (str "tx", [FOne CT]);
    (str "block", [FOne CB]);
    (str "headers", [FArr [Cz; CI]]);
    (str "getaddr", []);
    (str "mempool", []);
    (str "feefilter", [FOne CQ]);
    (str "sendcmpct", [FOne Cb; FOne CQ]);
    (* pycoin declares a 32-byte header hash here; BIP 152 sends the 80-byte header — recorded as a deviation
       of the layout in harness/meta/C16.json, the table below pins pycoin's declaration *)
    (str "cmpctblock", [FOne CHash; FOne CQ; FArr [C6]; FArr [CI; CT]]);
    (str "getblocktxn", [FOne CHash; FArr [CI]]);
    (str "blocktxn", [FOne CHash; FArr [CT]]);
    (str "sendaddrv2", []);
    (str "ping", [FOne CQ]);
    (str "pong", [FOne CQ]);
    (str "filterload", [FArr [C1]; FOne CL; FOne CL; FOne Cb]);
    (str "filteradd", [FArr [C1]]);
    (str "filterclear", []);
    (str "merkleblock", [FOne Cz; FOne CL; FArr [CHash]; FArr [C1]]);
    (str "alert", [FOne CS; FOne CS]) ].

Definition ftype_eqb (a b : ftype) : bool := bytes_eqb (chars_of_ftype a) (chars_of_ftype b).
Fixpoint ftypes_eqb (a b : list ftype) : bool :=
  match a, b with
  | [], [] => true
  | x :: a', y :: b' => ftype_eqb x y && ftypes_eqb a' b'
  | _, _ => false
  end.
(* same message names in the same order, same field types *)
Fixpoint layouts_match (msgs : list (bytes * list (bytes * bytes))) (spec : list (bytes * list ftype)) : bool :=
  match msgs, spec with
  | [], [] => true
  | (n, layout) :: msgs', (n', fts') :: spec' =>
    bytes_eqb n n' &&
    match layout_ftypes layout with Some fts => ftypes_eqb fts fts' | None => false end &&
    layouts_match msgs' spec'
  | _, _ => false
  end.

Arguments wt {TxV BlockV HdrV} k v.
Arguments wt_elem {TxV BlockV HdrV} ks e.
Arguments wt_field {TxV BlockV HdrV} ft v.
Arguments wire {TxV BlockV HdrV} stream_T stream_B stream_z k v.
Arguments wire_tuple {TxV BlockV HdrV} stream_T stream_B stream_z ks vs.
Arguments wire_elem {TxV BlockV HdrV} stream_T stream_B stream_z ks e.
Arguments wire_field {TxV BlockV HdrV} stream_T stream_B stream_z ft v.
Arguments wire_message {TxV BlockV HdrV} stream_T stream_B stream_z fts vals.
