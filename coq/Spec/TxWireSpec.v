(* Spec/TxWireSpec.v — the Bitcoin transaction wire format (legacy, and BIP144 extended), written from the
   protocol description and NOT from pycoin: nested `concat (map ..)` over the data, a positional definition
   of little-endian integers, CompactSize by thresholds.  Only the record types come from Model/TxWire.v; the strict decoder at the end
   uses the byte-stream primitives of Base/Varint.v (read, parse_varint, varint_canonical).

     legacy   : version(4 LE) | vec<txin> | vec<txout> | locktime(4 LE)
     extended : version(4 LE) | 00 | 01 | vec<txin> | vec<txout> | witness stack of every input | locktime(4 LE)
     txin     : outpoint hash(32) | outpoint index(4 LE) | script | sequence(4 LE)
     txout    : value(8 LE) | script
     vec<T>   : CompactSize(count) | T...          script / witness item : CompactSize(len) | bytes
   BIP144: the extended form is used iff at least one input has a non-empty witness stack;
   txid = H(legacy form), wtxid = H(wire form). *)
From PV Require Import Base.Bytes Base.Outcome Base.Varint Model.TxWire.
Local Open Scope Z_scope.

(* k-th byte (little-endian position) of a non-negative integer *)
Definition byte_at (z : Z) (k : nat) : byte := n2b (Z.to_N ((z / 256 ^ Z.of_nat k) mod 256)).
Definition le_bytes (w : nat) (z : Z) : bytes := map (byte_at z) (seq 0 w).

Definition compact_size (n : Z) : bytes :=
  if n <? 253 then [byte_at n 0]
  else if n <=? 65535 then xfd :: le_bytes 2 n
  else if n <=? 4294967295 then xfe :: le_bytes 4 n
  else xff :: le_bytes 8 n.

Definition zlen {A} (l : list A) : Z := Z.of_nat (length l).
Definition ser_vec {A} (f : A -> bytes) (l : list A) : bytes := compact_size (zlen l) ++ concat (map f l).
Definition ser_bytes (s : bytes) : bytes := compact_size (zlen s) ++ s.

Definition ser_txin (i : txin) : bytes :=
  ti_hash i ++ le_bytes 4 (ti_index i) ++ ser_bytes (ti_script i) ++ le_bytes 4 (ti_sequence i).
Definition ser_txout (o : txout) : bytes := le_bytes 8 (to_value o) ++ ser_bytes (to_script o).
Definition ser_witness (i : txin) : bytes := ser_vec ser_bytes (ti_witness i).

Definition ser_legacy (t : tx) : bytes :=
  le_bytes 4 (tx_version t) ++ ser_vec ser_txin (tx_ins t) ++ ser_vec ser_txout (tx_outs t)
  ++ le_bytes 4 (tx_lock_time t).
Definition ser_extended (t : tx) : bytes :=
  le_bytes 4 (tx_version t) ++ [x00; x01] ++ ser_vec ser_txin (tx_ins t) ++ ser_vec ser_txout (tx_outs t)
  ++ concat (map ser_witness (tx_ins t)) ++ le_bytes 4 (tx_lock_time t).

Definition has_witness (t : tx) : Prop := exists i, In i (tx_ins t) /\ ti_witness i <> [].

(* b is THE wire serialisation of t *)
Definition wire_format (t : tx) (b : bytes) : Prop :=
  (has_witness t /\ b = ser_extended t) \/ (~ has_witness t /\ b = ser_legacy t).

(* ---- field ranges ------------------------------------------------------------------------------- *)
Definition u32 (z : Z) : Prop := 0 <= z < 2 ^ 32.
Definition u64 (z : Z) : Prop := 0 <= z < 2 ^ 64.
Definition len64 {A} (l : list A) : Prop := zlen l < 2 ^ 64.     (* element counts; always true of a real list *)
(* byte strings: CPython's f.read(n) raises OverflowError for n >= 2^63, so a declared length of 2^63 or more
   never parses; also always true of a real bytes object *)
Definition len63 (l : bytes) : Prop := zlen l < 2 ^ 63.

Definition txin_wf (i : txin) : Prop :=
  length (ti_hash i) = 32%nat /\ u32 (ti_index i) /\ u32 (ti_sequence i) /\ len63 (ti_script i)
  /\ len64 (ti_witness i) /\ Forall len63 (ti_witness i).
Definition txout_wf (o : txout) : Prop := u64 (to_value o) /\ len63 (to_script o).
Definition tx_wf (t : tx) : Prop :=
  u32 (tx_version t) /\ u32 (tx_lock_time t) /\ Forall txin_wf (tx_ins t) /\ Forall txout_wf (tx_outs t)
  /\ len64 (tx_ins t) /\ len64 (tx_outs t).

(* the witness-stripped transaction *)
Definition clear_witness (i : txin) : txin :=
  mk_txin (ti_hash i) (ti_index i) (ti_script i) (ti_sequence i) [].
Definition strip_witnesses (t : tx) : tx :=
  mk_tx (tx_version t) (map clear_witness (tx_ins t)) (tx_outs t) (tx_lock_time t).

(* the pycoin-specific extension: one txout per input appended after the transaction *)
Definition ser_unspents (us : list txout) : bytes := concat (map ser_txout us).

(* binary spendable record: txout | tx hash(32) | index(4 LE) | CompactSize | bool byte | CompactSize *)
Definition spendable_wf (sp : spendable) : Prop :=
  u64 (sp_value sp) /\ len63 (sp_script sp) /\ length (sp_tx_hash sp) = 32%nat /\ u32 (sp_index sp)
  /\ u64 (sp_block_index_available sp) /\ (sp_does_seem_spent sp = 0 \/ sp_does_seem_spent sp = 1)
  /\ u64 (sp_block_index_spent sp).
Definition ser_spendable (sp : spendable) : bytes :=
  le_bytes 8 (sp_value sp) ++ ser_bytes (sp_script sp) ++ sp_tx_hash sp ++ le_bytes 4 (sp_index sp)
  ++ compact_size (sp_block_index_available sp) ++ [if sp_does_seem_spent sp =? 0 then x00 else x01]
  ++ compact_size (sp_block_index_spent sp).

(* ---- a strict (canonical-form) decoder of the wire format, written from BIP144 and independent of pycoin's
   parser: minimal CompactSizes only, every declared byte present, marker 00 must be followed by flag 01,
   the extended form must carry at least one non-empty witness stack.  Used to state stream-after-parse
   for an intrinsic notion of "canonical bytes". *)
Definition obind {A B} (m : option A) (f : A -> option B) : option B :=
  match m with Some a => f a | None => None end.

Definition d_fixed (w : nat) (s : bytes) : option (bytes * bytes) :=
  if (w <=? length s)%nat then Some (firstn w s, skipn w s) else None.
Definition d_uint (w : nat) (s : bytes) : option (Z * bytes) :=
  obind (d_fixed w s) (fun '(h, r) => Some (Z.of_N (le_decode h), r)).
Definition d_compact (s : bytes) : option (N * bytes) :=
  if varint_canonical s then match parse_varint s with Ret x => Some x | _ => None end else None.
Definition d_bytes (s : bytes) : option (bytes * bytes) :=
  obind (d_compact s) (fun '(n, r) =>
    if ((n <=? N.of_nat (length r)) && (n <? 2 ^ 63))%N
    then Some (firstn (N.to_nat n) r, skipn (N.to_nat n) r) else None).
Fixpoint d_seq {A} (d : bytes -> option (A * bytes)) (n : nat) (s : bytes) : option (list A * bytes) :=
  match n with
  | O => Some ([], s)
  | S k => obind (d s) (fun '(x, r) => obind (d_seq d k r) (fun '(xs, r') => Some (x :: xs, r')))
  end.
(* a vector never has more elements than there are bytes left (every element takes at least one) *)
Definition d_vec {A} (d : bytes -> option (A * bytes)) (s : bytes) : option (list A * bytes) :=
  obind (d_compact s) (fun '(n, r) => if (n <=? N.of_nat (length r))%N then d_seq d (N.to_nat n) r else None).

Definition d_txin (s : bytes) : option (txin * bytes) :=
  obind (d_fixed 32 s) (fun '(h, r1) => obind (d_uint 4 r1) (fun '(i, r2) => obind (d_bytes r2) (fun '(sc, r3) =>
  obind (d_uint 4 r3) (fun '(q, r4) => Some (mk_txin h i sc q [], r4))))).
Definition d_txout (s : bytes) : option (txout * bytes) :=
  obind (d_uint 8 s) (fun '(v, r1) => obind (d_bytes r1) (fun '(sc, r2) => Some (mk_txout v sc, r2))).
Fixpoint d_witnesses (ins : list txin) (s : bytes) : option (list txin * bytes) :=
  match ins with
  | [] => Some ([], s)
  | i :: rest =>
    obind (d_vec d_bytes s) (fun '(w, r) => obind (d_witnesses rest r) (fun '(is', r') =>
      Some (mk_txin (ti_hash i) (ti_index i) (ti_script i) (ti_sequence i) w :: is', r')))
  end.
Definition some_witness (ins : list txin) : bool :=
  existsb (fun i => match ti_witness i with [] => false | _ => true end) ins.

Definition decode_strict (b : bytes) : option (tx * bytes) :=
  obind (d_uint 4 b) (fun '(ver, r) =>
    match r with
    | [] => None
    | b0 :: r0 =>
      if (b2n b0 =? 0)%N then
        match r0 with
        | [] => None
        | b1 :: r1 =>
          if (b2n b1 =? 1)%N then
            obind (d_vec d_txin r1) (fun '(ins, r2) => obind (d_vec d_txout r2) (fun '(outs, r3) =>
            obind (d_witnesses ins r3) (fun '(ins', r4) => obind (d_uint 4 r4) (fun '(lock, r5) =>
            if some_witness ins' then Some (mk_tx ver ins' outs lock, r5) else None))))
          else None
        end
      else
        obind (d_vec d_txin r) (fun '(ins, r2) => obind (d_vec d_txout r2) (fun '(outs, r3) =>
        obind (d_uint 4 r3) (fun '(lock, r4) => Some (mk_tx ver ins outs lock, r4))))
    end).
