(* Spec/TxWireSpec.v — the Bitcoin transaction wire format (legacy, and BIP144 extended), written from the
   protocol description and NOT from pycoin: nested `concat (map ..)` over the data, a positional definition
   of little-endian integers, CompactSize by thresholds.  Only the record types come from Model/TxWire.v.

     legacy   : version(4 LE) | vec<txin> | vec<txout> | locktime(4 LE)
     extended : version(4 LE) | 00 | 01 | vec<txin> | vec<txout> | witness stack of every input | locktime(4 LE)
     txin     : outpoint hash(32) | outpoint index(4 LE) | script | sequence(4 LE)
     txout    : value(8 LE) | script
     vec<T>   : CompactSize(count) | T...          script / witness item : CompactSize(len) | bytes
   BIP144: the extended form is used iff at least one input has a non-empty witness stack;
   txid = H(legacy form), wtxid = H(wire form). *)
From PV Require Import Base.Bytes Model.TxWire.
Local Open Scope Z_scope.

(* k-th byte (little-endian position) of a non-negative integer *)
Definition byte_at (z : Z) (k : nat) : byte := n2b (Z.to_N ((z / 256 ^ Z.of_nat k) mod 256)).
Definition le_bytes (w : nat) (z : Z) : bytes := map (byte_at z) (seq 0 w).

Definition compact_size (n : Z) : bytes :=
  if n <? 253 then [byte_at n 0]
  else if n <=? 65535 then xfd :: le_bytes 2 n
  else if n <=? 4294967295 then xfe :: le_bytes 4 n
  else xff :: le_bytes 8 n.

Definition zlen {A} (l : list A) : Z := Z.of_nat (length l).
Definition ser_vec {A} (f : A -> bytes) (l : list A) : bytes := compact_size (zlen l) ++ concat (map f l).
Definition ser_bytes (s : bytes) : bytes := compact_size (zlen s) ++ s.

Definition ser_txin (i : txin) : bytes :=
  ti_hash i ++ le_bytes 4 (ti_index i) ++ ser_bytes (ti_script i) ++ le_bytes 4 (ti_sequence i).
Definition ser_txout (o : txout) : bytes := le_bytes 8 (to_value o) ++ ser_bytes (to_script o).
Definition ser_witness (i : txin) : bytes := ser_vec ser_bytes (ti_witness i).

Definition ser_legacy (t : tx) : bytes :=
  le_bytes 4 (tx_version t) ++ ser_vec ser_txin (tx_ins t) ++ ser_vec ser_txout (tx_outs t)
  ++ le_bytes 4 (tx_lock_time t).
Definition ser_extended (t : tx) : bytes :=
  le_bytes 4 (tx_version t) ++ [x00; x01] ++ ser_vec ser_txin (tx_ins t) ++ ser_vec ser_txout (tx_outs t)
  ++ concat (map ser_witness (tx_ins t)) ++ le_bytes 4 (tx_lock_time t).

Definition has_witness (t : tx) : Prop := exists i, In i (tx_ins t) /\ ti_witness i <> [].

(* b is THE wire serialisation of t *)
Definition wire_format (t : tx) (b : bytes) : Prop :=
  (has_witness t /\ b = ser_extended t) \/ (~ has_witness t /\ b = ser_legacy t).

(* ---- field ranges ------------------------------------------------------------------------------- *)
Definition u32 (z : Z) : Prop := 0 <= z < 2 ^ 32.
Definition u64 (z : Z) : Prop := 0 <= z < 2 ^ 64.
Definition len64 {A} (l : list A) : Prop := zlen l < 2 ^ 64.     (* element counts; always true of a real list *)
(* byte strings: CPython's f.read(n) raises OverflowError for n >= 2^63, so a declared length of 2^63 or more
   never parses; also always true of a real bytes object *)
Definition len63 (l : bytes) : Prop := zlen l < 2 ^ 63.

Definition txin_wf (i : txin) : Prop :=
  length (ti_hash i) = 32%nat /\ u32 (ti_index i) /\ u32 (ti_sequence i) /\ len63 (ti_script i)
  /\ len64 (ti_witness i) /\ Forall len63 (ti_witness i).
Definition txout_wf (o : txout) : Prop := u64 (to_value o) /\ len63 (to_script o).
Definition tx_wf (t : tx) : Prop :=
  u32 (tx_version t) /\ u32 (tx_lock_time t) /\ Forall txin_wf (tx_ins t) /\ Forall txout_wf (tx_outs t)
  /\ len64 (tx_ins t) /\ len64 (tx_outs t).

(* the witness-stripped transaction *)
Definition clear_witness (i : txin) : txin :=
  mk_txin (ti_hash i) (ti_index i) (ti_script i) (ti_sequence i) [].
Definition strip_witnesses (t : tx) : tx :=
  mk_tx (tx_version t) (map clear_witness (tx_ins t)) (tx_outs t) (tx_lock_time t).

(* the pycoin-specific extension: one txout per input appended after the transaction *)
Definition ser_unspents (us : list txout) : bytes := concat (map ser_txout us).

(* binary spendable record: txout | tx hash(32) | index(4 LE) | CompactSize | bool byte | CompactSize *)
Definition spendable_wf (sp : spendable) : Prop :=
  u64 (sp_value sp) /\ len63 (sp_script sp) /\ length (sp_tx_hash sp) = 32%nat /\ u32 (sp_index sp)
  /\ u64 (sp_block_index_available sp) /\ (sp_does_seem_spent sp = 0 \/ sp_does_seem_spent sp = 1)
  /\ u64 (sp_block_index_spent sp).
Definition ser_spendable (sp : spendable) : bytes :=
  le_bytes 8 (sp_value sp) ++ ser_bytes (sp_script sp) ++ sp_tx_hash sp ++ le_bytes 4 (sp_index sp)
  ++ compact_size (sp_block_index_available sp) ++ [if sp_does_seem_spent sp =? 0 then x00 else x01]
  ++ compact_size (sp_block_index_spent sp).
