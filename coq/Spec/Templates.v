(* Spec/Templates.v — property C05: MY OWN SPECIFICATION of the consensus/standardness semantics of the
   standard script templates, written from Bitcoin Core's interpreter.cpp (EvalScript for push-only
   scriptSigs, OP_CHECKSIG, OP_CHECKMULTISIG with its matching loop, VerifyScript's P2SH and witness-v0
   branches, IsValidSignatureEncoding, IsLowDERSignature, IsDefinedHashtypeSignature, CheckPubKeyEncoding,
   CheckMinimalPush) for EXACTLY these scriptPubKeys:

     P2PK            <key> CHECKSIG
     P2PKH           DUP HASH160 <h> EQUALVERIFY CHECKSIG
     bare multisig   m <key_1> .. <key_n> n CHECKMULTISIG                (1 <= m <= n <= 20)
     P2SH multisig   HASH160 <hash160 redeem> EQUAL, redeem = the multisig script
     P2WPKH          0 <h>                  P2SH-P2WPKH   HASH160 <hash160 (0 <h>)> EQUAL
     P2WSH multisig  0 <sha256 ws>          P2SH-P2WSH    HASH160 <hash160 (0 <sha256 ws>)> EQUAL

   It is NOT the full script VM (property C03 models that).  What is and is not covered:
   * the scriptSig must be push-only (opcodes 0x00..0x60 without 0x50); for any other scriptSig `eval_input`
     answers false, which is the consensus answer for the P2SH and witness kinds and OUTSIDE THE DOMAIN of
     this evaluator for P2PK / P2PKH / bare multisig (predicate `in_domain`);
   * a redeem / witness script different from the expected template script is answered false (it would have
     the same hash only through a hash collision);
   * FindAndDelete (legacy signature hashing) is not applied: on these templates it is the identity unless a
     signature item equals a pushed key / hash / count byte of the script code; such scriptSigs are outside
     the domain as well (a strict-DER signature starts with 0x30 and is at least 9 bytes long, keys start with
     02/03/04, count bytes are single bytes; only a P2PKH hash that happens to read as a DER signature could
     collide);
   * two flag sets: LAX = P2SH|WITNESS (pycoin's DEFAULT_FLAGS, what Solver.sign uses for `already valid`),
     STD = the standard policy set of the property text (DERSIG, LOW_S, STRICTENC, NULLDUMMY, MINIMALDATA,
     CLEANSTACK, WITNESS_PUBKEYTYPE on top; NULLFAIL, MINIMALIF, CLTV, CSV and the DISCOURAGE flags cannot
     change the verdict on these templates: CHECKSIG / CHECKMULTISIG is the last opcode, so "false" and
     "error" are both "invalid", and no IF/NOP/lock-time opcode occurs); on fork-id coins STD is used with
     strictenc = false (the property text: no fork-id-aware form of the defined-hash-type rule here);
   * ECDSA and the digest are abstract: `verifies pub digest der_sig`, `sighash witness_v0 hash_type
     script_code` (None = the coin refuses this hash type, e.g. no fork-id bit on a fork-id coin). *)
From PV Require Import Base.Bytes Proofs.PushP.
Local Open Scope N_scope.

Inductive kind : Set :=
| K_P2PK | K_P2PKH | K_MS | K_P2SH_MS | K_P2WSH_MS | K_P2SH_P2WSH_MS | K_P2WPKH | K_P2SH_P2WPKH.

(* pz_keys: the listed keys in script order (P2PK: one key; P2PKH family: unused);
   pz_hash: the 20-byte key hash of the P2PKH family (unused otherwise) *)
Record puzzle : Set := mkPuzzle { pz_kind : kind; pz_m : nat; pz_keys : list bytes; pz_hash : bytes }.

(* ---- template scripts ------------------------------------------------------------------------ *)
Definition push_data : bytes -> bytes := spec_push.     (* consensus-minimal push, = compile_push_data (C12) *)
(* script number k < 128 as a minimal push: OP_0, OP_1..OP_16, or 01 kk *)
Definition num_push (k : nat) : bytes := push_data (if (k =? 0)%nat then [] else [n2b (N.of_nat k)]).

Definition ms_script (m : nat) (keys : list bytes) : bytes :=
  num_push m ++ flat_map push_data keys ++ num_push (length keys) ++ [xae].
Definition p2pk_script (key : bytes) : bytes := push_data key ++ [xac].
Definition p2pkh_script (h : bytes) : bytes := [x76; xa9] ++ push_data h ++ [x88; xac].
Definition p2sh_script (h : bytes) : bytes := [xa9] ++ push_data h ++ [x87].
Definition wit0_script (prog : bytes) : bytes := [x00] ++ push_data prog.

(* ---- encodings (Core: IsValidSignatureEncoding, IsLowDERSignature, IsDefinedHashtypeSignature) --- *)
Definition nthn (i : nat) (s : bytes) : N := b2n (nth i s x00).
Definition bit7 (v : N) : bool := 128 <=? v.

Definition strict_der (sig : bytes) : bool :=
  let len := length sig in
  let lenR := N.to_nat (nthn 3 sig) in
  let lenS := N.to_nat (nthn (5 + lenR) sig) in
  ((9 <=? len) && (len <=? 73))%nat &&
  (nthn 0 sig =? 48) &&
  (nthn 1 sig =? N.of_nat (len - 3)) &&
  (5 + lenR <? len)%nat &&
  (lenR + lenS + 7 =? len)%nat &&
  (nthn 2 sig =? 2) &&
  negb (lenR =? 0)%nat &&
  negb (bit7 (nthn 4 sig)) &&
  negb ((1 <? lenR)%nat && (nthn 4 sig =? 0) && negb (bit7 (nthn 5 sig))) &&
  (nthn (lenR + 4) sig =? 2) &&
  negb (lenS =? 0)%nat &&
  negb (bit7 (nthn (lenR + 6) sig)) &&
  negb ((1 <? lenS)%nat && (nthn (lenR + 6) sig =? 0) && negb (bit7 (nthn (lenR + 7) sig))).

Definition secp256k1_order : N :=
  115792089237316195423570985008687907852837564279074904382605163141518161494337.

(* the S value of a strictly encoded signature *)
Definition der_s_value (sig : bytes) : N :=
  let lenR := N.to_nat (nthn 3 sig) in
  let lenS := N.to_nat (nthn (5 + lenR) sig) in
  be_decode (firstn lenS (skipn (lenR + 6) sig)).
Definition der_r_value (sig : bytes) : N :=
  let lenR := N.to_nat (nthn 3 sig) in
  be_decode (firstn lenR (skipn 4 sig)).
(* Core's CheckLowS: lax parse, then secp256k1_ecdsa_signature_normalize; a signature whose r or s is not below
   the group order parses to the zero signature, which is not "high" (it simply fails to verify later) *)
Definition low_s (sig : bytes) : bool :=
  (secp256k1_order <=? der_r_value sig) || (secp256k1_order <=? der_s_value sig) ||
  (2 * der_s_value sig <=? secp256k1_order).

Definition hash_type_of (sig : bytes) : N := b2n (last sig x00).
Definition defined_hashtype (sig : bytes) : bool :=
  let t := hash_type_of sig in
  let t' := if bit7 t then t - 128 else t in
  (1 <=? t') && (t' <=? 3).

Definition is_compressed (pub : bytes) : bool :=
  (length pub =? 33)%nat && ((nthn 0 pub =? 2) || (nthn 0 pub =? 3)).
Definition is_uncompressed (pub : bytes) : bool := (length pub =? 65)%nat && (nthn 0 pub =? 4).

(* ---- push-only scripts (Core: GetOp + CheckMinimalPush) ------------------------------------------ *)
Definition small_int_data (d : bytes) : bool :=
  match d with
  | [b] => ((1 <=? b2n b) && (b2n b <=? 16)) || (b2n b =? 129)
  | _ => false
  end.

(* one push at the head of s: (data, rest, is_minimal); None = not a push opcode, OP_RESERVED, or truncated *)
Definition parse_one (s : bytes) : option (bytes * bytes * bool) :=
  match s with
  | [] => None
  | op :: r =>
    let o := b2n op in
    if o =? 0 then Some ([], r, true)
    else if o <=? 75 then
      let n := N.to_nat o in
      if (length r <? n)%nat then None
      else Some (firstn n r, skipn n r, negb (small_int_data (firstn n r)))
    else if o =? 76 then
      match r with
      | l :: r' =>
        let n := N.to_nat (b2n l) in
        if (length r' <? n)%nat then None else Some (firstn n r', skipn n r', 76 <=? b2n l)
      | [] => None
      end
    else if o =? 77 then
      if (length r <? 2)%nat then None else
      let n := le_decode (firstn 2 r) in
      let r' := skipn 2 r in
      if N.of_nat (length r') <? n then None
      else Some (firstn (N.to_nat n) r', skipn (N.to_nat n) r', 256 <=? n)
    else if o =? 78 then
      if (length r <? 4)%nat then None else
      let n := le_decode (firstn 4 r) in
      let r' := skipn 4 r in
      if N.of_nat (length r') <? n then None
      else Some (firstn (N.to_nat n) r', skipn (N.to_nat n) r', 65536 <=? n)
    else if o =? 79 then Some ([x81], r, true)
    else if (81 <=? o) && (o <=? 96) then Some ([n2b (o - 80)], r, true)
    else None
  end.

Fixpoint parse_pushes_f (fuel : nat) (s : bytes) : option (list bytes * bool) :=
  match s with
  | [] => Some ([], true)
  | _ =>
    match fuel with
    | O => None
    | S f =>
      match parse_one s with
      | None => None
      | Some (d, r, mn) =>
        match parse_pushes_f f r with
        | None => None
        | Some (ds, mns) => Some (d :: ds, mn && mns)
        end
      end
    end
  end.
(* every push consumes at least one byte, so length s is enough fuel (parse_pushes_fuel in Proofs/SolveP.v) *)
Definition parse_pushes (s : bytes) : option (list bytes * bool) := parse_pushes_f (length s) s.

Definition lenN {A} (l : list A) : N := N.of_nat (length l).
Definition all_le_520 (items : list bytes) : bool := forallb (fun d => lenN d <=? 520) items.

Definition split_last {A} (l : list A) : option (list A * A) :=
  match rev l with
  | [] => None
  | x :: r => Some (rev r, x)
  end.

Definition is_nil {A} (l : list A) : bool := match l with [] => true | _ => false end.

(* ---- flag sets ------------------------------------------------------------------------------- *)
Record flags : Set := mkFlags { f_std : bool; f_strictenc : bool }.
Definition LAX : flags := mkFlags false false.
Definition STD (forkid_coin : bool) : flags := mkFlags true (negb forkid_coin).

Section Eval.
Variable hash160 : bytes -> bytes.
Variable sha256 : bytes -> bytes.
Variable verifies : bytes -> bytes -> bytes -> bool.          (* public key (SEC), digest, DER signature *)
Variable sighash : bool -> N -> bytes -> option bytes.        (* witness v0?, hash type, script code *)
Variable fl : flags.

Definition sig_enc_ok (sig : bytes) : bool :=
  match sig with
  | [] => true
  | _ => if f_std fl then strict_der sig && low_s sig && (if f_strictenc fl then defined_hashtype sig else true)
         else true
  end.

Definition pub_enc_ok (wit : bool) (pub : bytes) : bool :=
  (if f_std fl && f_strictenc fl then is_compressed pub || is_uncompressed pub else true) &&
  (if f_std fl && wit then is_compressed pub else true).

Definition sig_verifies (wit : bool) (sc : bytes) (sig pub : bytes) : bool :=
  match sig with
  | [] => false
  | _ => match sighash wit (hash_type_of sig) sc with
         | Some d => verifies pub d (removelast sig)
         | None => false
         end
  end.

(* OP_CHECKSIG as the last opcode: an encoding error and a false result are both "invalid" *)
Definition checksig (wit : bool) (sc : bytes) (sig pub : bytes) : bool :=
  sig_enc_ok sig && pub_enc_ok wit pub && sig_verifies wit sc sig pub.

(* Core's CHECKMULTISIG loop; keys and sigs TOP OF STACK FIRST (i.e. last script key / last pushed
   signature first).  Precondition of the call: length sigs <= length keys. *)
Fixpoint cms (wit : bool) (sc : bytes) (keys sigs : list bytes) {struct keys} : bool :=
  match sigs with
  | [] => true
  | s :: sr =>
    match keys with
    | [] => false
    | k :: kr =>
      if sig_enc_ok s && pub_enc_ok wit k then
        let sigs' := if sig_verifies wit sc s k then sr else sigs in
        if (length kr <? length sigs')%nat then false else cms wit sc kr sigs'
      else false
    end
  end.

(* m <keys> n CHECKMULTISIG run on the stack `st` (bottom first); clean = exactly one item must remain;
   the stack never holds more than 1000 items (it peaks after the n+2 pushes of the script) *)
Definition eval_multisig (wit clean : bool) (sc : bytes) (m : nat) (keys : list bytes) (st : list bytes) : bool :=
  let n := length keys in
  ((1 <=? m) && (m <=? n) && (n <=? 20) && (m + 1 <=? length st))%nat && (lenN st + N.of_nat n + 2 <=? 1000) &&
  let rest := firstn (length st - (m + 1)) st in
  match skipn (length st - (m + 1)) st with
  | dummy :: sigs =>
    (if f_std fl then is_nil dummy else true) &&
    cms wit sc (rev keys) (rev sigs) &&
    (if clean then is_nil rest else true)
  | [] => false
  end.

Definition eval_p2pk (clean : bool) (sc key : bytes) (st : list bytes) : bool :=
  match split_last st with
  | Some (rest, sig) =>
    (lenN st + 1 <=? 1000) && checksig false sc sig key && (if clean then is_nil rest else true)
  | None => false
  end.

Definition eval_p2pkh (wit clean : bool) (sc h : bytes) (st : list bytes) : bool :=
  match split_last st with
  | Some (st1, pub) =>
    match split_last st1 with
    | Some (rest, sig) =>
      (lenN st + 2 <=? 1000) &&
      bytes_eqb (hash160 pub) h && checksig wit sc sig pub && (if clean then is_nil rest else true)
    | None => false
    end
  | None => false
  end.

Definition script_pubkey (pz : puzzle) : bytes :=
  let ms := ms_script (pz_m pz) (pz_keys pz) in
  match pz_kind pz with
  | K_P2PK => p2pk_script (hd [] (pz_keys pz))
  | K_P2PKH => p2pkh_script (pz_hash pz)
  | K_MS => ms
  | K_P2SH_MS => p2sh_script (hash160 ms)
  | K_P2WSH_MS => wit0_script (sha256 ms)
  | K_P2SH_P2WSH_MS => p2sh_script (hash160 (wit0_script (sha256 ms)))
  | K_P2WPKH => wit0_script (pz_hash pz)
  | K_P2SH_P2WPKH => p2sh_script (hash160 (wit0_script (pz_hash pz)))
  end.

(* the scriptSig of the witness kinds: empty, or exactly the canonical push of the witness program *)
Definition expected_wit_script_sig (pz : puzzle) : bytes :=
  match pz_kind pz with
  | K_P2SH_P2WSH_MS => push_data (wit0_script (sha256 (ms_script (pz_m pz) (pz_keys pz))))
  | K_P2SH_P2WPKH => push_data (wit0_script (pz_hash pz))
  | _ => []
  end.

Definition eval_witness_part (pz : puzzle) (wit : list bytes) : bool :=
  match pz_kind pz with
  | K_P2WPKH | K_P2SH_P2WPKH =>
    (length wit =? 2)%nat && all_le_520 wit &&
    eval_p2pkh true true (p2pkh_script (pz_hash pz)) (pz_hash pz) wit
  | K_P2WSH_MS | K_P2SH_P2WSH_MS =>
    let ms := ms_script (pz_m pz) (pz_keys pz) in
    match split_last wit with
    | Some (st, ws) =>
      bytes_eqb ws ms && (lenN ws <=? 10000) && all_le_520 st &&
      eval_multisig true true ms (pz_m pz) (pz_keys pz) st
    | None => false
    end
  | _ => false
  end.

Definition eval_input (pz : puzzle) (script_sig : bytes) (wit : list bytes) : bool :=
  if 10000 <? lenN script_sig then false else
  match parse_pushes script_sig with
  | None => false
  | Some (items, minimal) =>
    if (f_std fl && negb minimal) || negb (all_le_520 items) || (1000 <? lenN items) then false else
    let clean := f_std fl in
    match pz_kind pz with
    | K_P2PK =>
      is_nil wit && eval_p2pk clean (p2pk_script (hd [] (pz_keys pz))) (hd [] (pz_keys pz)) items
    | K_P2PKH =>
      is_nil wit && eval_p2pkh false clean (p2pkh_script (pz_hash pz)) (pz_hash pz) items
    | K_MS =>
      is_nil wit && eval_multisig false clean (ms_script (pz_m pz) (pz_keys pz)) (pz_m pz) (pz_keys pz) items
    | K_P2SH_MS =>
      let ms := ms_script (pz_m pz) (pz_keys pz) in
      is_nil wit &&
      match split_last items with
      | Some (st, redeem) => bytes_eqb redeem ms && eval_multisig false clean ms (pz_m pz) (pz_keys pz) st
      | None => false
      end
    | K_P2WPKH | K_P2WSH_MS | K_P2SH_P2WPKH | K_P2SH_P2WSH_MS =>
      bytes_eqb script_sig (expected_wit_script_sig pz) && eval_witness_part pz wit
    end
  end.

(* the evaluator's domain for the legacy non-P2SH kinds (see the header) *)
Definition in_domain (script_sig : bytes) : bool :=
  match parse_pushes script_sig with Some _ => true | None => false end.
End Eval.
