(* Spec/Weierstrass.v — what "the group law of y^2 = x^3 + a x + b over F_p" means, written from the textbook
   definition and independently of the algorithms in Curve.py: the slope is characterised by the equation it
   solves (no inverse algorithm), scalar multiplication is literally repeated addition. *)
From Coq Require Import ZArith.
From PV Require Import Model.Curve.   (* only for the data types `curve` and `pt` *)
Local Open Scope Z_scope.

Definition on_curve (c : curve) (P : pt) : Prop :=
  match P with
  | None => True
  | Some (x, y) => (y * y - (x * x * x + ca c * x + cb c)) mod cp c = 0
  end.

Definition reduced (c : curve) (P : pt) : Prop :=
  match P with
  | None => True
  | Some (x, y) => 0 <= x < cp c /\ 0 <= y < cp c
  end.

(* a group element: a reduced pair on the curve, or infinity *)
Definition valid (c : curve) (P : pt) : Prop := on_curve c P /\ reduced c P.

(* the element denoted by a (possibly unreduced) Python point *)
Definition red (c : curve) (P : pt) : pt :=
  match P with
  | None => None
  | Some (x, y) => Some (x mod cp c, y mod cp c)
  end.

(* chord-and-tangent addition on reduced points *)
Inductive spec_add (c : curve) : pt -> pt -> pt -> Prop :=
| SA_inf_l : forall Q, spec_add c None Q Q
| SA_inf_r : forall P, spec_add c P None P
| SA_opp : forall x y0 y1, (y0 + y1) mod cp c = 0 -> spec_add c (Some (x, y0)) (Some (x, y1)) None
| SA_tangent : forall x y l,
    (y + y) mod cp c <> 0 ->
    (l * (2 * y)) mod cp c = (3 * x * x + ca c) mod cp c ->
    let x3 := (l * l - x - x) mod cp c in
    spec_add c (Some (x, y)) (Some (x, y)) (Some (x3, (l * (x - x3) - y) mod cp c))
| SA_chord : forall x0 y0 x1 y1 l,
    x0 <> x1 ->
    (l * (x1 - x0)) mod cp c = (y1 - y0) mod cp c ->
    let x3 := (l * l - x0 - x1) mod cp c in
    spec_add c (Some (x0, y0)) (Some (x1, y1)) (Some (x3, (l * (x0 - x3) - y0) mod cp c)).

(* the inverse element *)
Definition spec_neg (c : curve) (P : pt) : pt :=
  match P with
  | None => None
  | Some (x, y) => Some (x, (- y) mod cp c)
  end.

(* k * P for an integer k, relative to an addition function: P added to itself |k| times, negated for k < 0 *)
Section Smul.
  Variable T : Type.
  Variable (zero : T) (op : T -> T -> T) (inv : T -> T).
  Fixpoint nsmul (n : nat) (P : T) : T :=
    match n with
    | O => zero
    | S k => op (nsmul k P) P
    end.
  Definition smul (k : Z) (P : T) : T :=
    if k <? 0 then inv (nsmul (Z.to_nat (- k)) P) else nsmul (Z.to_nat k) P.
End Smul.
Arguments nsmul {T} zero op n P.
Arguments smul {T} zero op inv k P.
