(* Spec/MurmurSpec.v — MurmurHash3_x86_32 (Austin Appleby's reference, MurmurHash3.cpp) and the BIP37 Bloom filter
   bit addressing (BIP37 text; Bitcoin Core's CBloomFilter::Hash / insert / contains).
   Written by hand from those references, NOT from pycoin: uint32 arithmetic (values in [0,2^32), products and
   sums reduced mod 2^32), structural recursion over the byte string, xor for the tail as in the reference.
   Validated at the end on the vectors of Bitcoin Core's hash_tests.cpp / bloom_tests.cpp and of
   /repo/tests/bloomfilter_test.py. *)
From PV Require Import Base.Bytes Spec.RipemdSpec.
Local Open Scope Z_scope.

Definition c1 : Z := 0xcc9e2d51.
Definition c2 : Z := 0x1b873593.

(* getblock32: little-endian load *)
Definition word4 (b0 b1 b2 b3 : byte) : Z := b2z b0 + 256 * b2z b1 + 65536 * b2z b2 + 16777216 * b2z b3.

(* k1 *= c1; k1 = ROTL32(k1,15); k1 *= c2; *)
Definition mix_k (k : Z) : Z := wmul (rotl 15 (wmul k c1)) c2.
(* h1 ^= k1; h1 = ROTL32(h1,13); h1 = h1*5+0xe6546b64; *)
Definition mix_h (h k : Z) : Z := wadd (wmul (rotl 13 (Z.lxor h (mix_k k))) 5) 0xe6546b64.

(* body over 4-byte blocks, then the tail (switch(len & 3) with fall-through, k1 ^= tail[i] << 8i) *)
Fixpoint body (data : bytes) (h : Z) : Z :=
  match data with
  | b0 :: b1 :: b2 :: b3 :: rest => body rest (mix_h h (word4 b0 b1 b2 b3))
  | [b0; b1; b2] => Z.lxor h (mix_k (Z.lxor (Z.lxor (b2z b2 * 65536) (b2z b1 * 256)) (b2z b0)))
  | [b0; b1] => Z.lxor h (mix_k (Z.lxor (b2z b1 * 256) (b2z b0)))
  | [b0] => Z.lxor h (mix_k (b2z b0))
  | [] => h
  end.

(* fmix32: h ^= h >> 16; h *= 0x85ebca6b; h ^= h >> 13; h *= 0xc2b2ae35; h ^= h >> 16; *)
Definition fmix32 (h : Z) : Z :=
  let h := Z.lxor h (h / 65536) in
  let h := wmul h 0x85ebca6b in
  let h := Z.lxor h (h / 8192) in
  let h := wmul h 0xc2b2ae35 in
  Z.lxor h (h / 65536).

(* MurmurHash3_x86_32(key, len, seed) for a uint32 seed and len < 2^32 *)
Definition murmur3_32 (data : bytes) (seed : Z) : Z :=
  fmix32 (Z.lxor (body data seed) (Z.of_nat (length data))).

(* ---- BIP37 ------------------------------------------------------------------------------------------ *)
(* "nHashNum * 0xFBA4C795 + nTweak" computed in uint32 *)
Definition bloom_seed (i tweak : Z) : Z := (i * 0xFBA4C795 + tweak) mod W.

(* bit index of hash function i:  MurmurHash3(nHashNum * 0xFBA4C795 + nTweak, item) % (vData.size() * 8) *)
Definition bloom_index (size : nat) (tweak : Z) (item : bytes) (i : Z) : Z :=
  murmur3_32 item (bloom_seed i tweak) mod (Z.of_nat size * 8).

(* vData[nIndex >> 3] & (1 << (7 & nIndex)) *)
Definition bit_is_set (v : bytes) (n : Z) : bool :=
  Z.testbit (b2z (nth (Z.to_nat (n / 8)) v x00)) (n mod 8).

(* vData[nIndex >> 3] |= (1 << (7 & nIndex)) *)
Fixpoint set_nth (k : nat) (f : byte -> byte) (v : bytes) : bytes :=
  match v, k with
  | [], _ => []
  | b :: r, O => f b :: r
  | b :: r, S k' => b :: set_nth k' f r
  end.
Definition set_bit (v : bytes) (n : Z) : bytes :=
  set_nth (Z.to_nat (n / 8)) (fun b => z2b (Z.lor (b2z b) (2 ^ (n mod 8)))) v.

Definition hash_nums (k : Z) : list Z := map Z.of_nat (seq 0 (Z.to_nat k)).   (* 0 .. nHashFuncs-1 *)

(* CBloomFilter::insert *)
Definition insert (v : bytes) (k tweak : Z) (item : bytes) : bytes :=
  fold_left (fun v i => set_bit v (bloom_index (length v) tweak item i)) (hash_nums k) v.

(* CBloomFilter::contains (what the peer evaluates) *)
Definition contains (v : bytes) (k tweak : Z) (item : bytes) : bool :=
  forallb (fun i => bit_is_set v (bloom_index (length v) tweak item i)) (hash_nums k).

(* ---- validation on published vectors ---------------------------------------------------------------- *)
Definition hx (l : list Z) : bytes := map z2b l.

(* Bitcoin Core src/test/hash_tests.cpp (murmurhash3) *)
Example mv1 : murmur3_32 [] 0 = 0. Proof. reflexivity. Qed.
Example mv2 : murmur3_32 [] 0xFBA4C795 = 0x6a396f08. Proof. reflexivity. Qed.
Example mv3 : murmur3_32 [] 0xffffffff = 0x81f16f39. Proof. reflexivity. Qed.
Example mv4 : murmur3_32 (hx [0]) 0 = 0x514e28b7. Proof. reflexivity. Qed.
Example mv5 : murmur3_32 (hx [0]) 0xFBA4C795 = 0xea3f0b17. Proof. reflexivity. Qed.
Example mv6 : murmur3_32 (hx [0xff]) 0 = 0xfd6cf10d. Proof. reflexivity. Qed.
Example mv7 : murmur3_32 (hx [0; 0x11]) 0 = 0x16c6b7ab. Proof. reflexivity. Qed.
Example mv8 : murmur3_32 (hx [0; 0x11; 0x22]) 0 = 0x8eb51c3d. Proof. reflexivity. Qed.
Example mv9 : murmur3_32 (hx [0; 0x11; 0x22; 0x33]) 0 = 0xb4471bf8. Proof. reflexivity. Qed.
Example mv10 : murmur3_32 (hx [0; 0x11; 0x22; 0x33; 0x44]) 0 = 0xe2301fa8. Proof. reflexivity. Qed.
Example mv11 : murmur3_32 (hx [0; 0x11; 0x22; 0x33; 0x44; 0x55]) 0 = 0xfc2e4a15. Proof. reflexivity. Qed.
Example mv12 : murmur3_32 (hx [0; 0x11; 0x22; 0x33; 0x44; 0x55; 0x66]) 0 = 0xb074502c. Proof. reflexivity. Qed.
Example mv13 : murmur3_32 (hx [0; 0x11; 0x22; 0x33; 0x44; 0x55; 0x66; 0x77]) 0 = 0x8034d2a0. Proof. reflexivity. Qed.
Example mv14 : murmur3_32 (hx [0; 0x11; 0x22; 0x33; 0x44; 0x55; 0x66; 0x77; 0x88]) 0 = 0xb4698def. Proof. reflexivity. Qed.
(* /repo/tests/bloomfilter_test.py (from stackoverflow.com/questions/14747343) *)
Example mv15 : murmur3_32 [] 1 = 0x514E28B7. Proof. reflexivity. Qed.
Example mv16 : murmur3_32 (hx [0xff; 0xff; 0xff; 0xff]) 0 = 0x76293B50. Proof. reflexivity. Qed.
Example mv17 : murmur3_32 (hx [0x21; 0x43; 0x65; 0x87]) 0 = 0xF55B516B. Proof. reflexivity. Qed.
Example mv18 : murmur3_32 (hx [0x21; 0x43; 0x65; 0x87]) 0x5082EDEE = 0x2362F9DE. Proof. reflexivity. Qed.
Example mv19 : murmur3_32 (hx [0x21; 0x43; 0x65]) 0 = 0x7E4A8634. Proof. reflexivity. Qed.
Example mv20 : murmur3_32 (hx [0x21; 0x43]) 0 = 0xA0F7B07A. Proof. reflexivity. Qed.
Example mv21 : murmur3_32 (hx [0x21]) 0 = 0x72661CF4. Proof. reflexivity. Qed.
Example mv22 : murmur3_32 (hx [0; 0; 0; 0]) 0 = 0x2362F9DE. Proof. reflexivity. Qed.
Example mv23 : murmur3_32 (hx [0; 0; 0]) 0 = 0x85F0B427. Proof. reflexivity. Qed.
Example mv24 : murmur3_32 (hx [0; 0]) 0 = 0x30F4C306. Proof. reflexivity. Qed.

(* Bitcoin Core src/test/bloom_tests.cpp: bloom_create_insert_serialize ("03614e9b050000000000000001") and
   bloom_create_insert_serialize_with_tweak ("03ce4299050000000200000001"): 3-byte filter, 5 hash functions *)
Definition item1 := hx [0x99;0x10;0x8a;0xd8;0xed;0x9b;0xb6;0x27;0x4d;0x39;0x80;0xba;0xb5;0xa8;0x5c;0x04;0x8f;0x09;0x50;0xc8].
Definition item2 := hx [0xb5;0xa2;0xc7;0x86;0xd9;0xef;0x46;0x58;0x28;0x7c;0xed;0x59;0x14;0xb3;0x7a;0x1b;0x4a;0xa3;0x2e;0xee].
Definition item3 := hx [0xb9;0x30;0x06;0x70;0xb4;0xc5;0x36;0x6e;0x95;0xb2;0x69;0x9e;0x8b;0x18;0xbc;0x75;0xe5;0xf7;0x29;0xc5].
Example bv1 : insert (insert (insert (hx [0; 0; 0]) 5 0 item1) 5 0 item2) 5 0 item3 = hx [0x61; 0x4e; 0x9b].
Proof. vm_compute. reflexivity. Qed.
Example bv2 : insert (insert (insert (hx [0; 0; 0]) 5 2147483649 item1) 5 2147483649 item2) 5 2147483649 item3
              = hx [0xce; 0x42; 0x99].
Proof. vm_compute. reflexivity. Qed.
Example bv3 : let v := insert (insert (hx [0; 0; 0]) 5 0 item1) 5 0 item2 in
              (contains v 5 0 item1, contains v 5 0 item2, contains (hx [0; 0; 0]) 5 0 item1) = (true, true, false).
Proof. vm_compute. reflexivity. Qed.
