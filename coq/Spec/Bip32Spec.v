(* Spec/Bip32Spec.v — BIP-0032 (https://github.com/bitcoin/bips/blob/master/bip-0032.mediawiki) as text says, over an
   abstract group.  (The file /repo/BIP32.txt is pycoin's usage note and defers to the BIP; the definitions below are
   transcribed from the BIP's sections "Conventions", "Extended keys", "Child key derivation (CKD) functions",
   "Serialization format", "Key identifiers" and "Master key generation".)  Validated against the BIP's test vectors 1
   and 2 by the correspondence run (harness/c09.py, check "bip_vectors"): the extracted spec, with HMAC-SHA512/hash160
   answered by hashlib and serP by the oracle, must reproduce the published xprv/xpub strings.

   Conventions (BIP):  point(p) = p*G;  ser32(i) 4 bytes most significant first;  ser256(p) 32 bytes most significant
   first;  serP(P) = SEC1 compressed form;  parse256(p) interprets 32 bytes as a number, most significant first. *)
From Coq Require Import List ZArith NArith Bool.
From Coq Require Import Strings.Byte.
From PV Require Import Base.Bytes.
Import ListNotations.
Local Open Scope Z_scope.

Section Bip32Spec.
Variable pt : Type.
Variable padd : pt -> pt -> pt.
Variable pO : pt.
Variable smul : Z -> pt -> pt.
Variable pG : pt.
Variable n : Z.                               (* order of the curve *)
Variable pt_eqb : pt -> pt -> bool.
Variable serP : pt -> bytes.
Variable hmac_sha512 : bytes -> bytes -> bytes.   (* Key, Data *)
Variable hash160 : bytes -> bytes.

Definition point (p : Z) : pt := smul p pG.
Definition ser32 (i : Z) : bytes := be_encode 4 (Z.to_N i).
Definition ser256 (p : Z) : bytes := be_encode 32 (Z.to_N p).
Definition parse256 (b : bytes) : Z := Z.of_N (be_decode b).

Definition hardened (i : Z) : bool := 2 ^ 31 <=? i.

(* "Private parent key -> private child key": CKDpriv((k_par, c_par), i) -> (k_i, c_i).
   None: "In case parse256(I_L) >= n or k_i = 0, the resulting key is invalid, and one should proceed with the next
   value for i." *)
Definition CKDpriv (k_par : Z) (c_par : bytes) (i : Z) : option (Z * bytes) :=
  let I := if hardened i
           then hmac_sha512 c_par (x00 :: ser256 k_par ++ ser32 i)
           else hmac_sha512 c_par (serP (point k_par) ++ ser32 i) in
  let I_L := firstn 32 I in
  let I_R := skipn 32 I in
  let k_i := (parse256 I_L + k_par) mod n in
  if (n <=? parse256 I_L) || (k_i =? 0) then None else Some (k_i, I_R).

(* "Public parent key -> public child key": CKDpub((K_par, c_par), i) -> (K_i, c_i), only for non-hardened i.
   Failure (hardened i) and invalid key are both None. *)
Definition CKDpub (K_par : pt) (c_par : bytes) (i : Z) : option (pt * bytes) :=
  if hardened i then None
  else
    let I := hmac_sha512 c_par (serP K_par ++ ser32 i) in
    let I_L := firstn 32 I in
    let I_R := skipn 32 I in
    let K_i := padd (point (parse256 I_L)) K_par in
    if (n <=? parse256 I_L) || pt_eqb K_i pO then None else Some (K_i, I_R).

(* "Private parent key -> public child key": N((k, c)) -> (K, c) *)
Definition Neuter (k : Z) (c : bytes) : pt * bytes := (point k, c).

(* "Key identifiers": Hash160 of the serialized ECDSA public key K, ignoring the chain code; the first 32 bits are the
   key fingerprint. *)
Definition identifier (K : pt) : bytes := hash160 (serP K).
Definition key_fingerprint (K : pt) : bytes := firstn 4 (identifier K).

(* extended keys with the bookkeeping that the serialization format carries *)
Inductive keydata : Type := Prv (k : Z) | Pub (K : pt).
Record xkey : Type := mkX {
  x_depth : Z;            (* 0x00 for master nodes, 0x01 for level-1 derived keys, ... *)
  x_parent_fpr : bytes;   (* fingerprint of the parent's key (0x00000000 if master key) *)
  x_child_number : Z;     (* ser32(i) for i in x_i = x_par/i, with x_i the key being serialized (0 if master) *)
  x_chain : bytes;
  x_key : keydata }.

Definition key_point (d : keydata) : pt := match d with Prv k => point k | Pub K => K end.

(* "Master key generation": I = HMAC-SHA512(Key = "Bitcoin seed", Data = S); invalid if parse256(I_L) = 0 or >= n *)
Definition bitcoin_seed : bytes := [x42; x69; x74; x63; x6f; x69; x6e; x20; x73; x65; x65; x64].
Definition master (S : bytes) : option xkey :=
  let I := hmac_sha512 bitcoin_seed S in
  let k := parse256 (firstn 32 I) in
  if (k =? 0) || (n <=? k) then None
  else Some (mkX 0 [x00; x00; x00; x00] 0 (skipn 32 I) (Prv k)).

(* child extended key x_par/i *)
Definition child (par : xkey) (i : Z) : option xkey :=
  let fpr := key_fingerprint (key_point (x_key par)) in
  match x_key par with
  | Prv k =>
    match CKDpriv k (x_chain par) i with
    | Some (k_i, c_i) => Some (mkX (x_depth par + 1) fpr i c_i (Prv k_i))
    | None => None
    end
  | Pub K =>
    match CKDpub K (x_chain par) i with
    | Some (K_i, c_i) => Some (mkX (x_depth par + 1) fpr i c_i (Pub K_i))
    | None => None
    end
  end.
Definition neuter (x : xkey) : xkey :=
  mkX (x_depth x) (x_parent_fpr x) (x_child_number x) (x_chain x) (Pub (key_point (x_key x))).

Fixpoint derive (x : xkey) (path : list Z) : option xkey :=
  match path with
  | [] => Some x
  | i :: r => match child x i with Some y => derive y r | None => None end
  end.

(* "Serialization format": 4 byte version | 1 byte depth | 4 bytes parent fingerprint | 4 bytes child number |
   32 bytes chain code | 33 bytes: serP(K) for public keys, 0x00 || ser256(k) for private keys *)
Definition serialize_x (version : bytes) (x : xkey) : bytes :=
  version ++ [z2b (x_depth x)] ++ x_parent_fpr x ++ ser32 (x_child_number x) ++ x_chain x ++
  match x_key x with
  | Prv k => x00 :: ser256 k
  | Pub K => serP K
  end.

End Bip32Spec.
