(* Spec/AddressSpec.v — what C08 speaks about, written independently of pycoin's code:
   the five standard output scripts as byte strings, the laws the theorems assume of the Base58Check and
   segwit-address codecs (C11 owns the codec models; here they are premises), and well-formedness of a network row. *)
From PV Require Import Base.Bytes Gen.GenNetworks.
Local Open Scope N_scope.

(* kinds: 0 P2PKH, 1 P2SH, 2 P2WPKH, 3 P2WSH, 4 P2TR (BIP16, BIP141, BIP341 output scripts) *)
Definition std_script (k : N) (p : bytes) : bytes :=
  match k with
  | 0 => [x76; xa9; x14] ++ p ++ [x88; xac]       (* OP_DUP OP_HASH160 <20> OP_EQUALVERIFY OP_CHECKSIG *)
  | 1 => [xa9; x14] ++ p ++ [x87]                  (* OP_HASH160 <20> OP_EQUAL *)
  | 2 => [x00; x14] ++ p                           (* OP_0 <20> *)
  | 3 => [x00; x20] ++ p                           (* OP_0 <32> *)
  | _ => [x51; x20] ++ p                           (* OP_1 <32> *)
  end.
Definition std_len (k : N) : nat := match k with 0 | 1 | 2 => 20%nat | _ => 32%nat end.
(* witness version of the segwit kinds *)
Definition std_version (k : N) : N := match k with 4 => 1 | _ => 0 end.

(* which kinds a network row defines: by the prefixes present *)
Definition kind_prefix (net : netrow) (k : N) : option bytes :=
  match k with
  | 0 => nr_pkh net
  | 1 => nr_sh net
  | 2 | 3 | 4 => nr_hrp net
  | _ => None
  end.
Definition kind_defined (net : netrow) (k : N) : Prop := k <= 4 /\ kind_prefix net k <> None.

(* checksum constant a witness version must carry (BIP350): 1 = Bech32 for v0, 2 = Bech32m otherwise *)
Definition spec_for (v : N) : N := if v =? 0 then enc_bech32 else enc_bech32m.

(* human-readable part the segwit encoder accepts for 20/32-byte programs: printable ASCII, no upper case, 1..30 chars *)
Definition hrp_char_ok (b : byte) : bool :=
  (33 <=? b2n b) && (b2n b <=? 126) && negb ((65 <=? b2n b) && (b2n b <=? 90)).
Definition hrp_ok (hrp : bytes) : bool :=
  (1 <=? length hrp)%nat && (length hrp <=? 30)%nat && forallb hrp_char_ok hrp.
Definition std_witness (v : N) (prog : bytes) : Prop :=
  (v = 0 /\ (length prog = 20%nat \/ length prog = 32%nat)) \/ (v = 1 /\ length prog = 32%nat).

Section Laws.
Variable b58check_encode : bytes -> bytes.
Variable b58check_decode : bytes -> option bytes.
Variable segwit_encode : bytes -> N -> bytes -> option bytes.
Variable segwit_parse : bytes -> option (bytes * N * bytes * N).

(* laws used by every theorem *)
Record codec_laws : Prop := {
  (* B1 *) b58_decode_encode : forall d, b58check_decode (b58check_encode d) = Some d;
  (* B3: n Base58 characters carry at least 2n/3 bytes (log 58 / log 256 = 0.73) *)
  b58_length : forall s d, b58check_decode s = Some d -> (2 * length s <= 3 * (length d + 4))%nat;
  (* S1 *) segwit_parse_encode : forall hrp v prog s, segwit_encode hrp v prog = Some s ->
             segwit_parse s = Some (hrp, v, prog, spec_for v);
  (* S2 *) segwit_encode_defined : forall hrp v prog, hrp_ok hrp = true -> std_witness v prog ->
             segwit_encode hrp v prog <> None;
  (* S4: a segwit string with a program of 20 bytes or more has at least 40 characters (hrp, '1', version,
         32 data characters, 6 checksum characters) *)
  segwit_length : forall s hrp v prog spec, segwit_parse s = Some (hrp, v, prog, spec) ->
             (20 <= length prog)%nat -> (40 <= length s)%nat }.

(* laws used only to relate the accepted TEXT to the re-encoded text *)
Record codec_text_laws (lower : bytes -> bytes) : Prop := {
  (* B2: Base58Check decoding accepts only the canonical string *)
  b58_encode_decode : forall s d, b58check_decode s = Some d -> b58check_encode d = s;
  (* S3: a parsed string with the right checksum constant re-encodes to its lower-case form (BIP173 accepts
         all-upper-case strings) *)
  segwit_encode_parse : forall s hrp v prog spec, segwit_parse s = Some (hrp, v, prog, spec) ->
             spec = spec_for v -> std_witness v prog -> segwit_encode hrp v prog = Some (lower s) }.
End Laws.

(* a network row the theorems cover: standard machinery, version prefixes of at most 2 bytes, the two Base58
   prefixes differ, the hrp is one the encoder accepts, and the recorded kinds are the ones with a prefix *)
Definition opt_bytes_eqb (a b : option bytes) : bool :=
  match a, b with Some x, Some y => bytes_eqb x y | None, None => true | _, _ => false end.
Definition opt_len_le (a : option bytes) (n : nat) : bool :=
  match a with Some x => (length x <=? n)%nat | None => true end.
Definition kinds_from_prefixes (net : netrow) : list N :=
  (match nr_pkh net with Some _ => [0] | None => [] end) ++
  (match nr_sh net with Some _ => [1] | None => [] end) ++
  (match nr_hrp net with Some _ => [2; 3; 4] | None => [] end).
Fixpoint list_N_eqb (a b : list N) : bool :=
  match a, b with
  | [], [] => true
  | x :: a', y :: b' => (x =? y) && list_N_eqb a' b'
  | _, _ => false
  end.
Definition net_wf (net : netrow) : bool :=
  nr_std net && opt_len_le (nr_pkh net) 2 && opt_len_le (nr_sh net) 2
  && negb (match nr_pkh net, nr_sh net with Some a, Some b => bytes_eqb a b | _, _ => false end)
  && (match nr_hrp net with Some h => hrp_ok h | None => true end)
  && list_N_eqb (nr_kinds net) (kinds_from_prefixes net).

(* two networks whose Base58 version prefixes never coincide across kinds (P2PKH prefix of one = P2SH prefix of the
   other); only then does a foreign address denote the SAME script on the accepting network *)
Definition cross_kind_ok (a b : netrow) : bool :=
  negb (match nr_pkh a, nr_sh b with Some x, Some y => bytes_eqb x y | _, _ => false end)
  && negb (match nr_sh a, nr_pkh b with Some x, Some y => bytes_eqb x y | _, _ => false end).
