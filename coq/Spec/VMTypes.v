(* Spec/VMTypes.v — shared interface of the two script interpreters of C03:
   Model/VMpy.v (pycoin, as coded) and Spec/VMcore.v (Bitcoin Core's rules, DESIGN.md Appendix A).
   Both take the same oracles and context and return the same result type, so that agreement is
   a statement `VMpy.f = VMcore.f` up to `res_equiv`. *)
From PV Require Import Base.Bytes Base.Outcome Gen.GenFlags.
Local Open Scope N_scope.

Definition flag_set (flags f : N) : bool := negb (N.land flags f =? 0).

Inductive sigversion : Set := SV_BASE | SV_WITNESS_V0.

(* per-input transaction context the interpreter can see *)
Record txctx := { tc_version : N;      (* tx.version as unsigned 32 bit *)
                  tc_lock_time : N;
                  tc_sequence : N }.   (* sequence of the input being checked *)

(* hash functions and the signature check are parameters.
   o_checksig sig pubkey script_code sv: `sig` is the full signature blob (DER ‖ hashtype byte, never empty),
   `script_code` is the script from the last executed OP_CODESEPARATOR on, AFTER the interpreter's own
   FindAndDelete of signatures (BASE only); the oracle strips OP_CODESEPARATORs itself for BASE, computes the
   digest for the blob's hash type (legacy or BIP143 by sv), lax-parses the DER part and the public key, and
   verifies.  It returns false (never aborts) for anything unparseable. *)
Record oracles := { o_sha256 : bytes -> bytes;
                    o_sha1 : bytes -> bytes;
                    o_ripemd160 : bytes -> bytes;
                    o_hash160 : bytes -> bytes;
                    o_hash256 : bytes -> bytes;
                    o_checksig : bytes -> bytes -> bytes -> sigversion -> bool;
                    (* group order n and half order, for LOW_S; secp256k1's are passed by the driver *)
                    o_order : N }.

(* result of evaluating one script / of verifying one spend *)
Inductive vres (A : Type) : Type :=
| VOk (a : A)            (* success; for eval: the final stack, top = last element *)
| VFail                  (* clean script failure (pycoin: ScriptError) *)
| VCrash (e : pyexn)     (* pycoin only: another exception class escaped *)
| VOutOfFuel.
Arguments VOk {A} a.
Arguments VFail {A}.
Arguments VCrash {A} e.
Arguments VOutOfFuel {A}.

(* stacks: list of byte strings, TOP = LAST element (as in pycoin's list and Core's vector) *)
Definition stack := list bytes.

(* a spend to verify *)
Record spend := { sp_script_sig : bytes;
                  sp_script_pubkey : bytes;
                  sp_witness : list bytes;     (* witness stack, top = last *)
                  sp_flags : N;
                  sp_ctx : txctx }.

Definition vres_is_ok {A} (r : vres A) : bool := match r with VOk _ => true | _ => false end.

(* agreement of verdicts: success on both sides with equal payload, or clean failure on both sides;
   a crash agrees with nothing *)
Definition res_agree {A} (eqA : A -> A -> bool) (py core : vres A) : bool :=
  match py, core with
  | VOk a, VOk b => eqA a b
  | VFail, VFail => true
  | _, _ => false
  end.

Fixpoint stack_eqb (a b : stack) : bool :=
  match a, b with
  | [], [] => true
  | x :: a', y :: b' => bytes_eqb x y && stack_eqb a' b'
  | _, _ => false
  end.
