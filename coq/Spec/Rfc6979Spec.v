(* Spec/Rfc6979Spec.v — RFC 6979 "Deterministic Usage of DSA and ECDSA", sections 2.3 and 3.2,
   written from the RFC text over octet strings (not from pycoin's code).

   q      the (prime) group order, qlen its length in bits, rlen = 8*ceil(qlen/8)
   x      the private key, 0 < x < q
   h1     H(m), an octet string of hlen octets (step a is the caller's)
   HMAC_K(V) is the parameter `hmac K V`.

   2.3.2 bits2int: a bit string of length blen is truncated to its qlen leftmost bits when
         qlen < blen (otherwise padded on the left with zeros) and read as a big-endian integer.
   2.3.3 int2octets: a non-negative integer below q as a big-endian string of rlen/8 octets.
   2.3.4 bits2octets(b) = int2octets(bits2int(b) mod q).
   3.2   b. V = 0x01 0x01 ... 0x01 (hlen octets)      c. K = 0x00 ... 0x00
         d. K = HMAC_K(V || 0x00 || int2octets(x) || bits2octets(h1))     e. V = HMAC_K(V)
         f. K = HMAC_K(V || 0x01 || int2octets(x) || bits2octets(h1))     g. V = HMAC_K(V)
         h. loop: 1. T = empty   2. while tlen < qlen: V = HMAC_K(V); T = T || V
                  3. k = bits2int(T); if 1 <= k <= q-1 return k;
                     else K = HMAC_K(V || 0x00); V = HMAC_K(V) and loop.
   Step h need not terminate for an arbitrary function `hmac`: the loop carries a fuel and the
   result is None when it runs out (the inner loop 2 likewise: one round per octet of rlen/8, plus one,
   is enough as soon as HMAC outputs are non-empty). *)
From PV Require Import Base.Bytes.
Local Open Scope Z_scope.

(* big-endian octet string -> integer *)
Definition octets_to_int (b : bytes) : Z := fold_left (fun acc o => acc * 256 + b2z o) b 0.

(* integer -> w octets, big-endian (the low-order w octets) *)
Fixpoint int_to_octets (w : nat) (v : Z) : bytes :=
  match w with
  | O => []
  | S w' => int_to_octets w' (v / 256) ++ [z2b (v mod 256)]
  end.

Definition qlen_of (q : Z) : Z := Z.log2 q + 1.          (* q > 0 *)

Section Spec.
  Variable hmac : bytes -> bytes -> bytes.
  Variable q : Z.

  Definition qlen : Z := qlen_of q.
  Definition rolen : nat := Z.to_nat ((qlen + 7) / 8).      (* rlen / 8 *)

  Definition bits2int (b : bytes) : Z :=
    let blen := 8 * Z.of_nat (length b) in
    if qlen <? blen then octets_to_int b / 2 ^ (blen - qlen) else octets_to_int b.

  Definition int2octets (v : Z) : bytes := int_to_octets rolen v.

  Definition bits2octets (b : bytes) : bytes := int2octets (bits2int b mod q).

  (* step h.2 *)
  Fixpoint spec_T (fuel : nat) (K V T : bytes) : option (bytes * bytes) :=
    match fuel with
    | O => None
    | S f =>
      if 8 * Z.of_nat (length T) <? qlen then
        let V := hmac K V in spec_T f K V (T ++ V)
      else Some (V, T)
    end.

  (* step h *)
  Fixpoint spec_h (fuel : nat) (K V : bytes) : option Z :=
    match fuel with
    | O => None
    | S f =>
      match spec_T (S rolen) K V [] with
      | None => None
      | Some (V, T) =>
        let k := bits2int T in
        if (1 <=? k) && (k <=? q - 1) then Some k
        else
          let K := hmac K (V ++ [x00]) in
          let V := hmac K V in
          spec_h f K V
      end
    end.

  Definition rfc6979_k (fuel : nat) (x : Z) (h1 : bytes) : option Z :=
    let hlen := length h1 in
    let V := repeatb x01 hlen in                                            (* b *)
    let K := repeatb x00 hlen in                                            (* c *)
    let K := hmac K (V ++ [x00] ++ int2octets x ++ bits2octets h1) in       (* d *)
    let V := hmac K V in                                                    (* e *)
    let K := hmac K (V ++ [x01] ++ int2octets x ++ bits2octets h1) in       (* f *)
    let V := hmac K V in                                                    (* g *)
    spec_h fuel K V.                                                        (* h *)
End Spec.
