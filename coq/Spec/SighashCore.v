(* Spec/SighashCore.v — what CONSENSUS says a signature commits to (property C04).
   Written from Bitcoin Core's script/interpreter.cpp (GetScriptOp, FindAndDelete,
   CTransactionSignatureSerializer, SignatureHash) and from the text of BIP143 as summarised in
   DESIGN.md Appendix A — NOT from pycoin.  It is a streaming serializer indexed by input/output
   NUMBER (no temporary transaction is built) and FindAndDelete works on raw bytes with a
   starts-with test, as in Core.  Imports only the byte library: the compact-size writer is
   restated here.  Pure total functions (Core's fixed-width fields: `le_encode w` truncates).

   Remark on undecodable scripts.  A script holding a truncated push can never take part in a
   successful evaluation (EvalScript decodes every instruction, also in dead branches), so what
   the serializer does with it is not observable by consensus.  `core_get_op` still records how
   far Core's iterator has moved when GetScriptOp fails (`GFail adv`), because
   SerializeScriptCode's last write uses that iterator.  For the legacy digest two formulations of
   Core are given: today's streaming serializer (`core_signature_hash_legacy`) and the original
   FindAndDelete(OP_CODESEPARATOR) one (`core_signature_hash_old`, Core's SignatureHashOld test
   reference); they agree on decodable scripts (`core_decodable`), which is all consensus can observe. *)
From PV Require Import Base.Bytes.
Local Open Scope N_scope.

(* ---- transactions as Core sees them ---------------------------------------------------------- *)
Record COutPoint := mkOutPoint { op_hash : bytes (* uint256: 32 bytes *); op_n : N }.
Record CTxIn := mkCTxIn { in_prevout : COutPoint; in_scriptSig : bytes; in_nSequence : N }.
Record CTxOut := mkCTxOut { out_nValue : N; out_scriptPubKey : bytes }.
Record CTransaction := mkCTx { ctx_nVersion : N; ctx_vin : list CTxIn; ctx_vout : list CTxOut; ctx_nLockTime : N }.

Definition SIGHASH_ALL := 1.
Definition SIGHASH_NONE := 2.
Definition SIGHASH_SINGLE := 3.
Definition SIGHASH_FORKID := 64.          (* 0x40, Bitcoin Cash / Bitcoin Gold replay protection *)
Definition SIGHASH_ANYONECANPAY := 128.   (* 0x80 *)
Definition OP_PUSHDATA1 := 76.
Definition OP_PUSHDATA2 := 77.
Definition OP_PUSHDATA4 := 78.
Definition OP_CODESEPARATOR := 171.       (* 0xab *)

(* ---- serialization primitives ------------------------------------------------------------------ *)
Definition le32 (v : N) : bytes := le_encode 4 v.
Definition le64 (v : N) : bytes := le_encode 8 v.

(* WriteCompactSize *)
Definition compact_size (n : N) : bytes :=
  if n <? 253 then [n2b n]
  else if n <=? 65535 then xfd :: le_encode 2 n
  else if n <=? 4294967295 then xfe :: le_encode 4 n
  else xff :: le_encode 8 n.

Definition ser_script (s : bytes) : bytes := compact_size (N.of_nat (length s)) ++ s.
Definition ser_outpoint (o : COutPoint) : bytes := op_hash o ++ le32 (op_n o).
Definition ser_txout (o : CTxOut) : bytes := le64 (out_nValue o) ++ ser_script (out_scriptPubKey o).
(* CTxOut() / SetNull(): nValue = -1 as int64, empty script *)
Definition null_txout : CTxOut := mkCTxOut (2 ^ 64 - 1) [].

Definition null_outpoint : COutPoint := mkOutPoint [] 0.
Definition null_txin : CTxIn := mkCTxIn null_outpoint [] 0.

(* ---- GetScriptOp on the bytes still unread ----------------------------------------------------- *)
Inductive getop_result :=
| GOk (opcode : N) (len : nat)   (* a complete instruction of len bytes *)
| GFail (adv : nat).             (* failure; the iterator had moved adv bytes (end of script: 0) *)

Definition core_get_op (s : bytes) : getop_result :=
  match s with
  | [] => GFail 0
  | b :: r =>
    let opcode := b2n b in
    if opcode <=? OP_PUSHDATA4 then
      (* width of the length field *)
      let w := if opcode <? OP_PUSHDATA1 then 0%nat else if opcode =? OP_PUSHDATA1 then 1%nat
               else if opcode =? OP_PUSHDATA2 then 2%nat else 4%nat in
      if (length r <? w)%nat then GFail 1
      else
        let nSize := if opcode <? OP_PUSHDATA1 then opcode else le_decode (firstn w r) in
        if N.of_nat (length r - w) <? nSize then GFail (1 + w)
        else GOk opcode (1 + w + N.to_nat nSize)
    else GOk opcode 1
  end.

(* every instruction of the script decodes *)
Fixpoint decodable_fuel (fuel : nat) (s : bytes) : bool :=
  match s with
  | [] => true
  | _ => match fuel with
         | O => false
         | S f => match core_get_op s with
                  | GOk _ len => decodable_fuel f (skipn len s)
                  | GFail _ => false
                  end
         end
  end.
Definition core_decodable (s : bytes) : bool := decodable_fuel (length s) s.

(* ---- FindAndDelete(script, b) ------------------------------------------------------------------
   do { copy [pc2,pc); while (the bytes at pc start with b) pc += |b|; pc2 = pc; } while (GetOp(pc));
   then copy [pc2,end).  One loop below: at an instruction boundary either an occurrence of b is
   skipped, or one instruction is decoded and copied; when GetOp fails the rest is copied verbatim. *)
Fixpoint is_prefix (p s : bytes) : bool :=
  match p, s with
  | [], _ => true
  | x :: p', y :: s' => byte_eqb x y && is_prefix p' s'
  | _ :: _, [] => false
  end.

Fixpoint fad_fuel (fuel : nat) (b s : bytes) : bytes :=
  match fuel with
  | O => s
  | S f =>
    if is_prefix b s then fad_fuel f b (skipn (length b) s)
    else match core_get_op s with
         | GOk _ len => firstn len s ++ fad_fuel f b (skipn len s)
         | GFail _ => s
         end
  end.
Definition core_find_and_delete (b s : bytes) : bytes :=
  match b with [] => s | _ => fad_fuel (length s) b s end.

(* CScript() << vch : the push Core builds for the signature it removes *)
Definition core_push (v : bytes) : bytes :=
  let n := N.of_nat (length v) in
  if n <? OP_PUSHDATA1 then n2b n :: v
  else if n <=? 255 then n2b OP_PUSHDATA1 :: le_encode 1 n ++ v
  else if n <=? 65535 then n2b OP_PUSHDATA2 :: le_encode 2 n ++ v
  else n2b OP_PUSHDATA4 :: le_encode 4 n ++ v.

(* the script code CHECKSIG / CHECKMULTISIG hash for SigVersion::BASE: every checked signature removed *)
Definition core_script_code_base (script : bytes) (sigs : list bytes) : bytes :=
  fold_left (fun sc sig => core_find_and_delete (core_push sig) sc) sigs script.

(* ---- CTransactionSignatureSerializer::SerializeScriptCode ---------------------------------------
   first pass counts the OP_CODESEPARATORs met before GetOp fails, the compact size written is
   |scriptCode| - count; the second pass writes the bytes between separators.  Emitting every
   non-separator instruction as it is passed gives the same byte sequence as Core's segment writes;
   the final write ends where the iterator stopped. *)
Fixpoint count_codeseps (fuel : nat) (s : bytes) : nat :=
  match fuel with
  | O => O
  | S f => match core_get_op s with
           | GOk op len => (if op =? OP_CODESEPARATOR then S (count_codeseps f (skipn len s)) else count_codeseps f (skipn len s))
           | GFail _ => O
           end
  end.
Fixpoint write_segments (fuel : nat) (s : bytes) : bytes :=
  match fuel with
  | O => []
  | S f => match core_get_op s with
           | GOk op len => if op =? OP_CODESEPARATOR then write_segments f (skipn len s)
                           else firstn len s ++ write_segments f (skipn len s)
           | GFail adv => firstn adv s
           end
  end.
Definition ser_script_code (scriptCode : bytes) : bytes :=
  compact_size (N.of_nat (length scriptCode - count_codeseps (length scriptCode) scriptCode))
  ++ write_segments (length scriptCode) scriptCode.

(* ---- legacy SignatureHash ------------------------------------------------------------------------ *)
Inductive core_sighash := CoreOne | CorePreimage (p : bytes).

Definition f_anyonecanpay (nHashType : N) : bool := negb (N.land nHashType SIGHASH_ANYONECANPAY =? 0).
Definition f_single (nHashType : N) : bool := N.land nHashType 31 =? SIGHASH_SINGLE.
Definition f_none (nHashType : N) : bool := N.land nHashType 31 =? SIGHASH_NONE.

(* the serializer takes the BYTES written for the script code of input nIn as a parameter, because Core has
   had two formulations of them (below) *)
Section Legacy.
Variables (scriptCodeBytes : bytes) (tx : CTransaction) (nIn : nat) (nHashType : N).
Notation fAnyoneCanPay := (f_anyonecanpay nHashType).
Notation fHashSingle := (f_single nHashType).
Notation fHashNone := (f_none nHashType).

Definition ser_input (nInput : nat) : bytes :=
  let nInput := if fAnyoneCanPay then nIn else nInput in
  let txin := nth nInput (ctx_vin tx) null_txin in
  ser_outpoint (in_prevout txin)
  ++ (if negb (nInput =? nIn)%nat then compact_size 0 else scriptCodeBytes)
  ++ (if negb (nInput =? nIn)%nat && (fHashSingle || fHashNone) then le32 0 else le32 (in_nSequence txin)).

Definition ser_output (nOutput : nat) : bytes :=
  if fHashSingle && negb (nOutput =? nIn)%nat then ser_txout null_txout
  else ser_txout (nth nOutput (ctx_vout tx) null_txout).

Definition ser_for_signature : bytes :=
  let nInputs := if fAnyoneCanPay then 1%nat else length (ctx_vin tx) in
  let nOutputs := if fHashNone then 0%nat else if fHashSingle then (nIn + 1)%nat else length (ctx_vout tx) in
  le32 (ctx_nVersion tx)
  ++ compact_size (N.of_nat nInputs) ++ flat_map ser_input (seq 0 nInputs)
  ++ compact_size (N.of_nat nOutputs) ++ flat_map ser_output (seq 0 nOutputs)
  ++ le32 (ctx_nLockTime tx).

Definition signature_hash_with : core_sighash :=
  if (length (ctx_vin tx) <=? nIn)%nat then CoreOne                       (* nIn out of range *)
  else if fHashSingle && (length (ctx_vout tx) <=? nIn)%nat then CoreOne  (* the SIGHASH_SINGLE bug *)
  else CorePreimage (ser_for_signature ++ le32 nHashType).
End Legacy.

(* (a) SignatureHash as Core computes it today: CTransactionSignatureSerializer::SerializeScriptCode *)
Definition core_signature_hash_legacy (scriptCode : bytes) :=
  signature_hash_with (ser_script_code scriptCode).
(* (b) the original formulation (Satoshi's client, kept as SignatureHashOld in Core's sighash_tests.cpp, against
   which the streaming serializer is tested): scriptCode.FindAndDelete(CScript(OP_CODESEPARATOR)), then the script
   serialized as a whole.  (a) = (b) on every decodable script; they differ on scripts with an undecodable
   instruction, which no successful evaluation can contain (remark at the top of this file). *)
Definition core_signature_hash_old (scriptCode : bytes) :=
  signature_hash_with (ser_script (core_find_and_delete [n2b OP_CODESEPARATOR] scriptCode)).

(* uint256 ONE as the 32 bytes that a digest would be *)
Definition uint256_one : bytes := x01 :: repeatb x00 31.

(* ---- BIP143 -------------------------------------------------------------------------------------- *)
Definition zero32 : bytes := repeatb x00 32.

Section Bip143.
Variable H : bytes -> bytes.   (* double SHA-256 in Bitcoin; single SHA-256 in Groestlcoin *)
Variables (scriptCode : bytes) (tx : CTransaction) (nIn : nat) (amount : N) (nHashType : N).
Notation fAnyoneCanPay := (f_anyonecanpay nHashType).
Notation fHashSingle := (f_single nHashType).
Notation fHashNone := (f_none nHashType).

Definition hashPrevouts : bytes :=
  if negb fAnyoneCanPay then H (flat_map (fun i => ser_outpoint (in_prevout i)) (ctx_vin tx)) else zero32.
Definition hashSequence : bytes :=
  if negb fAnyoneCanPay && negb fHashSingle && negb fHashNone
  then H (flat_map (fun i => le32 (in_nSequence i)) (ctx_vin tx)) else zero32.
Definition hashOutputs : bytes :=
  if negb fHashSingle && negb fHashNone then H (flat_map ser_txout (ctx_vout tx))
  else if fHashSingle && (nIn <? length (ctx_vout tx))%nat
       then H (ser_txout (nth nIn (ctx_vout tx) null_txout))
  else zero32.

Definition bip143_preimage : bytes :=
  let txin := nth nIn (ctx_vin tx) null_txin in
  le32 (ctx_nVersion tx) ++ hashPrevouts ++ hashSequence ++ ser_outpoint (in_prevout txin)
  ++ ser_script scriptCode ++ le64 amount ++ le32 (in_nSequence txin) ++ hashOutputs
  ++ le32 (ctx_nLockTime tx) ++ le32 nHashType.
End Bip143.

(* ---- fork-id digests (Bitcoin Cash: fork id 0, Bitcoin Gold: 79) --------------------------------
   refused (None) without SIGHASH_FORKID; otherwise the BIP143 preimage with nHashType | forkid << 8 *)
Definition FORKID_BCH := 0.
Definition FORKID_BTG := 79.
Definition forkid_preimage (H : bytes -> bytes) (forkid : N) (scriptCode : bytes) (tx : CTransaction)
    (nIn : nat) (amount nHashType : N) : option bytes :=
  if N.land nHashType SIGHASH_FORKID =? 0 then None
  else Some (bip143_preimage H scriptCode tx nIn amount (N.lor nHashType (N.shiftl forkid 8))).
