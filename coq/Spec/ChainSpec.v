(* Spec/ChainSpec.v — what property C15 says, independently of ChainFinder's data structures.
   Headers delivered so far are a finite list [D] of (hash, parent, weight); a chain is listed from the
   anchor outward (index order, as hash_for_index reports it). *)
From Coq Require Import List NArith ZArith Bool.
From PV Require Import Base.Outcome Model.Chain.
Import ListNotations.
Local Open Scope N_scope.

(* ---------------------------------------------------------------- chains and weights *)
Inductive is_chain (D : list header) : hash -> list hash -> Prop :=
| ic_nil : forall a, is_chain D a []
| ic_cons : forall a x c, In x D -> hp x = a -> is_chain D (hh x) c -> is_chain D a (hh x :: c).

Definition find_header (D : list header) (h : hash) : option header := find (fun x => hh x =? h) D.
Definition spec_weight (D : list header) (h : hash) : Z :=
  match find_header D h with Some x => hw x | None => 0%Z end.
Definition cweight (D : list header) (c : list hash) : Z :=
  fold_right (fun h acc => (spec_weight D h + acc)%Z) 0%Z c.

(* "a maximum-total-weight chain descending from the anchor among the headers delivered so far" *)
Definition heaviest (D : list header) (a : hash) (c : list hash) : Prop :=
  is_chain D a c /\ forall c', is_chain D a c' -> (cweight D c' <= cweight D c)%Z.

(* ---------------------------------------------------------------- ops replay, index maps *)
Fixpoint apply_ops (ops : list op) (l : list hash) : option (list hash) :=
  match ops with
  | [] => Some l
  | (true, h, i) :: r =>
    if (i =? Z.of_nat (length l))%Z then apply_ops r (l ++ [h]) else None
  | (false, h, i) :: r =>
    match rev l with
    | x :: _ => if (x =? h) && (i =? Z.of_nat (length l) - 1)%Z then apply_ops r (removelast l) else None
    | [] => None
    end
  end.

Definition maps_agree (chain : list hash) (m : dict Z) : Prop :=
  (forall i h, nth_error chain i = Some h -> dget h m = Some (Z.of_nat i)) /\
  (forall h z, dget h m = Some z -> exists i, z = Z.of_nat i /\ nth_error chain i = Some h).

(* ---------------------------------------------------------------- histories *)
Definition headers_of (ev : event) : list header :=
  match ev with Deliver hs _ _ => hs | Lock _ _ _ => [] end.
Definition all_headers (evs : list event) : list header := flat_map headers_of evs.

(* the headers form a forest: a rank (e.g. the block height) decreases towards the parent; a hash determines its
   header; weights are positive.  The anchor may or may not be the hash of one of the headers (a BlockChain can be
   anchored at a checkpoint block whose header, and whose ancestors' headers, peers still send). *)
Definition wf_headers (D : list header) : Prop :=
  (exists rk : hash -> nat, forall x, In x D -> (rk (hp x) < rk (hh x))%nat) /\
  (forall x y, In x D -> In y D -> hh x = hh y -> x = y) /\
  (forall x, In x D -> (0 < hw x)%Z).
(* the headers handed to preload_locked_blocks form a chain from the anchor *)
Fixpoint chain_headers (a : hash) (pre : list header) : Prop :=
  match pre with [] => True | x :: r => hp x = a /\ chain_headers (hh x) r end.

(* the anchor below the unlocked part of a reported chain *)
Definition snapshot_anchor (anchor : hash) (s : snapshot) : hash :=
  match s_locked s with O => anchor | S k => nth k (s_chain s) 0 end.

(* [base]: the preloaded part of the chain (no op was ever returned for it) *)
Definition good_snapshot (anchor : hash) (base : list hash) (D : list header) (allops : list op) (s : snapshot) : Prop :=
  is_chain D anchor (s_chain s) /\
  heaviest D (snapshot_anchor anchor s) (skipn (s_locked s) (s_chain s)) /\
  maps_agree (s_chain s) (s_h2i s) /\
  apply_ops allops base = Some (s_chain s).

Definition ops_of (s : snapshot) : list op := match s_ops s with Some o => o | None => [] end.

Fixpoint good_trace (anchor : hash) (base : list hash) (D : list header) (allops : list op) (evs : list event)
  (tr : list snapshot) : Prop :=
  match evs, tr with
  | ev :: evs', s :: tr' =>
    let D' := D ++ headers_of ev in
    let ops' := allops ++ ops_of s in
    good_snapshot anchor base D' ops' s /\ good_trace anchor base D' ops' evs' tr'
  | _, _ => True
  end.

(* ---------------------------------------------------------------- executable spec functions *)
(* all chains from [a] of length <= fuel *)
Fixpoint chains_from (fuel : nat) (D : list header) (a : hash) : list (list hash) :=
  match fuel with
  | O => [[]]
  | S f => [] :: flat_map (fun x => if hp x =? a then map (cons (hh x)) (chains_from f D (hh x)) else []) D
  end.
Definition max_weight (D : list header) (cs : list (list hash)) : Z :=
  fold_right (fun c m => Z.max (cweight D c) m) 0%Z cs.
(* ---------------------------------------------------------------- the ChainFinder invariant (DESIGN.md appendix D) *)
(* [inset d t b]: b is a member of the set stored under key t *)
Definition inset (d : dict (list hash)) (t b : hash) : Prop := exists s, dget t d = Some s /\ In b s.
(* [ppath p P b l] — l = b, parent b, ..., t where every element but the last satisfies P and the last one
   (the "top") does not *)
Inductive ppath (p : dict hash) (P : hash -> Prop) : hash -> list hash -> Prop :=
| pp_top : forall t, ~ P t -> ppath p P t [t]
| pp_step : forall b b' l, P b -> dget b p = Some b' -> ppath p P b' l -> ppath p P b (b :: l).
Definition kn (p : dict hash) (x : hash) : Prop := dget x p <> None.
Definition dbt_ok (cf : finder) : Prop :=
  forall t b, inset (dbt cf) t b <-> exists l, dget b (tfb cf) = Some l /\ last l 0 = t.
Definition nodup_ok (cf : finder) : Prop := forall t s, dget t (dbt cf) = Some s -> NoDup s.
(* every stored tree is the full path from its bottom to the first hash without a known parent; the sets of
   descendents_by_top list exactly the bottoms by top; every known hash lies on a stored path *)
Definition finder_ok (cf : finder) : Prop :=
  (forall b l, dget b (tfb cf) = Some l -> kn (pl cf) b /\ ppath (pl cf) (kn (pl cf)) b l) /\
  dbt_ok cf /\ nodup_ok cf /\
  (forall x, kn (pl cf) x -> exists b l, dget b (tfb cf) = Some l /\ In x l) /\
  NoDup (map fst (tfb cf)).
(* chains in a parent map, listed from the anchor outward *)
Inductive pchain (p : dict hash) : hash -> list hash -> Prop :=
| pc_nil : forall a, pchain p a []
| pc_cons : forall a h c, dget h p = Some a -> pchain p h c -> pchain p a (h :: c).
(* the chain (leaf first, anchor removed) that _longest_local_block_chain computes *)
Definition reported (pref : list hash) (a : hash) (w : dict Z) (cf : finder) (c : list hash) : Prop :=
  exists cs, all_chains_ending_at pref a cf = Ret cs /\ c = removelast (best_chain w cs 0%Z []).
