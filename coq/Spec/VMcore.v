(* Spec/VMcore.v — Bitcoin Core's script interpreter (interpreter.cpp, segwit-era, pre-taproot vintage:
   NULLFAIL, MINIMALIF, WITNESS_PUBKEYTYPE present; vector<bool> vfExec; un-flagged CLTV/CSV subject to
   DISCOURAGE_UPGRADABLE_NOPS; no CONST_SCRIPTCODE; no TAPROOT), transcribed as total Gallina functions.
   This is the SPEC side of C03 (DESIGN.md section 6 "C03" and Appendix A).  It is written from Core's
   code, not from pycoin's: opcode numbers, limits and the order of the checks are Core's literals.
   Only the flag *bit positions* are read from Gen/GenFlags.v (the flags word is pycoin's API) and the
   script-number codec is the C12 model (proved a canonical bijection in Props/C12.v).

   Internally every function returns `cres` = success | Core's ScriptError class; the public entry
   points `EvalScript` / `VerifyScript` forget the class (`vres` of Spec/VMTypes.v).  The error
   class is kept so that the transcription can be validated against the expected error column of
   Core's own script_tests.json (harness/c03_spec.py: validate_spec_on_vectors).

   Conventions: internal stacks have the TOP at the HEAD of the list (Core's `stacktop(-1)` = `hd`);
   the public functions take/return stacks with the top LAST, as VMTypes.v prescribes.
   `pc` is represented by the not-yet-read suffix of the script, `pbegincodehash` likewise. *)
From PV Require Import Base.Bytes Base.Outcome Gen.GenFlags Spec.VMTypes Model.ScriptNum.
Local Open Scope N_scope.

(* ---------------------------------------------------------------------------------------------- *)
(* Core's ScriptError (script_error.h) *)
Inductive script_err : Set :=
| SE_UNKNOWN_ERROR | SE_EVAL_FALSE | SE_OP_RETURN
| SE_SCRIPT_SIZE | SE_PUSH_SIZE | SE_OP_COUNT | SE_STACK_SIZE | SE_SIG_COUNT | SE_PUBKEY_COUNT
| SE_VERIFY | SE_EQUALVERIFY | SE_CHECKMULTISIGVERIFY | SE_CHECKSIGVERIFY | SE_NUMEQUALVERIFY
| SE_BAD_OPCODE | SE_DISABLED_OPCODE | SE_INVALID_STACK_OPERATION | SE_INVALID_ALTSTACK_OPERATION
| SE_UNBALANCED_CONDITIONAL
| SE_NEGATIVE_LOCKTIME | SE_UNSATISFIED_LOCKTIME
| SE_SIG_HASHTYPE | SE_SIG_DER | SE_MINIMALDATA | SE_SIG_PUSHONLY | SE_SIG_HIGH_S | SE_SIG_NULLDUMMY
| SE_PUBKEYTYPE | SE_CLEANSTACK | SE_MINIMALIF | SE_SIG_NULLFAIL
| SE_DISCOURAGE_UPGRADABLE_NOPS | SE_DISCOURAGE_UPGRADABLE_WITNESS_PROGRAM
| SE_WITNESS_PROGRAM_WRONG_LENGTH | SE_WITNESS_PROGRAM_WITNESS_EMPTY | SE_WITNESS_PROGRAM_MISMATCH
| SE_WITNESS_MALLEATED | SE_WITNESS_MALLEATED_P2SH | SE_WITNESS_UNEXPECTED | SE_WITNESS_PUBKEYTYPE.

Inductive cres (A : Type) : Type :=
| COk (a : A)
| CErr (e : script_err)
| CFuel.                       (* never returned: see eval_loop_fuel_ok below *)
Arguments COk {A} a.
Arguments CErr {A} e.
Arguments CFuel {A}.

Definition cbind {A B} (m : cres A) (f : A -> cres B) : cres B :=
  match m with COk a => f a | CErr e => CErr e | CFuel => CFuel end.
Declare Scope cres_scope.
Delimit Scope cres_scope with cres.
Notation "'cdo' x <- m ; k" := (cbind m (fun x => k))
  (at level 200, x name, m at level 100, k at level 200, right associativity) : cres_scope.
Notation "'cdo' '_' <- m ; k" := (cbind m (fun _ => k))
  (at level 200, m at level 100, k at level 200, right associativity) : cres_scope.
Local Open Scope cres_scope.

Definition guard (b : bool) (e : script_err) : cres unit := if b then COk tt else CErr e.

(* ---------------------------------------------------------------------------------------------- *)
(* constants of script.h / interpreter.cpp / transaction.h *)
Definition MAX_SCRIPT_ELEMENT_SIZE : N := 520.
Definition MAX_OPS_PER_SCRIPT : N := 201.
Definition MAX_PUBKEYS_PER_MULTISIG : Z := 20.
Definition MAX_SCRIPT_SIZE : N := 10000.
Definition MAX_STACK_ITEMS : N := 1000.
Definition LOCKTIME_THRESHOLD : N := 500000000.
Definition SEQUENCE_FINAL : N := 4294967295.
Definition SEQ_LOCKTIME_DISABLE_FLAG : N := 2147483648.   (* 1 << 31 *)
Definition SEQ_LOCKTIME_TYPE_FLAG : N := 4194304.          (* 1 << 22 *)
Definition SEQ_LOCKTIME_MASK : N := 65535.

Definition len (b : bytes) : N := N.of_nat (length b).
Definition depth (s : list bytes) : N := N.of_nat (length s).

(* ---------------------------------------------------------------------------------------------- *)
(* CScript::GetOp (GetOp2): opcode byte, pushed data, remaining script; None = false (truncated).
   The data length is compared in N before any conversion to nat. *)
Definition take_n (n : N) (s : bytes) : option (bytes * bytes) :=
  if len s <? n then None else let k := N.to_nat n in Some (firstn k s, skipn k s).

Definition get_op (s : bytes) : option (byte * bytes * bytes) :=
  match s with
  | [] => None
  | op :: r =>
    let o := b2n op in
    if 78 <? o then Some (op, [], r)                                   (* opcode > OP_PUSHDATA4 *)
    else if o <? 76 then                                               (* direct push of o bytes *)
      match take_n o r with Some (d, r') => Some (op, d, r') | None => None end
    else
      let w := if o =? 76 then 1%nat else if o =? 77 then 2%nat else 4%nat in
      if (length r <? w)%nat then None
      else match take_n (le_decode (firstn w r)) (skipn w r) with
           | Some (d, r') => Some (op, d, r')
           | None => None
           end
  end.

(* `CScript() << vch` : the push encoding used by FindAndDelete and by the P2SH-witness malleability
   test.  NOT the minimal push: a one-byte value 1..16 is still `01 xx`. *)
Definition push_encode (d : bytes) : bytes :=
  let n := len d in
  if n <? 76 then n2b n :: d
  else if n <=? 255 then x4c :: n2b n :: d
  else if n <=? 65535 then x4d :: le_encode 2 n ++ d
  else x4e :: le_encode 4 n ++ d.

Fixpoint is_prefix (p s : bytes) : bool :=
  match p, s with
  | [], _ => true
  | a :: p', b :: s' => byte_eqb a b && is_prefix p' s'
  | _ :: _, [] => false
  end.

(* CScript::FindAndDelete(b) on raw bytes: at every opcode boundary skip all consecutive copies of b,
   then copy one opcode; when GetOp fails the rest is copied verbatim. *)
Fixpoint fad_loop (fuel : nat) (b s : bytes) : bytes :=
  match fuel with
  | O => s
  | S f =>
    if is_prefix b s then fad_loop f b (skipn (length b) s)
    else match get_op s with
         | Some (_, _, rest) => firstn (length s - length rest) s ++ fad_loop f b rest
         | None => s
         end
  end.
Definition find_and_delete (b s : bytes) : bytes :=
  match b with [] => s | _ => fad_loop (S (length s)) b s end.

(* ---------------------------------------------------------------------------------------------- *)
(* CastToBool, CScriptNum, CheckMinimalPush *)
Fixpoint cast_to_bool (v : bytes) : bool :=
  match v with
  | [] => false
  | b :: r => if b2n b =? 0 then cast_to_bool r
              else match r with [] => negb (b2n b =? 128) | _ => true end   (* negative zero *)
  end.

(* CScriptNum(vch, fRequireMinimal, nMaxNumSize): scriptnum_error is caught by EvalScript's
   try/catch and reported as UNKNOWN_ERROR *)
Definition script_num (require_minimal : bool) (max_size : N) (v : bytes) : cres Z :=
  if max_size <? len v then CErr SE_UNKNOWN_ERROR
  else match int_from_script_bytes v require_minimal with
       | Ret z => COk z
       | _ => CErr SE_UNKNOWN_ERROR
       end.
(* CScriptNum::getvec *)
Definition num_vec (z : Z) : bytes := match int_to_script_bytes z with Ret b => b | _ => [] end.
Definition bool_vec (b : bool) : bytes := if b then [x01] else [].

Definition check_minimal_push (data : bytes) (opcode : N) : bool :=
  match data with
  | [] => opcode =? 0                                                  (* OP_0 *)
  | [b] =>
    let v := b2n b in
    if (1 <=? v) && (v <=? 16) then opcode =? 80 + v                   (* OP_1 + (v-1) *)
    else if v =? 129 then opcode =? 79                                 (* OP_1NEGATE *)
    else opcode =? 1
  | _ =>
    let n := len data in
    if n <=? 75 then opcode =? n
    else if n <=? 255 then opcode =? 76
    else if n <=? 65535 then opcode =? 77
    else true
  end.

(* ---------------------------------------------------------------------------------------------- *)
(* signature / public key encoding rules *)
Definition at_ (s : bytes) (i : N) : N := b2n (nth (N.to_nat i) s x00).

(* IsValidSignatureEncoding: the BIP66 shape test, rule by rule, in Core's order *)
Definition is_valid_signature_encoding (sig : bytes) : bool :=
  let sz := len sig in
  if sz <? 9 then false else
  if 73 <? sz then false else
  if negb (at_ sig 0 =? 48) then false else                            (* 0x30 *)
  if negb (at_ sig 1 =? sz - 3) then false else
  let lenR := at_ sig 3 in
  if sz <=? 5 + lenR then false else
  let lenS := at_ sig (5 + lenR) in
  if negb (lenR + lenS + 7 =? sz) then false else
  if negb (at_ sig 2 =? 2) then false else
  if lenR =? 0 then false else
  if negb (N.land (at_ sig 4) 128 =? 0) then false else
  if (1 <? lenR) && (at_ sig 4 =? 0) && (N.land (at_ sig 5) 128 =? 0) then false else
  if negb (at_ sig (lenR + 4) =? 2) then false else
  if lenS =? 0 then false else
  if negb (N.land (at_ sig (lenR + 6)) 128 =? 0) then false else
  if (1 <? lenS) && (at_ sig (lenR + 6) =? 0) && (N.land (at_ sig (lenR + 7)) 128 =? 0) then false else
  true.

(* CPubKey::CheckLowS on a signature already known to be strict DER: the lax parser reads the same
   r and s; when r or s is not below the group order the parsed signature is replaced by the all-zero
   one, whose s is not "high" — so such a signature PASSES the low-S test (and later fails to verify). *)
Definition der_r (sig : bytes) : N := be_decode (firstn (N.to_nat (at_ sig 3)) (skipn 4 sig)).
Definition der_s (sig : bytes) : N :=
  let lenR := at_ sig 3 in
  be_decode (firstn (N.to_nat (at_ sig (5 + lenR))) (skipn (N.to_nat (6 + lenR)) sig)).
Definition check_low_s (order : N) (sig : bytes) : bool :=
  let r := der_r sig in let s := der_s sig in
  if (order <=? r) || (order <=? s) then true else s <=? order / 2.

Definition is_defined_hashtype_signature (sig : bytes) : bool :=
  match rev sig with
  | [] => false
  | h :: _ => let t := N.land (b2n h) 127 in (1 <=? t) && (t <=? 3)    (* & ~SIGHASH_ANYONECANPAY *)
  end.

Definition check_signature_encoding (order flags : N) (sig : bytes) : cres unit :=
  match sig with
  | [] => COk tt
  | _ =>
    if (flag_set flags VERIFY_DERSIG || flag_set flags VERIFY_LOW_S || flag_set flags VERIFY_STRICTENC)
       && negb (is_valid_signature_encoding sig) then CErr SE_SIG_DER
    else if flag_set flags VERIFY_LOW_S && negb (check_low_s order sig) then CErr SE_SIG_HIGH_S
    else if flag_set flags VERIFY_STRICTENC && negb (is_defined_hashtype_signature sig) then CErr SE_SIG_HASHTYPE
    else COk tt
  end.

Definition is_compressed_or_uncompressed_pubkey (k : bytes) : bool :=
  if len k <? 33 then false
  else let h := at_ k 0 in
       if h =? 4 then len k =? 65
       else if (h =? 2) || (h =? 3) then len k =? 33
       else false.
Definition is_compressed_pubkey (k : bytes) : bool :=
  (len k =? 33) && ((at_ k 0 =? 2) || (at_ k 0 =? 3)).

Definition check_pubkey_encoding (flags : N) (sv : sigversion) (k : bytes) : cres unit :=
  if flag_set flags VERIFY_STRICTENC && negb (is_compressed_or_uncompressed_pubkey k) then CErr SE_PUBKEYTYPE
  else if flag_set flags VERIFY_WITNESS_PUBKEYTYPE
          && match sv with SV_WITNESS_V0 => true | SV_BASE => false end
          && negb (is_compressed_pubkey k) then CErr SE_WITNESS_PUBKEYTYPE
  else COk tt.

(* TransactionSignatureChecker::CheckSig: an empty signature is false without further work *)
Definition run_checksig (o : oracles) (sig key code : bytes) (sv : sigversion) : bool :=
  match sig with [] => false | _ => o_checksig o sig key code sv end.

(* CheckLockTime / CheckSequence of TransactionSignatureChecker; n >= 0 *)
Definition check_lock_time (ctx : txctx) (n : N) : bool :=
  let lt := tc_lock_time ctx in
  (((lt <? LOCKTIME_THRESHOLD) && (n <? LOCKTIME_THRESHOLD))
   || ((LOCKTIME_THRESHOLD <=? lt) && (LOCKTIME_THRESHOLD <=? n)))
  && (n <=? lt)
  && negb (tc_sequence ctx =? SEQUENCE_FINAL).

Definition check_sequence (ctx : txctx) (n : N) : bool :=
  let txseq := tc_sequence ctx in
  if tc_version ctx <? 2 then false else                                (* static_cast<uint32_t>(nVersion) < 2 *)
  if negb (N.land txseq SEQ_LOCKTIME_DISABLE_FLAG =? 0) then false else
  let mask := N.lor SEQ_LOCKTIME_TYPE_FLAG SEQ_LOCKTIME_MASK in
  let a := N.land txseq mask in
  let b := N.land n mask in
  (((a <? SEQ_LOCKTIME_TYPE_FLAG) && (b <? SEQ_LOCKTIME_TYPE_FLAG))
   || ((SEQ_LOCKTIME_TYPE_FLAG <=? a) && (SEQ_LOCKTIME_TYPE_FLAG <=? b)))
  && (b <=? a).

(* ---------------------------------------------------------------------------------------------- *)
(* interpreter state *)
Record est := { e_stack : list bytes;     (* head = top *)
                e_alt : list bytes;       (* head = top *)
                e_vf : list bool;         (* vfExec, head = back() *)
                e_opc : N;                (* nOpCount *)
                e_bch : bytes }.          (* script from pbegincodehash to pend *)

Definition set_stack (s : est) (st : list bytes) : est :=
  {| e_stack := st; e_alt := e_alt s; e_vf := e_vf s; e_opc := e_opc s; e_bch := e_bch s |}.
Definition set_alt (s : est) (st al : list bytes) : est :=
  {| e_stack := st; e_alt := al; e_vf := e_vf s; e_opc := e_opc s; e_bch := e_bch s |}.
Definition set_vf (s : est) (st : list bytes) (vf : list bool) : est :=
  {| e_stack := st; e_alt := e_alt s; e_vf := vf; e_opc := e_opc s; e_bch := e_bch s |}.
Definition set_opc (s : est) (n : N) : est :=
  {| e_stack := e_stack s; e_alt := e_alt s; e_vf := e_vf s; e_opc := n; e_bch := e_bch s |}.
Definition set_bch (s : est) (c : bytes) : est :=
  {| e_stack := e_stack s; e_alt := e_alt s; e_vf := e_vf s; e_opc := e_opc s; e_bch := c |}.

Definition on_stack (s : est) (f : list bytes -> cres (list bytes)) : cres est :=
  cdo st <- f (e_stack s); COk (set_stack s st).

Definition ISO : script_err := SE_INVALID_STACK_OPERATION.

(* one numeric operand *)
Definition un_num (mn : bool) (f : Z -> Z) (st : list bytes) : cres (list bytes) :=
  match st with
  | a :: r => cdo n <- script_num mn 4 a; COk (num_vec (f n) :: r)
  | _ => CErr ISO
  end.
(* two numeric operands: bn1 = stacktop(-2), bn2 = stacktop(-1) *)
Definition bin_num (mn : bool) (f : Z -> Z -> Z) (st : list bytes) : cres (list bytes) :=
  match st with
  | b :: a :: r => cdo n1 <- script_num mn 4 a; cdo n2 <- script_num mn 4 b; COk (num_vec (f n1 n2) :: r)
  | _ => CErr ISO
  end.
Definition zb (b : bool) : Z := if b then 1%Z else 0%Z.
Definition znz (z : Z) : bool := negb (z =? 0)%Z.

Definition hash_op (h : bytes -> bytes) (st : list bytes) : cres (list bytes) :=
  match st with a :: r => COk (h a :: r) | _ => CErr ISO end.

(* remove the n-th element (0 = head) *)
Fixpoint remove_nth {A} (n : nat) (l : list A) : list A :=
  match n, l with
  | _, [] => []
  | O, _ :: r => r
  | S k, x :: r => x :: remove_nth k r
  end.

Definition op_pick_roll (mn roll : bool) (st : list bytes) : cres (list bytes) :=
  match st with
  | a :: (_ :: _) as r =>                                   (* stack.size() >= 2 *)
    cdo n <- script_num mn 4 a;
    if (n <? 0)%Z || (Z.of_nat (length r) <=? n)%Z then CErr ISO
    else let k := Z.to_nat n in
         let v := nth k r [] in
         COk (v :: (if roll then remove_nth k r else r))
  | _ => CErr ISO
  end.

(* OP_CHECKSIG / OP_CHECKSIGVERIFY *)
Definition op_checksig (o : oracles) (flags : N) (sv : sigversion) (verify : bool) (s : est) : cres est :=
  match e_stack s with
  | key :: sig :: r =>
    let code := match sv with
                | SV_BASE => find_and_delete (push_encode sig) (e_bch s)
                | SV_WITNESS_V0 => e_bch s
                end in
    cdo _ <- check_signature_encoding (o_order o) flags sig;
    cdo _ <- check_pubkey_encoding flags sv key;
    let ok := run_checksig o sig key code sv in
    if negb ok && flag_set flags VERIFY_NULLFAIL && negb (len sig =? 0) then CErr SE_SIG_NULLFAIL
    else if verify then (if ok then COk (set_stack s r) else CErr SE_CHECKSIGVERIFY)
    else COk (set_stack s (bool_vec ok :: r))
  | _ => CErr ISO
  end.

(* the signature/key matching loop of OP_CHECKMULTISIG: sigs and keys in the order Core visits them
   (top of stack first).  Structural on keys; `length sigs <= length keys` at every entry. *)
Fixpoint cms_loop (o : oracles) (flags : N) (sv : sigversion) (code : bytes)
         (sigs keys : list bytes) : cres bool :=
  match sigs with
  | [] => COk true
  | sig :: sigs' =>
    match keys with
    | [] => COk false
    | key :: keys' =>
      cdo _ <- check_signature_encoding (o_order o) flags sig;
      cdo _ <- check_pubkey_encoding flags sv key;
      let ok := run_checksig o sig key code sv in
      let sigs2 := if ok then sigs' else sigs in
      if (length keys' <? length sigs2)%nat then COk false
      else cms_loop o flags sv code sigs2 keys'
    end
  end.

Definition op_checkmultisig (o : oracles) (flags : N) (sv : sigversion) (mn verify : bool) (s : est) : cres est :=
  match e_stack s with
  | [] => CErr ISO
  | kc :: s1 =>
    cdo nk <- script_num mn 4 kc;
    if (nk <? 0)%Z || (MAX_PUBKEYS_PER_MULTISIG <? nk)%Z then CErr SE_PUBKEY_COUNT else
    let opc := e_opc s + Z.to_N nk in
    if MAX_OPS_PER_SCRIPT <? opc then CErr SE_OP_COUNT else
    let nkeys := Z.to_nat nk in
    (* i = 2 + nKeys: the signature-count item must exist *)
    if (length s1 <? nkeys + 1)%nat then CErr ISO else
    let keys := firstn nkeys s1 in
    match skipn nkeys s1 with
    | [] => CErr ISO
    | sc :: s3 =>
      cdo ns <- script_num mn 4 sc;
      if (ns <? 0)%Z || (nk <? ns)%Z then CErr SE_SIG_COUNT else
      let nsigs := Z.to_nat ns in
      (* i = 3 + nKeys + nSigs: the signatures AND the dummy element must exist *)
      if (length s3 <? nsigs + 1)%nat then CErr ISO else
      let sigs := firstn nsigs s3 in
      let code := match sv with
                  | SV_BASE => fold_left (fun c sg => find_and_delete (push_encode sg) c) sigs (e_bch s)
                  | SV_WITNESS_V0 => e_bch s
                  end in
      cdo ok <- cms_loop o flags sv code sigs keys;
      if negb ok && flag_set flags VERIFY_NULLFAIL && existsb (fun sg => negb (len sg =? 0)) sigs
      then CErr SE_SIG_NULLFAIL else
      match skipn nsigs s3 with
      | [] => CErr ISO
      | dummy :: r =>
        if flag_set flags VERIFY_NULLDUMMY && negb (len dummy =? 0) then CErr SE_SIG_NULLDUMMY else
        let s' := set_opc s opc in
        if verify then (if ok then COk (set_stack s' r) else CErr SE_CHECKMULTISIGVERIFY)
        else COk (set_stack s' (bool_vec ok :: r))
      end
    end
  end.

(* upgradable NOPs and the two lock-time opcodes *)
Definition op_nop_upgradable (flags : N) (s : est) : cres est :=
  if flag_set flags VERIFY_DISCOURAGE_UPGRADABLE_NOPS then CErr SE_DISCOURAGE_UPGRADABLE_NOPS else COk s.

Definition op_cltv (flags : N) (mn : bool) (ctx : txctx) (s : est) : cres est :=
  if negb (flag_set flags VERIFY_CHECKLOCKTIMEVERIFY) then op_nop_upgradable flags s else
  match e_stack s with
  | [] => CErr ISO
  | a :: _ =>
    cdo n <- script_num mn 5 a;
    if (n <? 0)%Z then CErr SE_NEGATIVE_LOCKTIME
    else if check_lock_time ctx (Z.to_N n) then COk s else CErr SE_UNSATISFIED_LOCKTIME
  end.

Definition op_csv (flags : N) (mn : bool) (ctx : txctx) (s : est) : cres est :=
  if negb (flag_set flags VERIFY_CHECKSEQUENCEVERIFY) then op_nop_upgradable flags s else
  match e_stack s with
  | [] => CErr ISO
  | a :: _ =>
    cdo n <- script_num mn 5 a;
    if (n <? 0)%Z then CErr SE_NEGATIVE_LOCKTIME
    else let nn := Z.to_N n in
         if negb (N.land nn SEQ_LOCKTIME_DISABLE_FLAG =? 0) then COk s
         else if check_sequence ctx nn then COk s else CErr SE_UNSATISFIED_LOCKTIME
  end.

(* OP_IF / OP_NOTIF *)
Definition op_if (flags : N) (sv : sigversion) (notif fExec : bool) (s : est) : cres est :=
  if fExec then
    match e_stack s with
    | [] => CErr SE_UNBALANCED_CONDITIONAL
    | v :: r =>
      let minimalif := match sv with SV_WITNESS_V0 => flag_set flags VERIFY_MINIMALIF | SV_BASE => false end in
      if minimalif && ((1 <? len v) || ((len v =? 1) && negb (at_ v 0 =? 1))) then CErr SE_MINIMALIF
      else let f := cast_to_bool v in
           COk (set_vf s r ((if notif then negb f else f) :: e_vf s))
    end
  else COk (set_vf s (e_stack s) (false :: e_vf s)).

(* the opcodes disabled since 2010: fail wherever they appear, executed or not *)
Definition is_disabled (op : byte) : bool :=
  match op with
  | x7e | x7f | x80 | x81 | x83 | x84 | x85 | x86            (* CAT SUBSTR LEFT RIGHT INVERT AND OR XOR *)
  | x8d | x8e | x95 | x96 | x97 | x98 | x99 => true            (* 2MUL 2DIV MUL DIV MOD LSHIFT RSHIFT *)
  | _ => false
  end.

(* the `switch (opcode)` of EvalScript for opcode > OP_PUSHDATA4, reached when fExec or for
   OP_IF..OP_ENDIF.  `rest` = script after this opcode (Core's pc). *)
Definition exec_op (o : oracles) (flags : N) (sv : sigversion) (ctx : txctx)
           (op : byte) (rest : bytes) (fExec : bool) (s : est) : cres est :=
  let mn := flag_set flags VERIFY_MINIMALDATA in
  match op with
  (* OP_1NEGATE, OP_1 .. OP_16 : push (int)opcode - (int)(OP_1 - 1) *)
  | x4f | x51 | x52 | x53 | x54 | x55 | x56 | x57 | x58 | x59 | x5a | x5b | x5c | x5d | x5e | x5f | x60 =>
    COk (set_stack s (num_vec (Z.of_N (b2n op) - 80) :: e_stack s))
  | x61 => COk s                                                                   (* OP_NOP *)
  | xb1 => op_cltv flags mn ctx s                                                  (* OP_CHECKLOCKTIMEVERIFY *)
  | xb2 => op_csv flags mn ctx s                                                   (* OP_CHECKSEQUENCEVERIFY *)
  | xb0 | xb3 | xb4 | xb5 | xb6 | xb7 | xb8 | xb9 => op_nop_upgradable flags s     (* NOP1, NOP4..NOP10 *)
  | x63 => op_if flags sv false fExec s                                            (* OP_IF *)
  | x64 => op_if flags sv true fExec s                                             (* OP_NOTIF *)
  | x67 =>                                                                         (* OP_ELSE *)
    match e_vf s with
    | [] => CErr SE_UNBALANCED_CONDITIONAL
    | b :: r => COk (set_vf s (e_stack s) (negb b :: r))
    end
  | x68 =>                                                                         (* OP_ENDIF *)
    match e_vf s with
    | [] => CErr SE_UNBALANCED_CONDITIONAL
    | _ :: r => COk (set_vf s (e_stack s) r)
    end
  | x69 =>                                                                         (* OP_VERIFY *)
    match e_stack s with
    | a :: r => if cast_to_bool a then COk (set_stack s r) else CErr SE_VERIFY
    | _ => CErr ISO
    end
  | x6a => CErr SE_OP_RETURN                                                       (* OP_RETURN *)
  | x6b => match e_stack s with                                                    (* OP_TOALTSTACK *)
           | a :: r => COk (set_alt s r (a :: e_alt s))
           | _ => CErr ISO
           end
  | x6c => match e_alt s with                                                      (* OP_FROMALTSTACK *)
           | a :: r => COk (set_alt s (a :: e_stack s) r)
           | _ => CErr SE_INVALID_ALTSTACK_OPERATION
           end
  | x6d => on_stack s (fun st => match st with _ :: _ :: r => COk r | _ => CErr ISO end)                  (* 2DROP *)
  | x6e => on_stack s (fun st => match st with b :: a :: r => COk (b :: a :: b :: a :: r) | _ => CErr ISO end)  (* 2DUP *)
  | x6f => on_stack s (fun st => match st with
                                 | c :: b :: a :: r => COk (c :: b :: a :: c :: b :: a :: r)
                                 | _ => CErr ISO end)                                                      (* 3DUP *)
  | x70 => on_stack s (fun st => match st with
                                 | d :: c :: b :: a :: r => COk (b :: a :: d :: c :: b :: a :: r)
                                 | _ => CErr ISO end)                                                      (* 2OVER *)
  | x71 => on_stack s (fun st => match st with
                                 | f :: e :: d :: c :: b :: a :: r => COk (b :: a :: f :: e :: d :: c :: r)
                                 | _ => CErr ISO end)                                                      (* 2ROT *)
  | x72 => on_stack s (fun st => match st with
                                 | d :: c :: b :: a :: r => COk (b :: a :: d :: c :: r)
                                 | _ => CErr ISO end)                                                      (* 2SWAP *)
  | x73 => on_stack s (fun st => match st with
                                 | a :: r => COk (if cast_to_bool a then a :: a :: r else a :: r)
                                 | _ => CErr ISO end)                                                      (* IFDUP *)
  | x74 => on_stack s (fun st => COk (num_vec (Z.of_nat (length st)) :: st))                               (* DEPTH *)
  | x75 => on_stack s (fun st => match st with _ :: r => COk r | _ => CErr ISO end)                        (* DROP *)
  | x76 => on_stack s (fun st => match st with a :: r => COk (a :: a :: r) | _ => CErr ISO end)            (* DUP *)
  | x77 => on_stack s (fun st => match st with b :: _ :: r => COk (b :: r) | _ => CErr ISO end)            (* NIP *)
  | x78 => on_stack s (fun st => match st with b :: a :: r => COk (a :: b :: a :: r) | _ => CErr ISO end)  (* OVER *)
  | x79 => on_stack s (op_pick_roll mn false)                                                              (* PICK *)
  | x7a => on_stack s (op_pick_roll mn true)                                                               (* ROLL *)
  | x7b => on_stack s (fun st => match st with c :: b :: a :: r => COk (a :: c :: b :: r) | _ => CErr ISO end)  (* ROT *)
  | x7c => on_stack s (fun st => match st with b :: a :: r => COk (a :: b :: r) | _ => CErr ISO end)       (* SWAP *)
  | x7d => on_stack s (fun st => match st with b :: a :: r => COk (b :: a :: b :: r) | _ => CErr ISO end)  (* TUCK *)
  | x82 => on_stack s (fun st => match st with
                                 | a :: r => COk (num_vec (Z.of_nat (length a)) :: a :: r)
                                 | _ => CErr ISO end)                                                      (* SIZE *)
  | x87 => on_stack s (fun st => match st with
                                 | b :: a :: r => COk (bool_vec (bytes_eqb a b) :: r)
                                 | _ => CErr ISO end)                                                      (* EQUAL *)
  | x88 => on_stack s (fun st => match st with
                                 | b :: a :: r => if bytes_eqb a b then COk r else CErr SE_EQUALVERIFY
                                 | _ => CErr ISO end)                                                      (* EQUALVERIFY *)
  | x8b => on_stack s (un_num mn (fun n => n + 1)%Z)                                                       (* 1ADD *)
  | x8c => on_stack s (un_num mn (fun n => n - 1)%Z)                                                       (* 1SUB *)
  | x8f => on_stack s (un_num mn (fun n => - n)%Z)                                                         (* NEGATE *)
  | x90 => on_stack s (un_num mn (fun n => if (n <? 0)%Z then (- n)%Z else n))                             (* ABS *)
  | x91 => on_stack s (un_num mn (fun n => zb (n =? 0)%Z))                                                 (* NOT *)
  | x92 => on_stack s (un_num mn (fun n => zb (znz n)))                                                    (* 0NOTEQUAL *)
  | x93 => on_stack s (bin_num mn Z.add)                                                                   (* ADD *)
  | x94 => on_stack s (bin_num mn Z.sub)                                                                   (* SUB *)
  | x9a => on_stack s (bin_num mn (fun a b => zb (znz a && znz b)))                                        (* BOOLAND *)
  | x9b => on_stack s (bin_num mn (fun a b => zb (znz a || znz b)))                                        (* BOOLOR *)
  | x9c => on_stack s (bin_num mn (fun a b => zb (a =? b)%Z))                                              (* NUMEQUAL *)
  | x9d => on_stack s (fun st => cdo st' <- bin_num mn (fun a b => zb (a =? b)%Z) st;                      (* NUMEQUALVERIFY *)
                                 match st' with
                                 | v :: r => if cast_to_bool v then COk r else CErr SE_NUMEQUALVERIFY
                                 | [] => CErr ISO
                                 end)
  | x9e => on_stack s (bin_num mn (fun a b => zb (negb (a =? b)%Z)))                                       (* NUMNOTEQUAL *)
  | x9f => on_stack s (bin_num mn (fun a b => zb (a <? b)%Z))                                              (* LESSTHAN *)
  | xa0 => on_stack s (bin_num mn (fun a b => zb (b <? a)%Z))                                              (* GREATERTHAN *)
  | xa1 => on_stack s (bin_num mn (fun a b => zb (a <=? b)%Z))                                             (* LESSTHANOREQUAL *)
  | xa2 => on_stack s (bin_num mn (fun a b => zb (b <=? a)%Z))                                             (* GREATERTHANOREQUAL *)
  | xa3 => on_stack s (bin_num mn (fun a b => if (a <? b)%Z then a else b))                                (* MIN *)
  | xa4 => on_stack s (bin_num mn (fun a b => if (b <? a)%Z then a else b))                                (* MAX *)
  | xa5 => on_stack s (fun st => match st with                                                             (* WITHIN *)
                                 | c :: b :: a :: r =>
                                   cdo n1 <- script_num mn 4 a; cdo n2 <- script_num mn 4 b; cdo n3 <- script_num mn 4 c;
                                   COk (bool_vec ((n2 <=? n1)%Z && (n1 <? n3)%Z) :: r)
                                 | _ => CErr ISO end)
  | xa6 => on_stack s (hash_op (o_ripemd160 o))                                                            (* RIPEMD160 *)
  | xa7 => on_stack s (hash_op (o_sha1 o))                                                                 (* SHA1 *)
  | xa8 => on_stack s (hash_op (o_sha256 o))                                                               (* SHA256 *)
  | xa9 => on_stack s (hash_op (o_hash160 o))                                                              (* HASH160 *)
  | xaa => on_stack s (hash_op (o_hash256 o))                                                              (* HASH256 *)
  | xab => COk (set_bch s rest)                                                                            (* CODESEPARATOR *)
  | xac => op_checksig o flags sv false s                                                                  (* CHECKSIG *)
  | xad => op_checksig o flags sv true s                                                                   (* CHECKSIGVERIFY *)
  | xae => op_checkmultisig o flags sv mn false s                                                          (* CHECKMULTISIG *)
  | xaf => op_checkmultisig o flags sv mn true s                                                           (* CHECKMULTISIGVERIFY *)
  (* default: OP_RESERVED, OP_VER, OP_VERIF, OP_VERNOTIF, OP_RESERVED1/2, 0xba..0xff, and the disabled
     opcodes (never reached: rejected before the switch) *)
  | _ => CErr SE_BAD_OPCODE
  end.

(* the body of the `while (pc < pend)` loop for one decoded instruction *)
Definition step (o : oracles) (flags : N) (sv : sigversion) (ctx : txctx)
           (op : byte) (data rest : bytes) (s : est) : cres est :=
  let fExec := forallb (fun b => b) (e_vf s) in                       (* !count(vfExec, false) *)
  let opn := b2n op in
  if MAX_SCRIPT_ELEMENT_SIZE <? len data then CErr SE_PUSH_SIZE else
  (* Note how OP_RESERVED does not count towards the opcode limit. *)
  let opc := if 96 <? opn then e_opc s + 1 else e_opc s in
  if (96 <? opn) && (MAX_OPS_PER_SCRIPT <? opc) then CErr SE_OP_COUNT else
  if is_disabled op then CErr SE_DISABLED_OPCODE else
  let s := set_opc s opc in
  cdo s' <-
    (if fExec && (opn <=? 78) then
       if flag_set flags VERIFY_MINIMALDATA && negb (check_minimal_push data opn) then CErr SE_MINIMALDATA
       else COk (set_stack s (data :: e_stack s))
     else if fExec || ((99 <=? opn) && (opn <=? 104)) then exec_op o flags sv ctx op rest fExec s
     else COk s);
  if MAX_STACK_ITEMS <? depth (e_stack s') + depth (e_alt s') then CErr SE_STACK_SIZE else COk s'.

Fixpoint eval_loop (o : oracles) (flags : N) (sv : sigversion) (ctx : txctx)
         (fuel : nat) (rest : bytes) (s : est) : cres est :=
  match rest with
  | [] => COk s
  | _ :: _ =>
    match fuel with
    | O => CFuel
    | S f =>
      match get_op rest with
      | None => CErr SE_BAD_OPCODE
      | Some (op, data, rest') =>
        cdo s' <- step o flags sv ctx op data rest' s;
        eval_loop o flags sv ctx f rest' s'
      end
    end
  end.

(* EvalScript on internal stacks (head = top) with the error class *)
Definition eval_script_e (o : oracles) (flags : N) (sv : sigversion) (ctx : txctx)
           (script : bytes) (st : list bytes) : cres (list bytes) :=
  if MAX_SCRIPT_SIZE <? len script then CErr SE_SCRIPT_SIZE else
  cdo s <- eval_loop o flags sv ctx (length script) script
             {| e_stack := st; e_alt := []; e_vf := []; e_opc := 0; e_bch := script |};
  match e_vf s with
  | [] => COk (e_stack s)
  | _ => CErr SE_UNBALANCED_CONDITIONAL
  end.

Definition to_vres {A} (r : cres A) : vres A :=
  match r with COk a => VOk a | CErr _ => VFail | CFuel => VOutOfFuel end.

(* public: stacks with the top LAST *)
Definition EvalScriptE (o : oracles) (flags : N) (sv : sigversion) (ctx : txctx)
           (script : bytes) (st : stack) : cres stack :=
  cdo r <- eval_script_e o flags sv ctx script (rev st); COk (rev r).
Definition EvalScript (o : oracles) (flags : N) (sv : sigversion) (ctx : txctx)
           (script : bytes) (st : stack) : vres stack :=
  to_vres (EvalScriptE o flags sv ctx script st).

(* ---------------------------------------------------------------------------------------------- *)
(* CScript::IsPushOnly, IsPayToScriptHash, IsWitnessProgram *)
Fixpoint is_push_only_f (fuel : nat) (s : bytes) : bool :=
  match s with
  | [] => true
  | _ :: _ =>
    match fuel with
    | O => false
    | S f => match get_op s with
             | None => false
             | Some (op, _, rest) => if 96 <? b2n op then false else is_push_only_f f rest
             end
    end
  end.
Definition is_push_only (s : bytes) : bool := is_push_only_f (length s) s.

Definition is_pay_to_script_hash (s : bytes) : bool :=
  (len s =? 23) && (at_ s 0 =? 169) && (at_ s 1 =? 20) && (at_ s 22 =? 135).

(* Some (version, program) *)
Definition is_witness_program (s : bytes) : option (N * bytes) :=
  if (len s <? 4) || (42 <? len s) then None else
  let o0 := at_ s 0 in
  if negb (o0 =? 0) && ((o0 <? 81) || (96 <? o0)) then None else
  if at_ s 1 + 2 =? len s then Some ((if o0 =? 0 then 0 else o0 - 80), skipn 2 s) else None.

Definition top_true (st : list bytes) : cres unit :=
  match st with
  | [] => CErr SE_EVAL_FALSE
  | a :: _ => if cast_to_bool a then COk tt else CErr SE_EVAL_FALSE
  end.

(* VerifyWitnessProgram; witness stack given with head = top (= witness.stack.back()) *)
Definition verify_witness_program (o : oracles) (flags : N) (ctx : txctx)
           (wit : list bytes) (version : N) (program : bytes) : cres unit :=
  if version =? 0 then
    cdo ss <-
      (if len program =? 32 then
         match wit with
         | [] => CErr SE_WITNESS_PROGRAM_WITNESS_EMPTY
         | script :: st =>
           if bytes_eqb (o_sha256 o script) program then COk (script, st)
           else CErr SE_WITNESS_PROGRAM_MISMATCH
         end
       else if len program =? 20 then
         match wit with
         | [_; _] => COk ([x76; xa9; x14] ++ program ++ [x88; xac], wit)   (* DUP HASH160 <program> EQUALVERIFY CHECKSIG *)
         | _ => CErr SE_WITNESS_PROGRAM_MISMATCH
         end
       else CErr SE_WITNESS_PROGRAM_WRONG_LENGTH);
    let script := fst ss in let st := snd ss in
    (* Disallow stack item size > MAX_SCRIPT_ELEMENT_SIZE in witness stack (the script is not on it) *)
    if existsb (fun it => MAX_SCRIPT_ELEMENT_SIZE <? len it) st then CErr SE_PUSH_SIZE else
    cdo r <- eval_script_e o flags SV_WITNESS_V0 ctx script st;
    (* Scripts inside witness implicitly require cleanstack behaviour *)
    match r with
    | [a] => if cast_to_bool a then COk tt else CErr SE_EVAL_FALSE
    | _ => CErr SE_EVAL_FALSE
    end
  else if flag_set flags VERIFY_DISCOURAGE_UPGRADABLE_WITNESS_PROGRAM then
    CErr SE_DISCOURAGE_UPGRADABLE_WITNESS_PROGRAM
  else COk tt.                     (* Higher version witness scripts return true for future softfork compatibility *)

Definition resize1 (st : list bytes) : list bytes := match st with a :: _ => [a] | [] => [] end.

(* VerifyScript.  Core asserts P2SH (and WITNESS) when CLEANSTACK is set and P2SH when WITNESS is set;
   flag words violating that are outside the property's quantifier (the asserts are not modelled). *)
Definition VerifyScriptE (o : oracles) (sp : spend) : cres unit :=
  let flags := sp_flags sp in
  let ctx := sp_ctx sp in
  let script_sig := sp_script_sig sp in
  let script_pubkey := sp_script_pubkey sp in
  let wit := rev (sp_witness sp) in
  let f_witness := flag_set flags VERIFY_WITNESS in
  let f_p2sh := flag_set flags VERIFY_P2SH in
  if flag_set flags VERIFY_SIGPUSHONLY && negb (is_push_only script_sig) then CErr SE_SIG_PUSHONLY else
  cdo stack_copy <- eval_script_e o flags SV_BASE ctx script_sig [];
  cdo stack <- eval_script_e o flags SV_BASE ctx script_pubkey stack_copy;
  cdo _ <- top_true stack;
  (* Bare witness programs *)
  cdo r1 <-
    (match (if f_witness then is_witness_program script_pubkey else None) with
     | Some (ver, prog) =>
       if negb (len script_sig =? 0) then CErr SE_WITNESS_MALLEATED else
       cdo _ <- verify_witness_program o flags ctx wit ver prog;
       COk (resize1 stack, true)
     | None => COk (stack, false)
     end);
  let stack := fst r1 in let had_witness := snd r1 in
  (* Additional validation for spend-to-script-hash transactions *)
  cdo r2 <-
    (if f_p2sh && is_pay_to_script_hash script_pubkey then
       if negb (is_push_only script_sig) then CErr SE_SIG_PUSHONLY else
       match stack_copy with
       | [] => CErr SE_EVAL_FALSE            (* unreachable: Core asserts !stack.empty() *)
       | pubkey2 :: st =>
         cdo stack2 <- eval_script_e o flags SV_BASE ctx pubkey2 st;
         cdo _ <- top_true stack2;
         match (if f_witness then is_witness_program pubkey2 else None) with
         | Some (ver, prog) =>
           (* The scriptSig must be _exactly_ a single push of the redeemScript *)
           if negb (bytes_eqb script_sig (push_encode pubkey2)) then CErr SE_WITNESS_MALLEATED_P2SH else
           cdo _ <- verify_witness_program o flags ctx wit ver prog;
           COk (resize1 stack2, true)
         | None => COk (stack2, had_witness)
         end
       end
     else COk (stack, had_witness));
  let stack := fst r2 in let had_witness := snd r2 in
  if flag_set flags VERIFY_CLEANSTACK && negb (length stack =? 1)%nat then CErr SE_CLEANSTACK else
  if f_witness && negb had_witness && negb (length wit =? 0)%nat then CErr SE_WITNESS_UNEXPECTED else
  COk tt.

Definition VerifyScript (o : oracles) (sp : spend) : vres unit := to_vres (VerifyScriptE o sp).

(* flag words Core permits (its asserts): WITNESS => P2SH, CLEANSTACK => P2SH /\ WITNESS *)
Definition flags_permitted (flags : N) : bool :=
  (negb (flag_set flags VERIFY_WITNESS) || flag_set flags VERIFY_P2SH)
  && (negb (flag_set flags VERIFY_CLEANSTACK) || (flag_set flags VERIFY_P2SH && flag_set flags VERIFY_WITNESS)).

(* ---------------------------------------------------------------------------------------------- *)
(* termination: GetOp consumes at least the opcode byte, so fuel = |script| is never exhausted *)
Lemma take_n_length n s d r : take_n n s = Some (d, r) -> (length r <= length s)%nat.
Proof.
  unfold take_n. destruct (len s <? n); [discriminate|].
  intros H. injection H as _ <-. rewrite skipn_length. lia.
Qed.

Lemma get_op_shrinks s op d r : get_op s = Some (op, d, r) -> (length r < length s)%nat.
Proof.
  destruct s as [|b t]; cbn [get_op]; [discriminate|].
  destruct (78 <? b2n b).
  { intros H; injection H as _ _ <-. cbn. lia. }
  destruct (b2n b <? 76).
  { destruct (take_n (b2n b) t) as [[d' r']|] eqn:E; [|discriminate].
    intros H; injection H as _ _ <-. apply take_n_length in E. cbn. lia. }
  set (w := if b2n b =? 76 then 1%nat else if b2n b =? 77 then 2%nat else 4%nat).
  destruct (length t <? w)%nat; [discriminate|].
  destruct (take_n (le_decode (firstn w t)) (skipn w t)) as [[d' r']|] eqn:E; [|discriminate].
  intros H; injection H as _ _ <-. apply take_n_length in E. rewrite skipn_length in E. cbn. lia.
Qed.


(* no function of this file ever answers CFuel (hence EvalScript / VerifyScript never answer
   VOutOfFuel, and by construction never VCrash) *)
Definition nf {A} (r : cres A) : Prop := r <> CFuel.
Lemma nf_ok {A} (a : A) : nf (COk a). Proof. discriminate. Qed.
Lemma nf_err {A} e : nf (@CErr A e). Proof. discriminate. Qed.
Lemma nf_bind {A B} (m : cres A) (f : A -> cres B) : nf m -> (forall a, nf (f a)) -> nf (cbind m f).
Proof. destruct m; cbn; intros H1 H2; [apply H2 | discriminate | exfalso; apply H1; reflexivity]. Qed.

Ltac nf_step :=
  match goal with
  | |- nf (COk _) => apply nf_ok
  | |- nf (CErr _) => apply nf_err
  | H : nf ?x |- nf ?x => exact H
  | |- nf (cbind _ _) => apply nf_bind; [|intros]
  | |- nf (if ?c then _ else _) => destruct c
  | |- nf (match ?x with _ => _ end) => destruct x
  end.
Ltac nf_tac := cbv zeta; repeat (nf_step; cbv zeta).

Lemma nf_script_num mn sz v : nf (script_num mn sz v).
Proof. unfold script_num. nf_tac. Qed.
Lemma nf_check_sig_enc order flags sig : nf (check_signature_encoding order flags sig).
Proof. unfold check_signature_encoding. nf_tac. Qed.
Lemma nf_check_pk_enc flags sv k : nf (check_pubkey_encoding flags sv k).
Proof. unfold check_pubkey_encoding. nf_tac. Qed.
Global Hint Resolve nf_script_num nf_check_sig_enc nf_check_pk_enc : nfdb.
Ltac nf_auto := cbv zeta; repeat (first [nf_step | solve [auto with nfdb]]; cbv zeta).

Lemma nf_on_stack s f : (forall st, nf (f st)) -> nf (on_stack s f).
Proof. intros H. unfold on_stack. nf_auto. Qed.
Lemma nf_un_num mn f st : nf (un_num mn f st).
Proof. unfold un_num. nf_auto. Qed.
Lemma nf_bin_num mn f st : nf (bin_num mn f st).
Proof. unfold bin_num. nf_auto. Qed.
Lemma nf_hash_op h st : nf (hash_op h st).
Proof. unfold hash_op. nf_auto. Qed.
Lemma nf_pick_roll mn roll st : nf (op_pick_roll mn roll st).
Proof. unfold op_pick_roll. nf_auto. Qed.
Lemma nf_checksig o flags sv v s : nf (op_checksig o flags sv v s).
Proof. unfold op_checksig. nf_auto. Qed.
Lemma nf_cms_loop o flags sv code keys : forall sigs, nf (cms_loop o flags sv code sigs keys).
Proof.
  induction keys as [|k keys IH]; intros sigs; destruct sigs as [|sg sigs]; cbn [cms_loop]; nf_auto; apply IH.
Qed.
Global Hint Resolve nf_un_num nf_bin_num nf_hash_op nf_pick_roll nf_checksig nf_cms_loop : nfdb.
Lemma nf_checkmultisig o flags sv mn v s : nf (op_checkmultisig o flags sv mn v s).
Proof. unfold op_checkmultisig. nf_auto. Qed.
Lemma nf_nop_upgradable flags s : nf (op_nop_upgradable flags s).
Proof. unfold op_nop_upgradable. nf_auto. Qed.
Global Hint Resolve nf_checkmultisig nf_nop_upgradable : nfdb.
Lemma nf_cltv flags mn ctx s : nf (op_cltv flags mn ctx s).
Proof. unfold op_cltv. nf_auto. Qed.
Lemma nf_csv flags mn ctx s : nf (op_csv flags mn ctx s).
Proof. unfold op_csv. nf_auto. Qed.
Lemma nf_if flags sv notif fx s : nf (op_if flags sv notif fx s).
Proof. unfold op_if. nf_auto. Qed.
Global Hint Resolve nf_cltv nf_csv nf_if : nfdb.

Lemma nf_exec_op o flags sv ctx op rest fx s : nf (exec_op o flags sv ctx op rest fx s).
Proof.
  unfold exec_op. cbv zeta.
  destruct op; try apply nf_ok; try apply nf_err; auto with nfdb;
    try (apply nf_on_stack; intros st; auto with nfdb; nf_auto).
  all: nf_auto.
Qed.
Global Hint Resolve nf_exec_op : nfdb.

Lemma nf_step_ o flags sv ctx op data rest s : nf (step o flags sv ctx op data rest s).
Proof. unfold step. nf_auto. Qed.

Lemma eval_loop_fuel_ok o flags sv ctx fuel : forall rest s,
  (length rest <= fuel)%nat -> nf (eval_loop o flags sv ctx fuel rest s).
Proof.
  induction fuel as [|f IH]; intros rest s Hl.
  - destruct rest; cbn in *; [apply nf_ok | lia].
  - destruct rest as [|b t]; [apply nf_ok|].
    cbn [eval_loop].
    destruct (get_op (b :: t)) as [[[op d] r]|] eqn:E; [|apply nf_err].
    apply get_op_shrinks in E.
    apply nf_bind; [apply nf_step_|]. intros s'. apply IH. cbn in *. lia.
Qed.

Lemma nf_eval_script_e o flags sv ctx script st : nf (eval_script_e o flags sv ctx script st).
Proof.
  unfold eval_script_e. destruct (MAX_SCRIPT_SIZE <? len script); [apply nf_err|].
  apply nf_bind; [apply eval_loop_fuel_ok; lia|]. intros s. nf_auto.
Qed.
Global Hint Resolve nf_eval_script_e : nfdb.

Lemma nf_verify_witness_program o flags ctx wit ver prog : nf (verify_witness_program o flags ctx wit ver prog).
Proof. unfold verify_witness_program. nf_auto. Qed.
Global Hint Resolve nf_verify_witness_program : nfdb.

Lemma nf_top_true st : nf (top_true st).
Proof. unfold top_true. nf_auto. Qed.
Global Hint Resolve nf_top_true : nfdb.

Lemma nf_VerifyScriptE o sp : nf (VerifyScriptE o sp).
Proof. unfold VerifyScriptE. nf_auto. Qed.

(* the public statements *)
Definition vres_clean {A} (r : vres A) : Prop :=
  match r with VOk _ | VFail => True | VCrash _ | VOutOfFuel => False end.

Theorem C03spec_eval_terminates : forall o flags sv ctx script st,
  vres_clean (EvalScript o flags sv ctx script st).
Proof.
  intros. unfold EvalScript, EvalScriptE.
  pose proof (nf_eval_script_e o flags sv ctx script (rev st)) as H.
  destruct (eval_script_e o flags sv ctx script (rev st)); cbn; auto.
Qed.

Theorem C03spec_verify_terminates : forall o sp, vres_clean (VerifyScript o sp).
Proof.
  intros. unfold VerifyScript. pose proof (nf_VerifyScriptE o sp) as H.
  destruct (VerifyScriptE o sp); cbn; auto.
Qed.
