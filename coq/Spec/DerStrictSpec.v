(* Spec/DerStrictSpec.v — the consensus "strict DER" shape rules of BIP66
   (Bitcoin Core src/script/interpreter.cpp, IsValidSignatureEncoding), transcribed check by check.
   `sig` INCLUDES the trailing sighash-type byte, exactly as in Core.  Independent of pycoin. *)
From PV Require Import Base.Bytes.
Local Open Scope N_scope.

Definition at_ (sig : bytes) (i : N) : N := b2n (nth (N.to_nat i) sig x00).

Definition bip66_valid (sig : bytes) : bool :=
  let size := N.of_nat (length sig) in
  (* Minimum and maximum size constraints. *)
  if size <? 9 then false else
  if 73 <? size then false else
  (* A signature is of type 0x30 (compound). *)
  if negb (at_ sig 0 =? 48) then false else
  (* Make sure the length covers the entire signature. *)
  if negb (at_ sig 1 =? size - 3) then false else
  (* Extract the length of the R element. *)
  let lenR := at_ sig 3 in
  (* Make sure the length of the S element is still inside the signature. *)
  if size <=? 5 + lenR then false else
  (* Extract the length of the S element. *)
  let lenS := at_ sig (5 + lenR) in
  (* Verify that the length of the signature matches the sum of the length of the elements. *)
  if negb (lenR + lenS + 7 =? size) then false else
  (* Check whether the R element is an integer. *)
  if negb (at_ sig 2 =? 2) then false else
  (* Zero-length integers are not allowed for R. *)
  if lenR =? 0 then false else
  (* Negative numbers are not allowed for R. *)
  if negb (N.land (at_ sig 4) 128 =? 0) then false else
  (* Null bytes at the start of R are not allowed, unless R would otherwise be interpreted as negative. *)
  if (1 <? lenR) && (at_ sig 4 =? 0) && (N.land (at_ sig 5) 128 =? 0) then false else
  (* Check whether the S element is an integer. *)
  if negb (at_ sig (lenR + 4) =? 2) then false else
  (* Zero-length integers are not allowed for S. *)
  if lenS =? 0 then false else
  (* Negative numbers are not allowed for S. *)
  if negb (N.land (at_ sig (lenR + 6)) 128 =? 0) then false else
  (* Null bytes at the start of S are not allowed, unless S would otherwise be interpreted as negative. *)
  if (1 <? lenS) && (at_ sig (lenR + 6) =? 0) && (N.land (at_ sig (lenR + 7)) 128 =? 0) then false else
  true.
