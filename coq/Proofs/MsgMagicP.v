(* Proofs/MsgMagicP.v — the magic prefix of every registered network (table regenerated from /repo on every
   run) is what the model computes from the network name; distinct network names give distinct magics. *)
From PV Require Import Base.Bytes Base.Outcome Model.Base64 Model.MsgSign Gen.GenMsgMagic.

Lemma magic_suffix_is_source : magic_suffix = magic_format_suffix.
Proof. vm_compute. reflexivity. Qed.

Definition magic_row_ok (row : String.string * bytes * bytes * bytes) : bool :=
  let '(_, name, _, magic) := row in bytes_eqb (msg_magic name) magic.

Lemma magic_table_ok : forallb magic_row_ok msg_magic_table = true.
Proof. vm_compute. reflexivity. Qed.

Lemma magic_table_spec sym name upper magic :
  In (sym, name, upper, magic) msg_magic_table -> msg_magic name = magic.
Proof.
  intros H. pose proof magic_table_ok as T. rewrite forallb_forall in T. specialize (T _ H).
  cbn in T. now apply bytes_eqb_eq.
Qed.

Lemma msg_magic_inj a b : msg_magic a = msg_magic b -> a = b.
Proof. unfold msg_magic. apply app_inv_tail. Qed.
