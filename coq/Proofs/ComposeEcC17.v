(* Proofs/ComposeEcC17.v — composition C17 x C02: every premise of Props/C17.v (a cyclic group <G> of prime order n
   with points_for_x) proved for the instance of Proofs/ComposeEcInst.v, i.e. for C02's model of pycoin's arithmetic,
   from M1, M4, n*G = O, prime n and decidable side conditions (ec_sideb, p <= 2n, p <= 2^256).
   The abstract `inv_n` of Model/MsgSign.v becomes C02's Curve.inverse_mod (., n); `einv_run` shows that the model's
   `inverse` IS Curve.inverse_mod on every argument (AssertionError for multiples of n included). *)
From Coq Require Import ZArith Lia Znumtheory Bool List.
From PV Require Import Base.Bytes Base.Outcome Model.Curve Model.MsgSign Spec.Weierstrass Spec.EcdsaSpec
  Proofs.CurveInvP Proofs.CurveAddP Proofs.CurveMulP Proofs.CurveP Proofs.ComposeEcInst Proofs.ComposeEcC01.
Local Open Scope Z_scope.

Definition einv (g : gen) (a : Z) : Z := match Curve.inverse_mod a (cn (gc g)) with Ret i => i | _ => 0 end.

Definition msg_sideb (g : gen) : bool := (cp (gc g) <=? 2 * cn (gc g)) && (cp (gc g) <=? 2 ^ 256).

(* coordinates of carrier elements are reduced: no premise at all (it is part of the carrier predicate) *)
Lemma ecoords_range (c : curve) (P : ept c) x y : ecoords P = Some (x, y) -> (0 <= x < cp c) /\ (0 <= y < cp c).
Proof.
  destruct P as [P H]. unfold ecoords, eval. cbn [proj1_sig]. intros E. subst P.
  unfold inb in H. apply andb_prop in H. destruct H as [H _]. apply andb_prop in H. destruct H as [_ H].
  apply reducedb_iff in H. cbn in H. lia.
Qed.

Section ComposedMsg.
Variable g : gen.
Notation c := (gc g).
Hypothesis HM1 : M1 c.
Hypothesis HM4 : M4 c.
Hypothesis HnG : order_kills c (gG g).
Hypothesis HM2 : prime (cn c).
Hypothesis Hside : ec_sideb g = true.

Let laws := c_group_laws g HM1 HM4 HM2 Hside.
Let lifts := c_lift_laws g HM1 HM4 Hside.

Lemma m_n_gt1 : 1 < cn c.
Proof. pose proof (prime_ge_2 _ HM2). lia. Qed.

Lemma gcd_1_of_nz a : a mod cn c <> 0 -> Z.gcd a (cn c) = 1.
Proof.
  intros Hnz. apply Zgcd_1_rel_prime. apply rel_prime_sym. apply prime_rel_prime; [exact HM2|].
  intros D. apply Hnz. apply Z.mod_divide; [pose proof m_n_gt1; lia | exact D].
Qed.

Lemma m_inv_ok a : a mod cn c <> 0 -> (a * einv g a) mod cn c = 1.
Proof.
  intros Hnz. unfold einv.
  destruct (inverse_mod_correct a (cn c) m_n_gt1 (gcd_1_of_nz a Hnz)) as (i & -> & _ & E). exact E.
Qed.

(* Generator.inverse of Model/MsgSign.v, instantiated, is C02's inverse_mod(a, n) *)
Lemma einv_run a : MsgSign.inverse (cn c) (einv g) a = Curve.inverse_mod a (cn c).
Proof.
  unfold MsgSign.inverse. destruct (Z.eqb_spec (a mod cn c) 0) as [E|Hnz].
  - symmetry. apply inverse_mod_not_coprime; [exact m_n_gt1|].
    intros G1. pose proof m_n_gt1 as Hn.
    apply Z.mod_divide in E; [|lia].
    assert (D : (cn c | Z.gcd a (cn c))) by (apply Z.gcd_greatest; [exact E | apply Z.divide_refl]).
    rewrite G1 in D. apply Z.divide_1_r in D. lia.
  - unfold einv.
    destruct (inverse_mod_correct a (cn c) m_n_gt1 (gcd_1_of_nz a Hnz)) as (i & -> & _ & _). reflexivity.
Qed.

Lemma m_smulG_smul a b : esmul c a (esmul c b (eG g)) = esmul c (a * b) (eG g).
Proof. symmetry. apply (gl_smul_mul _ _ _ _ _ _ _ laws). Qed.

Lemma m_smulG_add a b : eadd c (esmul c a (eG g)) (esmul c b (eG g)) = esmul c (a + b) (eG g).
Proof. symmetry. apply (gl_smul_add _ _ _ _ _ _ _ laws). Qed.

Lemma m_smulG_eq a b : esmul c a (eG g) = esmul c b (eG g) <-> a mod cn c = b mod cn c.
Proof. exact (esmulG_eq_iff g HM1 HM4 HnG HM2 Hside a b). Qed.

Lemma m_smulG_inf a : ecoords (esmul c a (eG g)) = None <-> a mod cn c = 0.
Proof.
  unfold ecoords. destruct (c_ops_spec g HM1 HM4 HM2 Hside) as (_ & _ & Hs).
  rewrite Hs, (c_G_val g HM1 HnG Hside). exact (kG_zero_iff g HM1 HM4 HnG HM2 Hside a).
Qed.

Lemma m_coordsG_range a x y : ecoords (esmul c a (eG g)) = Some (x, y) -> 0 <= x < cp c.
Proof. intros E. apply (ecoords_range c _ x y E). Qed.

Lemma m_pfx_complete a x y : ecoords (esmul c a (eG g)) = Some (x, y) ->
  exists P0 P1, elift g x = Some (P0, P1) /\ (if Z.land y 1 =? 0 then P0 else P1) = esmul c a (eG g).
Proof.
  intros E. destruct (ll_complete _ _ _ _ lifts _ x y E) as (P0 & P1 & EL & EP).
  exists P0, P1. split; [exact EL|].
  rewrite land_1, Zmod_odd, EP. destruct (Z.odd y); reflexivity.
Qed.

Lemma m_coordsG_inj a b : ecoords (esmul c a (eG g)) = ecoords (esmul c b (eG g)) ->
  esmul c a (eG g) = esmul c b (eG g).
Proof. apply ept_eq. Qed.

End ComposedMsg.

Lemma secp256k1_msg_side blind : msg_sideb (secp256k1_gen blind) = true.
Proof. vm_compute. reflexivity. Qed.

Lemma toy43_msg_side blind : msg_sideb (toy43_gen blind) = true.
Proof. vm_compute. reflexivity. Qed.

Lemma msg_side_facts g : msg_sideb g = true -> cp (gc g) <= 2 * cn (gc g) /\ cp (gc g) <= 2 ^ 256.
Proof.
  unfold msg_sideb. intros H. apply andb_prop in H. destruct H as [H1 H2].
  apply Z.leb_le in H1, H2. auto.
Qed.
